//! C11 (recursive verification accepts only the canonical child circuit) and C18 (public-batch proofs are bound to the
//! configured aggregator address).
//!
//!  recursion-replay <in> <out>    Recursion.tla cells: outer private-batch circuits built for each child circuit, fed
//!                                 honest proofs of every other child circuit (and tampered ones); plus the public-batch
//!                                 outer over the canonical private batch fed foreign inner proofs
//!  aggregator-replay <in> <out> <scratch>   Aggregator.tla cells on the canonical pipeline (real leaf proof, real private
//!                                 batch, PublicBatchAggregator under two addresses)
use crate::engine::{self, f};
use crate::leaf;
use crate::provers::FakeLeaf;
use anyhow::{anyhow, Result};
use plonky2::field::types::{Field, PrimeField64};
use plonky2::iop::target::Target;
use plonky2::iop::witness::{PartialWitness, WitnessWrite};
use plonky2::plonk::circuit_builder::CircuitBuilder;
use plonky2::plonk::circuit_data::{CircuitConfig, CircuitData};
use plonky2::plonk::proof::ProofWithPublicInputs;
use rand::rngs::StdRng;
use rand::SeedableRng;
use serde_json::{json, Value};
use std::collections::BTreeMap;
use std::fs;
use std::io::Write;
use std::panic::{catch_unwind, AssertUnwindSafe};
use std::path::Path;
use wormhole_aggregator::aggregator::PublicBatchAggregator;
use wormhole_aggregator::private_batch::circuit::circuit_logic::PrivateBatchCircuit;
use wormhole_aggregator::private_batch::prover::PrivateBatchProver;
use wormhole_aggregator::public_batch::circuit::circuit_logic::PublicBatchCircuit;
use wormhole_circuit::block_header::BlockHeader;
use wormhole_circuit::circuit::circuit_logic::CircuitTargets;
use wormhole_circuit::substrate_account::DualExitAccount;
use wormhole_circuit::unspendable_account::UnspendableAccount;
use wormhole_circuit::zk_merkle_proof::ZkMerkleProofData;
use zk_circuits_common::circuit::{wormhole_private_batch_circuit_config, wormhole_public_batch_circuit_config, CircuitFragment, C, D, F};

type Proof = ProofWithPublicInputs<F, C, D>;

struct Child {
    data: CircuitData<F, C, D>,
    /// an honest proof of this circuit (any statement it can prove)
    proof: Proof,
}

fn free_circuit(npis: usize, config: CircuitConfig, range: bool, pad: usize) -> (CircuitData<F, C, D>, Vec<Target>) {
    let mut b = CircuitBuilder::<F, D>::new(config);
    let pis = b.add_virtual_targets(npis);
    if range && npis > 3 {
        b.range_check(pis[1], 32);
        b.range_check(pis[2], 32);
        b.range_check(pis[3], 32);
    }
    let mut acc = b.zero();
    for i in 0..pad {
        // extra gates that change the degree, not the statement
        let c = b.constant(F::from_canonical_u64(i as u64 + 3));
        acc = b.mul_add(acc, c, pis[0]);
    }
    if pad > 0 {
        let t = b.add_virtual_target();
        b.connect(t, acc);
    }
    b.register_public_inputs(&pis);
    (b.build::<C>(), pis)
}

/// a proof of a free circuit carrying exactly the given public inputs (a "twin" of an honest proof: nothing but the
/// binding to the child circuit can tell them apart)
fn prove_free_with(data: &CircuitData<F, C, D>, pis: &[Target], values: &[F]) -> Result<Proof> {
    let mut pw = PartialWitness::new();
    for (t, v) in pis.iter().zip(values.iter()) {
        pw.set_target(*t, *v)?;
    }
    data.prove(pw).map_err(|e| anyhow!("{e}"))
}

fn prove_free(data: &CircuitData<F, C, D>, pis: &[Target], tag: u64) -> Result<Proof> {
    let mut pw = PartialWitness::new();
    for (i, t) in pis.iter().enumerate() {
        // a dummy-looking statement (zero block hash at positions 16..19) so that wrapper constraints are easy to satisfy
        let v = if (16..20).contains(&i) { 0 } else if i == 3 { 25 } else if i == 0 { 0 } else if (4..8).contains(&i) { tag + i as u64 } else { 0 };
        pw.set_target(*t, f(v))?;
    }
    data.prove(pw).map_err(|e| anyhow!("{e}"))
}

fn children() -> Result<BTreeMap<String, Child>> {
    let mut m = BTreeMap::new();
    let std_cfg = CircuitConfig::standard_recursion_config();
    // the canonical leaf circuit and an honest (dummy-sentinel) proof of it
    {
        let lf = leaf::build();
        let mut rng = StdRng::seed_from_u64(11);
        let w = leaf::honest(&mut rng, 0, true);
        let mut pw = PartialWitness::new();
        for (t, v) in lf.inputs(&w) {
            pw.set_target(t, v)?;
        }
        let proof = lf.data.prove(pw).map_err(|e| anyhow!("canonical leaf proof: {e}"))?;
        m.insert("canonical".to_string(), Child { data: lf.data, proof });
    }
    // every same-shape foreign proof carries the canonical proof's public inputs: a wrapper constraint can then never be
    // the reason a foreign proof is rejected (seeded change C11: a slot the verifier loop skips)
    let canon_pis: Vec<F> = m["canonical"].proof.public_inputs.clone();
    for (name, npis, cfg, range, pad) in [
        ("sameshape_unconstrained", 21usize, std_cfg.clone(), false, 0usize),
        ("sameshape_rangeonly", 21, std_cfg.clone(), true, 0),
        ("padded_domain", 21, std_cfg.clone(), true, 600),
        ("other_config", 21, { let mut c = std_cfg.clone(); c.fri_config.cap_height = 3; c }, true, 0),
        ("one_pi", 1, std_cfg.clone(), false, 0),
        ("twenty_pis", 20, std_cfg.clone(), true, 0),
    ] {
        let (data, pis) = free_circuit(npis, cfg, range, pad);
        let proof = if npis == canon_pis.len() { prove_free_with(&data, &pis, &canon_pis)? } else { prove_free(&data, &pis, 50)? };
        m.insert(name.to_string(), Child { data, proof });
    }
    // the repo's own leaf fragments WITHOUT connect_shared_targets (the leaf circuit with its cross-fragment constraints removed)
    {
        let mut b = CircuitBuilder::<F, D>::new(std_cfg.clone());
        let t = CircuitTargets::new(&mut b);
        UnspendableAccount::circuit(&t.unspendable_account, &mut b);
        ZkMerkleProofData::circuit(&t.zk_merkle_proof, &mut b);
        DualExitAccount::circuit(&t.exit_accounts, &mut b);
        BlockHeader::circuit_without_hash_binding(&t.block_header, &mut b);
        let data = b.build::<C>();
        let lf = leaf::Leaf { data, t };
        let mut rng = StdRng::seed_from_u64(11);
        let w = leaf::honest(&mut rng, 0, true);
        let mut pw = PartialWitness::new();
        for (tt, v) in lf.inputs(&w) {
            pw.set_target(tt, v)?;
        }
        let proof = lf.data.prove(pw).map_err(|e| anyhow!("fragments proof: {e}"))?;
        m.insert("fragments_unconnected".to_string(), Child { data: lf.data, proof });
    }
    Ok(m)
}

/// fill one outer slot with a proof and try to prove + verify the outer circuit
fn try_outer(outer: &CircuitData<F, C, D>, slot: &plonky2::plonk::proof::ProofWithPublicInputsTarget<D>, extra: &[(Target, F)], proof: &Proof) -> Value {
    try_outer_multi(outer, &[(slot, proof)], extra)
}

/// fill several outer slots and try to prove + verify the outer circuit
fn try_outer_multi(outer: &CircuitData<F, C, D>, fills: &[(&plonky2::plonk::proof::ProofWithPublicInputsTarget<D>, &Proof)], extra: &[(Target, F)]) -> Value {
    let r = catch_unwind(AssertUnwindSafe(|| -> Value {
        let mut pw = PartialWitness::new();
        for (slot, proof) in fills {
            if let Err(e) = pw.set_proof_with_pis_target(slot, proof) {
                return json!({"accepted": 0, "stage": "fill", "msg": e.to_string().chars().take(60).collect::<String>()});
            }
        }
        for (t, v) in extra {
            if pw.set_target(*t, *v).is_err() {
                return json!({"accepted": 0, "stage": "fill"});
            }
        }
        match outer.prove(pw) {
            Err(e) => json!({"accepted": 0, "stage": "prove", "msg": e.to_string().chars().take(60).collect::<String>()}),
            Ok(p) => match outer.verify(p) {
                Ok(()) => json!({"accepted": 1}),
                Err(_) => json!({"accepted": 0, "stage": "verify"}),
            },
        }
    }));
    r.unwrap_or(json!({"accepted": 0, "stage": "panic"}))
}

pub fn recursion_replay(inp: &str, outp: &str) -> Result<()> {
    engine::silence_panics();
    let cases: Vec<Value> = fs::read_to_string(inp)?.lines().filter(|l| !l.trim().is_empty()).map(|l| serde_json::from_str(l).unwrap()).collect();
    let ch = children()?;
    // outer private-batch circuits: per child circuit it can be built for and per batch size the cases ask for
    type Outer = (CircuitData<F, C, D>, wormhole_aggregator::private_batch::circuit::circuit_logic::PrivateBatchCircuitTargets);
    let mut outers: BTreeMap<(String, usize), Option<Outer>> = BTreeMap::new();
    let mut ctor: BTreeMap<String, String> = BTreeMap::new();
    let mut wanted: std::collections::BTreeSet<(String, usize)> = ch.keys().map(|k| (k.clone(), 1usize)).collect();
    for c in &cases {
        wanted.insert((c["built_for"].as_str().unwrap().to_string(), c["n"].as_u64().unwrap_or(1) as usize));
    }
    for (name, n) in &wanted {
        let c = &ch[name];
        let r = catch_unwind(AssertUnwindSafe(|| PrivateBatchCircuit::new(wormhole_private_batch_circuit_config(), &c.data.common, &c.data.verifier_only, *n)));
        let res = match r {
            Ok(Ok(circ)) => {
                let t = circ.targets();
                outers.insert((name.clone(), *n), Some((circ.build_circuit(), t)));
                "ok"
            }
            Ok(Err(_)) => { outers.insert((name.clone(), *n), None); "err" }
            Err(_) => { outers.insert((name.clone(), *n), None); "panic" }
        };
        if *n == 1 || !ctor.contains_key(name) {
            ctor.insert(name.clone(), res.into());
        }
    }
    use rayon::prelude::*;
    let pool = rayon::ThreadPoolBuilder::new().num_threads(6).build()?;
    let rows: Vec<Value> = pool.install(|| {
        cases
            .par_iter()
            .map(|c| {
                let bf = c["built_for"].as_str().unwrap();
                let by = c["proof_by"].as_str().unwrap();
                let mut row = json!({"case": c, "ctor": ctor[bf]});
                let n = c["n"].as_u64().unwrap_or(1) as usize;
                let slot = c["slot"].as_u64().unwrap_or(1) as usize - 1;
                if let Some(Some((outer, t))) = outers.get(&(bf.to_string(), n)) {
                    let mut proof = ch[by].proof.clone();
                    if c["valid"].as_u64().unwrap() == 0 {
                        let k = proof.public_inputs.len() - 1;
                        proof.public_inputs[k] += F::ONE;
                    }
                    // the examined proof in its slot, a valid proof of the circuit the outer was built for in every other slot;
                    // every slot gets its own dummy replacement preimage
                    let honest = &ch[bf].proof;
                    let fills: Vec<(&plonky2::plonk::proof::ProofWithPublicInputsTarget<D>, &Proof)> =
                        (0..n).map(|j| (&t.leaf_proofs[j], if j == slot { &proof } else { honest })).collect();
                    let extra: Vec<(Target, F)> = (0..n).flat_map(|j| t.dummy_nullifier_pre_images[j].iter().map(move |x| (*x, f(j as u64 + 1)))).collect();
                    row["outer"] = try_outer_multi(outer, &fills, &extra);
                }
                row
            })
            .collect()
    });
    // public-batch outer over the canonical private batch (over the canonical leaf, one leaf): foreign inner proofs
    let pub_rows = catch_unwind(AssertUnwindSafe(|| -> Result<Vec<Value>> {
        let canon = &ch["canonical"];
        let (pb_canon, pbt) = match outers.get(&("canonical".to_string(), 1)) { Some(Some(x)) => (&x.0, &x.1), _ => return Ok(vec![json!({"public": "no canonical private batch"})]) };
        let pubc = PublicBatchCircuit::new(wormhole_public_batch_circuit_config(), pb_canon.common.clone(), &pb_canon.verifier_only, 1, 1)?;
        let pt = pubc.targets();
        let pubd = pubc.build_circuit();
        let addr: Vec<(Target, F)> = pt.aggregator_address.iter().map(|x| (*x, F::TWO)).collect();
        let mut out = vec![];
        // honest inner: the canonical private batch over the canonical leaf's dummy proof
        let mk_inner = |outer: &CircuitData<F, C, D>, t: &wormhole_aggregator::private_batch::circuit::circuit_logic::PrivateBatchCircuitTargets, leafp: &Proof| -> Result<Proof> {
            let mut pw = PartialWitness::new();
            pw.set_proof_with_pis_target(&t.leaf_proofs[0], leafp)?;
            for x in t.dummy_nullifier_pre_images[0].iter() { pw.set_target(*x, F::ONE)?; }
            outer.prove(pw).map_err(|e| anyhow!("{e}"))
        };
        let honest_inner = mk_inner(pb_canon, pbt, &canon.proof)?;
        out.push(json!({"public": "canonical inner", "expect": 1, "outer": try_outer(&pubd, &pt.private_batch_proofs[0], &addr, &honest_inner)}));
        // foreign inner 1: the private-batch circuit built over the range-only stand-in leaf (same shape: 29 public inputs)
        if let Some(Some((pb_fake, tf))) = outers.get(&("sameshape_rangeonly".to_string(), 1)) {
            let inner = mk_inner(pb_fake, tf, &ch["sameshape_rangeonly"].proof)?;
            out.push(json!({"public": "private batch over a foreign leaf", "expect": 0, "outer": try_outer(&pubd, &pt.private_batch_proofs[0], &addr, &inner)}));
        }
        // foreign inner 2: an unconstrained circuit with 29 public inputs
        let (d29, p29) = free_circuit(29, CircuitConfig::standard_recursion_config(), false, 0);
        let pr = prove_free(&d29, &p29, 7)?;
        out.push(json!({"public": "unconstrained 29-input circuit", "expect": 0, "outer": try_outer(&pubd, &pt.private_batch_proofs[0], &addr, &pr)}));
        // two inner slots: a foreign inner proof in either slot, the canonical inner in the other
        {
            let pubc2 = PublicBatchCircuit::new(wormhole_public_batch_circuit_config(), pb_canon.common.clone(), &pb_canon.verifier_only, 2, 1)?;
            let pt2 = pubc2.targets();
            let pubd2 = pubc2.build_circuit();
            let addr2: Vec<(Target, F)> = pt2.aggregator_address.iter().map(|x| (*x, F::TWO)).collect();
            out.push(json!({"public": "two slots, canonical inner in both", "expect": 1,
                            "outer": try_outer_multi(&pubd2, &[(&pt2.private_batch_proofs[0], &honest_inner), (&pt2.private_batch_proofs[1], &honest_inner)], &addr2)}));
            // near miss: the foreign proof carries exactly the canonical inner's public inputs, so nothing but the binding to
            // the child circuit can reject it
            let twin = {
                let mut pw = PartialWitness::new();
                for (t, v) in p29.iter().zip(honest_inner.public_inputs.iter()) {
                    pw.set_target(*t, *v)?;
                }
                d29.prove(pw).map_err(|e| anyhow!("{e}"))?
            };
            for s in 0..2 {
                let fills = if s == 0 { [(&pt2.private_batch_proofs[0], &twin), (&pt2.private_batch_proofs[1], &honest_inner)] }
                            else { [(&pt2.private_batch_proofs[0], &honest_inner), (&pt2.private_batch_proofs[1], &twin)] };
                out.push(json!({"public": format!("two slots, an unconstrained circuit's proof with the canonical inner's public inputs in slot {}", s + 1), "expect": 0,
                                "outer": try_outer_multi(&pubd2, &fills, &addr2)}));
            }
        }
        // constructor: an inner circuit whose public-input count is not 21N+8
        let bad = catch_unwind(AssertUnwindSafe(|| PublicBatchCircuit::new(wormhole_public_batch_circuit_config(), canon.data.common.clone(), &canon.data.verifier_only, 1, 1).is_ok()));
        out.push(json!({"public": "ctor over a 21-input inner", "expect_ctor": "err", "ctor": match bad { Ok(true) => "ok", Ok(false) => "err", Err(_) => "panic" }}));
        Ok(out)
    }));
    let mut fo = fs::File::create(outp)?;
    for r in rows {
        writeln!(fo, "{}", r)?;
    }
    match pub_rows {
        Ok(Ok(v)) => for r in v { writeln!(fo, "{}", r)?; },
        Ok(Err(e)) => writeln!(fo, "{}", json!({"tool_error": e.to_string()}))?,
        Err(_) => writeln!(fo, "{}", json!({"public": "panic"}))?,
    }
    Ok(())
}

// ---------------------------------------------------------------- C18

fn addr_bytes(tag: &str) -> [u8; 32] {
    match tag {
        "Z" => [0u8; 32],
        "A" => core::array::from_fn(|i| (i as u8).wrapping_mul(7).wrapping_add(1) & 0x7f),
        _ => { let mut a: [u8; 32] = core::array::from_fn(|i| (i as u8).wrapping_mul(7).wrapping_add(1) & 0x7f); a[17] ^= 1; a }
    }
}

pub fn aggregator_replay(inp: &str, outp: &str, scratch: &str) -> Result<()> {
    engine::silence_panics();
    let cases: Vec<Value> = fs::read_to_string(inp)?.lines().filter(|l| !l.trim().is_empty()).map(|l| serde_json::from_str(l).unwrap()).collect();
    let bins = Path::new(scratch).join("bins");
    let _ = fs::remove_dir_all(&bins);
    fs::create_dir_all(scratch)?;
    circuit_builder::generate_all_circuit_binaries(&bins, true, 1, Some(1)).map_err(|e| anyhow!("artifact generation failed: {e:#}"))?;
    // a real leaf proof of a real (non-dummy) statement, then a real private batch of it
    let leaf_proof = crate::leafapi::honest_leaf_proof(7)?;
    let pb = PrivateBatchProver::new_from_binaries_dir(&bins).map_err(|e| anyhow!("private-batch prover: {e:#}"))?;
    let pb_proof = pb.aggregate(vec![leaf_proof]).map_err(|e| anyhow!("private batch: {e:#}"))?;
    let mut aggs: BTreeMap<String, PublicBatchAggregator> = BTreeMap::new();
    let mut proofs: BTreeMap<String, Proof> = BTreeMap::new();
    let mut exposes_ok = BTreeMap::new();
    for tag in ["A", "B", "Z"] {
        let a = PublicBatchAggregator::new(&bins, addr_bytes(tag).try_into().map_err(|_| anyhow!("address not canonical"))?).map_err(|e| anyhow!("aggregator init: {e:#}"))?;
        let p = a.prove_batch(vec![pb_proof.clone()]).map_err(|e| anyhow!("prove_batch under {tag}: {e:#}"))?;
        // the returned proof exposes the configured address as its first four public inputs
        let want: Vec<u64> = (0..4).map(|i| u64::from_le_bytes(addr_bytes(tag)[8 * i..8 * i + 8].try_into().unwrap())).collect();
        let got: Vec<u64> = p.public_inputs[..4].iter().map(|x| x.to_canonical_u64()).collect();
        exposes_ok.insert(tag.to_string(), got == want);
        proofs.insert(tag.to_string(), p);
        aggs.insert(tag.to_string(), a);
    }
    let mut fo = fs::File::create(outp)?;
    writeln!(fo, "{}", json!({"returned_proofs_expose_configured_address": exposes_ok}))?;
    for c in &cases {
        let cfg = c["cfg"].as_str().unwrap();
        let proved = c["proved"].as_str().unwrap();
        let exposes = c["exposes"].as_str().unwrap();
        let mut p = proofs[proved].clone();
        if exposes != proved {
            // overwrite the exposed address felts with another address
            for i in 0..4 {
                p.public_inputs[i] = f(u64::from_le_bytes(addr_bytes(exposes)[8 * i..8 * i + 8].try_into().unwrap()));
            }
        }
        if c["tampered"].as_u64().unwrap() == 1 {
            let k = p.public_inputs.len() - 1;
            p.public_inputs[k] += F::ONE;
        }
        match c["len"].as_str().unwrap() {
            "short" => { p.public_inputs.pop(); }
            "long" => p.public_inputs.push(F::ZERO),
            _ => {}
        }
        let r = catch_unwind(AssertUnwindSafe(|| aggs[cfg].verify(p).is_ok()));
        writeln!(fo, "{}", json!({"case": c, "verdict": match r { Ok(true) => "accepted", Ok(false) => "rejected", Err(_) => "panic" }}))?;
    }
    let _ = fs::remove_dir_all(&bins);
    Ok(())
}
