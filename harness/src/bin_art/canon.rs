//! The canonical artifacts of one run: a bins directory produced ONCE by the repo's own
//! `generate_all_circuit_binaries(dir, true, 1, Some(1))`, and the harness' own fresh rebuild of the three
//! circuits straight from the circuit constructors (the reference "canonical for the configured shape" is
//! the rebuild, not what a loader says).
use anyhow::{anyhow, bail, Result};
use plonky2::plonk::circuit_data::{CircuitConfig, VerifierCircuitData};
use plonky2::util::serialization::DefaultGateSerializer;
use std::collections::BTreeMap;
use std::fs;
use std::path::{Path, PathBuf};
use wormhole_aggregator::private_batch::circuit::circuit_logic::PrivateBatchCircuit;
use wormhole_aggregator::public_batch::circuit::circuit_logic::PublicBatchCircuit;
use wormhole_circuit::circuit::circuit_logic::WormholeCircuit;
use zk_circuits_common::circuit::{
    wormhole_leaf_circuit_config, wormhole_private_batch_circuit_config, wormhole_public_batch_circuit_config, C, D, F,
};

pub type VData = VerifierCircuitData<F, C, D>;

pub const FILES: [&str; 9] = [
    "common.bin",
    "verifier.bin",
    "dummy_proof.bin",
    "private_batch_common.bin",
    "private_batch_verifier.bin",
    "dummy_private_batch_proof.bin",
    "public_batch_common.bin",
    "public_batch_verifier.bin",
    "config.json",
];

/// slot name (as in Loaders.tla) -> file name in a bins directory
pub fn file_of(slot: &str) -> &'static str {
    match slot {
        "leaf_common" => "common.bin",
        "leaf_verifier" => "verifier.bin",
        "leaf_dummy" => "dummy_proof.bin",
        "priv_common" => "private_batch_common.bin",
        "priv_verifier" => "private_batch_verifier.bin",
        "priv_dummy" => "dummy_private_batch_proof.bin",
        "pub_common" => "public_batch_common.bin",
        "pub_verifier" => "public_batch_verifier.bin",
        "config" => "config.json",
        _ => panic!("unknown slot {slot}"),
    }
}

pub fn common_bytes(v: &VData) -> Vec<u8> {
    v.common.to_bytes(&DefaultGateSerializer).expect("serialise common data")
}
pub fn vo_bytes(v: &VData) -> Vec<u8> {
    v.verifier_only.to_bytes().expect("serialise verifier-only data")
}

pub fn build_leaf(cfg: CircuitConfig) -> Result<VData> {
    Ok(WormholeCircuit::new(cfg)?.build_verifier())
}
pub fn build_priv(cfg: CircuitConfig, leaf: &VData, n: usize) -> Result<VData> {
    Ok(PrivateBatchCircuit::new(cfg, &leaf.common, &leaf.verifier_only, n)?.build_verifier())
}
pub fn build_pub(cfg: CircuitConfig, inner: &VData, m: usize, n: usize) -> Result<VData> {
    Ok(PublicBatchCircuit::new(cfg, inner.common.clone(), &inner.verifier_only, m, n)?.build_verifier())
}

pub struct Canon {
    pub dir: PathBuf,
    pub leaf: VData,
    pub priv1: VData,
    pub pub11: VData,
    pub files: BTreeMap<&'static str, Vec<u8>>,
    pub gen_ms: u128,
}

impl Canon {
    /// `root/canon` is generated if it is not there yet (one run = one generation).
    pub fn get(root: &Path) -> Result<Canon> {
        let dir = root.join("canon");
        let mut gen_ms = 0;
        if !dir.join("config.json").exists() {
            let _ = fs::remove_dir_all(&dir);
            fs::create_dir_all(root)?;
            let t = std::time::Instant::now();
            circuit_builder::generate_all_circuit_binaries(&dir, true, 1, Some(1))
                .map_err(|e| anyhow!("generate_all_circuit_binaries(1, Some(1)) failed: {e:#}"))?;
            gen_ms = t.elapsed().as_millis();
        }
        let mut files = BTreeMap::new();
        for f in FILES {
            files.insert(f, fs::read(dir.join(f)).map_err(|e| anyhow!("canonical bins dir lacks {f}: {e}"))?);
        }
        let leaf = build_leaf(wormhole_leaf_circuit_config())?;
        let priv1 = build_priv(wormhole_private_batch_circuit_config(), &leaf, 1)?;
        let pub11 = build_pub(wormhole_public_batch_circuit_config(), &priv1, 1, 1)?;
        let c = Canon { dir, leaf, priv1, pub11, files, gen_ms };
        // the generated directory must be the fresh rebuild, byte for byte (else nothing below means anything)
        for (slot, want) in [
            ("leaf_common", common_bytes(&c.leaf)),
            ("leaf_verifier", vo_bytes(&c.leaf)),
            ("priv_common", common_bytes(&c.priv1)),
            ("priv_verifier", vo_bytes(&c.priv1)),
            ("pub_common", common_bytes(&c.pub11)),
            ("pub_verifier", vo_bytes(&c.pub11)),
        ] {
            if c.files[file_of(slot)] != want {
                bail!("generated {} differs from a fresh rebuild of the canonical circuit (non-deterministic build?)", file_of(slot));
            }
        }
        Ok(c)
    }

    pub fn bytes(&self, slot: &str) -> &Vec<u8> {
        &self.files[file_of(slot)]
    }

    /// A private directory holding copies of the canonical files named in `names`.
    pub fn stage(&self, into: &Path, names: &[&str]) -> Result<()> {
        let _ = fs::remove_dir_all(into);
        fs::create_dir_all(into)?;
        for n in names {
            fs::write(into.join(n), &self.files[n])?;
        }
        Ok(())
    }
}
