//! C17: every cell of Loaders.tla (loader x slot x artifact class, configured shape, extra prover files) realised as
//! concrete byte strings / files / directories and handed to the REAL loader.
//!
//! Artifact classes are derived from the canonical set of this run (`canon.rs`): canonical-for-another-shape and
//! other-config artifacts are built by the circuit constructors, truncations / extensions / bit flips from the
//! canonical bytes (flip position seeded inside its region), over-cap files are SPARSE (`set_len`, nothing written),
//! over-cap slices are zeroed allocations that stay lazily mapped.
//!
//! Observed per cell: Ok / Err / panic; on Ok whether what the loader holds (or wrote) IS the canonical data for the
//! configured shape; bytes requested from the kernel (`rchar`), pages touched, largest allocation; for directories
//! with planted prover artifacts whether their access time moved.  For the semantic (public-batch) pin the harness
//! also reports what Plonky2's deserialiser makes of the concrete bytes (`sem_equal`), which selects the model row.
use crate::canon::{self, common_bytes, file_of, vo_bytes, Canon, VData};
use crate::meter;
use anyhow::{anyhow, bail, Result};
use plonky2::plonk::circuit_data::{CircuitConfig, CommonCircuitData, VerifierOnlyCircuitData};
use plonky2::util::serialization::DefaultGateSerializer;
use qp_wormhole_inputs::BytesDigest;
use rand::rngs::StdRng;
use rand::{Rng, SeedableRng};
use rayon::prelude::*;
use serde_json::{json, Value};
use std::fs;
use std::io::Write;
use std::panic::{catch_unwind, AssertUnwindSafe};
use std::path::{Path, PathBuf};
use std::sync::{Mutex, OnceLock};
use std::time::{Duration, SystemTime};
use wormhole_aggregator::aggregator::PublicBatchAggregator;
use wormhole_aggregator::common::utils::{load_canonical_leaf_verifier_data, load_canonical_private_batch_verifier_data};
use wormhole_aggregator::private_batch::circuit::build::generate_private_batch_circuit_binaries;
use wormhole_aggregator::private_batch::prover::PrivateBatchProver;
use wormhole_aggregator::public_batch::circuit::generate_public_batch_circuit_binaries;
use wormhole_aggregator::public_batch::prover::PublicBatchProver;
use wormhole_aggregator::CircuitBinsConfig;
use wormhole_verifier::WormholeVerifier;
use zk_circuits_common::circuit::{wormhole_private_batch_circuit_config, wormhole_public_batch_circuit_config, C, D, F};

const PROVER_FILES: [&str; 3] = ["prover.bin", "private_batch_prover.bin", "public_batch_prover.bin"];
/// size of a planted prover file (garbage): reading one of them is far outside the slack of the read bound
const PLANTED_BYTES: usize = 3 << 20;
/// an over-cap SLICE that must not be walked: large enough that walking it touches thousands of pages
const LAZY_SLICE_BYTES: usize = 256 << 20;

struct Lab {
    canon: Canon,
    cells: PathBuf,
    seed: u64,
    priv2: OnceLock<VData>,
    pub21: OnceLock<VData>,
    pub12: OnceLock<VData>,
    leaf_cfg2: OnceLock<VData>,
    priv_cfg2: OnceLock<VData>,
    pub_cfg2: OnceLock<VData>,
}

/// one artifact handed to a loader
enum Art {
    Bytes(Vec<u8>),
    /// canonical prefix, then zeros up to `len` (file: sparse; slice: lazily mapped)
    Padded { prefix: Vec<u8>, len: u64 },
}

impl Art {
    fn len(&self) -> u64 {
        match self {
            Art::Bytes(b) => b.len() as u64,
            Art::Padded { len, .. } => *len,
        }
    }
    fn write(&self, path: &Path) -> Result<()> {
        match self {
            Art::Bytes(b) => fs::write(path, b)?,
            Art::Padded { prefix, len } => {
                let mut f = fs::File::create(path)?;
                f.write_all(prefix)?;
                f.set_len(*len)?;
            }
        }
        Ok(())
    }
    /// the slice form (a lazily mapped zeroed allocation with the prefix written into its first pages)
    fn slice(&self, lazy_len: Option<usize>) -> Vec<u8> {
        match self {
            Art::Bytes(b) => b.clone(),
            Art::Padded { prefix, len } => {
                let n = lazy_len.unwrap_or(*len as usize).max(*len as usize);
                let mut v = vec![0u8; n];
                v[..prefix.len()].copy_from_slice(prefix);
                v
            }
        }
    }
}

impl Lab {
    // The alternative circuits are built up front, on the main thread (`prepare`): building one lazily from inside the
    // cell pool would hold the cell's lock across nested rayon work, and a stolen cell needing the same circuit would
    // wait for its own stack.
    fn priv2(&self) -> &VData {
        self.priv2.get().expect("priv2 prepared")
    }
    fn pub21(&self) -> &VData {
        self.pub21.get().expect("pub21 prepared")
    }
    fn pub12(&self) -> &VData {
        self.pub12.get().expect("pub12 prepared")
    }
    fn other_config(&self, slot: &str) -> &VData {
        if slot.starts_with("leaf") {
            self.leaf_cfg2.get().expect("leaf other config prepared")
        } else if slot.starts_with("priv") {
            self.priv_cfg2.get().expect("priv other config prepared")
        } else {
            self.pub_cfg2.get().expect("pub other config prepared")
        }
    }

    /// build, sequentially and before any cell runs, every alternative circuit the cases need
    fn prepare(&self, cases: &[Value]) -> Result<()> {
        let any = |f: &dyn Fn(&Value) -> bool| cases.iter().any(|c| f(c));
        let slot_is = |c: &Value, p: &str| c["slot"].as_str().unwrap_or("").starts_with(p);
        let class_is = |c: &Value, k: &str| c["class"].as_str() == Some(k);
        let odd = |c: &Value| c["rep"].as_u64().unwrap_or(0) % 2 == 1;
        let need_pub12 = any(&|c| class_is(c, "othershape") && slot_is(c, "pub") && odd(c));
        if need_pub12 || any(&|c| c["cfg"].as_str() == Some("other") || (class_is(c, "othershape") && slot_is(c, "priv"))) {
            let _ = self.priv2.set(canon::build_priv(wormhole_private_batch_circuit_config(), &self.canon.leaf, 2)?);
        }
        if any(&|c| class_is(c, "othershape") && slot_is(c, "pub") && !odd(c)) {
            let _ = self.pub21.set(canon::build_pub(wormhole_public_batch_circuit_config(), &self.canon.priv1, 2, 1)?);
        }
        if need_pub12 {
            let _ = self.pub12.set(canon::build_pub(wormhole_public_batch_circuit_config(), self.priv2(), 1, 2)?);
        }
        if any(&|c| class_is(c, "otherconfig") && slot_is(c, "leaf")) {
            let _ = self.leaf_cfg2.set(canon::build_leaf(CircuitConfig::standard_recursion_zk_config())?);
        }
        if any(&|c| class_is(c, "otherconfig") && slot_is(c, "priv")) {
            let _ = self.priv_cfg2.set(canon::build_priv(CircuitConfig::standard_recursion_config(), &self.canon.leaf, 1)?);
        }
        if any(&|c| class_is(c, "otherconfig") && slot_is(c, "pub")) {
            let _ = self.pub_cfg2.set(canon::build_pub(CircuitConfig::standard_recursion_zk_config(), &self.canon.priv1, 1, 1)?);
        }
        Ok(())
    }
    fn part(v: &VData, slot: &str) -> Vec<u8> {
        if slot.ends_with("_common") { common_bytes(v) } else { vo_bytes(v) }
    }

    fn artifact(&self, slot: &str, class: &str, cap: u64, rep: u64) -> Result<Art> {
        let c = self.canon.bytes(slot).clone();
        let mut rng = StdRng::seed_from_u64(self.seed.wrapping_mul(0x9E37_79B9_7F4A_7C15) ^ rep.wrapping_mul(0xD1B5_4A32_D192_ED03) ^ slot.len() as u64);
        let flip = |mut b: Vec<u8>, lo: usize, hi: usize, rng: &mut StdRng| {
            let i = rng.gen_range(lo..hi.max(lo + 1)).min(b.len() - 1);
            b[i] ^= 1u8 << rng.gen_range(0..8);
            b
        };
        let n = c.len();
        Ok(match class {
            "canonical" => Art::Bytes(c),
            "othershape" => Art::Bytes(match slot {
                "priv_common" | "priv_verifier" => Self::part(self.priv2(), slot),
                "pub_common" | "pub_verifier" => Self::part(if rep % 2 == 0 { self.pub21() } else { self.pub12() }, slot),
                _ => bail!("no other shape for {slot}"),
            }),
            "otherconfig" => Art::Bytes(Self::part(self.other_config(slot), slot)),
            "truncated" => Art::Bytes(c[..n - 1].to_vec()),
            "extended" => {
                let mut b = c;
                b.push(if rep % 2 == 0 { 0 } else { 0xA5 });
                Art::Bytes(b)
            }
            "flip_header" => Art::Bytes(flip(c, 0, 16.min(n), &mut rng)),
            "flip_middle" => Art::Bytes(flip(c, n / 4, 3 * n / 4, &mut rng)),
            "flip_tail" => Art::Bytes(flip(c, n.saturating_sub(16), n, &mut rng)),
            "atcap" => Art::Padded { prefix: c, len: cap },
            "capplus1" => Art::Padded { prefix: c, len: cap + 1 },
            "sparse" => Art::Padded { prefix: c, len: 16 * cap },
            _ => bail!("unknown class {class}"),
        })
    }

    /// what Plonky2's own deserialiser makes of a public-batch artifact: the canonical data or not
    fn sem_equal(&self, slot: &str, bytes: &[u8]) -> bool {
        let want = &self.canon.pub11;
        catch_unwind(AssertUnwindSafe(|| match slot {
            "pub_common" => CommonCircuitData::<F, D>::from_bytes(bytes.to_vec(), &DefaultGateSerializer).map(|c| c == want.common).unwrap_or(false),
            "pub_verifier" => VerifierOnlyCircuitData::<C, D>::from_bytes(bytes.to_vec()).map(|v| v == want.verifier_only).unwrap_or(false),
            _ => false,
        }))
        .unwrap_or(false)
    }

    fn run_cell(&self, idx: usize, c: &Value, metered: bool) -> Value {
        match catch_unwind(AssertUnwindSafe(|| self.run_cell_inner(idx, c, metered))) {
            Ok(Ok(v)) => v,
            Ok(Err(e)) => json!({"i": idx, "tool_error": format!("{e:#}")}),
            Err(_) => json!({"i": idx, "tool_error": "harness panicked outside the call under test"}),
        }
    }

    fn run_cell_inner(&self, idx: usize, c: &Value, metered: bool) -> Result<Value> {
        let s = |k: &str| c[k].as_str().unwrap_or("").to_string();
        let (loader, kind, slot, class, cfg) = (s("loader"), s("kind"), s("slot"), s("class"), s("cfg"));
        let cap = c["cap"].as_u64().unwrap_or(0);
        let rep = c["rep"].as_u64().unwrap_or(0);
        let extras = c["extras"].as_u64().unwrap_or(0) == 1;
        let extras_mode = c["extras_mode"].as_str().unwrap_or("dirs");
        let n_cfg: usize = if cfg == "other" { 2 } else { 1 };
        let canon = &self.canon;
        let dir = self.cells.join(format!("c{idx}"));
        let _ = fs::remove_dir_all(&dir);
        fs::create_dir_all(&dir)?;

        // the artifacts of this cell: canonical everywhere except the deviating slot
        let slots: Vec<String> = c["slots"].as_array().map(|a| a.iter().filter_map(|x| x.as_str().map(String::from)).collect()).unwrap_or_default();
        let mut arts: Vec<(String, Art)> = vec![];
        for sl in &slots {
            let a = if *sl == slot {
                self.artifact(sl, &class, cap, rep)?
            } else if sl == "config" && cfg == "other" {
                Art::Bytes(format!("{{\n  \"num_leaf_proofs\": {n_cfg},\n  \"num_private_batch_proofs\": 1\n}}").into_bytes())
            } else {
                Art::Bytes(canon.bytes(sl).clone())
            };
            arts.push((sl.clone(), a));
        }
        let art = |sl: &str| -> &Art { &arts.iter().find(|(k, _)| k == sl).expect("slot of the loader").1 };
        let sizes: serde_json::Map<String, Value> = arts.iter().map(|(k, a)| (k.clone(), json!(a.len()))).collect();
        let sem_equal = if c["semfree"].as_u64() == Some(1) {
            match art(&slot) {
                Art::Bytes(b) => Some(self.sem_equal(&slot, b)),
                a @ Art::Padded { .. } => Some(self.sem_equal(&slot, &a.slice(None))),
            }
        } else {
            None
        };

        // files / directory
        let path = |sl: &str| dir.join(file_of(sl));
        if kind != "bytes" {
            for (sl, a) in &arts {
                a.write(&path(sl))?;
            }
        }
        let old_atime = SystemTime::now() - Duration::from_secs(2 * 86400);
        let old_mtime = SystemTime::now() - Duration::from_secs(86400);
        if extras {
            for p in PROVER_FILES {
                if extras_mode == "dirs" {
                    fs::create_dir_all(dir.join(p))?;
                } else {
                    let mut rng = StdRng::seed_from_u64(self.seed ^ idx as u64);
                    let mut g = vec![0u8; PLANTED_BYTES];
                    rng.fill(&mut g[..]);
                    fs::write(dir.join(p), &g)?;
                    let f = fs::File::options().write(true).open(dir.join(p))?;
                    f.set_times(fs::FileTimes::new().set_accessed(old_atime).set_modified(old_mtime))?;
                }
            }
        }
        // slices (bytes loaders): built before the measurement window opens
        let lazy = |a: &Art| if class == "sparse" && matches!(a, Art::Padded { .. }) { Some(LAZY_SLICE_BYTES) } else { None };
        let bytes_of = |sl: &str| -> Vec<u8> { let a = art(sl); a.slice(lazy(a)) };
        let slices: Vec<(String, Vec<u8>)> = if kind == "bytes" { slots.iter().map(|k| (k.clone(), bytes_of(k))).collect() } else { vec![] };
        let sl = |k: &str| -> &[u8] { &slices.iter().find(|(n, _)| n == k).expect("slice").1 };
        let given: serde_json::Map<String, Value> = slices.iter().map(|(k, v)| (k.clone(), json!(v.len()))).collect();

        let want_priv = if n_cfg == 2 { self.priv2() } else { &canon.priv1 };
        let addr = BytesDigest::try_from([3u8; 32]).map_err(|e| anyhow!("{e}"))?;
        // markers visible to `strace -e trace=openat` (thorough tier): what is opened between them is opened by the loader
        let marks = std::env::var("VH_ART_MARKS").is_ok();
        if marks {
            let _ = fs::File::open(format!("/vh-art-mark/begin-{idx}"));
        }
        let snap = if metered { Some(meter::start()) } else { None };
        let t0 = std::time::Instant::now();
        // Ok(Some(held)) = accepted, `held`: what the loader now holds / wrote is the canonical data for the shape
        let r = catch_unwind(AssertUnwindSafe(|| -> std::result::Result<Option<bool>, String> {
            let es = |e: anyhow::Error| format!("{e:#}").chars().take(200).collect::<String>();
            match loader.as_str() {
                "wv_from_bytes" => WormholeVerifier::new_from_bytes(sl("leaf_verifier"), sl("leaf_common")).map(|v| Some(self.wv_held(&v))).map_err(es),
                "wv_from_files" => WormholeVerifier::new_from_files(&path("leaf_verifier"), &path("leaf_common")).map(|v| Some(self.wv_held(&v))).map_err(es),
                "leaf_pin_bytes" => load_canonical_leaf_verifier_data(sl("leaf_common"), sl("leaf_verifier")).map(|v| Some(v == canon.leaf)).map_err(es),
                "priv_pin_bytes" => load_canonical_private_batch_verifier_data(sl("priv_common"), sl("priv_verifier"), &canon.leaf, n_cfg).map(|v| Some(&v == want_priv)).map_err(es),
                "pb_from_bytes" => PrivateBatchProver::new_from_bytes(sl("leaf_common"), sl("leaf_verifier"), sl("leaf_dummy"), n_cfg).map(|p| Some(p.circuit_data.common == want_priv.common)).map_err(es),
                "pb_from_files" => PrivateBatchProver::new_from_files(&path("leaf_common"), &path("leaf_verifier"), &path("leaf_dummy"), n_cfg).map(|p| Some(p.circuit_data.common == want_priv.common)).map_err(es),
                "pb_from_dir" => PrivateBatchProver::new_from_binaries_dir(&dir).map(|p| Some(p.circuit_data.common == want_priv.common)).map_err(es),
                "pb_build" => generate_private_batch_circuit_binaries(&dir, n_cfg, true)
                    .map(|_| Some(fs::read(dir.join("private_batch_common.bin")).ok() == Some(common_bytes(want_priv)) && fs::read(dir.join("private_batch_verifier.bin")).ok() == Some(vo_bytes(want_priv))))
                    .map_err(es),
                "pub_from_bytes" => PublicBatchProver::new_from_bytes(sl("priv_common"), sl("priv_verifier"), sl("priv_dummy"), (n_cfg, 1)).map(|p| Some(p.circuit_data.common == canon.pub11.common)).map_err(es),
                "pub_from_files" => PublicBatchProver::new_from_files(&path("priv_common"), &path("priv_verifier"), &path("priv_dummy"), (n_cfg, 1)).map(|p| Some(p.circuit_data.common == canon.pub11.common)).map_err(es),
                "pub_from_dir" => PublicBatchProver::new_from_binaries_dir(&dir).map(|p| Some(p.circuit_data.common == canon.pub11.common)).map_err(es),
                "pub_build" => generate_public_batch_circuit_binaries(&dir, 1, n_cfg)
                    .map(|_| Some(fs::read(dir.join("public_batch_common.bin")).ok() == Some(common_bytes(&canon.pub11)) && fs::read(dir.join("public_batch_verifier.bin")).ok() == Some(vo_bytes(&canon.pub11))))
                    .map_err(es),
                "agg_new" => PublicBatchAggregator::new(&dir, addr).map(|a| Some(*a.public_batch_common() == canon.pub11.common && *a.private_batch_common() == canon.priv1.common)).map_err(es),
                "config_load" => CircuitBinsConfig::load(&dir).map(|k| Some(k.num_leaf_proofs == n_cfg && k.num_private_batch_proofs == Some(1))).map_err(es),
                other => Err(format!("unknown loader {other}")),
            }
        }));
        let ms = t0.elapsed().as_millis() as u64;
        let meter = snap.map(|s| meter::stop(s).json());
        if marks {
            let _ = fs::File::open(format!("/vh-art-mark/end-{idx}"));
        }
        // planted prover files: did their access time move? (then: does it move when the harness reads one itself?)
        let mut planted = Value::Null;
        if extras && extras_mode == "files" {
            let at = |p: &str| fs::metadata(dir.join(p)).and_then(|m| m.accessed()).ok();
            let moved: Vec<&str> = PROVER_FILES.iter().copied().filter(|p| at(p) != Some(old_atime)).collect();
            let _ = fs::read(dir.join(PROVER_FILES[0]));
            let works = at(PROVER_FILES[0]) != Some(old_atime);
            planted = json!({"atime_moved": moved, "atime_probe_works": works});
        }
        let still_dirs = if extras && extras_mode == "dirs" { Some(PROVER_FILES.iter().all(|p| dir.join(p).is_dir())) } else { None };
        drop(slices);
        let _ = fs::remove_dir_all(&dir);
        let base = json!({"i": idx, "sizes": sizes, "given": given, "sem_equal": sem_equal, "ms": ms, "meter": meter, "planted": planted, "planted_dirs_intact": still_dirs});
        let mut o = base.as_object().cloned().unwrap_or_default();
        match r {
            Ok(Ok(held)) => {
                o.insert("verdict".into(), json!("ok"));
                o.insert("held_canonical".into(), json!(held));
            }
            Ok(Err(e)) => {
                if e.starts_with("unknown loader") {
                    bail!("{e}");
                }
                o.insert("verdict".into(), json!("err"));
                o.insert("msg".into(), json!(e));
            }
            Err(_) => {
                o.insert("verdict".into(), json!("panic"));
            }
        }
        Ok(Value::Object(o))
    }

    /// the pinned leaf verifier is the canonical one: same verifier-only bytes, and it verifies the canonical dummy proof
    fn wv_held(&self, v: &WormholeVerifier) -> bool {
        let vo_same = v.circuit_data.verifier_only.to_bytes().ok() == Some(vo_bytes(&self.canon.leaf));
        let proof = wormhole_verifier::ProofWithPublicInputs::from_bytes(self.canon.bytes("leaf_dummy").clone(), &v.circuit_data.common);
        vo_same && proof.map(|p| v.verify(p).is_ok()).unwrap_or(false)
    }
}

pub fn replay(root: &str, inp: &str, outp: &str, seed: u64) -> Result<()> {
    crate::silence_panics();
    let cases: Vec<Value> = fs::read_to_string(inp)?.lines().filter(|l| !l.trim().is_empty()).map(serde_json::from_str).collect::<std::result::Result<_, _>>()?;
    let t = std::time::Instant::now();
    let root = Path::new(root);
    let canon = Canon::get(root)?;
    let cells = root.join("cells-loaders");
    let _ = fs::remove_dir_all(&cells);
    fs::create_dir_all(&cells)?;
    let lab = Lab { canon, cells, seed, priv2: OnceLock::new(), pub21: OnceLock::new(), pub12: OnceLock::new(), leaf_cfg2: OnceLock::new(), priv_cfg2: OnceLock::new(), pub_cfg2: OnceLock::new() };
    lab.prepare(&cases)?;
    let out = Mutex::new(fs::File::create(outp)?);
    writeln!(out.lock().unwrap(), "{}", json!({"setup": true, "setup_ms": t.elapsed().as_millis() as u64, "canon_generated_ms": lab.canon.gen_ms as u64}))?;
    let emit = |row: Value| {
        let mut g = out.lock().unwrap();
        let _ = writeln!(g, "{}", row);
        let _ = g.flush();
    };
    // metered cells one at a time (the instruments are process-wide), the rest in parallel
    let metered = |c: &Value| c["metered"].as_u64() == Some(1);
    for (i, c) in cases.iter().enumerate().filter(|(_, c)| metered(c)) {
        emit(lab.run_cell(i, c, true));
    }
    let threads: usize = std::env::var("VH_ART_JOBS").ok().and_then(|s| s.parse().ok()).unwrap_or(8);
    let pool = rayon::ThreadPoolBuilder::new().num_threads(threads).build()?;
    pool.install(|| {
        cases.par_iter().enumerate().filter(|(_, c)| !metered(c)).for_each(|(i, c)| emit(lab.run_cell(i, c, false)));
    });
    writeln!(out.lock().unwrap(), "{}", json!({"done": true, "cells": cases.len()}))?;
    Ok(())
}
