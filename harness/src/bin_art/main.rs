//! Conformance harness binary `vh-art`: C16 (padding templates, Templates.tla) and C17 (artifact loaders,
//! Loaders.tla).  Subcommands read ndjson cases emitted by TLC and write ndjson observations; every call into
//! /repo runs under `catch_unwind`; the verdict is decided in Python against the model's expectation.
//!
//!   templates-replay <root> <in> <out>   every (entry point, deviation set, position) cell on the real entry point
//!   loaders-replay   <root> <in> <out>   every (loader, slot, artifact class) cell on the real loader
//!
//! `<root>` is a scratch directory; `<root>/canon` is produced once per run by the repo's own
//! `generate_all_circuit_binaries(.., true, 1, Some(1))`.
mod canon;
mod loaders;
mod meter;
mod templates;

use anyhow::{anyhow, Result};

#[global_allocator]
static GLOBAL: meter::Counting = meter::Counting;

pub fn seed() -> u64 {
    std::env::var("VERIF_SEED").ok().and_then(|s| s.parse().ok()).unwrap_or(1)
}

/// panics of the code under test are data: keep them off stderr
pub fn silence_panics() {
    std::panic::set_hook(Box::new(|_| {}));
}

fn main() -> Result<()> {
    let args: Vec<String> = std::env::args().collect();
    let cmd = args.get(1).map(|s| s.as_str()).unwrap_or("");
    let need = |n: usize| -> Result<()> {
        if args.len() < 2 + n { Err(anyhow!("{cmd}: expected {n} arguments")) } else { Ok(()) }
    };
    // a loader that buffers or builds something pathological hits this ceiling instead of the machine's
    let gib: u64 = std::env::var("VH_ART_AS_GIB").ok().and_then(|s| s.parse().ok()).unwrap_or(28);
    meter::limit_address_space(gib);
    match cmd {
        "templates-replay" => {
            need(3)?;
            templates::replay(&args[2], &args[3], &args[4])
        }
        "loaders-replay" => {
            need(3)?;
            loaders::replay(&args[2], &args[3], &args[4], seed())
        }
        _ => Err(anyhow!("unknown subcommand {cmd}")),
    }
}
