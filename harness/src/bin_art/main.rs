//! Conformance harness binary: C16 padding templates, C17 artifact loaders.
use anyhow::{anyhow, Result};

pub fn seed() -> u64 {
    std::env::var("VERIF_SEED").ok().and_then(|s| s.parse().ok()).unwrap_or(1)
}

fn main() -> Result<()> {
    let args: Vec<String> = std::env::args().collect();
    let cmd = args.get(1).map(|s| s.as_str()).unwrap_or("");
    match cmd {
        _ => Err(anyhow!("unknown subcommand {cmd}")),
    }
}
