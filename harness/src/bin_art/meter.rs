//! Observation instruments of `vh-art`:
//!  * a counting global allocator (total bytes requested, largest single request) — "was a buffer of the
//!    size of the file requested";
//!  * `/proc/self/io` `rchar` — bytes this process asked the kernel to read ("was the file read");
//!  * `/proc/self/stat` `minflt` — pages touched for the first time ("was a lazily mapped slice walked,
//!    i.e. hashed or copied").
//! All three are process-wide: cells that are judged on them run one at a time.
use std::alloc::{GlobalAlloc, Layout, System};
use std::sync::atomic::{AtomicUsize, Ordering};

pub struct Counting;
static TOTAL: AtomicUsize = AtomicUsize::new(0);
static LARGEST: AtomicUsize = AtomicUsize::new(0);

#[inline]
fn note(n: usize) {
    TOTAL.fetch_add(n, Ordering::Relaxed);
    LARGEST.fetch_max(n, Ordering::Relaxed);
}

unsafe impl GlobalAlloc for Counting {
    unsafe fn alloc(&self, l: Layout) -> *mut u8 {
        note(l.size());
        System.alloc(l)
    }
    // forwarded so that large zeroed buffers stay lazily mapped (calloc), which the page-touch probe relies on
    unsafe fn alloc_zeroed(&self, l: Layout) -> *mut u8 {
        note(l.size());
        System.alloc_zeroed(l)
    }
    unsafe fn dealloc(&self, p: *mut u8, l: Layout) {
        System.dealloc(p, l)
    }
    unsafe fn realloc(&self, p: *mut u8, l: Layout, n: usize) -> *mut u8 {
        note(n);
        System.realloc(p, l, n)
    }
}

fn proc_io_rchar() -> Option<u64> {
    let s = std::fs::read_to_string("/proc/self/io").ok()?;
    s.lines().find_map(|l| l.strip_prefix("rchar: ")).and_then(|v| v.trim().parse().ok())
}

fn proc_minflt() -> Option<u64> {
    let s = std::fs::read_to_string("/proc/self/stat").ok()?;
    let rest = &s[s.rfind(')')? + 1..];
    rest.split_whitespace().nth(7)?.parse().ok()
}

#[derive(Clone, Copy, Debug)]
pub struct Snap {
    rchar: Option<u64>,
    minflt: Option<u64>,
    total: usize,
    t: std::time::Instant,
}

/// Start a measurement window (resets the "largest single request" mark).
pub fn start() -> Snap {
    // the two /proc reads below are themselves counted in rchar: read them first, then take the values
    let _ = proc_io_rchar();
    let minflt = proc_minflt();
    let rchar = proc_io_rchar();
    LARGEST.store(0, Ordering::Relaxed);
    Snap { rchar, minflt, total: TOTAL.load(Ordering::Relaxed), t: std::time::Instant::now() }
}

#[derive(Clone, Copy, Debug)]
pub struct Delta {
    /// bytes requested from the kernel by read-like calls (None: /proc/self/io unavailable)
    pub rchar: Option<u64>,
    pub minflt: Option<u64>,
    pub alloc_total: usize,
    pub alloc_largest: usize,
    pub micros: u128,
}

pub fn stop(s: Snap) -> Delta {
    let micros = s.t.elapsed().as_micros();
    let largest = LARGEST.load(Ordering::Relaxed);
    let total = TOTAL.load(Ordering::Relaxed);
    let rchar = proc_io_rchar();
    let minflt = proc_minflt();
    Delta {
        rchar: match (s.rchar, rchar) { (Some(a), Some(b)) => Some(b.saturating_sub(a)), _ => None },
        minflt: match (s.minflt, minflt) { (Some(a), Some(b)) => Some(b.saturating_sub(a)), _ => None },
        alloc_total: total.saturating_sub(s.total),
        alloc_largest: largest,
        micros,
    }
}

impl Delta {
    pub fn json(&self) -> serde_json::Value {
        serde_json::json!({"rchar": self.rchar, "minflt": self.minflt, "alloc_total": self.alloc_total,
                           "alloc_largest": self.alloc_largest, "micros": self.micros as u64})
    }
}

extern "C" {
    fn setrlimit(resource: i32, rlim: *const [u64; 2]) -> i32;
}

/// Address-space ceiling for the whole process (RLIMIT_AS = 9 on Linux): a loader that starts to buffer or
/// to build something pathological runs into it instead of taking the machine down.
pub fn limit_address_space(gib: u64) {
    let lim = [gib << 30, gib << 30];
    unsafe {
        let _ = setrlimit(9, &lim);
    }
}
