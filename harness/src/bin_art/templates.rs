//! C16: every cell of Templates.tla (entry point x set of deviations from the dummy sentinel x position class)
//! realised as a concrete padding template and handed to the REAL entry point.
//!
//! Leaf templates
//!   pb_new                      PrivateBatchProver::new over test-helpers' fake leaf circuit (the child circuit is a
//!                               parameter there): every deviation is provable as a VALID proof
//!   pb_new_from_bytes/_files/_binaries_dir, pb_build
//!                               pin the canonical leaf circuit: valid deviating templates are REAL leaf proofs
//!                               (dummy-mode proofs with asset / exit accounts set; genuine spends for a non-zero
//!                               block hash, with or without outputs); a deviation no valid real leaf proof can carry
//!                               (non-zero outputs under a zero block hash) is reported `realised: false`
//! Private-batch templates
//!   pub_new                     PublicBatchProver::new over a free circuit with the private-batch layout (2 leaves, 4
//!                               exit slots): every deviation provable
//!   pub_new_from_bytes/_files/_binaries_dir, agg_new, agg_with_limits
//!                               pin the canonical private-batch circuit: valid deviating templates are canonical
//!                               private-batch proofs over one REAL spend
//! An invalid proof is a valid one with a public input changed after proving (a non-sentinel one - fee or nullifier -
//! when the sentinel fields are to stay as they are; the sentinel fields themselves when no valid proof can carry them).  The harness reports what happened (Ok / Err / panic, whether the build step published
//! a dummy private-batch proof); the verdict is decided in Python against the model.
use crate::canon::{Canon, VData};
use anyhow::{anyhow, bail, Result};
use plonky2::field::types::{Field, PrimeField64};
use plonky2::iop::target::Target;
use plonky2::iop::witness::{PartialWitness, WitnessWrite};
use plonky2::plonk::circuit_builder::CircuitBuilder;
use plonky2::plonk::circuit_data::{CircuitConfig, CircuitData};
use plonky2::plonk::proof::ProofWithPublicInputs;
use qp_wormhole_inputs::BytesDigest;
use rayon::prelude::*;
use serde_json::{json, Value};
use std::collections::BTreeSet;
use std::fs;
use std::io::Write;
use std::panic::{catch_unwind, AssertUnwindSafe};
use std::path::{Path, PathBuf};
use std::sync::Mutex;
use test_helpers::fake_leaf::{build_fake_leaf_circuit, prove_fake_leaf};
use test_helpers::TestInputs;
use wormhole_aggregator::aggregator::PublicBatchAggregator;
use wormhole_aggregator::pool::PoolLimits;
use wormhole_aggregator::private_batch::circuit::build::generate_private_batch_circuit_binaries;
use wormhole_aggregator::private_batch::circuit::circuit_logic::{PrivateBatchCircuit, PrivateBatchCircuitTargets};
use wormhole_aggregator::private_batch::prover::PrivateBatchProver;
use wormhole_aggregator::public_batch::prover::PublicBatchProver;
use wormhole_circuit::block_header::header::HeaderInputs;
use wormhole_circuit::circuit::circuit_logic::{CircuitTargets, WormholeCircuit};
use wormhole_circuit::inputs::CircuitInputs;
use zk_circuits_common::circuit::{
    wormhole_leaf_circuit_config, wormhole_private_batch_circuit_config, wormhole_public_batch_circuit_config, C, D, F,
};

pub type Proof = ProofWithPublicInputs<F, C, D>;
type Devs = BTreeSet<String>;

const P_MINUS_1: u64 = 0xFFFF_FFFF_0000_0000;
/// leaves of the free private-batch-layout circuit used at `pub_new`
const STANDIN_LEAVES: usize = 2;

fn f(x: u64) -> F {
    F::from_canonical_u64(x)
}
fn pis_of(p: &Proof) -> Vec<u64> {
    p.public_inputs.iter().map(|x| x.to_canonical_u64()).collect()
}
fn has(d: &Devs, k: &str) -> bool {
    d.contains(k)
}

// ---------------------------------------------------------------- classification (from the documented layouts)

/// which sentinel conditions a leaf public-input vector fails
pub fn leaf_flags(p: &[u64]) -> Devs {
    let mut d = Devs::new();
    if p.len() != 21 {
        d.insert("shape".into());
        return d;
    }
    if p[0] != 0 { d.insert("asset".into()); }
    if p[1] != 0 { d.insert("out1".into()); }
    if p[2] != 0 { d.insert("out2".into()); }
    if p[8..12].iter().any(|x| *x != 0) { d.insert("exit1".into()); }
    if p[12..16].iter().any(|x| *x != 0) { d.insert("exit2".into()); }
    if p[16..20].iter().any(|x| *x != 0) { d.insert("block".into()); }
    d
}

/// which sentinel conditions a private-batch public-input vector (n leaves) fails
pub fn pb_flags(p: &[u64], n: usize) -> Devs {
    let mut d = Devs::new();
    if p.len() != 8 + 21 * n {
        d.insert("shape".into());
        return d;
    }
    if p[3..7].iter().any(|x| *x != 0) { d.insert("block".into()); }
    for s in 0..2 * n {
        let b = 8 + 5 * s;
        if p[b] != 0 { d.insert("sum".into()); }
        if p[b + 1..b + 5].iter().any(|x| *x != 0) { d.insert("acct".into()); }
    }
    d
}

// ---------------------------------------------------------------- factories

struct FakeLeaf {
    data: CircuitData<F, C, D>,
    pis: [Target; 21],
}

struct RealLeaf {
    data: CircuitData<F, C, D>,
    targets: CircuitTargets,
}

struct StandIn {
    data: CircuitData<F, C, D>,
    targets: Vec<Target>,
}

struct CanonPb {
    data: CircuitData<F, C, D>,
    targets: PrivateBatchCircuitTargets,
}

fn small(pos: &str) -> u64 {
    if pos == "first" { 1 } else { u32::MAX as u64 }
}
fn digest_felts(pos: &str) -> [u64; 4] {
    if pos == "first" { [1, 0, 0, 0] } else { [0, 0, 0, P_MINUS_1] }
}
fn digest_bytes(pos: &str) -> BytesDigest {
    let mut b = [0u8; 32];
    for (i, v) in digest_felts(pos).iter().enumerate() {
        b[i * 8..i * 8 + 8].copy_from_slice(&v.to_le_bytes());
    }
    BytesDigest::try_from(b).expect("canonical digest")
}

/// the leaf statement with exactly the deviations `d` (free fields: fee 10 bps, everything else zero)
fn leaf_statement(d: &Devs, pos: &str) -> [u64; 21] {
    let mut s = [0u64; 21];
    s[3] = 10;
    if pos == "wide" {
        // scalars that do not fit their u32 fields: the block number always, the asset id when it deviates
        s[20] = 1u64 << 32;
        if has(d, "asset") { s[0] = (1u64 << 32) + 7; }
        if has(d, "out1") { s[1] = 5; }
        if has(d, "out2") { s[2] = 5; }
        if has(d, "exit1") { s[8..12].copy_from_slice(&digest_felts("first")); }
        if has(d, "exit2") { s[12..16].copy_from_slice(&digest_felts("first")); }
        if has(d, "block") { s[16..20].copy_from_slice(&digest_felts("last")); }
        return s;
    }
    if has(d, "asset") { s[0] = small(pos); }
    if has(d, "out1") { s[1] = small(pos); }
    if has(d, "out2") { s[2] = small(pos); }
    if has(d, "exit1") { s[8..12].copy_from_slice(&digest_felts(pos)); }
    if has(d, "exit2") { s[12..16].copy_from_slice(&digest_felts(pos)); }
    if has(d, "block") { s[16..20].copy_from_slice(&digest_felts(pos)); }
    s
}

/// the private-batch statement (n leaves) with exactly the deviations `d`
fn pb_statement(d: &Devs, pos: &str, n: usize) -> Vec<u64> {
    let mut s = vec![0u64; 8 + 21 * n];
    s[0] = 2 * n as u64;
    s[2] = 10;
    let slot = if pos == "first" { 0 } else { 2 * n - 1 };
    if has(d, "block") { s[3..7].copy_from_slice(&digest_felts(pos)); }
    if has(d, "sum") { s[8 + 5 * slot] = small(pos); }
    if has(d, "acct") { s[8 + 5 * slot + 1..8 + 5 * slot + 5].copy_from_slice(&digest_felts(pos)); }
    // nullifiers of an all-dummy batch are hashes of random preimages: arbitrary non-zero digests
    for i in 0..n {
        let b = 8 + 10 * n + 4 * i;
        s[b..b + 4].copy_from_slice(&[11 + i as u64, 22, 33, 44]);
    }
    s
}

impl FakeLeaf {
    fn new() -> Self {
        let (data, pis) = build_fake_leaf_circuit();
        FakeLeaf { data, pis }
    }
    fn prove(&self, s: &[u64; 21]) -> Proof {
        prove_fake_leaf(&self.data, &self.pis, core::array::from_fn(|i| f(s[i])))
    }
}

impl RealLeaf {
    fn new() -> Result<Self> {
        let c = WormholeCircuit::new(wormhole_leaf_circuit_config())?;
        let targets = c.targets();
        Ok(RealLeaf { data: c.build_circuit(), targets })
    }

    /// honest inputs of a real leaf proof carrying the deviations `d`, if a valid one can exist:
    /// a dummy-mode proof leaves asset id and exit accounts free; anything with outputs needs a genuine spend,
    /// whose block hash is the hash of its header (never zero)
    fn inputs(d: &Devs, pos: &str) -> Option<CircuitInputs> {
        let block = has(d, "block");
        if (has(d, "out1") || has(d, "out2")) && !block {
            return None;
        }
        let mut i = CircuitInputs::test_inputs_0();
        i.public.exit_account_1 = if has(d, "exit1") { digest_bytes(pos) } else { BytesDigest::default() };
        i.public.exit_account_2 = if has(d, "exit2") { digest_bytes(pos) } else { BytesDigest::default() };
        i.public.asset_id = if has(d, "asset") { small(pos) as u32 } else { 0 };
        if block {
            i.private.input_amount = u32::MAX;
            i.public.output_amount_1 = if !has(d, "out1") { 0 } else if pos == "first" { 1 } else { 2_000_000_000 };
            i.public.output_amount_2 = if !has(d, "out2") { 0 } else if pos == "first" { 1 } else { 2_000_000_001 };
        }
        let ua: [u8; 32] = *i.private.unspendable_account;
        i.private.zk_tree_root =
            test_helpers::compute_zk_leaf_hash(&ua, i.private.transfer_count, i.public.asset_id, i.private.input_amount);
        if block {
            i.public.block_hash = HeaderInputs::try_from(&i).ok()?.block_hash();
        }
        Some(i)
    }

    fn prove(&self, i: &CircuitInputs) -> Result<Proof> {
        let mut pw = PartialWitness::new();
        wormhole_prover::fill_witness(&mut pw, i, &self.targets)?;
        self.data.prove(pw).map_err(|e| anyhow!("real leaf proof: {e}"))
    }
}

impl StandIn {
    fn new() -> Self {
        let mut b = CircuitBuilder::<F, D>::new(CircuitConfig::standard_recursion_config());
        let targets = b.add_virtual_targets(8 + 21 * STANDIN_LEAVES);
        b.register_public_inputs(&targets);
        StandIn { data: b.build::<C>(), targets }
    }
    fn prove(&self, s: &[u64]) -> Result<Proof> {
        let mut pw = PartialWitness::new();
        for (t, v) in self.targets.iter().zip(s) {
            pw.set_target(*t, f(*v))?;
        }
        self.data.prove(pw).map_err(|e| anyhow!("stand-in private-batch proof: {e}"))
    }
}

impl CanonPb {
    fn new(leaf: &VData) -> Result<Self> {
        let c = PrivateBatchCircuit::new(wormhole_private_batch_circuit_config(), &leaf.common, &leaf.verifier_only, 1)?;
        let targets = c.targets();
        Ok(CanonPb { data: c.build_circuit(), targets })
    }
    /// a private-batch proof over one leaf proof (witness filled through the public targets)
    fn prove(&self, leaf: &Proof) -> Result<Proof> {
        let mut pw = PartialWitness::new();
        pw.set_proof_with_pis_target(&self.targets.leaf_proofs[0], leaf)?;
        for (t, v) in self.targets.dummy_nullifier_pre_images[0].iter().zip([7u64, 8, 9, 10]) {
            pw.set_target(*t, f(v))?;
        }
        self.data.prove(pw).map_err(|e| anyhow!("canonical private-batch proof: {e}"))
    }
}

/// a proof that no longer verifies while its sentinel fields stay what they are
fn spoil(mut p: Proof, free_pi: usize) -> Proof {
    p.public_inputs[free_pi] += F::ONE;
    p
}

struct Lab {
    canon: Canon,
    fake: FakeLeaf,
    real: RealLeaf,
    standin: StandIn,
    canon_pb: CanonPb,
    fake_vd: VData,
    standin_vd: VData,
    canon_leaf_dummy: Proof,
    canon_pb_dummy: Proof,
    cells: PathBuf,
}

impl Lab {
    fn new(root: &Path) -> Result<Self> {
        let canon = Canon::get(root)?;
        let canon_leaf_dummy = Proof::from_bytes(canon.bytes("leaf_dummy").clone(), &canon.leaf.common)
            .map_err(|e| anyhow!("canonical dummy_proof.bin does not deserialise: {e}"))?;
        let canon_pb_dummy = Proof::from_bytes(canon.bytes("priv_dummy").clone(), &canon.priv1.common)
            .map_err(|e| anyhow!("canonical dummy_private_batch_proof.bin does not deserialise: {e}"))?;
        let canon_pb = CanonPb::new(&canon.leaf)?;
        let cells = root.join("cells-templates");
        let _ = fs::remove_dir_all(&cells);
        fs::create_dir_all(&cells)?;
        let fake = FakeLeaf::new();
        let standin = StandIn::new();
        let (fake_vd, standin_vd) = (fake.data.verifier_data(), standin.data.verifier_data());
        Ok(Lab { canon, fake, real: RealLeaf::new()?, standin, canon_pb, fake_vd, standin_vd, canon_leaf_dummy, canon_pb_dummy, cells })
    }

    /// the leaf template of a cell: Ok(None) = no valid proof of the canonical leaf circuit carries these deviations
    fn leaf_template(&self, entry: &str, d: &Devs, pos: &str) -> Result<Option<Proof>> {
        let invalid = has(d, "proof");
        let mut pi_d = d.clone();
        pi_d.remove("proof");
        if entry == "pb_new" {
            let p = self.fake.prove(&leaf_statement(&pi_d, pos));
            return Ok(Some(if invalid { spoil(p, 3) } else { p }));
        }
        let valid = match RealLeaf::inputs(&pi_d, pos) {
            Some(i) => Some(self.real.prove(&i)?),
            None => None,
        };
        match (invalid, valid) {
            (false, v) => Ok(v),
            // a valid proof of the same class with its nullifier changed afterwards
            (true, Some(v)) => Ok(Some(spoil(v, 4))),
            // no valid proof exists: the canonical dummy with the sentinel fields overwritten
            (true, None) => {
                let mut p = self.canon_leaf_dummy.clone();
                let s = leaf_statement(&pi_d, pos);
                for k in [0usize, 1, 2, 8, 9, 10, 11, 12, 13, 14, 15, 16, 17, 18, 19] {
                    p.public_inputs[k] = f(s[k]);
                }
                Ok(Some(p))
            }
        }
    }

    fn pb_template(&self, entry: &str, d: &Devs, pos: &str) -> Result<Option<Proof>> {
        let invalid = has(d, "proof");
        let mut pi_d = d.clone();
        pi_d.remove("proof");
        if entry == "pub_new" {
            let p = self.standin.prove(&pb_statement(&pi_d, pos, STANDIN_LEAVES))?;
            return Ok(Some(if invalid { spoil(p, 2) } else { p }));
        }
        // canonical private-batch circuit over one leaf: the all-dummy proof of the canonical directory, or a proof over
        // one genuine spend (block hash, and exits as requested)
        let valid: Option<Proof> = if pi_d.is_empty() {
            Some(self.canon_pb_dummy.clone())
        } else if has(&pi_d, "block") {
            let mut ld = Devs::new();
            ld.insert("block".into());
            if has(&pi_d, "sum") { ld.insert(if pos == "first" { "out1" } else { "out2" }.into()); }
            if has(&pi_d, "acct") { ld.insert(if pos == "first" { "exit1" } else { "exit2" }.into()); }
            let i = RealLeaf::inputs(&ld, pos).ok_or_else(|| anyhow!("no spend inputs"))?;
            let p = self.canon_pb.prove(&self.real.prove(&i)?)?;
            // the circuit decides where sums and accounts land: keep the proof only if it carries exactly the cell's flags
            if pb_flags(&pis_of(&p), 1) == pi_d { Some(p) } else { None }
        } else {
            None
        };
        match (invalid, valid) {
            (false, v) => Ok(v),
            (true, Some(v)) => Ok(Some(spoil(v, 2))),
            (true, None) => {
                let mut p = self.canon_pb_dummy.clone();
                let s = pb_statement(&pi_d, pos, 1);
                for k in 3..18 {
                    p.public_inputs[k] = f(s[k]);
                }
                if pi_d.is_empty() {
                    p = spoil(p, 2);
                }
                Ok(Some(p))
            }
        }
    }

    fn run_cell(&self, idx: usize, c: &Value) -> Value {
        let kind = c["kind"].as_str().unwrap_or("");
        let entry = c["entry"].as_str().unwrap_or("");
        let pos = c["pos"].as_str().unwrap_or("first");
        let d: Devs = c["devs"].as_array().map(|a| a.iter().filter_map(|x| x.as_str().map(String::from)).collect()).unwrap_or_default();
        let t0 = std::time::Instant::now();
        let tmpl = catch_unwind(AssertUnwindSafe(|| if kind == "leaf" { self.leaf_template(entry, &d, pos) } else { self.pb_template(entry, &d, pos) }));
        let tmpl = match tmpl {
            Ok(Ok(Some(p))) => p,
            Ok(Ok(None)) => return json!({"i": idx, "realised": false, "why": "no valid proof of the canonical circuit carries these deviations"}),
            Ok(Err(e)) => return json!({"i": idx, "realised": false, "why": format!("could not be proved: {e}")}),
            Err(_) => return json!({"i": idx, "realised": false, "why": "proving panicked"}),
        };
        let pis = pis_of(&tmpl);
        let flags = if kind == "leaf" { leaf_flags(&pis) } else { pb_flags(&pis, if entry == "pub_new" { STANDIN_LEAVES } else { 1 }) };
        // does the template verify under the verifier its entry point pins? (harness-side fact, by Plonky2's verifier)
        let verifier: &VData = match (kind, entry) {
            ("leaf", "pb_new") => &self.fake_vd,
            ("leaf", _) => &self.canon.leaf,
            (_, "pub_new") => &self.standin_vd,
            _ => &self.canon.priv1,
        };
        let verifies = catch_unwind(AssertUnwindSafe(|| verifier.verify(tmpl.clone()).is_ok())).unwrap_or(false);
        let dir = self.cells.join(format!("c{idx}"));
        let mut used = Value::Null;
        let r = catch_unwind(AssertUnwindSafe(|| -> Result<std::result::Result<(), String>> {
            let es = |e: anyhow::Error| format!("{e:#}").chars().take(160).collect::<String>();
            let c = &self.canon;
            Ok(match entry {
                "pb_new" => PrivateBatchProver::new(wormhole_private_batch_circuit_config(), self.fake.data.common.clone(), &self.fake.data.verifier_only, 1, tmpl.clone()).map(|_| ()).map_err(es),
                "pb_new_from_bytes" => PrivateBatchProver::new_from_bytes(c.bytes("leaf_common"), c.bytes("leaf_verifier"), &tmpl.to_bytes(), 1).map(|_| ()).map_err(es),
                "pb_new_from_files" => {
                    c.stage(&dir, &[])?;
                    fs::write(dir.join("template.bin"), tmpl.to_bytes())?;
                    PrivateBatchProver::new_from_files(&c.dir.join("common.bin"), &c.dir.join("verifier.bin"), &dir.join("template.bin"), 1).map(|_| ()).map_err(es)
                }
                "pb_new_from_binaries_dir" => {
                    c.stage(&dir, &["common.bin", "verifier.bin", "config.json"])?;
                    fs::write(dir.join("dummy_proof.bin"), tmpl.to_bytes())?;
                    PrivateBatchProver::new_from_binaries_dir(&dir).map(|_| ()).map_err(es)
                }
                "pb_build" => {
                    c.stage(&dir, &["common.bin", "verifier.bin"])?;
                    fs::write(dir.join("dummy_proof.bin"), tmpl.to_bytes())?;
                    generate_private_batch_circuit_binaries(&dir, 1, true).map_err(es)
                }
                "pub_new" => PublicBatchProver::new(wormhole_public_batch_circuit_config(), self.standin.data.common.clone(), &self.standin.data.verifier_only, 1, STANDIN_LEAVES, tmpl.clone()).map(|_| ()).map_err(es),
                "pub_new_from_bytes" => PublicBatchProver::new_from_bytes(c.bytes("priv_common"), c.bytes("priv_verifier"), &tmpl.to_bytes(), (1, 1)).map(|_| ()).map_err(es),
                "pub_new_from_files" => {
                    c.stage(&dir, &[])?;
                    fs::write(dir.join("template.bin"), tmpl.to_bytes())?;
                    PublicBatchProver::new_from_files(&c.dir.join("private_batch_common.bin"), &c.dir.join("private_batch_verifier.bin"), &dir.join("template.bin"), (1, 1)).map(|_| ()).map_err(es)
                }
                "pub_new_from_binaries_dir" => {
                    c.stage(&dir, &["private_batch_common.bin", "private_batch_verifier.bin", "config.json"])?;
                    fs::write(dir.join("dummy_private_batch_proof.bin"), tmpl.to_bytes())?;
                    PublicBatchProver::new_from_binaries_dir(&dir).map(|_| ()).map_err(es)
                }
                "agg_new" | "agg_with_limits" => {
                    c.stage(&dir, &["private_batch_common.bin", "private_batch_verifier.bin", "public_batch_common.bin", "public_batch_verifier.bin", "config.json"])?;
                    fs::write(dir.join("dummy_private_batch_proof.bin"), tmpl.to_bytes())?;
                    let addr = BytesDigest::try_from([3u8; 32]).map_err(|e| anyhow!("{e}"))?;
                    if entry == "agg_new" {
                        PublicBatchAggregator::new(&dir, addr).map(|_| ()).map_err(es)
                    } else {
                        PublicBatchAggregator::with_limits(&dir, addr, PoolLimits::default()).map(|_| ()).map_err(es)
                    }
                }
                other => bail!("unknown entry point {other}"),
            })
        }));
        if entry == "pb_build" {
            // "before use": a rejected template must not have been baked into a published dummy private-batch proof
            used = json!(dir.join("dummy_private_batch_proof.bin").exists());
        }
        let _ = fs::remove_dir_all(&dir);
        let ms = t0.elapsed().as_millis() as u64;
        let fl: Vec<&String> = flags.iter().collect();
        match r {
            Ok(Ok(Ok(()))) => json!({"i": idx, "realised": true, "flags": fl, "verifies": verifies, "verdict": "ok", "used": used, "ms": ms}),
            Ok(Ok(Err(e))) => json!({"i": idx, "realised": true, "flags": fl, "verifies": verifies, "verdict": "err", "msg": e, "used": used, "ms": ms}),
            Ok(Err(e)) => json!({"i": idx, "tool_error": e.to_string()}),
            Err(_) => json!({"i": idx, "realised": true, "flags": fl, "verifies": verifies, "verdict": "panic", "used": used, "ms": ms}),
        }
    }
}

pub fn replay(root: &str, inp: &str, outp: &str) -> Result<()> {
    crate::silence_panics();
    let cases: Vec<Value> = fs::read_to_string(inp)?.lines().filter(|l| !l.trim().is_empty()).map(serde_json::from_str).collect::<std::result::Result<_, _>>()?;
    let t = std::time::Instant::now();
    let lab = Lab::new(Path::new(root))?;
    let setup_ms = t.elapsed().as_millis() as u64;
    let out = Mutex::new(fs::File::create(outp)?);
    writeln!(out.lock().unwrap(), "{}", json!({"setup": true, "setup_ms": setup_ms, "canon_generated_ms": lab.canon.gen_ms as u64,
        "standin_leaves": STANDIN_LEAVES}))?;
    let threads: usize = std::env::var("VH_ART_JOBS").ok().and_then(|s| s.parse().ok()).unwrap_or(8);
    let pool = rayon::ThreadPoolBuilder::new().num_threads(threads).build()?;
    pool.install(|| {
        cases.par_iter().enumerate().for_each(|(i, c)| {
            let row = lab.run_cell(i, c);
            let mut g = out.lock().unwrap();
            let _ = writeln!(g, "{}", row);
            let _ = g.flush();
        })
    });
    writeln!(out.lock().unwrap(), "{}", json!({"done": true, "cells": cases.len()}))?;
    Ok(())
}
