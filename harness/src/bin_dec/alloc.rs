//! Counting global allocator of `vh-dec`: bytes requested from the allocator by the whole process.
//! Read around single-threaded calls ("was anything sizeable allocated before the rejection").
use std::alloc::{GlobalAlloc, Layout, System};
use std::sync::atomic::{AtomicUsize, Ordering};

pub struct Counting;
pub static ALLOCATED: AtomicUsize = AtomicUsize::new(0);

unsafe impl GlobalAlloc for Counting {
    unsafe fn alloc(&self, l: Layout) -> *mut u8 {
        ALLOCATED.fetch_add(l.size(), Ordering::Relaxed);
        System.alloc(l)
    }
    unsafe fn alloc_zeroed(&self, l: Layout) -> *mut u8 {
        ALLOCATED.fetch_add(l.size(), Ordering::Relaxed);
        System.alloc_zeroed(l)
    }
    unsafe fn dealloc(&self, p: *mut u8, l: Layout) {
        System.dealloc(p, l)
    }
    unsafe fn realloc(&self, p: *mut u8, l: Layout, n: usize) -> *mut u8 {
        ALLOCATED.fetch_add(n.saturating_sub(l.size()), Ordering::Relaxed);
        System.realloc(p, l, n)
    }
}

pub fn allocated() -> usize {
    ALLOCATED.load(Ordering::Relaxed)
}
