//! C29: Counts.tla's cells (entry point x count tokens) driven through the REAL entry points.
//!
//! Observations only (verdict class, wall time, bytes requested from the allocator, whether an output
//! directory appeared); the Python side compares them with the model's expectation.
//!
//! `counts-cells` is meant to run in a child process with an address-space ceiling: a progress line
//! is written before every call so that the parent can name the cell at which the child died, and a
//! watchdog thread ends the process when a single call exceeds its time ceiling.
use crate::alloc::allocated;
use anyhow::{anyhow, Context, Result};
use plonky2::plonk::circuit_builder::CircuitBuilder;
use plonky2::plonk::circuit_data::{CircuitConfig, VerifierCircuitData};
use plonky2::plonk::proof::ProofWithPublicInputs;
use qp_wormhole_inputs::{
    public_batch_pi, validate_proof_count, BytesDigest, PrivateBatchPublicInputs, PublicBatchPublicInputs,
};
use serde_json::{json, Value};
use std::fs;
use std::io::Write;
use std::panic::{catch_unwind, AssertUnwindSafe};
use std::path::{Path, PathBuf};
use std::sync::atomic::{AtomicU64, Ordering};
use std::time::{Duration, Instant};
use wormhole_aggregator::aggregator::PublicBatchAggregator;
use wormhole_aggregator::common::recursive::add_recursive_verifiers;
use wormhole_aggregator::common::utils::{
    canonical_leaf_verifier_data, canonical_private_batch_verifier_data, canonical_public_batch_verifier_data,
    load_canonical_private_batch_verifier_data, load_verifier_data_from_bytes,
    private_batch_num_leaves_from_padded_pi_len,
};
use wormhole_aggregator::dummy_proof::load_dummy_proof;
use wormhole_aggregator::pool::{PoolLimits, ProofPool};
use wormhole_aggregator::private_batch::circuit::build::generate_private_batch_circuit_binaries;
use wormhole_aggregator::private_batch::circuit::circuit_logic::PrivateBatchCircuit;
use wormhole_aggregator::private_batch::prover::PrivateBatchProver;
use wormhole_aggregator::public_batch::circuit::circuit_logic::PublicBatchCircuit;
use wormhole_aggregator::public_batch::circuit::generate_public_batch_circuit_binaries;
use wormhole_aggregator::public_batch::prover::PublicBatchProver;
use wormhole_aggregator::CircuitBinsConfig;
use wormhole_circuit::inputs::ParsePrivateBatchPublicInputs;
use zk_circuits_common::circuit::{
    wormhole_private_batch_circuit_config, wormhole_public_batch_circuit_config, C, D, F,
};

type Proof = ProofWithPublicInputs<F, C, D>;
type Vd = VerifierCircuitData<F, C, D>;

pub const HUGE: usize = 1 << 40;
/// Largest leaf count a private-batch vector is synthesised for (length-derived entry points).
pub const BIG: usize = 4096;

fn tok(s: &str) -> Result<usize> {
    Ok(match s {
        "HUGE" => HUGE,
        "UMAX" => usize::MAX,
        "BIG" => BIG,
        _ => s.parse::<usize>().map_err(|e| anyhow!("bad count token {s}: {e}"))?,
    })
}

fn tok_opt(s: &str) -> Result<Option<usize>> {
    if s == "NONE" { Ok(None) } else { Ok(Some(tok(s)?)) }
}

fn valid(c: usize) -> bool {
    (1..=64).contains(&c)
}

/// the count itself when it is in range, else 1: used to keep every OTHER argument of a call
/// well-formed, so that a rejection can only be due to the count under test
fn vz(c: usize) -> usize {
    if valid(c) { c } else { 1 }
}

// ------------------------------------------------------------------ watchdog

static DEADLINE_MS: AtomicU64 = AtomicU64::new(0); // 0 = disarmed; else ms since START
static START: std::sync::OnceLock<Instant> = std::sync::OnceLock::new();

fn now_ms() -> u64 {
    START.get_or_init(Instant::now).elapsed().as_millis() as u64
}

fn arm(ms: u64) {
    DEADLINE_MS.store(now_ms() + ms, Ordering::SeqCst);
}

fn disarm() {
    DEADLINE_MS.store(0, Ordering::SeqCst);
}

fn start_watchdog(progress: PathBuf) {
    now_ms();
    std::thread::spawn(move || loop {
        std::thread::sleep(Duration::from_millis(50));
        let d = DEADLINE_MS.load(Ordering::SeqCst);
        if d != 0 && now_ms() > d {
            if let Ok(mut f) = fs::OpenOptions::new().append(true).open(&progress) {
                let _ = writeln!(f, "{}", json!({"timeout": true}));
            }
            std::process::exit(3);
        }
    });
}

// ------------------------------------------------------------------ context (valid surroundings)

struct Ctx {
    bins: PathBuf,
    scratch: PathBuf,
    leaf: Vd,
    leaf_common_bytes: Vec<u8>,
    leaf_vo_bytes: Vec<u8>,
    dummy_leaf_bytes: Vec<u8>,
    pb_common_bytes: Vec<u8>,
    pb_vo_bytes: Vec<u8>,
    dummy_pb_bytes: Vec<u8>,
    pb1: Vd,
    standin64: Option<Vd>,
    dummy_leaf: Proof,
    dummy_pb: Proof,
    serial: u64,
}

/// a circuit with `n` free public inputs (the private-batch layout length for 64 leaves): cheap to
/// build, lets shape checks pass for count 64 without building a 64-leaf aggregation circuit
fn stand_in(n: usize) -> Vd {
    let mut b = CircuitBuilder::<F, D>::new(CircuitConfig::standard_recursion_config());
    let t = b.add_virtual_targets(n);
    b.register_public_inputs(&t);
    b.build::<C>().verifier_data()
}

impl Ctx {
    fn new(art: &Path) -> Result<Ctx> {
        let bins = art.join("bins");
        let rd = |n: &str| fs::read(bins.join(n)).with_context(|| format!("artifact {n} missing (run counts-setup)"));
        let leaf = canonical_leaf_verifier_data();
        let pb_common_bytes = rd("private_batch_common.bin")?;
        let pb_vo_bytes = rd("private_batch_verifier.bin")?;
        let pb1 = load_verifier_data_from_bytes(&pb_common_bytes, &pb_vo_bytes, "private_batch")?;
        let dummy_leaf_bytes = rd("dummy_proof.bin")?;
        let dummy_pb_bytes = rd("dummy_private_batch_proof.bin")?;
        let dummy_leaf = load_dummy_proof(dummy_leaf_bytes.clone(), &leaf.common)?;
        let dummy_pb = Proof::from_bytes(dummy_pb_bytes.clone(), &pb1.common).map_err(|e| anyhow!("dummy pb proof: {e}"))?;
        let scratch = art.join(format!("scratch-{}", std::process::id()));
        let _ = fs::remove_dir_all(&scratch);
        fs::create_dir_all(&scratch)?;
        Ok(Ctx {
            leaf_common_bytes: rd("common.bin")?,
            leaf_vo_bytes: rd("verifier.bin")?,
            bins,
            scratch,
            leaf,
            dummy_leaf_bytes,
            pb_common_bytes,
            pb_vo_bytes,
            dummy_pb_bytes,
            pb1,
            standin64: None,
            dummy_leaf,
            dummy_pb,
            serial: 0,
        })
    }

    /// private-batch-shaped verifier data for `leaves` (1: the real one; 64: a stand-in of the same PI length)
    fn pbv(&mut self, leaves: usize) -> Vd {
        if leaves == 1 {
            return self.pb1.clone();
        }
        if self.standin64.is_none() || leaves != 64 {
            let v = stand_in(8 + 21 * leaves);
            if leaves != 64 {
                return v;
            }
            self.standin64 = Some(v);
        }
        self.standin64.clone().unwrap()
    }

    fn fresh(&mut self, tag: &str) -> PathBuf {
        self.serial += 1;
        self.scratch.join(format!("{tag}-{}", self.serial))
    }

    /// a directory holding copies of the named artifacts (and optionally a config.json)
    fn dir_with(&mut self, tag: &str, files: &[&str], config: Option<&str>) -> Result<PathBuf> {
        let d = self.fresh(tag);
        fs::create_dir_all(&d)?;
        for f in files {
            fs::copy(self.bins.join(f), d.join(f))?;
        }
        if let Some(c) = config {
            fs::write(d.join("config.json"), c)?;
        }
        Ok(d)
    }
}

fn num(c: usize) -> String {
    c.to_string()
}

pub fn config_text(a: usize, b: Option<usize>, key: &str) -> String {
    match b {
        None => format!("{{\"num_leaf_proofs\": {}}}", num(a)),
        Some(b) => format!("{{\"num_leaf_proofs\": {}, \"{}\": {}}}", num(a), key, num(b)),
    }
}

// ------------------------------------------------------------------ one cell

struct Prepared {
    /// runs the entry point once; true = Ok, false = Err
    call: Box<dyn FnMut() -> bool>,
    /// a path that must not exist after a rejection ("nothing was built")
    must_not_exist: Option<PathBuf>,
    /// bytes of input files the entry point is handed by path (it may read them before it sees the count)
    input_file_bytes: u64,
}

fn fsize(p: &Path) -> u64 {
    fs::metadata(p).map(|m| m.len()).unwrap_or(0)
}

fn prepare(cx: &mut Ctx, ep: &str, sa: &str, sb: &str, key: &str) -> Result<Prepared> {
    let a = if sa == "NONE" { 0 } else { tok(sa)? };
    let b_opt = tok_opt(sb)?;
    let b = b_opt.unwrap_or(0);
    let mut must_not_exist = None;
    let mut input_file_bytes = 0u64;
    let call: Box<dyn FnMut() -> bool> = match ep {
        "validate_proof_count" => Box::new(move || validate_proof_count(a, "count").is_ok()),
        "config_new" => Box::new(move || CircuitBinsConfig::new(a, b_opt).is_ok()),
        "config_validate" => Box::new(move || {
            CircuitBinsConfig { num_leaf_proofs: a, num_private_batch_proofs: b_opt }.validate().is_ok()
        }),
        "config_load" => {
            let k = if key == "legacy" { "num_layer0_proofs" } else { "num_private_batch_proofs" };
            let d = cx.dir_with("cfg", &[], Some(&config_text(a, b_opt, k)))?;
            Box::new(move || CircuitBinsConfig::load(&d).is_ok())
        }
        "priv_parser_u64" => {
            let mut v = vec![0u64; 8 + 21 * a];
            v[0] = 2 * a as u64;
            Box::new(move || PrivateBatchPublicInputs::try_from_u64_slice(&v).is_ok())
        }
        "priv_parser_felt" => {
            use plonky2::field::types::Field;
            let mut v = vec![F::ZERO; 8 + 21 * a];
            v[0] = F::from_canonical_u64(2 * a as u64);
            Box::new(move || <PrivateBatchPublicInputs as ParsePrivateBatchPublicInputs>::try_from_felts(&v).is_ok())
        }
        "num_leaves_from_pi_len" => {
            // the largest length of the form 8 + 21 k for the USIZE_MAX token
            let len = if a == usize::MAX { 8 + 21 * ((usize::MAX - 8) / 21) } else { 8 + 21 * a };
            Box::new(move || private_batch_num_leaves_from_padded_pi_len(len).is_ok())
        }
        "pub_parser" => {
            // the slice is layout-consistent with the counts it is parsed with whenever that is representable
            // (0 and 65 included), so that ONLY the count guard can reject it; huge counts fall back to a 1x1 slice
            let (va, vb) = if a <= 70 && b <= 70 { (a, b) } else { (vz(a), vz(b)) };
            let mut v = vec![0u64; 12 + 14 * va * vb];
            v[11] = 2 * (va * vb) as u64;
            Box::new(move || PublicBatchPublicInputs::try_from_u64_slice(&v, b, a).is_ok())
        }
        "priv_circuit_new" => {
            let leaf = cx.leaf.clone();
            Box::new(move || {
                PrivateBatchCircuit::new(wormhole_private_batch_circuit_config(), &leaf.common, &leaf.verifier_only, a).is_ok()
            })
        }
        "pub_circuit_new" => {
            let inner = cx.pbv(vz(a));
            let mut owned: Vec<_> = (0..3).map(|_| inner.common.clone()).collect();
            Box::new(move || {
                let common = owned.pop().expect("at most three attempts");
                PublicBatchCircuit::new(wormhole_public_batch_circuit_config(), common, &inner.verifier_only, b, a).is_ok()
            })
        }
        "add_recursive_verifiers" => {
            let leaf = cx.leaf.clone();
            let mut owned: Vec<_> = (0..3).map(|_| CircuitBuilder::<F, D>::new(CircuitConfig::standard_recursion_config())).collect();
            Box::new(move || {
                let mut builder = owned.pop().expect("at most three attempts");
                add_recursive_verifiers::<F, C, D>(&mut builder, &leaf.common, &leaf.verifier_only, a).is_ok()
            })
        }
        "priv_prover_new" => {
            let leaf = cx.leaf.clone();
            // owned arguments are prepared outside the measured call (one set per attempt)
            let mut owned: Vec<_> = (0..3).map(|_| (leaf.common.clone(), cx.dummy_leaf.clone())).collect();
            Box::new(move || {
                let (common, dummy) = owned.pop().expect("at most three attempts");
                PrivateBatchProver::new(wormhole_private_batch_circuit_config(), common, &leaf.verifier_only, a, dummy).is_ok()
            })
        }
        "priv_prover_new_from_bytes" => {
            let (c, v, d) = (cx.leaf_common_bytes.clone(), cx.leaf_vo_bytes.clone(), cx.dummy_leaf_bytes.clone());
            Box::new(move || PrivateBatchProver::new_from_bytes(&c, &v, &d, a).is_ok())
        }
        "priv_prover_new_from_files" => {
            let bins = cx.bins.clone();
            let (c, v, d) = (bins.join("common.bin"), bins.join("verifier.bin"), bins.join("dummy_proof.bin"));
            input_file_bytes = fsize(&c) + fsize(&v) + fsize(&d);
            Box::new(move || PrivateBatchProver::new_from_files(&c, &v, &d, a).is_ok())
        }
        "priv_prover_new_from_binaries_dir" => {
            let d = cx.dir_with("ppd", &["common.bin", "verifier.bin", "dummy_proof.bin"], Some(&config_text(a, None, "")))?;
            Box::new(move || PrivateBatchProver::new_from_binaries_dir(&d).is_ok())
        }
        "pub_prover_new" => {
            let inner = cx.pbv(vz(a));
            let mut owned: Vec<_> = (0..3).map(|_| (inner.common.clone(), cx.dummy_pb.clone())).collect();
            Box::new(move || {
                let (common, dummy) = owned.pop().expect("at most three attempts");
                PublicBatchProver::new(wormhole_public_batch_circuit_config(), common, &inner.verifier_only, b, a, dummy).is_ok()
            })
        }
        "pub_prover_new_from_bytes" => {
            let (c, v, d) = (cx.pb_common_bytes.clone(), cx.pb_vo_bytes.clone(), cx.dummy_pb_bytes.clone());
            Box::new(move || PublicBatchProver::new_from_bytes(&c, &v, &d, (a, b)).is_ok())
        }
        "pub_prover_new_from_files" => {
            let bins = cx.bins.clone();
            let (c, v, d) = (bins.join("private_batch_common.bin"), bins.join("private_batch_verifier.bin"), bins.join("dummy_private_batch_proof.bin"));
            input_file_bytes = fsize(&c) + fsize(&v) + fsize(&d);
            Box::new(move || PublicBatchProver::new_from_files(&c, &v, &d, (a, b)).is_ok())
        }
        "pub_prover_new_from_binaries_dir" => {
            let d = cx.dir_with("pubd", &["private_batch_common.bin", "private_batch_verifier.bin", "dummy_private_batch_proof.bin"],
                                Some(&config_text(a, b_opt, "num_private_batch_proofs")))?;
            Box::new(move || PublicBatchProver::new_from_binaries_dir(&d).is_ok())
        }
        "aggregator_with_limits" => {
            let d = cx.dir_with("agg", &["private_batch_common.bin", "private_batch_verifier.bin", "dummy_private_batch_proof.bin",
                                         "public_batch_common.bin", "public_batch_verifier.bin"],
                                Some(&config_text(a, b_opt, "num_private_batch_proofs")))?;
            Box::new(move || {
                PublicBatchAggregator::with_limits(&d, BytesDigest::default(), PoolLimits::default()).is_ok()
            })
        }
        "pool_new" => {
            let v = cx.pbv(vz(a));
            let mut owned: Vec<_> = (0..3).map(|_| v.clone()).collect();
            Box::new(move || ProofPool::new(owned.pop().expect("at most three attempts"), a, b, PoolLimits::default()).is_ok())
        }
        "gen_private_batch_bins" => {
            let d = if valid(a) {
                cx.dir_with("gpb", &["common.bin", "verifier.bin"], None)?
            } else {
                let d = cx.fresh("gpb").join("out");
                must_not_exist = Some(d.parent().unwrap().to_path_buf());
                d
            };
            Box::new(move || generate_private_batch_circuit_binaries(&d, a, false).is_ok())
        }
        "gen_public_batch_bins" => {
            let d = if valid(a) && valid(b) {
                cx.dir_with("gpub", &["private_batch_common.bin", "private_batch_verifier.bin"], None)?
            } else {
                let d = cx.fresh("gpub").join("out");
                must_not_exist = Some(d.parent().unwrap().to_path_buf());
                d
            };
            Box::new(move || generate_public_batch_circuit_binaries(&d, b, a).is_ok())
        }
        "gen_all_bins" => {
            let d = cx.fresh("gall").join("out");
            if !(valid(a) && b_opt.map_or(true, valid)) {
                must_not_exist = Some(d.parent().unwrap().to_path_buf());
            }
            Box::new(move || circuit_builder::generate_all_circuit_binaries(&d, false, a, b_opt).is_ok())
        }
        "load_canonical_pb_vd" => {
            let leaf = cx.leaf.clone();
            let (c, v) = (cx.pb_common_bytes.clone(), cx.pb_vo_bytes.clone());
            Box::new(move || load_canonical_private_batch_verifier_data(&c, &v, &leaf, a).is_ok())
        }
        "canonical_pb_vd" => {
            let leaf = cx.leaf.clone();
            Box::new(move || canonical_private_batch_verifier_data(&leaf, a).is_ok())
        }
        "canonical_pub_vd" => {
            let inner = cx.pbv(vz(a));
            Box::new(move || canonical_public_batch_verifier_data(&inner, b, a).is_ok())
        }
        _ => return Err(anyhow!("unknown entry point {ep}")),
    };
    Ok(Prepared { call, must_not_exist, input_file_bytes })
}

fn read_cases(inp: &str) -> Result<Vec<Value>> {
    fs::read_to_string(inp)?
        .lines()
        .filter(|l| !l.trim().is_empty())
        .map(|l| serde_json::from_str(l).map_err(Into::into))
        .collect()
}

/// counts-cells <in> <out> <artifacts> <skip>: appends to <out>
pub fn cells(inp: &str, outp: &str, art: &str, skip: usize) -> Result<()> {
    let cases = read_cases(inp)?;
    let out_path = PathBuf::from(outp);
    let mut f = fs::OpenOptions::new().create(true).append(true).open(&out_path)?;
    std::panic::set_hook(Box::new(|_| {}));
    start_watchdog(out_path.clone());
    arm(180_000);
    let mut cx = Ctx::new(Path::new(art))?;
    disarm();
    for (i, c) in cases.iter().enumerate().skip(skip) {
        let ep = c["ep"].as_str().unwrap_or("");
        let (sa, sb) = (c["a"].as_str().unwrap_or("1"), c["b"].as_str().unwrap_or("NONE"));
        let key = c["key"].as_str().unwrap_or("new");
        let reject = c["reject"].as_u64() == Some(1);
        writeln!(f, "{}", json!({"at": i, "ep": ep, "a": sa, "b": sb}))?;
        f.flush()?;
        arm(120_000);
        let mut p = prepare(&mut cx, ep, sa, sb, key)?;
        // a rejection must be immediate: 20 s is the ceiling at which the call is declared to have started
        // building; accepted cells (count 1) build real circuits and get minutes
        arm(if reject { 20_000 } else { 600_000 });
        let mut best: Option<(String, f64, usize)> = None;
        let tries = if reject { 3 } else { 1 };
        for _ in 0..tries {
            let before = allocated();
            let t = Instant::now();
            let r = catch_unwind(AssertUnwindSafe(|| (p.call)()));
            let ms = t.elapsed().as_secs_f64() * 1000.0;
            let al = allocated().saturating_sub(before);
            let verdict = match r {
                Ok(true) => "ok",
                Ok(false) => "err",
                Err(_) => "panic",
            }
            .to_string();
            let better = match &best {
                None => true,
                Some((_, bms, _)) => ms < *bms,
            };
            if better {
                best = Some((verdict.clone(), ms, al.min(best.as_ref().map_or(usize::MAX, |b| b.2))));
            }
            // timing noise only matters for quick rejections
            if !(verdict == "err" && ms > 20.0) {
                break;
            }
        }
        disarm();
        let (verdict, ms, al) = best.unwrap();
        let exists = p.must_not_exist.as_ref().map(|d| d.exists());
        let ifb = p.input_file_bytes;
        drop(p);
        writeln!(f, "{}", json!({"i": i, "ep": ep, "a": sa, "b": sb, "key": key, "verdict": verdict, "ms": ms, "alloc": al,
                                 "built_dir": exists, "input_file_bytes": ifb, "reject": reject}))?;
        f.flush()?;
    }
    let _ = fs::remove_dir_all(&cx.scratch);
    writeln!(f, "{}", json!({"done": true}))?;
    Ok(())
}

/// counts-setup <artifacts>: one real artifact generation for (1 leaf, 1 private batch) - the surroundings of
/// every other cell, and itself the accepted cell of `generate_all_circuit_binaries`
pub fn setup(art: &str) -> Result<()> {
    let art = PathBuf::from(art);
    let _ = fs::remove_dir_all(&art);
    fs::create_dir_all(&art)?;
    let t = Instant::now();
    let r = catch_unwind(AssertUnwindSafe(|| circuit_builder::generate_all_circuit_binaries(art.join("bins"), true, 1, Some(1))));
    let verdict = match &r {
        Ok(Ok(())) => "ok",
        Ok(Err(_)) => "err",
        Err(_) => "panic",
    };
    let detail = match &r {
        Ok(Err(e)) => format!("{e:#}"),
        _ => String::new(),
    };
    let mut sizes = serde_json::Map::new();
    if let Ok(rd) = fs::read_dir(art.join("bins")) {
        for e in rd.flatten() {
            sizes.insert(e.file_name().to_string_lossy().to_string(), json!(e.metadata().map(|m| m.len()).unwrap_or(0)));
        }
    }
    let loaded = CircuitBinsConfig::load(art.join("bins")).ok().map(|c| (c.num_leaf_proofs, c.num_private_batch_proofs));
    eprintln!("counts-setup: {verdict} in {:.1}s", t.elapsed().as_secs_f64());
    fs::write(art.join("setup.json"), json!({"verdict": verdict, "detail": detail, "s": t.elapsed().as_secs_f64(), "files": sizes,
                                             "config": loaded}).to_string())?;
    Ok(())
}

// ------------------------------------------------------------------ layout arithmetic

fn le8(v: &Value) -> Result<usize> {
    let b: Vec<u8> = v.as_array().ok_or_else(|| anyhow!("bytes"))?.iter().map(|x| x.as_u64().unwrap_or(0) as u8).collect();
    let mut a = [0u8; 8];
    for (i, x) in b.iter().enumerate() {
        if i >= 8 {
            if *x != 0 {
                return Err(anyhow!("operand above 2^64"));
            }
        } else {
            a[i] = *x;
        }
    }
    Ok(u64::from_le_bytes(a) as usize)
}

/// counts-arith <in> <out>: the real `try_pi_len` on the model's operand pairs (operands as little-endian bytes)
pub fn arith(inp: &str, outp: &str) -> Result<()> {
    let cases = read_cases(inp)?;
    let mut f = fs::File::create(outp)?;
    for c in &cases {
        let (m, n) = (le8(&c["m"])?, le8(&c["n"])?);
        let r = catch_unwind(|| public_batch_pi::try_pi_len(m, n));
        let (verdict, bytes): (&str, Vec<u8>) = match r {
            Err(_) => ("panic", vec![]),
            Ok(None) => ("overflow", vec![]),
            Ok(Some(v)) => ("some", (v as u64).to_le_bytes().to_vec()),
        };
        // the unchecked helpers, where the counts are in range (they are documented as unchecked outside it)
        let mut unchecked = Value::Null;
        if valid(m) && valid(n) {
            use wormhole_aggregator::private_batch::circuit::constants::aggregated_output;
            unchecked = json!({"pub": public_batch_pi::pi_len(m, n), "priv": aggregated_output::pi_len(n)});
        }
        writeln!(f, "{}", json!({"verdict": verdict, "value": bytes, "unchecked": unchecked, "m": m.to_string(), "n": n.to_string()}))?;
    }
    Ok(())
}

// ------------------------------------------------------------------ config file round trip

/// counts-config <in> <out> <scratch>: cases {a, b|"NONE", key: "save"|"new"|"legacy"}
///   save   : CircuitBinsConfig::new(a,b).save(dir) then load(dir)
///   new    : hand-written file with the current key, then load
///   legacy : hand-written file with the legacy key, then load
pub fn config(inp: &str, outp: &str, scratch: &str) -> Result<()> {
    let cases = read_cases(inp)?;
    let mut f = fs::File::create(outp)?;
    let dir = PathBuf::from(scratch);
    let _ = fs::remove_dir_all(&dir);
    fs::create_dir_all(&dir)?;
    std::panic::set_hook(Box::new(|_| {}));
    for c in &cases {
        let a = tok(c["a"].as_str().unwrap_or("1"))?;
        let b = tok_opt(c["b"].as_str().unwrap_or("NONE"))?;
        let key = c["key"].as_str().unwrap_or("save");
        let _ = fs::remove_file(dir.join("config.json"));
        let r = catch_unwind(AssertUnwindSafe(|| -> Result<(usize, Option<usize>)> {
            match key {
                "save" => CircuitBinsConfig::new(a, b)?.save(&dir)?,
                "legacy" => fs::write(dir.join("config.json"), config_text(a, b, "num_layer0_proofs"))?,
                _ => fs::write(dir.join("config.json"), config_text(a, b, "num_private_batch_proofs"))?,
            }
            let l = CircuitBinsConfig::load(&dir)?;
            Ok((l.num_leaf_proofs, l.num_private_batch_proofs))
        }));
        let text = fs::read_to_string(dir.join("config.json")).unwrap_or_default();
        let o = match r {
            Err(_) => json!({"verdict": "panic"}),
            Ok(Err(e)) => json!({"verdict": "err", "detail": format!("{e:#}")}),
            Ok(Ok((la, lb))) => json!({"verdict": "ok", "a": la.to_string(), "b": lb.map(|x| x.to_string()).unwrap_or("NONE".into()),
                                        "has_current_key": text.contains("\"num_private_batch_proofs\"")}),
        };
        writeln!(f, "{o}")?;
    }
    let _ = fs::remove_dir_all(&dir);
    Ok(())
}
