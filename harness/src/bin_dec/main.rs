//! Conformance harness binary `vh-dec`: C24 (public-input parsers, Parsers.tla) and C29 (per-layer
//! proof-count bounds, Counts.tla).  Subcommands read ndjson cases and write ndjson observations; the
//! verdict is decided in Python against the model's expectation.
mod alloc;
mod counts;
mod parsers;

use anyhow::{anyhow, Result};

#[global_allocator]
static GLOBAL: alloc::Counting = alloc::Counting;

pub fn seed() -> u64 {
    std::env::var("VERIF_SEED").ok().and_then(|s| s.parse().ok()).unwrap_or(1)
}

fn main() -> Result<()> {
    let args: Vec<String> = std::env::args().collect();
    let cmd = args.get(1).map(|s| s.as_str()).unwrap_or("");
    let need = |n: usize| -> Result<()> {
        if args.len() < 2 + n { Err(anyhow!("{cmd}: expected {n} arguments")) } else { Ok(()) }
    };
    match cmd {
        "parsers-replay" => {
            need(2)?;
            parsers::replay(&args[2], &args[3], seed())
        }
        "parsers-roundtrip" => {
            need(2)?;
            parsers::roundtrip(&args[2], &args[3], seed())
        }
        "parsers-record" => {
            need(2)?;
            parsers::record(&args[2], &args[3], seed())
        }
        "counts-setup" => {
            need(1)?;
            counts::setup(&args[2])
        }
        "counts-cells" => {
            need(4)?;
            counts::cells(&args[2], &args[3], &args[4], args[5].parse()?)
        }
        "counts-arith" => {
            need(2)?;
            counts::arith(&args[2], &args[3])
        }
        "counts-config" => {
            need(3)?;
            counts::config(&args[2], &args[3], &args[4])
        }
        _ => Err(anyhow!("unknown subcommand {cmd}")),
    }
}
