//! C24: Parsers.tla's input cases synthesised as real vectors and pushed through the five real
//! parsers under catch_unwind; random valid structures round-tripped; random vectors recorded for
//! classification by ParsersTrace.tla.  Observations only - the verdict is decided in Python / TLC.
use anyhow::{anyhow, Result};
use plonky2::field::goldilocks_field::GoldilocksField;
use plonky2::field::types::Field;
use qp_wormhole_inputs::{
    BlockData, BytesDigest, PrivateBatchPublicInputs, PublicBatchPublicInputs, PublicCircuitInputs, PublicInputsByAccount,
};
use rand::rngs::StdRng;
use rand::{Rng, SeedableRng};
use serde_json::{json, Value};
use std::fs;
use std::io::Write;
use std::panic::{catch_unwind, AssertUnwindSafe};
use wormhole_circuit::inputs::{ParsePrivateBatchPublicInputs, ParsePublicInputs};

const P: u64 = 0xFFFF_FFFF_0000_0001;
const HUGE: usize = 1 << 40;

fn rng_for(seed: u64, idx: u64) -> StdRng {
    StdRng::seed_from_u64(seed.wrapping_mul(1_000_003).wrapping_add(idx).wrapping_mul(0x9E37_79B9_7F4A_7C15))
}

// ------------------------------------------------------------------ structures <-> vectors
// (the documented layouts, written independently of the parsers)

fn digest(l: [u64; 4]) -> BytesDigest {
    let mut b = [0u8; 32];
    for (i, x) in l.iter().enumerate() {
        b[i * 8..(i + 1) * 8].copy_from_slice(&x.to_le_bytes());
    }
    BytesDigest::try_from(b).expect("limbs are canonical")
}

fn limbs(d: &BytesDigest) -> [u64; 4] {
    let b: &[u8; 32] = d;
    core::array::from_fn(|i| u64::from_le_bytes(b[i * 8..(i + 1) * 8].try_into().unwrap()))
}

/// small: every value below 2^31 (valid in every role); otherwise the full ranges with boundary values
struct Gen<'a> {
    r: &'a mut StdRng,
    small: bool,
}

impl Gen<'_> {
    fn u32v(&mut self) -> u32 {
        if self.small {
            return self.r.gen_range(0..1u32 << 31);
        }
        match self.r.gen_range(0..8) {
            0 => 0,
            1 => u32::MAX,
            2 => 1,
            _ => self.r.gen(),
        }
    }
    fn limb(&mut self) -> u64 {
        if self.small {
            return self.r.gen_range(0..1u64 << 31);
        }
        match self.r.gen_range(0..10) {
            0 => 0,
            1 => P - 1,
            2 => 1 << 32,
            3 => u32::MAX as u64,
            4 => (1 << 32) - 1 + self.r.gen_range(0..3),
            _ => self.r.gen_range(0..P),
        }
    }
    fn dig(&mut self) -> BytesDigest {
        digest([self.limb(), self.limb(), self.limb(), self.limb()])
    }
    fn leaf(&mut self) -> PublicCircuitInputs {
        PublicCircuitInputs {
            asset_id: self.u32v(),
            output_amount_1: self.u32v(),
            output_amount_2: self.u32v(),
            volume_fee_bps: self.u32v(),
            nullifier: self.dig(),
            exit_account_1: self.dig(),
            exit_account_2: self.dig(),
            block_hash: self.dig(),
            block_number: self.u32v(),
        }
    }
    fn accounts(&mut self, k: usize) -> Vec<PublicInputsByAccount> {
        (0..k).map(|_| PublicInputsByAccount { summed_output_amount: self.u32v(), exit_account: self.dig() }).collect()
    }
    fn privb(&mut self, n: usize) -> PrivateBatchPublicInputs {
        PrivateBatchPublicInputs {
            num_exit_slots: (2 * n) as u32,
            asset_id: self.u32v(),
            volume_fee_bps: self.u32v(),
            block_data: BlockData { block_hash: self.dig(), block_number: self.u32v() },
            account_data: self.accounts(2 * n),
            nullifiers: (0..n).map(|_| self.dig()).collect(),
        }
    }
    fn pubb(&mut self, m: usize, n: usize) -> PublicBatchPublicInputs {
        PublicBatchPublicInputs {
            aggregator_address: self.dig(),
            asset_id: self.u32v(),
            volume_fee_bps: self.u32v(),
            block_data: BlockData { block_hash: self.dig(), block_number: self.u32v() },
            total_exit_slots: (2 * m * n) as u32,
            account_data: self.accounts(2 * m * n),
            nullifiers: (0..m * n).map(|_| self.dig()).collect(),
        }
    }
}

fn ser_leaf(s: &PublicCircuitInputs) -> Vec<u64> {
    let mut v = vec![s.asset_id as u64, s.output_amount_1 as u64, s.output_amount_2 as u64, s.volume_fee_bps as u64];
    v.extend(limbs(&s.nullifier));
    v.extend(limbs(&s.exit_account_1));
    v.extend(limbs(&s.exit_account_2));
    v.extend(limbs(&s.block_hash));
    v.push(s.block_number as u64);
    v
}

/// content only (8 + 14 n values); the caller pads to 8 + 21 n
fn ser_priv_content(s: &PrivateBatchPublicInputs) -> Vec<u64> {
    let mut v = vec![s.num_exit_slots as u64, s.asset_id as u64, s.volume_fee_bps as u64];
    v.extend(limbs(&s.block_data.block_hash));
    v.push(s.block_data.block_number as u64);
    for a in &s.account_data {
        v.push(a.summed_output_amount as u64);
        v.extend(limbs(&a.exit_account));
    }
    for n in &s.nullifiers {
        v.extend(limbs(n));
    }
    v
}

fn ser_priv(s: &PrivateBatchPublicInputs) -> Vec<u64> {
    let mut v = ser_priv_content(s);
    v.resize(8 + 21 * s.nullifiers.len(), 0);
    v
}

fn ser_pub(s: &PublicBatchPublicInputs) -> Vec<u64> {
    let mut v = limbs(&s.aggregator_address).to_vec();
    v.push(s.asset_id as u64);
    v.push(s.volume_fee_bps as u64);
    v.extend(limbs(&s.block_data.block_hash));
    v.push(s.block_data.block_number as u64);
    v.push(s.total_exit_slots as u64);
    for a in &s.account_data {
        v.push(a.summed_output_amount as u64);
        v.extend(limbs(&a.exit_account));
    }
    for n in &s.nullifiers {
        v.extend(limbs(n));
    }
    v
}

// ------------------------------------------------------------------ running the real parsers

#[derive(Debug, PartialEq)]
enum Parsed {
    Leaf(PublicCircuitInputs),
    Priv(PrivateBatchPublicInputs),
    Pub(PublicBatchPublicInputs),
}

enum Obs {
    Ok(Parsed),
    Err,
    Panic,
}

impl Obs {
    fn tag(&self) -> &'static str {
        match self {
            Obs::Ok(_) => "ok",
            Obs::Err => "err",
            Obs::Panic => "panic",
        }
    }
}

fn obs<T>(r: std::thread::Result<anyhow::Result<T>>, wrap: impl Fn(T) -> Parsed) -> Obs {
    match r {
        Err(_) => Obs::Panic,
        Ok(Err(_)) => Obs::Err,
        Ok(Ok(x)) => Obs::Ok(wrap(x)),
    }
}

fn run_u64(p: &str, v: &[u64], m: usize, n: usize) -> Obs {
    match p {
        "leaf" => obs(catch_unwind(AssertUnwindSafe(|| PublicCircuitInputs::try_from_u64_slice(v))), Parsed::Leaf),
        "priv" => obs(catch_unwind(AssertUnwindSafe(|| PrivateBatchPublicInputs::try_from_u64_slice(v))), Parsed::Priv),
        _ => obs(catch_unwind(AssertUnwindSafe(|| PublicBatchPublicInputs::try_from_u64_slice(v, m, n))), Parsed::Pub),
    }
}

fn run_felt(p: &str, v: &[GoldilocksField]) -> Obs {
    match p {
        "leaf" => obs(catch_unwind(AssertUnwindSafe(|| <PublicCircuitInputs as ParsePublicInputs>::try_from_felts(v))), Parsed::Leaf),
        _ => obs(
            catch_unwind(AssertUnwindSafe(|| <PrivateBatchPublicInputs as ParsePrivateBatchPublicInputs>::try_from_felts(v))),
            Parsed::Priv,
        ),
    }
}

/// what a parsed structure serialises back to (content only)
fn reser(x: &Parsed) -> Vec<u64> {
    match x {
        Parsed::Leaf(s) => ser_leaf(s),
        Parsed::Priv(s) => ser_priv_content(s),
        Parsed::Pub(s) => ser_pub(s),
    }
}

// ------------------------------------------------------------------ a case -> a vector

fn tok(s: &str) -> usize {
    match s {
        "HUGE" => HUGE,
        "UMAX" => usize::MAX,
        _ => s.parse().unwrap_or(0),
    }
}

fn class_value(c: &str, base: u64) -> Result<u64> {
    Ok(match c {
        "ok" => base,
        "zero" => 0,
        "u32max" => u32::MAX as u64,
        "two32" => (base & 0xFFFF_FFFF) + (1 << 32),
        "pm1" => P - 1,
        "p" => P,
        "umax" => u64::MAX,
        "nc" => (base & 0x7FFF_FFFF) + P,
        _ => return Err(anyhow!("unknown value class {c}")),
    })
}

/// raw vector (for a felt case: the raw representations) of a case
fn synth(c: &Value, seed: u64) -> Result<Vec<u64>> {
    let p = c["p"].as_str().unwrap_or("");
    let g = |k: &str| c[k].as_u64().unwrap_or(0) as usize;
    let len = g("len");
    let mut r = rng_for(seed, (g("m0") * 131 + g("n0")) as u64);
    let mut gen = Gen { r: &mut r, small: true };
    let mut v = match p {
        "leaf" => ser_leaf(&gen.leaf()),
        "priv" => {
            let mut v = ser_priv(&gen.privb(g("n0")));
            // the padding of the baseline is zero, as the circuit writes it
            v.resize(8 + 21 * g("n0"), 0);
            v
        }
        "pub" => ser_pub(&gen.pubb(g("m0"), g("n0"))),
        _ => return Err(anyhow!("unknown layout {p}")),
    };
    while v.len() < len {
        v.push(gen.u32v() as u64);
    }
    v.truncate(len);
    let hp = match p {
        "priv" => Some(0usize),
        "pub" => Some(11usize),
        _ => None,
    };
    if let Some(hp) = hp {
        if hp < len {
            let n = c["hdr"]["n"].as_u64().ok_or_else(|| anyhow!("hdr.n"))?;
            v[hp] = match c["hdr"]["c"].as_str().unwrap_or("") {
                "num" => n,
                "nc" => n + P,
                "two32" => n + (1 << 32),
                k => class_value(k, n)?,
            };
        }
    }
    for o in c["ov"].as_array().map(|a| a.as_slice()).unwrap_or(&[]) {
        let pos = o["pos"].as_u64().unwrap_or(0) as usize;
        if pos < len {
            if Some(pos) == hp {
                return Err(anyhow!("override at the header position"));
            }
            v[pos] = class_value(o["c"].as_str().unwrap_or(""), v[pos])?;
        }
    }
    Ok(v)
}

fn canon(x: u64) -> u64 {
    if x >= P { x - P } else { x }
}

/// runs the applicable parsers on one case; returns the observation record
fn observe(c: &Value, seed: u64) -> Result<Value> {
    let p = c["p"].as_str().unwrap_or("");
    let dom = c["dom"].as_str().unwrap_or("u64");
    let raw = synth(c, seed)?;
    let (m, n) = (tok(c["m"].as_str().unwrap_or("0")), tok(c["n"].as_str().unwrap_or("0")));
    let (u64_in, felt_in): (Vec<u64>, Option<Vec<GoldilocksField>>) = if dom == "felt" {
        (raw.iter().map(|x| canon(*x)).collect(), Some(raw.iter().map(|x| GoldilocksField(*x)).collect()))
    } else if p != "pub" && raw.iter().all(|x| *x < P) {
        (raw.clone(), Some(raw.iter().map(|x| GoldilocksField::from_canonical_u64(*x)).collect()))
    } else {
        (raw.clone(), None)
    };
    let ou = run_u64(p, &u64_in, m, n);
    let of = if p == "pub" { None } else { felt_in.as_ref().map(|f| run_felt(p, f)) };
    // accepted: the parsed structure must serialise back to the (canonical image of the) input
    let image: Vec<u64> = u64_in.clone();
    let content = |x: &Parsed| -> bool {
        let s = reser(x);
        s.len() <= image.len() && s[..] == image[..s.len()]
    };
    let reser_u = if let Obs::Ok(x) = &ou { Some(content(x)) } else { None };
    let reser_f = if let Some(Obs::Ok(x)) = &of { Some(content(x)) } else { None };
    let agree = match (&ou, &of) {
        (Obs::Ok(a), Some(Obs::Ok(b))) => Some(a == b),
        _ => None,
    };
    Ok(json!({"u64": ou.tag(), "felt": of.as_ref().map(|o| o.tag()).unwrap_or("na"), "agree": agree,
              "reser_u64": reser_u, "reser_felt": reser_f}))
}

fn read_cases(inp: &str) -> Result<Vec<Value>> {
    fs::read_to_string(inp)?
        .lines()
        .filter(|l| !l.trim().is_empty())
        .map(|l| serde_json::from_str(l).map_err(Into::into))
        .collect()
}

/// parsers-replay <in> <out>
pub fn replay(inp: &str, outp: &str, seed: u64) -> Result<()> {
    std::panic::set_hook(Box::new(|_| {}));
    let cases = read_cases(inp)?;
    let mut f = std::io::BufWriter::new(fs::File::create(outp)?);
    for c in &cases {
        let o = match observe(c, seed) {
            Ok(o) => o,
            Err(e) => json!({"tool_error": e.to_string()}),
        };
        writeln!(f, "{o}")?;
    }
    Ok(())
}

// ------------------------------------------------------------------ round trip of random valid structures

fn with_noncanonical(v: &[u64], r: &mut StdRng) -> Vec<GoldilocksField> {
    // the same field elements, some written as value + p (possible for values below 2^32 - 1)
    v.iter()
        .map(|x| if *x < u32::MAX as u64 && r.gen_range(0..3) == 0 { GoldilocksField(*x + P) } else { GoldilocksField::from_canonical_u64(*x) })
        .collect()
}

fn rt_one(seed: u64, idx: u64) -> (String, Option<String>) {
    let mut r = rng_for(seed, 7_000_000 + idx);
    let kind = idx % 3;
    let pick_n = |r: &mut StdRng| -> usize {
        match r.gen_range(0..6) {
            0 => 1,
            1 => 64,
            2 => 63,
            3 => 2,
            _ => r.gen_range(1..=64),
        }
    };
    match kind {
        0 => {
            let s = Gen { r: &mut r, small: false }.leaf();
            let v = ser_leaf(&s);
            let want = Parsed::Leaf(s);
            let felts = with_noncanonical(&v, &mut r);
            let mut why = None;
            if !matches!(run_u64("leaf", &v, 0, 0), Obs::Ok(ref x) if *x == want) {
                why = Some("leaf u64 parser does not return the serialised structure".to_string());
            } else if !matches!(run_felt("leaf", &felts), Obs::Ok(ref x) if *x == want) {
                why = Some("leaf felt parser does not return the serialised structure".to_string());
            }
            ("leaf".into(), why)
        }
        1 => {
            let n = pick_n(&mut r);
            let s = Gen { r: &mut r, small: false }.privb(n);
            let mut v = ser_priv(&s);
            // padding content is not part of the structure
            if r.gen_range(0..2) == 0 {
                for x in v.iter_mut().skip(8 + 14 * n) {
                    *x = r.gen_range(0..P);
                }
            }
            let want = Parsed::Priv(s);
            let felts = with_noncanonical(&v, &mut r);
            let mut why = None;
            if !matches!(run_u64("priv", &v, 0, 0), Obs::Ok(ref x) if *x == want) {
                why = Some(format!("private-batch u64 parser does not return the serialised structure (n={n})"));
            } else if !matches!(run_felt("priv", &felts), Obs::Ok(ref x) if *x == want) {
                why = Some(format!("private-batch felt parser does not return the serialised structure (n={n})"));
            }
            (format!("priv n={n}"), why)
        }
        _ => {
            let (m, n) = match r.gen_range(0..8) {
                0 => (64, 64),
                1 => (1, 64),
                2 => (64, 1),
                _ => (r.gen_range(1..=8), r.gen_range(1..=8)),
            };
            let s = Gen { r: &mut r, small: false }.pubb(m, n);
            let v = ser_pub(&s);
            let want = Parsed::Pub(s);
            let mut why = None;
            if !matches!(run_u64("pub", &v, m, n), Obs::Ok(ref x) if *x == want) {
                why = Some(format!("public-batch parser does not return the serialised structure (m={m}, n={n})"));
            }
            (format!("pub m={m} n={n}"), why)
        }
    }
}

/// parsers-roundtrip <count|@idx> <out>: Parse(Serialize(s)) = s on random valid structures
pub fn roundtrip(spec: &str, outp: &str, seed: u64) -> Result<()> {
    std::panic::set_hook(Box::new(|_| {}));
    let mut f = fs::File::create(outp)?;
    let idxs: Vec<u64> = if let Some(i) = spec.strip_prefix('@') { vec![i.parse()?] } else { (0..spec.parse::<u64>()?).collect() };
    let mut bad = 0;
    for i in &idxs {
        let (what, why) = rt_one(seed, *i);
        if let Some(w) = why {
            bad += 1;
            if bad <= 20 {
                writeln!(f, "{}", json!({"bad": true, "idx": i, "seed": seed, "what": what, "why": w}))?;
            }
        }
    }
    writeln!(f, "{}", json!({"summary": true, "structures": idxs.len(), "mismatches": bad}))?;
    Ok(())
}

// ------------------------------------------------------------------ random vectors, recorded for ParsersTrace.tla

fn pick<'a>(r: &mut StdRng, xs: &[&'a str]) -> &'a str {
    xs[r.gen_range(0..xs.len())]
}

fn random_case(seed: u64, idx: u64) -> Value {
    let mut r = rng_for(seed, 9_000_000 + idx);
    let p = pick(&mut r, &["leaf", "priv", "priv", "pub", "pub"]);
    let dom = if p == "pub" { "u64" } else { pick(&mut r, &["u64", "felt"]) };
    let classes: &[&str] =
        if dom == "u64" { &["zero", "u32max", "two32", "pm1", "p", "umax"] } else { &["zero", "u32max", "two32", "pm1", "nc"] };
    let count = |r: &mut StdRng| -> usize {
        match r.gen_range(0..10) {
            0 => 0,
            1 => 65,
            2 => 64,
            3 => 66,
            _ => r.gen_range(1..=64),
        }
    };
    let (m0, n0, base, right) = match p {
        "leaf" => (0, 0, 21usize, 0u64),
        "priv" => {
            let n = count(&mut r);
            (0, n, 8 + 21 * n, 2 * n as u64)
        }
        _ => {
            let (m, n) = if r.gen_range(0..6) == 0 { (r.gen_range(1..=64), r.gen_range(1..=3)) } else { (r.gen_range(1..=6), r.gen_range(1..=6)) };
            (m, n, 12 + 14 * m * n, 2 * (m * n) as u64)
        }
    };
    let deltas: [i64; 9] = [-1, 1, -21, 21, -14, 14, -5, 4, 7];
    let len = if r.gen_range(0..10) < 7 {
        base
    } else {
        (base as i64 + deltas[r.gen_range(0..deltas.len())] * r.gen_range(1..=2)).max(0) as usize
    };
    let hdr = if p == "leaf" || r.gen_range(0..4) != 0 {
        json!({"c": "num", "n": right})
    } else {
        match r.gen_range(0..6) {
            0 => json!({"c": "num", "n": right + 1}),
            1 => json!({"c": "num", "n": right.saturating_sub(1)}),
            2 => json!({"c": "num", "n": r.gen_range(0..400u64)}),
            3 => json!({"c": "num", "n": right + 2}),
            _ => {
                let k = pick(&mut r, if dom == "u64" { &["two32", "pm1", "p", "umax"] } else { &["two32", "pm1", "nc", "nc"] });
                json!({"c": k, "n": if r.gen_range(0..2) == 0 { right } else { right + 2 }})
            }
        }
    };
    let hp = match p {
        "priv" => 0usize,
        "pub" => 11,
        _ => usize::MAX,
    };
    let mut ov: Vec<Value> = vec![];
    let k = [0usize, 0, 1, 1, 1, 2, 3][r.gen_range(0..7)];
    if len > 0 {
        let mut used = std::collections::BTreeSet::new();
        for _ in 0..k {
            // bias towards the content (the padding of a private batch is a third of the vector)
            let pos = if r.gen_range(0..3) == 0 { r.gen_range(0..len.min(12)) } else { r.gen_range(0..len) };
            if pos != hp && used.insert(pos) {
                ov.push(json!({"pos": pos, "c": pick(&mut r, classes)}));
            }
        }
    }
    // arguments of the public-batch parser: mostly the dimensions, sometimes other counts / tokens
    let (m, n) = if p != "pub" {
        ("0".to_string(), "0".to_string())
    } else if r.gen_range(0..5) != 0 {
        (m0.to_string(), n0.to_string())
    } else {
        let t = |r: &mut StdRng, d: usize| -> String {
            match r.gen_range(0..7) {
                0 => "0".into(),
                1 => "65".into(),
                2 => "HUGE".into(),
                3 => "UMAX".into(),
                4 => r.gen_range(1..=64usize).to_string(),
                _ => d.to_string(),
            }
        };
        (t(&mut r, m0), t(&mut r, n0))
    };
    // swapped dimensions describe the same layout
    let (m, n) = if p == "pub" && r.gen_range(0..8) == 0 { (n0.to_string(), m0.to_string()) } else { (m, n) };
    json!({"p": p, "dom": dom, "len": len, "hdr": hdr, "ov": ov, "m": m, "n": n, "m0": m0, "n0": n0})
}

fn tok_int(s: &str) -> u64 {
    match s {
        "HUGE" => 2_000_000_001,
        "UMAX" => 2_000_000_002,
        _ => s.parse().unwrap_or(0),
    }
}

/// parsers-record <count|@idx> <out>: random vectors through the real parsers, one record per vector
pub fn record(spec: &str, outp: &str, seed: u64) -> Result<()> {
    std::panic::set_hook(Box::new(|_| {}));
    let mut f = std::io::BufWriter::new(fs::File::create(outp)?);
    let idxs: Vec<u64> = if let Some(i) = spec.strip_prefix('@') { vec![i.parse()?] } else { (0..spec.parse::<u64>()?).collect() };
    for i in idxs {
        let mut c = random_case(seed, i);
        let o = observe(&c, seed)?;
        let (mi, ni) = (tok_int(c["m"].as_str().unwrap_or("0")), tok_int(c["n"].as_str().unwrap_or("0")));
        let m = c.as_object_mut().unwrap();
        m.insert("idx".into(), json!(i));
        m.insert("mi".into(), json!(mi));
        m.insert("ni".into(), json!(ni));
        m.insert("obs_u64".into(), o["u64"].clone());
        m.insert("obs_felt".into(), o["felt"].clone());
        m.insert("obs_agree".into(), json!(o["agree"].as_bool().unwrap_or(true)));
        m.insert("obs_reser".into(), json!(o["reser_u64"].as_bool().unwrap_or(true) && o["reser_felt"].as_bool().unwrap_or(true)));
        writeln!(f, "{c}")?;
    }
    Ok(())
}
