//! Value plumbing shared by replay and record: 64-bit values as four 16-bit limbs (most significant
//! first, the representation Encoding.tla uses), u128 as eight, bytes as small integers; and the
//! Ok / Err / panic observation of a call into /repo (never the error text).
use serde_json::{json, Value};
use std::panic::{catch_unwind, AssertUnwindSafe};

pub const P: u64 = 0xFFFF_FFFF_0000_0001;

pub fn limbs64(x: u64) -> Value {
    json!([(x >> 48) & 0xffff, (x >> 32) & 0xffff, (x >> 16) & 0xffff, x & 0xffff])
}

pub fn limbs128(x: u128) -> Value {
    Value::Array((0..8).map(|i| json!(((x >> (16 * (7 - i))) & 0xffff) as u64)).collect())
}

pub fn u64_of(v: &Value) -> u64 {
    v.as_array().expect("limb tuple").iter().fold(0u64, |a, l| (a << 16) | (l.as_u64().expect("limb") & 0xffff))
}

pub fn u128_of(v: &Value) -> u128 {
    v.as_array().expect("limb tuple").iter().fold(0u128, |a, l| (a << 16) | (l.as_u64().expect("limb") as u128 & 0xffff))
}

pub fn bytes_of(v: &Value) -> Vec<u8> {
    v.as_array().expect("byte array").iter().map(|b| b.as_u64().expect("byte") as u8).collect()
}

pub fn bytes_json(b: &[u8]) -> Value {
    Value::Array(b.iter().map(|x| json!(*x)).collect())
}

pub fn seq64(xs: &[u64]) -> Value {
    Value::Array(xs.iter().map(|x| limbs64(*x)).collect())
}

pub fn seq64_of(v: &Value) -> Vec<u64> {
    v.as_array().expect("array of limb tuples").iter().map(u64_of).collect()
}

/// 32 bytes = four little-endian u64 limbs in memory order
pub fn digest_limbs(b: &[u8; 32]) -> [u64; 4] {
    core::array::from_fn(|i| u64::from_le_bytes(b[i * 8..i * 8 + 8].try_into().unwrap()))
}

pub fn digest_bytes(l: &[u64]) -> [u8; 32] {
    let mut b = [0u8; 32];
    for (i, x) in l.iter().enumerate().take(4) {
        b[i * 8..i * 8 + 8].copy_from_slice(&x.to_le_bytes());
    }
    b
}

/// a 32-byte hash as 16 limbs (flat)
pub fn hash_limbs(b: &[u8; 32]) -> Value {
    let mut out = vec![];
    for l in digest_limbs(b) {
        out.extend(limbs64(l).as_array().unwrap().iter().cloned());
    }
    Value::Array(out)
}

pub enum Obs<T> {
    Ok(T),
    Err,
    Panic,
}

impl<T> Obs<T> {
    pub fn tag(&self) -> &'static str {
        match self {
            Obs::Ok(_) => "ok",
            Obs::Err => "err",
            Obs::Panic => "panic",
        }
    }
    pub fn ok(&self) -> Option<&T> {
        match self {
            Obs::Ok(v) => Some(v),
            _ => None,
        }
    }
}

thread_local! {
    /// > 0 while code under test runs: its panics are data and stay silent, the harness's own are printed
    pub static IN_REPO: std::cell::Cell<u32> = const { std::cell::Cell::new(0) };
}

fn guarded<T>(f: impl FnOnce() -> T) -> std::thread::Result<T> {
    IN_REPO.with(|c| c.set(c.get() + 1));
    let r = catch_unwind(AssertUnwindSafe(f));
    IN_REPO.with(|c| c.set(c.get() - 1));
    r
}

/// every call into /repo goes through here
pub fn observe<T, E>(f: impl FnOnce() -> Result<T, E>) -> Obs<T> {
    match guarded(f) {
        Err(_) => Obs::Panic,
        Ok(Err(_)) => Obs::Err,
        Ok(Ok(v)) => Obs::Ok(v),
    }
}

/// infallible signature: Ok or panic
pub fn observe_total<T>(f: impl FnOnce() -> T) -> Obs<T> {
    match guarded(f) {
        Err(_) => Obs::Panic,
        Ok(v) => Obs::Ok(v),
    }
}
