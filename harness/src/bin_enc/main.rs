//! Conformance harness binary: C25 encodings, C26 compact node hashing.
//!
//!   vh-enc replay <in.ndjson> <out.ndjson>     one input description per line (cases printed by TLC from
//!                                              MC_Encoding, or the input part of a recorded event) ->
//!                                              one event per line: input + what the real code returned
//!   vh-enc record <out.ndjson> <n> c25|c26     seeded random / boundary inputs at real sizes, run the same
//!                                              way; the events are validated by EncodingTrace.tla
//!
//! Observations only (Ok(value) / Err / panic, never error text); the verdict is decided by the model.
mod limbs;
mod record;
mod run;

use anyhow::{anyhow, Result};
use rayon::prelude::*;
use serde_json::Value;
use std::fs;
use std::io::Write;

pub fn seed() -> u64 {
    std::env::var("VERIF_SEED").ok().and_then(|s| s.parse().ok()).unwrap_or(1)
}

fn run_all(inputs: &[Value], outp: &str) -> Result<()> {
    // big cases allocate a few MiB each: keep them sequential-ish by chunking
    let events: Vec<Value> = inputs.par_iter().with_max_len(8).map(run::run).collect();
    let mut f = std::io::BufWriter::new(fs::File::create(outp)?);
    for e in &events {
        if let Some(t) = e.get("tool_error") {
            return Err(anyhow!("{}", t));
        }
        writeln!(f, "{}", e)?;
    }
    f.flush()?;
    Ok(())
}

fn main() -> Result<()> {
    // panics of the code under test are data, not noise
    std::panic::set_hook(Box::new(|info| {
        if limbs::IN_REPO.with(|c| c.get()) == 0 {
            eprintln!("vh-enc: harness panic: {info}");
        }
    }));
    let args: Vec<String> = std::env::args().collect();
    let cmd = args.get(1).map(|s| s.as_str()).unwrap_or("");
    match cmd {
        "replay" => {
            let inputs: Vec<Value> = fs::read_to_string(&args[2])?
                .lines()
                .filter(|l| !l.trim().is_empty())
                .map(serde_json::from_str)
                .collect::<Result<_, _>>()?;
            run_all(&inputs, &args[3])
        }
        "record" => {
            let n: usize = args[3].parse()?;
            let inputs = record::inputs(&args[4], n);
            if inputs.is_empty() {
                return Err(anyhow!("nothing to record for {}", args[4]));
            }
            run_all(&inputs, &args[2])
        }
        _ => Err(anyhow!("unknown subcommand {cmd}")),
    }
}
