//! Seeded random and boundary inputs at REAL sizes.  Only inputs are generated here; `run::run`
//! executes the real functions and logs input + output as one ndjson event for EncodingTrace.tla.
use crate::limbs::*;
use crate::seed;
use rand::rngs::StdRng;
use rand::seq::SliceRandom;
use rand::{Rng, SeedableRng};
use serde_json::{json, Value};

pub const CAP: u64 = 1 << 20; // MAX_SERIALIZED_BYTES (the spec's Cap; the model replay pins the real constant to it)
const MAXF: u64 = (CAP + 4) / 4;
const D: u128 = 10_000_000_000;

fn some_bytes(r: &mut StdRng, len: usize) -> Vec<u8> {
    (0..len)
        .map(|_| if r.gen_bool(0.5) { r.gen::<u8>() } else { *[0u8, 1, 255, 0x80, 2].choose(r).unwrap() })
        .collect()
}

/// 64-bit values around 2^32 and p
fn some_u64(r: &mut StdRng) -> u64 {
    match r.gen_range(0..16) {
        0 => 0,
        1 => 1,
        2 => 0xFFFF_FFFF,
        3 => 1 << 32,
        4 => (1 << 32) + 1,
        5 => P - 1,
        6 => P,
        7 => P + 1,
        8 => u64::MAX,
        9 => P - 2,
        10 => P + r.gen_range(0..0xFFFF_FFFEu64),   // anywhere in [p, 2^64)
        11 => 0xFFFF_FFFF_0000_0000 - r.gen_range(0..1u64 << 20),
        12 => r.gen::<u32>() as u64,
        13 => r.gen_range(0..P),
        _ => r.gen::<u64>(),
    }
}

fn canonical_u64(r: &mut StdRng) -> u64 {
    match r.gen_range(0..8) {
        0 => 0,
        1 => P - 1,
        2 => 1,
        3 => 256,
        4 => 0xFFFF_FFFF,
        5 => 0xFFFF_FFFF_0000_0000 - r.gen_range(0..4u64),
        _ => r.gen_range(0..P),
    }
}

fn edge_inputs(r: &mut StdRng, n: usize, out: &mut Vec<Value>) {
    for len in 0..=17usize {
        for fill in [0u8, 1, 255] {
            out.push(json!({"k": "edge", "x": bytes_json(&vec![fill; len])}));
        }
    }
    for _ in 0..n {
        let len = if r.gen_bool(0.7) { r.gen_range(0..=20) } else { r.gen_range(0..=70) };
        out.push(json!({"k": "edge", "x": bytes_json(&some_bytes(r, len))}));
    }
    // near-collisions: the pairs an encoding without terminator / with sloppy padding would merge
    for _ in 0..n / 2 {
        let xl = r.gen_range(0..=24);
        let x = some_bytes(r, xl);
        let mut y = x.clone();
        match r.gen_range(0..6) {
            0 => y.push(0),
            1 => y.push(1),
            2 => {
                y.pop();
            }
            3 => {
                while y.last() == Some(&0) {
                    y.pop();
                }
                if y == x {
                    y.extend_from_slice(&[0, 0, 0, 0]);
                }
            }
            4 => y.extend_from_slice(&[1, 0, 0, 0]),
            _ => {
                if y.is_empty() {
                    y.push(1)
                } else {
                    let i = r.gen_range(0..y.len());
                    y[i] ^= 1 << r.gen_range(0..8);
                }
            }
        }
        out.push(json!({"k": "edgepair", "x": bytes_json(&x), "y": bytes_json(&y)}));
    }
    // real sizes: the cap, its neighbourhood, and beyond
    let mut lens: Vec<u64> = vec![CAP, CAP - 1, CAP - 2, CAP - 3, CAP - 4, CAP - 5, CAP + 1, CAP + 2, CAP + 3, CAP + 4, CAP + 5,
                                  2 * CAP, CAP / 2 + 1, 65537, 4096, 4097, 4099];
    for _ in 0..(n / 25).max(4) {
        lens.push(r.gen_range(1000..CAP + 9));
    }
    for len in lens {
        out.push(json!({"k": "edgebig", "len": len, "seed": r.gen::<u32>() >> 1})); // < 2^31: TLC integers
    }
    out.push(json!({"k": "edgebig", "len": CAP, "fill": 0}));
    out.push(json!({"k": "edgebig", "len": CAP + 1, "fill": 255}));
}

fn dec_inputs(r: &mut StdRng, n: usize, out: &mut Vec<Value>) {
    out.push(json!({"k": "dec", "v": []}));
    for _ in 0..n {
        // start from a genuine encoding (computed here with plain arithmetic, not with repo code)
        let xl = r.gen_range(0..=22);
        let x = some_bytes(r, xl);
        let mut v: Vec<u64> = x.chunks(4).filter(|c| c.len() == 4).map(|c| u32::from_le_bytes([c[0], c[1], c[2], c[3]]) as u64).collect();
        let rem = &x[x.len() / 4 * 4..];
        let mut last = [0u8; 4];
        last[..rem.len()].copy_from_slice(rem);
        last[rem.len()] = 1;
        v.push(u32::from_le_bytes(last) as u64);
        match r.gen_range(0..10) {
            0 | 1 => {}
            2 => *v.last_mut().unwrap() = r.gen::<u32>() as u64,
            3 => *v.last_mut().unwrap() = *[0u64, 2, 0x0100_0000, 0x0001_0001, 0x0101_0000, 0xFFFF_FFFF, 0x0000_0100, 0x0200_0000].choose(r).unwrap(),
            4 => {
                let i = r.gen_range(0..v.len());
                v[i] = *[1u64 << 32, P - 1, (1 << 32) + 1, 1 << 63, 0xFFFF_FFFF_0000_0000].choose(r).unwrap();
            }
            5 => {
                v.pop();
            }
            6 => {
                // a non-canonical representative of the same field element: the verdict must not change
                let i = r.gen_range(0..v.len());
                if v[i] < 0xFFFF_FFFF {
                    v[i] += P;
                }
            }
            7 => v.push(r.gen::<u32>() as u64),
            8 => {
                let i = r.gen_range(0..v.len());
                v[i] = some_u64(r);
            }
            _ => v.insert(0, 1),
        }
        out.push(json!({"k": "dec", "v": seq64(&v)}));
    }
    for nf in [MAXF - 1, MAXF, MAXF + 1, MAXF + 2, 70_001] {
        for fit in [1, 0] {
            for last in [[1u8, 0, 0, 0], [7, 1, 0, 0], [7, 8, 1, 0], [7, 8, 9, 1], [7, 8, 9, 10], [0, 0, 0, 0], [1, 0, 0, 1]] {
                out.push(json!({"k": "decbig", "n": nf, "fit": fit, "last": bytes_json(&last)}));
            }
        }
    }
}

fn digest_inputs(r: &mut StdRng, n: usize, out: &mut Vec<Value>) {
    let marks = [0u64, P - 1, P, P + 1, u64::MAX];
    for pos in 0..4 {
        for m in marks {
            let mut d = [canonical_u64(r), canonical_u64(r), canonical_u64(r), canonical_u64(r)];
            d[pos] = m;
            out.push(json!({"k": "digest", "d": seq64(&d)}));
        }
    }
    for _ in 0..n {
        let d: Vec<u64> = if r.gen_bool(0.45) {
            (0..4).map(|_| canonical_u64(r)).collect()
        } else {
            (0..4).map(|_| if r.gen_bool(0.6) { canonical_u64(r) } else { some_u64(r) }).collect()
        };
        out.push(json!({"k": "digest", "d": seq64(&d)}));
    }
}

fn int_inputs(r: &mut StdRng, n: usize, out: &mut Vec<Value>) {
    for _ in 0..n {
        let w = if r.gen_bool(0.6) { 4 } else { 2 };
        let f: Vec<u64> = (0..w).map(|_| if r.gen_bool(0.7) { r.gen::<u32>() as u64 } else { some_u64(r) }).collect();
        out.push(json!({"k": "limbs", "f": seq64(&f)}));
    }
    for _ in 0..n / 2 {
        if r.gen_bool(0.5) {
            let v: u128 = r.gen::<u128>() >> r.gen_range(0..128);
            out.push(json!({"k": "int", "n": limbs128(v)}));
        } else {
            let v: u64 = r.gen::<u64>() >> r.gen_range(0..64);
            out.push(json!({"k": "int", "n": limbs64(v)}));
        }
    }
    for v in [0u128, 1, u128::MAX, 1 << 32, (1 << 32) - 1, 1 << 64, (1 << 64) - 1, 1 << 96, (1 << 96) - 1, 1 << 127] {
        out.push(json!({"k": "int", "n": limbs128(v)}));
    }
    for v in [0u64, 1, u64::MAX, 1 << 32, (1 << 32) - 1, P, P - 1] {
        out.push(json!({"k": "int", "n": limbs64(v)}));
        out.push(json!({"k": "fq", "f": limbs64(v)}));
    }
    for _ in 0..n / 4 {
        out.push(json!({"k": "fq", "f": limbs64(some_u64(r))}));
    }
}

fn quant_inputs(r: &mut StdRng, n: usize, out: &mut Vec<Value>) {
    let t: u128 = (1u128 << 32) * D; // the least amount whose quantized value exceeds u32
    let mut marks: Vec<u128> = vec![0, 1, D - 1, D, D + 1, 2 * D - 1, 2 * D, t - D - 1, t - D, t - D + 1, t - 2, t - 1, t, t + 1,
                                    t + D - 1, t + D, t + D + 1, 2 * t, u128::MAX, u128::MAX - 1, u128::MAX / D * D, u128::MAX / D * D - 1,
                                    1 << 127, (1 << 127) - 1];
    for b in [32u32, 33, 34, 63, 64, 65, 66, 67, 96, 97] {
        marks.extend_from_slice(&[(1u128 << b) - 1, 1u128 << b, (1u128 << b) + 1]);
    }
    for q in [1u128, 2, 0xFFFF, 0x1_0000, 0xFFFF_FFFE, 0xFFFF_FFFF, 0x1_0000_0000, 0x1_0000_0001] {
        marks.extend_from_slice(&[q * D - 1, q * D, q * D + 1]);
    }
    for v in marks {
        out.push(json!({"k": "quant", "num": limbs128(v)}));
    }
    for _ in 0..n {
        let v: u128 = match r.gen_range(0..4) {
            0 => r.gen::<u128>() >> r.gen_range(0..128),
            1 => r.gen_range(0..t),
            2 => (r.gen_range(0xFFFF_FF00u128..0x1_0000_0100)) * D + r.gen_range(0..D),
            _ => t - 1000 + r.gen_range(0..2000u128),
        };
        out.push(json!({"k": "quant", "num": limbs128(v)}));
    }
}

/// child quadruples: limbs p-1, p, 2^64-1, shared prefixes, duplicates, little-endian order traps
fn node_inputs(r: &mut StdRng, n: usize, out: &mut Vec<Value>) {
    let child = |r: &mut StdRng, bad: bool| -> [u64; 4] {
        let mut c = [canonical_u64(r), canonical_u64(r), canonical_u64(r), canonical_u64(r)];
        if bad {
            c[r.gen_range(0..4)] = *[P, u64::MAX, P + 1, P + r.gen_range(0..1u64 << 31)].choose(r).unwrap();
        }
        c
    };
    let push = |out: &mut Vec<Value>, ch: &[[u64; 4]; 4]| {
        out.push(json!({"k": "node", "ch": ch.iter().map(|c| seq64(c)).collect::<Vec<_>>()}));
    };
    // boundary: every child position x every limb position with p-1 (accepted), p and 2^64-1 (rejected)
    for pos in 0..4 {
        for limb in 0..4 {
            for m in [P - 1, P, u64::MAX] {
                let mut ch = [child(r, false), child(r, false), child(r, false), child(r, false)];
                ch[pos][limb] = m;
                push(out, &ch);
            }
        }
    }
    push(out, &[[1, 0, 0, 0], [256, 0, 0, 0], [0x0100_0000_0000_0000, 0, 0, 0], [0, 0, 0, 1]]);
    push(out, &[[0; 4]; 4]);
    push(out, &[[P - 1; 4]; 4]);
    for _ in 0..n {
        let mode = r.gen_range(0..10);
        let mut ch = [child(r, false), child(r, false), child(r, false), child(r, false)];
        match mode {
            0 | 1 => ch[r.gen_range(0..4)] = child(r, true),
            2 => {
                ch[1] = child(r, true);
                ch[3] = child(r, true);
            }
            3 => ch[2] = ch[0], // duplicate children
            4 => {
                // children that differ in the last limb only / in one byte
                ch[1] = ch[0];
                ch[1][3] ^= 1 << r.gen_range(0..63);
                ch[2] = ch[0];
                ch[2][0] ^= 1 << r.gen_range(0..63);
                for c in ch.iter_mut() {
                    for l in c.iter_mut() {
                        if *l >= P {
                            *l = P - 1;
                        }
                    }
                }
            }
            5 => {
                ch[3] = ch[1];
                ch[2] = ch[1];
            }
            _ => {}
        }
        push(out, &ch);
    }
    for at in [0u64, 7, 15] {
        out.push(json!({"k": "compactlen", "len": 128, "canon": 0, "bad": at, "badval": limbs64(P)}));
        out.push(json!({"k": "compactlen", "len": 128, "canon": 0, "bad": at, "badval": limbs64(u64::MAX)}));
    }
    out.push(json!({"k": "compactlen", "len": 128, "canon": 1}));
}

pub fn inputs(which: &str, n: usize) -> Vec<Value> {
    let mut r = StdRng::seed_from_u64(seed().wrapping_mul(0x9E37_79B9_7F4A_7C15) ^ (which.len() as u64) ^ 0xE5C0_D1A6);
    let mut out = vec![];
    match which {
        "c25" => {
            edge_inputs(&mut r, n, &mut out);
            dec_inputs(&mut r, n, &mut out);
            digest_inputs(&mut r, n, &mut out);
            int_inputs(&mut r, n, &mut out);
            quant_inputs(&mut r, n, &mut out);
        }
        "c26" => node_inputs(&mut r, n, &mut out),
        _ => {}
    }
    out
}
