//! One input description -> one event: the input plus what the REAL functions returned for it.
//! Used both for cases printed by TLC (replay) and for seeded real-size inputs (record); the event
//! is judged by Python against the model's expectation, or by EncodingTrace.tla.
//!
//! Reached code (all through public API, each call under catch_unwind):
//!   common/src/serialization.rs  bytes_to_felts, felts_to_bytes, u128/u64_to_felts, try_felts_to_u128/u64,
//!                                try_u128_to_quantized_felt, try_felt_to_quantized_u128,
//!                                bytes_to_digest, digest_to_bytes; hash_bytes_compact (crate-private) only
//!                                through zk_merkle::hash_node / hash_node_presorted (128-byte inputs)
//!   common/src/utils.rs          the wrappers of the above, try_4_felts_to_bytes
//!   common/src/zk_merkle.rs      hash_node, hash_node_presorted, is_canonical_hash
//!   wormhole/inputs/src/lib.rs   BytesDigest::try_from ([u8;32] and &[u8]), PublicCircuitInputs::try_from_u64_slice
//!   wormhole/circuit/src/sensitive.rs  Secret::try_from / new / expose_felts / From<Digest>
use crate::limbs::*;
use plonky2::field::types::{Field, PrimeField64};
use plonky2::hash::poseidon2::Poseidon2Hash;
use plonky2::plonk::config::Hasher;
use qp_wormhole_inputs::{BytesDigest, PublicCircuitInputs, NULLIFIER_START_INDEX, PUBLIC_INPUTS_FELTS_LEN};
use rand::rngs::StdRng;
use rand::{Rng, RngCore, SeedableRng};
use serde_json::{json, Value};
use wormhole_circuit::sensitive::Secret;
use zk_circuits_common::circuit::F;
use zk_circuits_common::{serialization as ser, utils, zk_merkle};

fn f_of(raw: u64) -> F {
    F::from_noncanonical_u64(raw)
}
fn canon(f: &F) -> u64 {
    f.to_canonical_u64()
}
fn canon_seq(v: &[F]) -> Value {
    seq64(&v.iter().map(canon).collect::<Vec<_>>())
}

fn enc_json(o: &Obs<Vec<F>>) -> Value {
    json!({"r": o.tag(), "felts": o.ok().map(|v| canon_seq(v)).unwrap_or(json!([]))})
}
fn dec_json(o: &Obs<Vec<u8>>) -> Value {
    json!({"r": o.tag(), "bytes": o.ok().map(|v| bytes_json(v)).unwrap_or(json!([]))})
}
fn none() -> Value {
    json!({"r": "none", "bytes": []})
}

pub const PERMS: [[usize; 4]; 24] = [
    [0, 1, 2, 3], [0, 1, 3, 2], [0, 2, 1, 3], [0, 2, 3, 1], [0, 3, 1, 2], [0, 3, 2, 1],
    [1, 0, 2, 3], [1, 0, 3, 2], [1, 2, 0, 3], [1, 2, 3, 0], [1, 3, 0, 2], [1, 3, 2, 0],
    [2, 0, 1, 3], [2, 0, 3, 1], [2, 1, 0, 3], [2, 1, 3, 0], [2, 3, 0, 1], [2, 3, 1, 0],
    [3, 0, 1, 2], [3, 0, 2, 1], [3, 1, 0, 2], [3, 1, 2, 0], [3, 2, 0, 1], [3, 2, 1, 0],
];

/// the input bytes of a big edge case: one fill byte, or seeded random bytes
pub fn big_content(ev: &Value) -> Vec<u8> {
    let len = ev["len"].as_u64().unwrap() as usize;
    if let Some(fill) = ev.get("fill").and_then(|f| f.as_u64()) {
        vec![fill as u8; len]
    } else {
        let mut r = StdRng::seed_from_u64(ev["seed"].as_u64().unwrap());
        let mut v = vec![0u8; len];
        r.fill_bytes(&mut v);
        v
    }
}

fn run_edge(ev: &Value) -> Value {
    let x = bytes_of(&ev["x"]);
    let e1 = observe(|| ser::bytes_to_felts(&x));
    let e2 = observe(|| utils::bytes_to_felts(&x));
    let d1 = e1.ok().map(|f| dec_json(&observe(|| ser::felts_to_bytes(f)))).unwrap_or_else(none);
    let d2 = e2.ok().map(|f| dec_json(&observe(|| utils::felts_to_bytes(f)))).unwrap_or_else(none);
    json!({"k": "edge", "x": ev["x"], "enc": enc_json(&e1), "enc2": enc_json(&e2), "dec": d1, "dec2": d2})
}

fn run_edgepair(ev: &Value) -> Value {
    let x = bytes_of(&ev["x"]);
    let y = bytes_of(&ev["y"]);
    let fx = observe(|| ser::bytes_to_felts(&x));
    let fy = observe(|| ser::bytes_to_felts(&y));
    json!({"k": "edgepair", "x": ev["x"], "y": ev["y"], "fx": enc_json(&fx), "fy": enc_json(&fy)})
}

fn run_edgebig(ev: &Value) -> Value {
    let x = big_content(ev);
    let len = x.len();
    let e = observe(|| ser::bytes_to_felts(&x));
    let mut out = ev.clone();
    out["k"] = json!("edgebig");
    out["enc"] = json!(e.tag());
    out["nfelts"] = json!(0);
    out["wins"] = json!([]);
    out["tail"] = json!({"bytes": [], "felt": [0, 0, 0, 0]});
    out["dec"] = json!("none");
    out["declen"] = json!(0);
    out["rt"] = json!(0);
    if let Some(f) = e.ok() {
        out["nfelts"] = json!(f.len());
        let nfull = len / 4;
        let mut r = StdRng::seed_from_u64(len as u64 ^ ev.get("seed").and_then(|s| s.as_u64()).unwrap_or(7));
        let mut idx: Vec<usize> = vec![];
        if nfull > 0 {
            idx.push(0);
            idx.push(nfull - 1);
            for _ in 0..6 {
                idx.push(r.gen_range(0..nfull));
            }
        }
        let wins: Vec<Value> = idx
            .iter()
            .filter(|i| **i < f.len())
            .map(|i| json!({"i": i, "bytes": bytes_json(&x[4 * i..4 * i + 4]), "felt": limbs64(canon(&f[*i]))}))
            .collect();
        out["wins"] = json!(wins);
        if let Some(last) = f.last() {
            out["tail"] = json!({"bytes": bytes_json(&x[4 * nfull..]), "felt": limbs64(canon(last))});
        }
        let d = observe(|| ser::felts_to_bytes(f));
        out["dec"] = json!(d.tag());
        if let Some(b) = d.ok() {
            out["declen"] = json!(b.len());
            out["rt"] = json!(if *b == x { 1 } else { 0 });
        }
    }
    out
}

fn run_dec(ev: &Value) -> Value {
    let felts: Vec<F> = seq64_of(&ev["v"]).into_iter().map(f_of).collect();
    let d1 = observe(|| ser::felts_to_bytes(&felts));
    let d2 = observe(|| utils::felts_to_bytes(&felts));
    json!({"k": "dec", "v": ev["v"], "dec": dec_json(&d1), "dec2": dec_json(&d2)})
}

fn run_decbig(ev: &Value) -> Value {
    let n = ev["n"].as_u64().unwrap() as usize;
    let fit = ev["fit"].as_u64().unwrap() == 1;
    let last = bytes_of(&ev["last"]);
    let mut out = ev.clone();
    out["k"] = json!("decbig");
    if n == 0 || (!fit && n < 2) || last.len() != 4 {
        out["r"] = json!("unrealisable");
        out["outlen"] = json!(0);
        return out;
    }
    let mut felts = vec![f_of(0x5a5a_5a5a); n - 1];
    felts.push(f_of(u32::from_le_bytes([last[0], last[1], last[2], last[3]]) as u64));
    if !fit {
        felts[(n - 1) / 2] = f_of(1u64 << 32);
    }
    let d = observe(|| ser::felts_to_bytes(&felts));
    out["r"] = json!(d.tag());
    out["outlen"] = json!(d.ok().map(|b| b.len()).unwrap_or(0));
    out
}

fn tag_of(b: bool) -> &'static str {
    if b {
        "ok"
    } else {
        "err"
    }
}

fn run_digest(ev: &Value) -> Value {
    let limbs = seq64_of(&ev["d"]);
    let bytes = digest_bytes(&limbs);
    let arr = observe(|| BytesDigest::try_from(bytes));
    let slice = observe(|| BytesDigest::try_from(&bytes[..]));
    let mut pis = vec![0u64; PUBLIC_INPUTS_FELTS_LEN];
    pis[NULLIFIER_START_INDEX..NULLIFIER_START_INDEX + 4].copy_from_slice(&limbs);
    let pi = observe(|| PublicCircuitInputs::try_from_u64_slice(&pis));
    let secret = observe(|| Secret::try_from(bytes));
    let mut scratch = bytes;
    let secret_new = observe(|| Secret::new(&mut scratch));
    let canon_hash = observe_total(|| zk_merkle::is_canonical_hash(&bytes));
    let verdicts = json!({
        "arr": arr.tag(), "slice": slice.tag(), "pi": pi.tag(), "secret": secret.tag(), "secret_new": secret_new.tag(),
        "canon": match &canon_hash { Obs::Ok(b) => tag_of(*b), _ => "panic" },
    });
    let empty = json!([]);
    let mut out = json!({"k": "digest", "d": ev["d"], "v": verdicts, "felts": empty, "back": empty, "back2": empty,
                         "back3": empty, "pi_back": empty, "rt": "none"});
    if let Some(bd) = arr.ok() {
        // accepted digest -> felts -> bytes, through every public route
        let bd = *bd;
        let rt = observe_total(|| {
            let felts = utils::bytes_to_digest(bd);
            let back = utils::digest_to_bytes(felts);
            let back2 = utils::try_4_felts_to_bytes(&felts[..]).map(|b| *b).unwrap_or([0xEE; 32]);
            (felts, *back, back2)
        });
        out["rt"] = json!(rt.tag());
        if let Some((felts, back, back2)) = rt.ok() {
            out["felts"] = canon_seq(&felts[..]);
            out["back"] = seq64(&digest_limbs(back));
            out["back2"] = seq64(&digest_limbs(back2));
        }
        if let Some(s) = secret.ok() {
            let b3 = observe_total(|| {
                let felts = s.expose_felts();
                *Secret::from(felts).as_bytes()
            });
            if let Some(b) = b3.ok() {
                out["back3"] = seq64(&digest_limbs(b));
            }
        }
        if let Some(p) = pi.ok() {
            out["pi_back"] = seq64(&digest_limbs(&p.nullifier));
        }
    }
    out
}

fn run_limbs(ev: &Value) -> Value {
    let raw = seq64_of(&ev["f"]);
    let (o1, o2): (Obs<Value>, Obs<Value>) = if raw.len() == 4 {
        let a: [F; 4] = core::array::from_fn(|i| f_of(raw[i]));
        (
            match observe(|| ser::try_felts_to_u128(a)) { Obs::Ok(v) => Obs::Ok(limbs128(v)), Obs::Err => Obs::Err, Obs::Panic => Obs::Panic },
            match observe(|| utils::felts_to_u128(a)) { Obs::Ok(v) => Obs::Ok(limbs128(v)), Obs::Err => Obs::Err, Obs::Panic => Obs::Panic },
        )
    } else {
        let a: [F; 2] = core::array::from_fn(|i| f_of(raw[i]));
        (
            match observe(|| ser::try_felts_to_u64(a)) { Obs::Ok(v) => Obs::Ok(limbs64(v)), Obs::Err => Obs::Err, Obs::Panic => Obs::Panic },
            match observe(|| utils::felts_to_u64(a)) { Obs::Ok(v) => Obs::Ok(limbs64(v)), Obs::Err => Obs::Err, Obs::Panic => Obs::Panic },
        )
    };
    json!({"k": "limbs", "f": ev["f"], "r": o1.tag(), "val": o1.ok().cloned().unwrap_or(json!([])),
           "r2": o2.tag(), "val2": o2.ok().cloned().unwrap_or(json!([]))})
}

fn run_int(ev: &Value) -> Value {
    let n = ev["n"].as_array().unwrap().len();
    let mut out = json!({"k": "int", "n": ev["n"], "enc": "panic", "felts": [], "felts2": [], "r": "none", "val": []});
    if n == 8 {
        let v = u128_of(&ev["n"]);
        let e = observe_total(|| (ser::u128_to_felts(v), utils::u128_to_felts(v)));
        out["enc"] = json!(e.tag());
        if let Some((f1, f2)) = e.ok() {
            out["felts"] = canon_seq(&f1[..]);
            out["felts2"] = canon_seq(&f2[..]);
            let d = observe(|| ser::try_felts_to_u128(*f1));
            out["r"] = json!(d.tag());
            out["val"] = d.ok().map(|x| limbs128(*x)).unwrap_or(json!([]));
        }
    } else {
        let v = u64_of(&ev["n"]);
        let e = observe_total(|| (ser::u64_to_felts(v), utils::u64_to_felts(v)));
        out["enc"] = json!(e.tag());
        if let Some((f1, f2)) = e.ok() {
            out["felts"] = canon_seq(&f1[..]);
            out["felts2"] = canon_seq(&f2[..]);
            let d = observe(|| ser::try_felts_to_u64(*f1));
            out["r"] = json!(d.tag());
            out["val"] = d.ok().map(|x| limbs64(*x)).unwrap_or(json!([]));
        }
    }
    out
}

fn run_fq(ev: &Value) -> Value {
    let raw = u64_of(&ev["f"]);
    let o = observe(|| ser::try_felt_to_quantized_u128(f_of(raw)));
    json!({"k": "fq", "f": ev["f"], "r": o.tag(), "val": o.ok().map(|v| limbs128(*v)).unwrap_or(json!([]))})
}

fn run_quant(ev: &Value) -> Value {
    let num = u128_of(&ev["num"]);
    let o = observe(|| ser::try_u128_to_quantized_felt(num));
    let mut out = json!({"k": "quant", "num": ev["num"], "r": o.tag(), "q": [], "back": {"r": "none", "val": []}});
    if let Some(f) = o.ok() {
        out["q"] = limbs64(canon(f));
        let b = observe(|| ser::try_felt_to_quantized_u128(*f));
        out["back"] = json!({"r": b.tag(), "val": b.ok().map(|v| limbs128(*v)).unwrap_or(json!([]))});
    }
    out
}

/// Plonky2's native Poseidon2 over the 16 limbs of four children, as field elements (trusted base, not repo code)
fn native_node_hash(arr: &[[u8; 32]; 4]) -> Value {
    let mut felts = Vec::with_capacity(16);
    for c in arr {
        for l in digest_limbs(c) {
            if l >= P {
                return json!([]);
            }
            felts.push(F::from_canonical_u64(l));
        }
    }
    let h = Poseidon2Hash::hash_no_pad(&felts);
    let mut b = [0u8; 32];
    for (i, e) in h.elements.iter().enumerate() {
        b[i * 8..i * 8 + 8].copy_from_slice(&e.to_canonical_u64().to_le_bytes());
    }
    hash_limbs(&b)
}

fn hash_json(o: &Obs<[u8; 32]>) -> Value {
    json!({"r": o.tag(), "h": o.ok().map(hash_limbs).unwrap_or(json!([]))})
}

fn run_node(ev: &Value) -> Value {
    let ch: Vec<[u8; 32]> = ev["ch"].as_array().unwrap().iter().map(|c| digest_bytes(&seq64_of(c))).collect();
    let mut runs = vec![];
    for p in PERMS.iter() {
        let arr = [ch[p[0]], ch[p[1]], ch[p[2]], ch[p[3]]];
        let node = observe(|| zk_merkle::hash_node(&arr));
        let pre = observe(|| zk_merkle::hash_node_presorted(&arr));
        runs.push(json!({"p": [p[0] + 1, p[1] + 1, p[2] + 1, p[3] + 1], "node": hash_json(&node), "pre": hash_json(&pre),
                         "nat": native_node_hash(&arr)}));
    }
    json!({"k": "node", "ch": ev["ch"], "runs": runs})
}

/// the compact hash is crate-private: only 128-byte inputs reach it (through hash_node_presorted)
fn run_compactlen(ev: &Value) -> Value {
    let len = ev["len"].as_u64().unwrap();
    let mut out = ev.clone();
    out["k"] = json!("compactlen");
    if len != 128 {
        out["r"] = json!("unreachable");
        return out;
    }
    let mut limbs = [0x0807_0605_0403_0201u64; 16];
    if ev["canon"].as_u64().unwrap() == 0 {
        let at = ev.get("bad").and_then(|b| b.as_u64()).unwrap_or(15) as usize % 16;
        limbs[at] = ev.get("badval").map(u64_of).unwrap_or(P);
    }
    let arr: [[u8; 32]; 4] = core::array::from_fn(|i| digest_bytes(&limbs[4 * i..4 * i + 4]));
    let o = observe(|| zk_merkle::hash_node_presorted(&arr));
    out["r"] = json!(o.tag());
    out
}

pub fn run(ev: &Value) -> Value {
    match ev["k"].as_str().unwrap_or("") {
        "edge" => run_edge(ev),
        "edgepair" => run_edgepair(ev),
        "edgebig" => run_edgebig(ev),
        "dec" => run_dec(ev),
        "decbig" => run_decbig(ev),
        "digest" => run_digest(ev),
        "limbs" => run_limbs(ev),
        "int" => run_int(ev),
        "fq" => run_fq(ev),
        "quant" => run_quant(ev),
        "node" => run_node(ev),
        "compactlen" => run_compactlen(ev),
        other => json!({"k": other, "tool_error": "unknown kind"}),
    }
}
