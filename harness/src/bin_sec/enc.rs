//! C32: the catalogue of textual encodings under which a value could show up in a Debug rendering.
//! Everything is computed here from the raw bytes / integers (nothing from /repo is used to derive a needle).
//! Renderings and needles are compared with all whitespace removed, so `{:?}` and `{:#?}` lists look alike.

/// Minimum number of significant characters a needle must have to be searched for at all.
pub const MIN_SIGNIFICANT: usize = 6;

pub fn strip_ws(s: &str) -> String {
    s.chars().filter(|c| !c.is_whitespace()).collect()
}

/// decimal string of a big-endian byte string taken as an unsigned integer
pub fn decimal_be(bytes: &[u8]) -> String {
    let mut n: Vec<u8> = bytes.to_vec();
    let mut digits: Vec<u8> = vec![];
    let mut start = 0;
    while start < n.len() && n[start] == 0 {
        start += 1;
    }
    if start == n.len() {
        return "0".into();
    }
    while start < n.len() {
        let mut rem: u32 = 0;
        for b in n.iter_mut().skip(start) {
            let cur = (rem << 8) | *b as u32;
            *b = (cur / 10) as u8;
            rem = cur % 10;
        }
        digits.push(b'0' + rem as u8);
        while start < n.len() && n[start] == 0 {
            start += 1;
        }
    }
    digits.reverse();
    String::from_utf8(digits).unwrap()
}

fn significant(s: &str) -> usize {
    // characters that carry information: leading zeros / separators / prefixes do not
    let t = s.trim_start_matches("0x").trim_start_matches("0X").trim_start_matches('0');
    t.chars().filter(|c| c.is_ascii_alphanumeric()).count()
}

pub struct Needles {
    pub list: Vec<(String, String)>, // (encoding name, needle), de-duplicated on the needle
}

impl Needles {
    pub fn new() -> Self {
        Needles { list: vec![] }
    }
    fn push(&mut self, name: &str, needle: String) {
        if significant(&needle) >= MIN_SIGNIFICANT && !self.list.iter().any(|(_, n)| *n == needle) {
            self.list.push((name.to_string(), needle));
        }
    }
    fn push_cases(&mut self, name: &str, lower: String) {
        let upper = lower.to_uppercase().replace("0X", "0x");
        self.push(&format!("{name}/lower"), lower);
        self.push(&format!("{name}/upper"), upper);
    }

    fn int_forms(&mut self, name: &str, v: u128, hex_width: usize) {
        self.push(&format!("{name}/dec"), v.to_string());
        self.push_cases(&format!("{name}/hex"), format!("{v:x}"));
        self.push_cases(&format!("{name}/hex-padded"), format!("{v:0w$x}", w = hex_width));
    }

    fn list_forms(&mut self, name: &str, items: &[u128], hex_width: usize) {
        if items.len() < 2 {
            return;
        }
        let join = |f: &dyn Fn(u128) -> String| items.iter().map(|x| f(*x)).collect::<Vec<_>>().join(",");
        self.push(&format!("{name}/list-dec"), join(&|x| x.to_string()));
        self.push_cases(&format!("{name}/list-hex"), join(&|x| format!("{x:x}")));
        self.push_cases(&format!("{name}/list-0xhex"), join(&|x| format!("{x:#x}")));
        self.push_cases(&format!("{name}/list-hex-padded"), join(&|x| format!("{x:0w$x}", w = hex_width)));
    }

    /// every encoding of a byte string: hex both endiannesses, byte lists, u64 / u32 limbs (both
    /// endiannesses) in decimal and hex, the whole integer in decimal
    pub fn bytes(&mut self, name: &str, b: &[u8]) {
        let rev: Vec<u8> = b.iter().rev().copied().collect();
        self.push_cases(&format!("{name}/hex"), hex::encode(b));
        self.push_cases(&format!("{name}/hex-reversed"), hex::encode(&rev));
        let items: Vec<u128> = b.iter().map(|x| *x as u128).collect();
        self.list_forms(&format!("{name}/bytes"), &items, 2);
        self.push(&format!("{name}/int-be-dec"), decimal_be(b));
        self.push(&format!("{name}/int-le-dec"), decimal_be(&rev));
        for (w, wname) in [(8usize, "u64"), (4usize, "u32")] {
            let mut le: Vec<u128> = vec![];
            let mut be: Vec<u128> = vec![];
            for c in b.chunks(w) {
                let mut l: u128 = 0;
                let mut g: u128 = 0;
                for (i, x) in c.iter().enumerate() {
                    l |= (*x as u128) << (8 * i);
                    g = (g << 8) | *x as u128;
                }
                le.push(l);
                be.push(g);
            }
            for (k, x) in le.iter().enumerate() {
                self.int_forms(&format!("{name}/{wname}-le[{k}]"), *x, 2 * w);
            }
            for (k, x) in be.iter().enumerate() {
                self.int_forms(&format!("{name}/{wname}-be[{k}]"), *x, 2 * w);
            }
            self.list_forms(&format!("{name}/{wname}-le"), &le, 2 * w);
            self.list_forms(&format!("{name}/{wname}-be"), &be, 2 * w);
        }
    }

    pub fn u64v(&mut self, name: &str, v: u64) {
        self.int_forms(name, v as u128, 16);
        self.int_forms(&format!("{name}/hi32"), (v >> 32) as u128, 8);
        self.int_forms(&format!("{name}/lo32"), (v & 0xFFFF_FFFF) as u128, 8);
        self.list_forms(&format!("{name}/limbs-hi-lo"), &[(v >> 32) as u128, (v & 0xFFFF_FFFF) as u128], 8);
        self.list_forms(&format!("{name}/limbs-lo-hi"), &[(v & 0xFFFF_FFFF) as u128, (v >> 32) as u128], 8);
        self.bytes(&format!("{name}/le-bytes"), &v.to_le_bytes());
    }

    pub fn u32v(&mut self, name: &str, v: u32) {
        self.int_forms(name, v as u128, 8);
        self.bytes(&format!("{name}/le-bytes"), &v.to_le_bytes());
    }

    /// a short list of small numbers (position hints)
    pub fn small_list(&mut self, name: &str, items: &[u8]) {
        let v: Vec<u128> = items.iter().map(|x| *x as u128).collect();
        if v.len() >= 4 {
            let join = |f: &dyn Fn(u128) -> String| v.iter().map(|x| f(*x)).collect::<Vec<_>>().join(",");
            // significance is judged on the whole list here: single digits carry little, a list of >= 4 does
            for (n, s) in [("list-dec", join(&|x| x.to_string())), ("list-0xhex", join(&|x| format!("{x:#x}"))), ("list-hex-padded", join(&|x| format!("{x:02x}")))] {
                if !self.list.iter().any(|(_, q)| *q == s) {
                    self.list.push((format!("{name}/{n}"), s));
                }
            }
        }
    }
}

#[cfg(test)]
mod tests {
    use super::*;
    #[test]
    fn dec() {
        assert_eq!(decimal_be(&[1, 0]), "256");
        assert_eq!(decimal_be(&[0, 0]), "0");
        assert_eq!(decimal_be(&[0xff; 16]), u128::MAX.to_string());
    }
}
