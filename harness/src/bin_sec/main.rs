//! Conformance harness binary: C32 redaction, C33 scrubbing.
//!
//!   vh-sec redaction-replay <chains.ndjson> <out.ndjson>
//!   vh-sec redaction-selftest
//!   vh-sec scrub-replay <sequences.ndjson> <observations.ndjson> <trace.ndjson> <variants> <trace_every>
//!   vh-sec scrub-selftest
use anyhow::{anyhow, Result};

mod enc;
mod redaction;
mod scan;
mod scrub;

// C33 observes the heap through this allocator; outside a scanning window it is a pass-through to System.
#[global_allocator]
static ALLOC: scan::Scanning = scan::Scanning;

pub fn seed() -> u64 {
    std::env::var("VERIF_SEED").ok().and_then(|s| s.parse().ok()).unwrap_or(1)
}

fn main() -> Result<()> {
    let args: Vec<String> = std::env::args().collect();
    let cmd = args.get(1).map(|s| s.as_str()).unwrap_or("");
    // panics in code under test are data (caught by catch_unwind); keep stderr quiet
    if std::env::var("VH_SEC_VERBOSE").is_err() {
        std::panic::set_hook(Box::new(|_| {}));
    }
    let need = |n: usize| -> Result<()> {
        if args.len() < n {
            Err(anyhow!("{cmd}: missing arguments"))
        } else {
            Ok(())
        }
    };
    match cmd {
        "redaction-replay" => {
            need(4)?;
            redaction::replay(&args[2], &args[3], seed())
        }
        "redaction-selftest" => redaction::selftest(seed()),
        "scrub-replay" => {
            need(7)?;
            scrub::replay(&args[2], &args[3], &args[4], args[5].parse()?, args[6].parse()?, seed())
        }
        "scrub-selftest" => scrub::selftest(),
        _ => Err(anyhow!("unknown subcommand {cmd}")),
    }
}
