//! C32: conversion chains enumerated by TLC from Redaction.tla executed on the REAL types.  Every in-scope
//! object produced along a chain is rendered with `{:?}`, `{:#?}`, `{:x?}`, `{:#X?}`; every rendering is searched
//! for every encoding (enc.rs) of every sensitive value, and for the values the model calls visible.  Each chain
//! is run twice with the SAME public values and DIFFERENT sensitive values (main / control): a needle that also
//! occurs in the control rendering is a coincidence with public text, not a leak.  Observations only.
use crate::enc::{strip_ws, Needles};
use anyhow::{anyhow, Result};
use plonky2::field::types::PrimeField64;
use rand::rngs::StdRng;
use rand::{Rng, SeedableRng};
use rayon::prelude::*;
use serde_json::{json, Value};
use std::fmt::Debug;
use std::fs;
use std::io::Write;
use std::panic::{catch_unwind, AssertUnwindSafe};
use wormhole_circuit::block_header::header::{HeaderInputs, DIGEST_LOGS_SIZE};
use wormhole_circuit::block_header::BlockHeader;
use wormhole_circuit::inputs::{CircuitInputs, PrivateCircuitInputs, PublicCircuitInputs};
use wormhole_circuit::nullifier::Nullifier;
use wormhole_circuit::sensitive::{Secret, SensitiveFelts};
use wormhole_circuit::unspendable_account::UnspendableAccount;
use wormhole_circuit::zk_merkle_proof::{ZkLeafData, ZkMerkleProofData};
use wormhole_prover::WormholeProver;
use zeroize::Zeroizing;
use zk_circuits_common::circuit::F;
use zk_circuits_common::utils::BytesDigest;

const P: u64 = 0xFFFF_FFFF_0000_0001;
pub const FORMATS: [&str; 4] = ["{:?}", "{:#?}", "{:x?}", "{:#X?}"];
pub const CLASSES: [&str; 5] = ["random", "repeated-bytes", "small-padded", "distinctive-decimal", "edges"];

fn limbs_to_bytes(l: [u64; 4]) -> [u8; 32] {
    let mut b = [0u8; 32];
    for i in 0..4 {
        b[8 * i..8 * i + 8].copy_from_slice(&l[i].to_le_bytes());
    }
    b
}
fn limbs_of(b: &[u8; 32]) -> [u64; 4] {
    core::array::from_fn(|i| u64::from_le_bytes(b[8 * i..8 * i + 8].try_into().unwrap()))
}
fn felts_limbs(f: &[F]) -> Vec<u64> {
    f.iter().map(|x| x.to_canonical_u64()).collect()
}
fn rand_digest(rng: &mut StdRng) -> [u8; 32] {
    limbs_to_bytes(core::array::from_fn(|_| rng.gen_range(1u64 << 40..P)))
}
fn rand_u32(rng: &mut StdRng) -> u32 {
    rng.gen_range(1_000_000u32..u32::MAX)
}

#[derive(Clone)]
struct Sens {
    secret: [u8; 32],
    account: [u8; 32],
    tcount: u64,
    amount: u32,
    dlogs: [u8; DIGEST_LOGS_SIZE],
    siblings: Vec<[[u8; 32]; 3]>,
    positions: Vec<u8>,
}

#[derive(Clone)]
struct Publ {
    asset: u32,
    out1: u32,
    out2: u32,
    fee: u32,
    nullifier: [u8; 32],
    exit1: [u8; 32],
    exit2: [u8; 32],
    block_hash: [u8; 32],
    block_number: u32,
    parent_hash: [u8; 32],
    state_root: [u8; 32],
    extrinsics_root: [u8; 32],
    tree_root: [u8; 32],
    leaf_hash: [u8; 32],
    /// the statement carries the dummy sentinel (zero block hash, zero outputs): tree-path objects get is_not_dummy = false
    dummy: bool,
}

fn gen_public(rng: &mut StdRng) -> Publ {
    Publ {
        asset: rand_u32(rng),
        out1: rand_u32(rng),
        out2: rand_u32(rng),
        fee: rand_u32(rng),
        nullifier: rand_digest(rng),
        exit1: rand_digest(rng),
        exit2: rand_digest(rng),
        block_hash: rand_digest(rng),
        block_number: rand_u32(rng),
        parent_hash: rand_digest(rng),
        state_root: rand_digest(rng),
        extrinsics_root: rand_digest(rng),
        tree_root: rand_digest(rng),
        leaf_hash: rand_digest(rng),
        dummy: false,
    }
}

fn gen_sensitive(rng: &mut StdRng, class: usize, depth: usize) -> Sens {
    let rand = |rng: &mut StdRng| {
        let mut dlogs = [0u8; DIGEST_LOGS_SIZE];
        rng.fill(&mut dlogs[..]);
        Sens {
            secret: rand_digest(rng),
            account: rand_digest(rng),
            tcount: rng.gen_range(1u64 << 52..u64::MAX),
            amount: rand_u32(rng),
            dlogs,
            siblings: (0..depth).map(|_| core::array::from_fn(|_| rand_digest(rng))).collect(),
            positions: (0..depth).map(|_| rng.gen_range(0..4u8)).collect(),
        }
    };
    let mut s = rand(rng);
    match CLASSES[class % CLASSES.len()] {
        "repeated-bytes" => {
            s.secret = [0x11; 32];
            s.account = [0xCD; 32];
            s.tcount = 0x0BAD_CAFE_DEAD_BEEF;
            s.amount = 313_131_313;
            s.dlogs = [0xEE; DIGEST_LOGS_SIZE];
            for (l, lvl) in s.siblings.iter_mut().enumerate() {
                for (j, sib) in lvl.iter_mut().enumerate() {
                    *sib = [0xA0 + (3 * l + j) as u8; 32];
                }
            }
        }
        "small-padded" => {
            s.secret = limbs_to_bytes([1_000_003, 1_000_033, 1_000_037, 1_000_039]);
            s.account = limbs_to_bytes([2_000_003, 2_000_029, 2_000_039, 2_000_081]);
            s.tcount = 424_242;
            s.amount = 1_000_121;
            for (i, c) in s.dlogs.chunks_mut(4).enumerate() {
                let v = (3_000_000u32 + 17 * i as u32).to_le_bytes();
                let n = c.len();
                c.copy_from_slice(&v[..n]);
            }
            for (l, lvl) in s.siblings.iter_mut().enumerate() {
                for (j, sib) in lvl.iter_mut().enumerate() {
                    let b = 4_000_000u64 + 1000 * l as u64 + 100 * j as u64;
                    *sib = limbs_to_bytes([b + 1, b + 3, b + 7, b + 9]);
                }
            }
        }
        "distinctive-decimal" => {
            s.secret = limbs_to_bytes([1_234_567_890_123_456_789, 1_111_111_111_111_111_111, 9_876_543_210_987_654_321, 2_718_281_828_459_045_235]);
            s.account = limbs_to_bytes([3_141_592_653_589_793_238, 1_414_213_562_373_095_048, 1_732_050_807_568_877_293, 5_772_156_649_015_328_606]);
            s.tcount = 12_345_678_987_654_321;
            s.amount = 4_040_404_040;
            for (i, c) in s.dlogs.chunks_mut(4).enumerate() {
                let v = (1_234_567_890u32.wrapping_add(101_010_101u32.wrapping_mul(i as u32))).to_le_bytes();
                let n = c.len();
                c.copy_from_slice(&v[..n]);
            }
        }
        "edges" => {
            s.secret = limbs_to_bytes([P - 1, P - 2, 1 << 63, (1 << 63) - 1]);
            s.account = limbs_to_bytes([P - 3, 0xFFFF_FFFE_FFFF_FFFF, 0x8000_0000_0000_0001, 0x0000_0001_0000_0000]);
            s.tcount = u64::MAX - 1;
            s.amount = u32::MAX - 1;
            s.dlogs = core::array::from_fn(|i| 0xFF - (i as u8 % 7));
        }
        _ => {}
    }
    s
}

// ---------------------------------------------------------------------------------------------- objects

enum Obj {
    Src,
    CI(CircuitInputs),
    PCI(PrivateCircuitInputs),
    N(Nullifier),
    NB(Zeroizing<Vec<u8>>),
    NF(SensitiveFelts),
    UA(UnspendableAccount),
    AB(Zeroizing<Vec<u8>>),
    AF(SensitiveFelts),
    Leaf(ZkLeafData),
    MP(ZkMerkleProofData),
    HI(HeaderInputs),
    BH(BlockHeader),
    Prover(Box<WormholeProver>),
}

fn four<T: Debug>(x: &T) -> Vec<String> {
    vec![format!("{:?}", x), format!("{:#?}", x), format!("{:x?}", x), format!("{:#X?}", x)]
}

impl Obj {
    fn type_name(&self) -> &'static str {
        match self {
            Obj::Src => "Sources",
            Obj::CI(_) => "CircuitInputs",
            Obj::PCI(_) => "PrivateCircuitInputs",
            Obj::N(_) => "Nullifier",
            Obj::NB(_) => "NullifierBytes",
            Obj::NF(_) => "NullifierFelts",
            Obj::UA(_) => "UnspendableAccount",
            Obj::AB(_) => "AccountBytes",
            Obj::AF(_) => "AccountFelts",
            Obj::Leaf(_) => "ZkLeafData",
            Obj::MP(_) => "ZkMerkleProofData",
            Obj::HI(_) => "HeaderInputs",
            Obj::BH(_) => "BlockHeader",
            Obj::Prover(_) => "WormholeProver",
        }
    }
    /// the Debug renderings of the types the property is about
    fn renders(&self) -> Option<Vec<String>> {
        match self {
            Obj::CI(x) => Some(four(x)),
            Obj::PCI(x) => Some(four(x)),
            Obj::N(x) => Some(four(x)),
            Obj::UA(x) => Some(four(x)),
            Obj::Leaf(x) => Some(four(x)),
            Obj::MP(x) => Some(four(x)),
            Obj::HI(x) => Some(four(x)),
            Obj::BH(x) => Some(four(x)),
            Obj::Prover(x) => Some(four(&**x)),
            _ => None,
        }
    }
    /// renderings of values that are public by construction although derived from the secret (masked before the
    /// search so that their digits cannot collide with a needle)
    fn declassified(&self) -> Vec<String> {
        match self {
            Obj::N(n) => four(&n.hash),
            _ => vec![],
        }
    }
}

fn bd(b: &[u8; 32]) -> Result<BytesDigest, String> {
    BytesDigest::try_from(*b).map_err(|e| format!("harness value not canonical: {e}"))
}

fn make_inputs(s: &Sens, p: &Publ) -> Result<CircuitInputs, String> {
    Ok(CircuitInputs { public: make_public(p)?, private: make_private(s, p)? })
}
fn make_public(p: &Publ) -> Result<PublicCircuitInputs, String> {
    Ok(PublicCircuitInputs {
        asset_id: p.asset,
        output_amount_1: p.out1,
        output_amount_2: p.out2,
        volume_fee_bps: p.fee,
        nullifier: bd(&p.nullifier)?,
        exit_account_1: bd(&p.exit1)?,
        exit_account_2: bd(&p.exit2)?,
        block_hash: bd(&p.block_hash)?,
        block_number: p.block_number,
    })
}
fn make_private(s: &Sens, p: &Publ) -> Result<PrivateCircuitInputs, String> {
    Ok(PrivateCircuitInputs {
        secret: Secret::from(bd(&s.secret)?),
        transfer_count: s.tcount,
        unspendable_account: bd(&s.account)?,
        parent_hash: bd(&p.parent_hash)?,
        state_root: bd(&p.state_root)?,
        extrinsics_root: bd(&p.extrinsics_root)?,
        digest: s.dlogs,
        input_amount: s.amount,
        zk_tree_root: p.tree_root,
        zk_merkle_siblings: s.siblings.clone(),
        zk_merkle_positions: s.positions.clone(),
    })
}

fn apply(name: &str, o: Obj, s: &Sens, p: &Publ) -> Result<Obj, String> {
    let e = |x: anyhow::Error| x.to_string();
    Ok(match (name, o) {
        ("mk_inputs", Obj::Src) => Obj::CI(make_inputs(s, p)?),
        ("nullifier_new", Obj::Src) => Obj::N(Nullifier::new(bd(&p.nullifier)?, bd(&s.secret)?, s.tcount)),
        ("nullifier_from_preimage", Obj::Src) => Obj::N(Nullifier::from_preimage(bd(&s.secret)?, s.tcount)),
        ("account_new", Obj::Src) => Obj::UA(UnspendableAccount::new(bd(&s.account)?, bd(&s.secret)?)),
        ("account_from_secret", Obj::Src) => Obj::UA(UnspendableAccount::from_secret(bd(&s.secret)?)),
        ("leaf_new", Obj::Src) => Obj::Leaf(ZkLeafData::new(s.account, s.tcount, p.asset, s.amount, p.out1, p.out2, p.fee)),
        ("header_new", Obj::Src) => Obj::HI(
            HeaderInputs::new(bd(&p.parent_hash)?, p.block_number, bd(&p.state_root)?, bd(&p.extrinsics_root)?, bd(&p.tree_root)?, &s.dlogs).map_err(e)?,
        ),
        ("inputs_take_private", Obj::CI(ci)) => Obj::PCI(ci.private),
        ("nullifier_from_inputs", Obj::CI(ci)) => Obj::N(Nullifier::from(&ci)),
        ("account_from_inputs", Obj::CI(ci)) => Obj::UA(UnspendableAccount::from(&ci)),
        ("merkle_from_inputs", Obj::CI(ci)) => Obj::MP(ZkMerkleProofData::try_from(&ci).map_err(e)?),
        ("header_from_inputs", Obj::CI(ci)) => Obj::HI(HeaderInputs::try_from(&ci).map_err(e)?),
        ("block_header_from_inputs", Obj::CI(ci)) => Obj::BH(BlockHeader::try_from(&ci).map_err(e)?),
        ("prover_commit", Obj::CI(ci)) => Obj::Prover(Box::new(wormhole_prover::build_fresh().commit(&ci).map_err(e)?)),
        ("private_wrap", Obj::PCI(pci)) => Obj::CI(CircuitInputs { public: make_public(p)?, private: pci }),
        ("nullifier_to_bytes", Obj::N(n)) => Obj::NB(n.to_bytes()),
        ("nullifier_from_bytes", Obj::NB(b)) => Obj::N(Nullifier::from_bytes(b.as_ref()).map_err(e)?),
        ("nullifier_to_felts", Obj::N(n)) => Obj::NF(n.to_field_elements()),
        ("nullifier_from_felts", Obj::NF(f)) => Obj::N(Nullifier::from_field_elements(f.as_slice()).map_err(e)?),
        ("nullifier_to_account", Obj::N(n)) => Obj::UA(UnspendableAccount::new(bd(&s.account)?, n.secret.expose_digest())),
        ("account_to_bytes", Obj::UA(a)) => Obj::AB(a.to_bytes()),
        ("account_from_bytes", Obj::AB(b)) => Obj::UA(UnspendableAccount::from_bytes(b.as_ref()).map_err(e)?),
        ("account_to_felts", Obj::UA(a)) => Obj::AF(a.to_field_elements()),
        ("account_from_felts", Obj::AF(f)) => Obj::UA(UnspendableAccount::from_field_elements(f.as_slice()).map_err(e)?),
        ("account_to_nullifier", Obj::UA(a)) => Obj::N(Nullifier::new(bd(&p.nullifier)?, a.secret.expose_digest(), s.tcount)),
        ("leaf_clone", Obj::Leaf(l)) => Obj::Leaf(l.clone()),
        ("merkle_new", Obj::Leaf(l)) => Obj::MP(ZkMerkleProofData::new(p.tree_root, s.siblings.clone(), s.positions.clone(), l, !p.dummy)),
        ("merkle_from_unsorted", Obj::Leaf(l)) => {
            Obj::MP(ZkMerkleProofData::from_unsorted(p.tree_root, s.siblings.clone(), p.leaf_hash, l, !p.dummy).map_err(|x| x.to_string())?)
        }
        ("merkle_clone", Obj::MP(m)) => Obj::MP(m.clone()),
        ("merkle_take_leaf", Obj::MP(m)) => Obj::Leaf(m.leaf.clone()),
        ("block_header_new", Obj::HI(h)) => Obj::BH(BlockHeader::new(bd(&p.block_hash)?, h).map_err(e)?),
        ("block_header_take_header", Obj::BH(b)) => Obj::HI(b.header),
        (n, o) => return Err(format!("conversion {n} does not apply to {}", o.type_name())),
    })
}

/// sensitive values that come into being along the chain: H(H(salt, secret)) is the deposit account,
/// from_unsorted computes the position hints
#[derive(Default, Clone)]
struct Derived {
    accounts: Vec<[u8; 32]>,
    positions: Vec<Vec<u8>>,
}

fn note_derived(o: &Obj, s: &Sens, d: &mut Derived) {
    let acct = |id: &[F]| {
        let l = felts_limbs(id);
        limbs_to_bytes([l[0], l[1], l[2], l[3]])
    };
    match o {
        Obj::UA(a) => {
            let b = acct(&a.account_id);
            if b != s.account && !d.accounts.contains(&b) {
                d.accounts.push(b);
            }
        }
        Obj::MP(m) => {
            if m.positions != s.positions && !d.positions.contains(&m.positions) {
                d.positions.push(m.positions.clone());
            }
        }
        _ => {}
    }
}

/// which sensitive labels the real object verifiably holds (read through pub fields / accessors)
fn carried(o: &Obj, s: &Sens, d: &Derived) -> Vec<&'static str> {
    let mut out = vec![];
    let sl = limbs_of(&s.secret);
    let al = limbs_of(&s.account);
    let is_acct = |l: &[u64]| l == al || d.accounts.iter().any(|a| l == limbs_of(a));
    let tc_felts = [s.tcount >> 32, s.tcount & 0xFFFF_FFFF];
    let private = |p: &PrivateCircuitInputs, out: &mut Vec<&'static str>| {
        if *p.secret.expose_digest() == s.secret {
            out.push("secret");
        }
        if p.transfer_count == s.tcount {
            out.push("tcount");
        }
        if *p.unspendable_account == s.account {
            out.push("account");
        }
        if p.digest == s.dlogs {
            out.push("dlogs");
        }
        if p.input_amount == s.amount {
            out.push("amount");
        }
        if p.zk_merkle_siblings == s.siblings {
            out.push("siblings");
        }
        if p.zk_merkle_positions == s.positions {
            out.push("positions");
        }
    };
    let leaf = |l: &ZkLeafData, out: &mut Vec<&'static str>| {
        if is_acct(&felts_limbs(&l.to_account)) {
            out.push("account");
        }
        if felts_limbs(&l.transfer_count) == tc_felts {
            out.push("tcount");
        }
        if l.input_amount.to_canonical_u64() == s.amount as u64 {
            out.push("amount");
        }
    };
    let header = |h: &HeaderInputs, out: &mut Vec<&'static str>| {
        let want: Vec<u64> = s.dlogs.chunks(4).take(27).map(|c| u32::from_le_bytes(c.try_into().unwrap()) as u64).collect();
        if felts_limbs(&h.digest[..27]) == want {
            out.push("dlogs");
        }
    };
    match o {
        Obj::CI(ci) => private(&ci.private, &mut out),
        Obj::PCI(p) => private(p, &mut out),
        Obj::N(n) => {
            if *n.secret.expose_digest() == s.secret {
                out.push("secret");
            }
            let b = n.to_bytes();
            if b.len() == 72 && b[64..72] == s.tcount.to_le_bytes() {
                out.push("tcount");
            }
        }
        Obj::NB(b) => {
            if b.len() == 72 && b[32..64] == s.secret {
                out.push("secret");
            }
            if b.len() == 72 && b[64..72] == s.tcount.to_le_bytes() {
                out.push("tcount");
            }
        }
        Obj::NF(f) => {
            let l = felts_limbs(f.as_slice());
            if l.len() == 10 && l[4..8] == sl {
                out.push("secret");
            }
            if l.len() == 10 && l[8..10] == tc_felts {
                out.push("tcount");
            }
        }
        Obj::UA(a) => {
            if *a.secret.expose_digest() == s.secret {
                out.push("secret");
            }
            if is_acct(&felts_limbs(&a.account_id)) {
                out.push("account");
            }
        }
        Obj::AB(b) => {
            if b.len() == 64 && b[32..64] == s.secret {
                out.push("secret");
            }
            if b.len() == 64 && is_acct(&limbs_of(&b[..32].try_into().unwrap())) {
                out.push("account");
            }
        }
        Obj::AF(f) => {
            let l = felts_limbs(f.as_slice());
            if l.len() == 8 && l[4..8] == sl {
                out.push("secret");
            }
            if l.len() == 8 && is_acct(&l[..4]) {
                out.push("account");
            }
        }
        Obj::Leaf(l) => leaf(l, &mut out),
        Obj::MP(m) => {
            let mut want: Vec<[u64; 4]> = s.siblings.iter().flatten().map(limbs_of).collect();
            let mut have: Vec<[u64; 4]> = m.siblings.iter().flatten().map(|f| {
                let l = felts_limbs(f);
                [l[0], l[1], l[2], l[3]]
            }).collect();
            want.sort();
            have.sort();
            if want == have {
                out.push("siblings");
            }
            if m.positions == s.positions || d.positions.contains(&m.positions) {
                out.push("positions");
            }
            leaf(&m.leaf, &mut out);
        }
        Obj::HI(h) => header(h, &mut out),
        Obj::BH(b) => header(&b.header, &mut out),
        Obj::Prover(_) => out.push("unverifiable"),
        Obj::Src => {}
    }
    out
}

/// the value behind a label the model calls visible, as needles
fn visible_needles(label: &str, o: &Obj, p: &Publ) -> Option<Needles> {
    let mut n = Needles::new();
    match label {
        "pub.asset" => n.u32v(label, p.asset),
        "pub.out1" => n.u32v(label, p.out1),
        "pub.out2" => n.u32v(label, p.out2),
        "pub.fee" => n.u32v(label, p.fee),
        "pub.block_number" => n.u32v(label, p.block_number),
        "pub.nullifier" => n.bytes(label, &p.nullifier),
        "pub.exit1" => n.bytes(label, &p.exit1),
        "pub.exit2" => n.bytes(label, &p.exit2),
        "pub.block_hash" => n.bytes(label, &p.block_hash),
        "pub.parent_hash" => n.bytes(label, &p.parent_hash),
        "pub.state_root" => n.bytes(label, &p.state_root),
        "pub.extrinsics_root" => n.bytes(label, &p.extrinsics_root),
        "pub.tree_root" => n.bytes(label, &p.tree_root),
        "hash.nullifier" => match o {
            Obj::N(x) => {
                let l = felts_limbs(&x.hash);
                n.bytes(label, &limbs_to_bytes([l[0], l[1], l[2], l[3]]))
            }
            _ => return None,
        },
        _ => return None, // len.siblings, flag, circuit: structure, nothing to look for
    }
    Some(n)
}

fn sensitive_needles(s: &Sens, d: &Derived) -> Vec<(&'static str, Needles)> {
    let mut out = vec![];
    let mut n = Needles::new();
    n.bytes("secret", &s.secret);
    out.push(("secret", n));
    let mut n = Needles::new();
    n.bytes("account", &s.account);
    for (i, a) in d.accounts.iter().enumerate() {
        n.bytes(&format!("account(derived {i})"), a);
    }
    out.push(("account", n));
    let mut n = Needles::new();
    n.u64v("tcount", s.tcount);
    out.push(("tcount", n));
    let mut n = Needles::new();
    n.u32v("amount", s.amount);
    out.push(("amount", n));
    let mut n = Needles::new();
    n.bytes("dlogs", &s.dlogs);
    out.push(("dlogs", n));
    let mut n = Needles::new();
    for (l, lvl) in s.siblings.iter().enumerate() {
        for (j, sib) in lvl.iter().enumerate() {
            n.bytes(&format!("siblings[{l}][{j}]"), sib);
        }
    }
    out.push(("siblings", n));
    let mut n = Needles::new();
    n.small_list("positions", &s.positions);
    for (i, pv) in d.positions.iter().enumerate() {
        n.small_list(&format!("positions(derived {i})"), pv);
    }
    out.push(("positions", n));
    out
}

struct Run {
    types: Vec<&'static str>,
    texts: Vec<Option<Vec<String>>>, // per step: stripped renderings (4 formats) of in-scope objects
    masked: Vec<Option<Vec<String>>>,
    carried: Vec<Vec<&'static str>>,
    visible: Vec<Vec<Value>>,
    derived: Derived,
    error: Option<Value>,
}

fn mask(text: &str, decl: &[String]) -> String {
    let mut t = text.to_string();
    for dstr in decl {
        let ds = strip_ws(dstr);
        if ds.len() >= 4 {
            t = t.replace(&ds, "#");
        }
    }
    t
}

fn execute(chain: &[String], model_steps: &[Value], s: &Sens, p: &Publ) -> Run {
    let mut run = Run { types: vec![], texts: vec![], masked: vec![], carried: vec![], visible: vec![], derived: Derived::default(), error: None };
    let mut cur = Some(Obj::Src);
    for (k, name) in chain.iter().enumerate() {
        let o = cur.take().unwrap();
        let r = catch_unwind(AssertUnwindSafe(|| apply(name, o, s, p)));
        let o = match r {
            Ok(Ok(o)) => o,
            Ok(Err(e)) => {
                run.error = Some(json!({"step": k, "conversion": name, "panicked": false, "what": e}));
                break;
            }
            Err(_) => {
                run.error = Some(json!({"step": k, "conversion": name, "panicked": true, "what": "panic"}));
                break;
            }
        };
        note_derived(&o, s, &mut run.derived);
        let rendered = catch_unwind(AssertUnwindSafe(|| (o.renders(), o.declassified(), carried(&o, s, &run.derived))));
        let (texts, decl, car) = match rendered {
            Ok(x) => x,
            Err(_) => {
                run.error = Some(json!({"step": k, "conversion": name, "panicked": true, "what": "panic while rendering"}));
                break;
            }
        };
        let stripped: Option<Vec<String>> = texts.map(|v| v.iter().map(|t| strip_ws(t)).collect());
        // what the model calls visible must be there (looked for before masking)
        let mut vis = vec![];
        if let (Some(st), Some(ms)) = (&stripped, model_steps.get(k)) {
            for f in ms["visible"].as_array().map(|a| a.as_slice()).unwrap_or(&[]) {
                for lab in f["lab"].as_array().map(|a| a.as_slice()).unwrap_or(&[]) {
                    let lab = lab.as_str().unwrap_or("");
                    if let Some(nd) = visible_needles(lab, &o, p) {
                        let found = nd.list.iter().any(|(_, n)| st.iter().any(|t| t.contains(n.as_str())));
                        vis.push(json!({"path": f["path"], "label": lab, "found": found}));
                    }
                }
            }
        }
        run.masked.push(stripped.as_ref().map(|v| v.iter().map(|t| mask(t, &decl)).collect()));
        run.texts.push(stripped);
        run.types.push(o.type_name());
        run.carried.push(car);
        run.visible.push(vis);
        cur = Some(o);
    }
    run
}

fn excerpt(text: &str, needle: &str) -> String {
    match text.find(needle) {
        Some(i) => {
            let a = text[..i].char_indices().rev().nth(40).map(|(j, _)| j).unwrap_or(0);
            let b = (i + needle.len() + 24).min(text.len());
            let mut b2 = b;
            while !text.is_char_boundary(b2) {
                b2 -= 1;
            }
            text[a..b2].to_string()
        }
        None => String::new(),
    }
}

fn run_case(case: &Value, variant: usize, seed: u64) -> Value {
    let index = case["index"].as_u64().unwrap_or(0);
    let chain: Vec<String> = case["chain"].as_array().map(|a| a.iter().map(|x| x.as_str().unwrap_or("").to_string()).collect()).unwrap_or_default();
    let model_steps: Vec<Value> = case["steps"].as_array().cloned().unwrap_or_default();
    let mut rng = StdRng::seed_from_u64(seed ^ (index << 16) ^ ((variant as u64) << 48) ^ 0xC32);
    let depth = 4 + (index as usize + variant) % 3;
    let mut p = gen_public(&mut rng);
    // variants >= 100: the same value classes on a statement that carries the dummy sentinel - what a Debug impl prints
    // must not depend on the flag (the property quantifies over all private witnesses, padding ones included)
    if variant >= 100 {
        p.dummy = true;
        p.block_hash = [0u8; 32];
        p.out1 = 0;
        p.out2 = 0;
    }
    let main = gen_sensitive(&mut rng, variant % 100, depth);
    let mut control = gen_sensitive(&mut rng, 0, depth);
    while control.positions == main.positions {
        control.positions = (0..depth).map(|_| rng.gen_range(0..4u8)).collect();
    }
    let rm = execute(&chain, &model_steps, &main, &p);
    let rc = execute(&chain, &model_steps, &control, &p);
    let mut out = json!({"index": index, "variant": variant, "class": format!("{}{}", CLASSES[(variant % 100) % CLASSES.len()], if variant >= 100 { " / dummy statement" } else { "" }), "chain": chain,
                         "executed": rm.types.len(), "error": rm.error, "control_error": rc.error});
    let needles = sensitive_needles(&main, &rm.derived);
    let n_needles: usize = needles.iter().map(|(_, n)| n.list.len()).sum();
    let mut matches = vec![];
    let mut screened = 0u64;
    let mut searches = 0u64;
    let mut renders = 0u64;
    let mut ni_diff = vec![];
    for k in 0..rm.types.len() {
        let (Some(mt), Some(ct)) = (&rm.masked[k], rc.masked.get(k).and_then(|x| x.as_ref())) else { continue };
        for (fi, t) in mt.iter().enumerate() {
            renders += 1;
            if *t != ct[fi] {
                ni_diff.push(json!({"step": k, "type": rm.types[k], "fmt": FORMATS[fi]}));
            }
            for (source, nd) in &needles {
                for (encoding, needle) in &nd.list {
                    searches += 1;
                    if t.contains(needle.as_str()) {
                        if ct[fi].contains(needle.as_str()) {
                            screened += 1;
                        } else {
                            matches.push(json!({"step": k, "conversion": chain[k], "type": rm.types[k], "fmt": FORMATS[fi], "source": source,
                                                "encoding": encoding, "needle": needle, "excerpt": excerpt(t, needle)}));
                        }
                    }
                }
            }
        }
    }
    let steps: Vec<Value> = (0..rm.types.len())
        .map(|k| json!({"type": rm.types[k], "rendered": rm.texts[k].is_some(), "carried": rm.carried[k], "visible": rm.visible[k],
                        "render_chars": rm.texts[k].as_ref().map(|v| v.iter().map(|t| t.len()).sum::<usize>()).unwrap_or(0)}))
        .collect();
    out["steps"] = json!(steps);
    out["needles"] = json!(n_needles);
    out["searches"] = json!(searches);
    out["renders"] = json!(renders);
    out["screened"] = json!(screened);
    out["ni_diff"] = json!(ni_diff);
    if !matches.is_empty() {
        matches.truncate(12);
        out["values"] = json!({"secret": hex::encode(main.secret), "account": hex::encode(main.account), "tcount": main.tcount.to_string(),
                               "amount": main.amount, "dlogs": hex::encode(main.dlogs), "positions": main.positions,
                               "siblings": main.siblings.iter().map(|l| l.iter().map(hex::encode).collect::<Vec<_>>()).collect::<Vec<_>>()});
        let k = matches[0]["step"].as_u64().unwrap_or(0) as usize;
        let fi = FORMATS.iter().position(|f| matches[0]["fmt"] == *f).unwrap_or(0);
        out["rendering"] = json!(rm.texts[k].as_ref().map(|v| v[fi].chars().take(1500).collect::<String>()));
    }
    out["matches"] = json!(matches);
    out
}

pub fn replay(inp: &str, outp: &str, seed: u64) -> Result<()> {
    let cases: Vec<Value> = fs::read_to_string(inp)?
        .lines()
        .filter(|l| !l.trim().is_empty())
        .map(serde_json::from_str)
        .collect::<Result<_, _>>()?;
    let mut jobs: Vec<(usize, usize)> = vec![];
    for (i, c) in cases.iter().enumerate() {
        for v in c["variants"].as_array().ok_or_else(|| anyhow!("variants"))? {
            jobs.push((i, v.as_u64().unwrap_or(0) as usize));
        }
    }
    let results: Vec<Value> = jobs.par_iter().map(|(i, v)| run_case(&cases[*i], *v, seed)).collect();
    let mut f = std::io::BufWriter::new(fs::File::create(outp)?);
    for r in results {
        writeln!(f, "{r}")?;
    }
    Ok(())
}

/// The needle catalogue against renderings that DO leak (a plain derive(Debug) struct holding the raw values):
/// every source must be found, in every format.
pub fn selftest(seed: u64) -> Result<()> {
    #[derive(Debug)]
    #[allow(dead_code)]
    struct Leaky {
        secret: [u8; 32],
        secret_digest: BytesDigest,
        secret_felts: Vec<F>,
        account_felts: Vec<F>,
        tcount: u64,
        tcount_felts: Vec<F>,
        amount: u32,
        dlogs: Vec<u8>,
        dlogs_felts: Vec<F>,
        siblings: Vec<[[u8; 32]; 3]>,
        positions: Vec<u8>,
    }
    use plonky2::field::types::Field;
    let mut out = vec![];
    for class in 0..CLASSES.len() {
        let mut rng = StdRng::seed_from_u64(seed ^ 0x5E1F ^ class as u64);
        let s = gen_sensitive(&mut rng, class, 4);
        let leaky = Leaky {
            secret: s.secret,
            secret_digest: BytesDigest::new_unchecked(s.secret),
            secret_felts: limbs_of(&s.secret).iter().map(|x| F::from_canonical_u64(*x)).collect(),
            account_felts: limbs_of(&s.account).iter().map(|x| F::from_canonical_u64(*x)).collect(),
            tcount: s.tcount,
            tcount_felts: vec![F::from_canonical_u64(s.tcount >> 32), F::from_canonical_u64(s.tcount & 0xFFFF_FFFF)],
            amount: s.amount,
            dlogs: s.dlogs.to_vec(),
            dlogs_felts: s.dlogs.chunks(4).map(|c| { let mut b = [0u8; 4]; b[..c.len()].copy_from_slice(c); F::from_canonical_u64(u32::from_le_bytes(b) as u64) }).collect(),
            siblings: s.siblings.clone(),
            positions: s.positions.clone(),
        };
        let texts: Vec<String> = four(&leaky).iter().map(|t| strip_ws(t)).collect();
        let clean = strip_ws(&format!("{:?}", gen_public(&mut rng).tree_root));
        let needles = sensitive_needles(&s, &Derived::default());
        for (source, nd) in &needles {
            for (fi, t) in texts.iter().enumerate() {
                let hits = nd.list.iter().filter(|(_, n)| t.contains(n.as_str())).count();
                let false_hits = nd.list.iter().filter(|(_, n)| clean.contains(n.as_str())).count();
                out.push(json!({"class": CLASSES[class], "source": source, "fmt": FORMATS[fi], "needles": nd.list.len(), "hits": hits, "false_hits": false_hits}));
            }
        }
    }
    println!("{}", json!(out));
    Ok(())
}
