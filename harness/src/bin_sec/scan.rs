//! C33: scanning global allocator.  While a window is open on the harness thread, every block handed back to
//! the allocator (dealloc, or the old block of a realloc - which is then ALWAYS moved, so that "a Vec that grows
//! frees its old block" is deterministic) is examined while it is still valid: does it contain one of the armed
//! images of the current secret (byte image / felt images), does it equal one of the armed upstream pad images?
//! Interesting frees are written into a fixed static log (the allocator never allocates); the harness reads the
//! log after closing the window.
use std::alloc::{GlobalAlloc, Layout, System};
use std::cell::{Cell, UnsafeCell};
use std::sync::atomic::{AtomicBool, AtomicUsize, Ordering};

pub const MAX_IMAGES: usize = 6;
pub const IMAGE_CAP: usize = 64;
pub const MAX_PADS: usize = 2;
pub const PAD_CAP: usize = 256;
pub const LOG_CAP: usize = 1024;

pub const CLASS_BYTES: u8 = 0;
pub const CLASS_FELTS: u8 = 1;

struct Shared<T>(UnsafeCell<T>);
// single-threaded by construction: written only while no window is open, read only inside the window by the
// one thread that opened it
unsafe impl<T> Sync for Shared<T> {}

struct Armed {
    n_images: usize,
    image: [[u8; IMAGE_CAP]; MAX_IMAGES],
    image_len: [usize; MAX_IMAGES],
    image_class: [u8; MAX_IMAGES],
    n_pads: usize,
    pad: [[u8; PAD_CAP]; MAX_PADS],
    pad_len: [usize; MAX_PADS],
}

#[derive(Clone, Copy, Default)]
pub struct FreeRec {
    pub size: usize,
    pub holds_bytes: bool,
    pub holds_felts: bool,
    pub equals_pad: bool,
    pub via_realloc: bool,
}

static ARMED: Shared<Armed> = Shared(UnsafeCell::new(Armed {
    n_images: 0,
    image: [[0; IMAGE_CAP]; MAX_IMAGES],
    image_len: [0; MAX_IMAGES],
    image_class: [0; MAX_IMAGES],
    n_pads: 0,
    pad: [[0; PAD_CAP]; MAX_PADS],
    pad_len: [0; MAX_PADS],
}));
static LOG: Shared<[FreeRec; LOG_CAP]> = Shared(UnsafeCell::new(
    [FreeRec { size: 0, holds_bytes: false, holds_felts: false, equals_pad: false, via_realloc: false }; LOG_CAP],
));
static LOG_N: AtomicUsize = AtomicUsize::new(0);
static LOG_LOST: AtomicUsize = AtomicUsize::new(0);
static SCANNED: AtomicUsize = AtomicUsize::new(0);
static ACTIVE: AtomicBool = AtomicBool::new(false);

thread_local! {
    // const-initialised, no destructor: touching it from inside the allocator never allocates
    static WINDOW_OWNER: Cell<bool> = const { Cell::new(false) };
}

#[inline]
fn in_window() -> bool {
    ACTIVE.load(Ordering::Relaxed) && WINDOW_OWNER.try_with(|c| c.get()).unwrap_or(false)
}

fn contains(block: &[u8], needle: &[u8]) -> bool {
    let n = needle.len();
    if n == 0 || block.len() < n {
        return false;
    }
    let first = needle[0];
    let last = block.len() - n;
    let mut i = 0;
    while i <= last {
        if block[i] == first && &block[i..i + n] == needle {
            return true;
        }
        i += 1;
    }
    false
}

unsafe fn inspect(ptr: *mut u8, size: usize, via_realloc: bool) {
    SCANNED.fetch_add(1, Ordering::Relaxed);
    if size == 0 {
        return;
    }
    let block = core::slice::from_raw_parts(ptr as *const u8, size);
    let armed = &*ARMED.0.get();
    let mut rec = FreeRec { size, via_realloc, ..Default::default() };
    for k in 0..armed.n_images {
        if contains(block, &armed.image[k][..armed.image_len[k]]) {
            if armed.image_class[k] == CLASS_BYTES {
                rec.holds_bytes = true;
            } else {
                rec.holds_felts = true;
            }
        }
    }
    for k in 0..armed.n_pads {
        // only an exact whole-block match is the upstream buffer (as in the repo's heap_zeroization test)
        if armed.pad_len[k] == size && &armed.pad[k][..size] == block {
            rec.equals_pad = true;
        }
    }
    if rec.holds_bytes || rec.holds_felts || rec.equals_pad {
        let i = LOG_N.fetch_add(1, Ordering::Relaxed);
        if i < LOG_CAP {
            (*LOG.0.get())[i] = rec;
        } else {
            LOG_LOST.fetch_add(1, Ordering::Relaxed);
        }
    }
}

pub struct Scanning;

unsafe impl GlobalAlloc for Scanning {
    unsafe fn alloc(&self, l: Layout) -> *mut u8 {
        System.alloc(l)
    }
    unsafe fn alloc_zeroed(&self, l: Layout) -> *mut u8 {
        System.alloc_zeroed(l)
    }
    unsafe fn dealloc(&self, p: *mut u8, l: Layout) {
        if in_window() {
            inspect(p, l.size(), false);
        }
        System.dealloc(p, l)
    }
    unsafe fn realloc(&self, p: *mut u8, l: Layout, n: usize) -> *mut u8 {
        if in_window() {
            // always move: the old block is released exactly as the growing container left it
            let nl = Layout::from_size_align_unchecked(n, l.align());
            let q = System.alloc(nl);
            if !q.is_null() {
                core::ptr::copy_nonoverlapping(p as *const u8, q, l.size().min(n));
                inspect(p, l.size(), true);
                System.dealloc(p, l);
            }
            q
        } else {
            System.realloc(p, l, n)
        }
    }
}

/// Arm the images to look for (no window may be open).
pub fn arm(images: &[(&[u8], u8)], pads: &[&[u8]]) {
    assert!(!ACTIVE.load(Ordering::SeqCst));
    assert!(images.len() <= MAX_IMAGES && pads.len() <= MAX_PADS);
    let armed = unsafe { &mut *ARMED.0.get() };
    armed.n_images = images.len();
    for (k, (img, class)) in images.iter().enumerate() {
        assert!(img.len() <= IMAGE_CAP && !img.is_empty());
        armed.image[k][..img.len()].copy_from_slice(img);
        armed.image_len[k] = img.len();
        armed.image_class[k] = *class;
    }
    armed.n_pads = pads.len();
    for (k, pad) in pads.iter().enumerate() {
        assert!(pad.len() <= PAD_CAP && !pad.is_empty());
        armed.pad[k][..pad.len()].copy_from_slice(pad);
        armed.pad_len[k] = pad.len();
    }
}

/// Open the window on the calling thread.
#[inline]
pub fn open() {
    LOG_N.store(0, Ordering::SeqCst);
    SCANNED.store(0, Ordering::SeqCst);
    WINDOW_OWNER.with(|c| c.set(true));
    ACTIVE.store(true, Ordering::SeqCst);
}

/// Close the window; returns (blocks examined, interesting frees logged).
#[inline]
pub fn close() -> (usize, usize) {
    ACTIVE.store(false, Ordering::SeqCst);
    WINDOW_OWNER.with(|c| c.set(false));
    (SCANNED.load(Ordering::SeqCst), LOG_N.load(Ordering::SeqCst).min(LOG_CAP))
}

pub fn logged(i: usize) -> FreeRec {
    unsafe { (*LOG.0.get())[i] }
}

pub fn lost() -> usize {
    LOG_LOST.load(Ordering::SeqCst)
}
