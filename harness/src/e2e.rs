//! End-to-end conformance (EndToEnd.tla): behaviours of the aggregation loop replayed on the REAL
//! `PublicBatchAggregator` with REAL proofs at every layer - leaf proofs of several deposits in one tree, real
//! private batches of them (full recursion, N = 2), admission into the aggregator's pool, `snapshot_batch`,
//! `ProvingContext::prove_batch` (full recursion, M = 2), `verify`, and `evict_settled` with the settled set READ
//! FROM THE AGGREGATED PROOF'S PUBLIC INPUTS (the chain's view), not from the model.
//!
//! Compared after every call: the call's result (admission verdict, snapshot ids, eviction count) and the pool's
//! public statistics (length, per-bucket count / volume / snapshot mark).  Judged on every proved batch: the
//! aggregated proof verifies under the aggregator, exposes exactly the nullifiers its inner private batches expose
//! (in order, then the padding template's), the summed exit amounts are the snapshot's, block / asset / fee are
//! the bucket's.
use crate::leafapi::E2EWorld;
use anyhow::{anyhow, Result};
use plonky2::field::types::PrimeField64;
use plonky2::plonk::proof::ProofWithPublicInputs;
use qp_wormhole_inputs::{BytesDigest, PrivateBatchPublicInputs, PublicBatchPublicInputs};
use serde_json::{json, Value};
use std::collections::{BTreeMap, HashSet};
use std::fs;
use std::io::Write;
use std::panic::{catch_unwind, AssertUnwindSafe};
use std::path::Path;
use std::time::Duration;
use wormhole_aggregator::aggregator::PublicBatchAggregator;
use wormhole_aggregator::pool::verif_hooks as hooks;
use wormhole_aggregator::pool::{BatchKey, PoolLimits};
use wormhole_aggregator::private_batch::prover::PrivateBatchProver;
use zk_circuits_common::circuit::{C, D, F};

type Proof = ProofWithPublicInputs<F, C, D>;
const N_LEAF: usize = 2;
const M_INNER: usize = 2;

fn pis(p: &Proof) -> Vec<u64> {
    p.public_inputs.iter().map(|x| x.to_canonical_u64()).collect()
}

struct Real {
    proof: Proof,
    parsed: PrivateBatchPublicInputs,
}

pub fn e2e_replay(inp: &str, outp: &str, scratch: &str, seed: u64) -> Result<()> {
    crate::engine::silence_panics();
    let behaviours: Vec<Value> = fs::read_to_string(inp)?.lines().filter(|l| !l.trim().is_empty()).map(|l| serde_json::from_str(l).unwrap()).collect();
    if behaviours.is_empty() {
        return Err(anyhow!("no behaviours"));
    }
    let t0 = std::time::Instant::now();
    let bins = Path::new(scratch).join("bins");
    let _ = fs::remove_dir_all(&bins);
    fs::create_dir_all(scratch)?;
    circuit_builder::generate_all_circuit_binaries(&bins, true, N_LEAF, Some(M_INNER)).map_err(|e| anyhow!("artifact generation failed: {e:#}"))?;
    let t_bins = t0.elapsed().as_secs_f64();

    // the world: model nullifier n = leaf n-1; its output amount is what the model's composition table says
    let compose = behaviours[0]["compose"].as_array().ok_or_else(|| anyhow!("compose"))?.clone();
    let mut outs: BTreeMap<u64, u32> = BTreeMap::new();
    for c in &compose {
        for l in c["leaves"].as_array().unwrap() {
            let n = l["n"].as_u64().unwrap();
            let o = l["out"].as_u64().unwrap() as u32;
            if let Some(prev) = outs.insert(n, o) {
                if prev != o {
                    return Err(anyhow!("composition table gives leaf {n} two amounts"));
                }
            }
        }
    }
    let nleaves = *outs.keys().max().unwrap() as usize;
    let out_vec: Vec<u32> = (1..=nleaves as u64).map(|n| *outs.get(&n).unwrap_or(&1)).collect();
    let world: E2EWorld = crate::leafapi::e2e_world(seed, &out_vec);
    let palette = behaviours[0]["palette"].as_array().unwrap().clone();
    // real private batches: one per palette entry
    let mut leaf_cache: BTreeMap<(u64, u64), Proof> = BTreeMap::new();
    let mut real: BTreeMap<u64, Real> = BTreeMap::new();
    for p in &palette {
        let id = p["id"].as_u64().unwrap();
        let block = p["key"]["block"].as_u64().unwrap();
        let comp = compose.iter().find(|c| c["id"].as_u64() == Some(id)).ok_or_else(|| anyhow!("no composition for palette entry {id}"))?;
        let mut leaves = vec![];
        for l in comp["leaves"].as_array().unwrap() {
            let n = l["n"].as_u64().unwrap();
            if !leaf_cache.contains_key(&(n, block)) {
                let lp = world.leaf_proof(n as usize - 1, block as usize - 1).map_err(|e| anyhow!("honest leaf {n} against block {block} could not be proved: {e:#}"))?;
                leaf_cache.insert((n, block), lp);
            }
            leaves.push(leaf_cache[&(n, block)].clone());
        }
        let prover = PrivateBatchProver::new_from_binaries_dir(&bins).map_err(|e| anyhow!("private-batch prover: {e:#}"))?;
        let proof = prover.aggregate(leaves).map_err(|e| anyhow!("private batch {id}: {e:#}"))?;
        let parsed = PrivateBatchPublicInputs::try_from_u64_slice(&pis(&proof)).map_err(|e| anyhow!("private batch {id} does not parse: {e:#}"))?;
        real.insert(id, Real { proof, parsed });
    }
    let t_proofs = t0.elapsed().as_secs_f64() - t_bins;
    let real_null = |n: u64| -> BytesDigest { world.nullifier(n as usize - 1).try_into().unwrap() };
    let key_of = |k: &Value| -> BatchKey {
        BatchKey { block_hash: world.block_hash(k["block"].as_u64().unwrap() as usize - 1).try_into().unwrap(), asset_id: k["asset"].as_u64().unwrap(), volume_fee_bps: k["fee"].as_u64().unwrap() }
    };
    let mut addr = [0u8; 32];
    addr[0] = 0xA9;
    addr[17] = 3;

    let mut fo = fs::File::create(outp)?;
    writeln!(fo, "{}", json!({"setup": {"artifact_generation_s": t_bins, "real_proofs_s": t_proofs, "leaf_proofs": leaf_cache.len(), "private_batches": real.len()}}))?;
    for (bi, b) in behaviours.iter().enumerate() {
        let lim = &b["limits"];
        let limits = PoolLimits {
            max_proofs: lim["max_proofs"].as_u64().unwrap() as usize,
            max_buckets: lim["max_buckets"].as_u64().unwrap() as usize,
            max_verifies_per_window: lim["max_verifies"].as_u64().unwrap() as usize,
            verify_window: Duration::from_secs(lim["window"].as_u64().unwrap()),
        };
        hooks::set_virtual_now(Some(Duration::from_secs(0)));
        let mut agg = PublicBatchAggregator::with_limits(&bins, addr.try_into().map_err(|_| anyhow!("address"))?, limits).map_err(|e| anyhow!("aggregator init: {e:#}"))?;
        let mut chain: HashSet<BytesDigest> = HashSet::new();
        let mut problems: Vec<String> = vec![];
        let mut done = 0usize;
        let mut proved = 0usize;
        for (si, s) in b["steps"].as_array().unwrap().iter().enumerate() {
            let call = &s["call"];
            let res = &s["res"];
            let op = call["op"].as_str().unwrap();
            let r = catch_unwind(AssertUnwindSafe(|| -> Option<String> {
                match op {
                    "push" => {
                        let id = call["id"].as_u64().unwrap();
                        let got = match agg.push_proof(real[&id].proof.clone()) {
                            Ok(k) => {
                                if k != key_of(&palette.iter().find(|p| p["id"].as_u64() == Some(id)).unwrap()["key"]) {
                                    return Some(format!("push of batch {id} landed in another bucket than its block / asset / fee"));
                                }
                                "Ok".to_string()
                            }
                            Err(e) => crate::pool::classify(&format!("{e:#}")).to_string(),
                        };
                        let want = res["result"].as_str().unwrap();
                        if got != want {
                            return Some(format!("push of private batch {id}: model {want}, real aggregator {got}"));
                        }
                    }
                    "snapshot" => {
                        let got = agg.snapshot_batch(&key_of(&call["key"]));
                        let want: Vec<u64> = res["ids"].as_array().unwrap().iter().map(|x| x.as_u64().unwrap()).collect();
                        match got {
                            Err(e) => {
                                if !want.is_empty() {
                                    return Some(format!("snapshot_batch refused ({e:#}) where the model returns {want:?}"));
                                }
                            }
                            Ok(v) => {
                                let ids: Vec<u64> = v.iter().map(|p| real.iter().find(|(_, r)| r.proof.public_inputs == p.public_inputs).map(|(i, _)| *i).unwrap_or(0)).collect();
                                if ids != want {
                                    return Some(format!("snapshot_batch returned batches {ids:?}, model {want:?}"));
                                }
                            }
                        }
                    }
                    "prove" => {
                        let ids: Vec<u64> = call["ids"].as_array().unwrap().iter().map(|x| x.as_u64().unwrap()).collect();
                        let snapshot: Vec<Proof> = ids.iter().map(|i| real[i].proof.clone()).collect();
                        let ctx = agg.proving_context();
                        let len_before = agg.pool_len();
                        let out = match ctx.prove_batch(snapshot) {
                            Ok(p) => p,
                            Err(e) => return Some(format!("prove_batch failed on a snapshot of pooled, verified private batches {ids:?}: {e:#}")),
                        };
                        if agg.pool_len() != len_before {
                            return Some("proving changed the pool (custody)".into());
                        }
                        if let Err(e) = agg.verify(out.clone()) {
                            return Some(format!("the aggregator does not verify its own aggregated proof of {ids:?}: {e:#}"));
                        }
                        let parsed = match PublicBatchPublicInputs::try_from_u64_slice(&pis(&out), M_INNER, N_LEAF) {
                            Ok(p) => p,
                            Err(e) => return Some(format!("aggregated proof's public inputs do not parse: {e:#}")),
                        };
                        // nullifiers: the inner batches' exposed nullifiers in order, then padding
                        let mut want_nulls: Vec<BytesDigest> = vec![];
                        for i in &ids {
                            want_nulls.extend(real[i].parsed.nullifiers.iter().cloned());
                        }
                        if parsed.nullifiers.len() != M_INNER * N_LEAF || parsed.nullifiers[..want_nulls.len()] != want_nulls[..] {
                            return Some(format!("aggregated proof of {ids:?} does not expose its inner batches' nullifiers in order"));
                        }
                        let model_nulls: HashSet<BytesDigest> = compose.iter().filter(|c| ids.contains(&c["id"].as_u64().unwrap()))
                            .flat_map(|c| c["leaves"].as_array().unwrap().iter().map(|l| real_null(l["n"].as_u64().unwrap())).collect::<Vec<_>>()).collect();
                        let exposed: HashSet<BytesDigest> = parsed.nullifiers.iter().cloned().collect();
                        if !model_nulls.is_subset(&exposed) {
                            return Some(format!("aggregated proof of {ids:?} does not expose every real leaf nullifier of the snapshot"));
                        }
                        // a nullifier of a deposit that is NOT in the snapshot must not appear
                        for n in 1..=nleaves as u64 {
                            if exposed.contains(&real_null(n)) && !model_nulls.contains(&real_null(n)) {
                                return Some(format!("aggregated proof of {ids:?} exposes the nullifier of leaf {n}, which is not in the snapshot"));
                            }
                        }
                        let want_total: u64 = ids.iter().map(|i| real[i].parsed.account_data.iter().map(|a| a.summed_output_amount as u64).sum::<u64>()).sum();
                        let got_total: u64 = parsed.account_data.iter().map(|a| a.summed_output_amount as u64).sum();
                        let model_total: u64 = compose.iter().filter(|c| ids.contains(&c["id"].as_u64().unwrap()))
                            .flat_map(|c| c["leaves"].as_array().unwrap().iter().map(|l| l["out"].as_u64().unwrap()).collect::<Vec<_>>()).sum();
                        if got_total != want_total || got_total != model_total {
                            return Some(format!("exit amounts are not conserved across the two layers: leaves {model_total}, private batches {want_total}, public batch {got_total}"));
                        }
                        let key = key_of(&call["key"]);
                        if parsed.block_data.block_hash != key.block_hash || parsed.asset_id as u64 != key.asset_id || parsed.volume_fee_bps as u64 != key.volume_fee_bps {
                            return Some(format!("aggregated proof of bucket {:?} carries another block / asset / fee", call["key"]));
                        }
                        if parsed.aggregator_address != BytesDigest::try_from(addr).unwrap() {
                            return Some("aggregated proof does not expose the configured aggregator address".into());
                        }
                        // the chain takes the batch iff none of its REAL nullifiers is settled (the model's `lands`); what it
                        // records is what the proof exposes
                        let lands_real = model_nulls.iter().all(|n| !chain.contains(n));
                        if lands_real != call["lands"].as_bool().unwrap() {
                            return Some(format!("chain acceptance differs: model {}, real nullifiers {}", call["lands"], lands_real));
                        }
                        if lands_real {
                            chain.extend(parsed.nullifiers.iter().cloned());
                        }
                        proved += 1;
                    }
                    "evict_settled" => {
                        let got = agg.evict_settled(&chain);
                        let want = res["count"].as_u64().unwrap() as usize;
                        if got != want {
                            return Some(format!("evict_settled with the nullifiers read from the settled aggregated proofs evicted {got} batches, model {want}"));
                        }
                    }
                    other => return Some(format!("harness: unknown call {other}")),
                }
                // the pool's public statistics against the model's projected state
                let st = &s["st"];
                if agg.pool_len() as u64 != st["size"].as_u64().unwrap() {
                    return Some(format!("after {op}: pool holds {} batches, model {}", agg.pool_len(), st["size"]));
                }
                let stats = agg.bucket_stats();
                let mbk = st["bk"].as_array().unwrap();
                if stats.len() != mbk.len() {
                    return Some(format!("after {op}: {} buckets, model {}", stats.len(), mbk.len()));
                }
                for m in mbk {
                    let k = key_of(&m["key"]);
                    let Some(rs) = stats.iter().find(|x| x.key == k) else { return Some(format!("after {op}: bucket {:?} missing", m["key"])) };
                    let entries = m["entries"].as_array().unwrap();
                    let vol: u64 = entries.iter().map(|e| e["vol"].as_u64().unwrap()).sum();
                    if rs.num_proofs != entries.len() || rs.total_volume != vol || rs.last_snapshot_age.is_some() != (m["snap"].as_i64().unwrap() >= 0) {
                        return Some(format!("after {op}: bucket {:?} has {} batches / volume {} / snapshot mark {}, model {} / {} / {}", m["key"], rs.num_proofs,
                                            rs.total_volume, rs.last_snapshot_age.is_some(), entries.len(), vol, m["snap"].as_i64().unwrap() >= 0));
                    }
                }
                None
            }));
            match r {
                Ok(None) => done += 1,
                Ok(Some(msg)) => {
                    problems.push(format!("step {si} ({op}): {msg}"));
                    break;
                }
                Err(_) => {
                    problems.push(format!("step {si} ({op}): the aggregator panicked"));
                    break;
                }
            }
        }
        writeln!(fo, "{}", json!({"behaviour": bi, "steps": b["steps"].as_array().unwrap().len(), "matched": done, "proved": proved, "problems": problems,
                                  "calls": b["steps"].as_array().unwrap().iter().map(|s| s["call"].clone()).collect::<Vec<_>>()}))?;
        fo.flush()?;
    }
    hooks::set_virtual_now(None);
    let _ = fs::remove_dir_all(&bins);
    Ok(())
}
