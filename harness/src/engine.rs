//! Adversarial-witness oracle: evaluates a *real* circuit (built by the repo's own code) on an
//! arbitrary wire assignment and lets the production prover + verifier decide.
//!
//!  1. input targets are pre-set by the caller (any field element, any fragment copy);
//!  2. optional hint overrides pre-set the outputs of chosen witness generators;
//!  3. the circuit's own generators run with the rule "pre-set values win" (Plonky2's loop errors
//!     on a conflict; here the adversary's value stays and the gate constraint decides);
//!  4. the witness goes to `prove_with_partition_witness`, the proof to the real verifier.
//!
//! Verdict = accepted iff a proof comes out AND the verifier accepts it. A panic or an error on
//! the way is a rejection (data, not a tool failure).
use plonky2::field::types::{Field, PrimeField64};
use plonky2::iop::generator::GeneratedValues;
use plonky2::iop::target::Target;
use plonky2::iop::witness::{PartitionWitness, Witness};
use plonky2::plonk::circuit_data::CircuitData;
use plonky2::plonk::prover::prove_with_partition_witness;
use plonky2::util::timing::TimingTree;
use std::panic::{catch_unwind, AssertUnwindSafe};
use zk_circuits_common::circuit::{C, D, F};

pub const P: u64 = 0xFFFF_FFFF_0000_0001;

#[derive(Clone, Debug)]
pub struct Site {
    pub gen: usize,
    pub kind: String,
    pub debug: String,
    /// honest outputs, in the order the generator wrote them
    pub outputs: Vec<(Target, F)>,
    /// honest values of the watched targets
    pub deps: Vec<(Target, F)>,
}

#[derive(Clone, Debug)]
pub enum Verdict {
    Accepted(Vec<u64>),
    Rejected(String),
}

impl Verdict {
    pub fn accepted(&self) -> bool {
        matches!(self, Verdict::Accepted(_))
    }
    pub fn pis(&self) -> Option<&Vec<u64>> {
        match self {
            Verdict::Accepted(p) => Some(p),
            _ => None,
        }
    }
}

/// One override: pre-set these targets before the generators run.
#[derive(Clone, Debug)]
pub struct Override {
    pub site: usize,
    pub label: String,
    pub sets: Vec<(Target, F)>,
}

pub fn silence_panics() {
    std::panic::set_hook(Box::new(|_| {}));
}

/// Runs the generators with "pre-set wins"; returns the witness, per-generator outputs, and whether
/// some generator output disagreed with an already-set value.
fn generate<'a>(
    data: &'a CircuitData<F, C, D>,
    presets: &[(Target, F)],
    record: bool,
) -> Result<(PartitionWitness<'a, F>, Vec<Site>, bool), String> {
    let po = &data.prover_only;
    let gens = &po.generators;
    let mut w = PartitionWitness::new(data.common.config.num_wires, data.common.degree(), &po.representative_map);
    for (t, v) in presets {
        if let Some(old) = w.try_get_target(*t) {
            if old != *v {
                return Err("copy-constraint conflict between pre-set targets".into());
            }
            continue;
        }
        w.set_target_returning_rep(*t, *v).map_err(|e| e.to_string())?;
    }
    let mut pending: Vec<usize> = (0..gens.len()).collect();
    let mut expired = vec![false; gens.len()];
    let mut remaining = gens.len();
    let mut buf = GeneratedValues::empty();
    let mut sites: Vec<Site> = Vec::new();
    let mut conflict = false;
    while !pending.is_empty() {
        let mut next = Vec::new();
        for &gi in &pending {
            if expired[gi] {
                continue;
            }
            let fin = gens[gi].0.run(&w, &mut buf);
            if fin {
                expired[gi] = true;
                remaining -= 1;
            }
            let mut new_reps = Vec::new();
            let outs: Vec<(Target, F)> = buf.target_values.drain(..).collect();
            for (t, v) in &outs {
                match w.try_get_target(*t) {
                    Some(old) => {
                        if old != *v {
                            conflict = true; // the earlier value stays
                        }
                    }
                    None => {
                        if let Ok(Some(rep)) = w.set_target_returning_rep(*t, *v) {
                            new_reps.push(rep);
                        }
                    }
                }
            }
            if record && fin && !outs.is_empty() {
                let deps: Vec<(Target, F)> =
                    gens[gi].0.watch_list().iter().filter_map(|t| w.try_get_target(*t).map(|v| (*t, v))).collect();
                sites.push(Site { gen: gi, kind: gens[gi].0.id(), debug: format!("{:?}", gens[gi].0), outputs: outs, deps });
            }
            for rep in new_reps {
                if let Some(ws) = po.generator_indices_by_watches.get(&rep) {
                    for &g in ws {
                        if !expired[g] {
                            next.push(g);
                        }
                    }
                }
            }
        }
        pending = next;
    }
    if remaining != 0 {
        return Err(format!("{remaining} generators could not run (unset inputs)"));
    }
    Ok((w, sites, conflict))
}

/// The honest generators' outputs for these inputs (used to enumerate hint sites).
pub fn sites(data: &CircuitData<F, C, D>, inputs: &[(Target, F)]) -> Result<Vec<Site>, String> {
    let r = catch_unwind(AssertUnwindSafe(|| generate(data, inputs, true).map(|(_, s, _)| s)));
    match r {
        Ok(x) => x,
        Err(_) => Err("generator panicked".into()),
    }
}

/// Evaluate the circuit on the assignment `presets` (inputs first, then overrides).
pub fn run(data: &CircuitData<F, C, D>, presets: &[(Target, F)]) -> Verdict {
    let r = catch_unwind(AssertUnwindSafe(|| -> Verdict {
        let (w, _, _conflict) = match generate(data, presets, false) {
            Ok(x) => x,
            Err(e) => return Verdict::Rejected(format!("witness: {e}")),
        };
        let mut timing = TimingTree::default();
        let proof = match prove_with_partition_witness(&data.prover_only, &data.common, w, &mut timing) {
            Ok(p) => p,
            Err(e) => return Verdict::Rejected(format!("prove: {e}")),
        };
        let pis: Vec<u64> = proof.public_inputs.iter().map(|f| f.to_canonical_u64()).collect();
        match data.verify(proof) {
            Ok(()) => Verdict::Accepted(pis),
            Err(e) => Verdict::Rejected(format!("verify: {}", e.to_string().chars().take(80).collect::<String>())),
        }
    }));
    match r {
        Ok(v) => v,
        Err(_) => Verdict::Rejected("panic".into()),
    }
}

/// The ordinary path (`CircuitData::prove` + `verify`) for cross-checking the engine.
pub fn run_plain(data: &CircuitData<F, C, D>, inputs: &[(Target, F)]) -> Verdict {
    use plonky2::iop::witness::{PartialWitness, WitnessWrite};
    let r = catch_unwind(AssertUnwindSafe(|| -> Verdict {
        let mut pw = PartialWitness::new();
        for (t, v) in inputs {
            if pw.set_target(*t, *v).is_err() {
                return Verdict::Rejected("input conflict".into());
            }
        }
        let proof = match data.prove(pw) {
            Ok(p) => p,
            Err(e) => return Verdict::Rejected(format!("prove: {}", e.to_string().chars().take(80).collect::<String>())),
        };
        let pis: Vec<u64> = proof.public_inputs.iter().map(|f| f.to_canonical_u64()).collect();
        match data.verify(proof) {
            Ok(()) => Verdict::Accepted(pis),
            Err(_) => Verdict::Rejected("verify".into()),
        }
    }));
    r.unwrap_or(Verdict::Rejected("panic".into()))
}

fn parse_field(debug: &str, name: &str) -> Option<u64> {
    let key = format!("{name}: ");
    let i = debug.find(&key)? + key.len();
    let s: String = debug[i..].chars().take_while(|c| c.is_ascii_digit()).collect();
    s.parse().ok()
}

fn inv(x: F) -> F {
    if x == F::ZERO { F::ZERO } else { x.inverse() }
}

/// The override catalogue for one hint site (empty for sites with no meaningful attack).
/// Every entry is an *alternative* assignment of the generator's outputs; whether the real circuit
/// accepts it is for the prover and verifier to say.
pub fn catalogue(s: &Site) -> Vec<Override> {
    let mut out = Vec::new();
    let mk = |label: &str, sets: Vec<(Target, F)>| Override { site: s.gen, label: format!("{}#{}:{}", s.kind, s.gen, label), sets };
    if s.kind == "LowHighGenerator" && s.outputs.len() == 2 && s.deps.len() == 1 {
        let n = parse_field(&s.debug, "n_log").unwrap_or(32);
        let x = s.deps[0].1.to_canonical_u64();
        let (lo_t, hi_t) = (s.outputs[0].0, s.outputs[1].0);
        if n < 64 {
            // the integer x + p, when it fits 64 bits
            if let Some(xp) = x.checked_add(P) {
                let lo = xp & ((1u64 << n) - 1);
                let hi = xp >> n;
                out.push(mk("alias", vec![(lo_t, F::from_noncanonical_u64(lo)), (hi_t, F::from_noncanonical_u64(hi))]));
            }
            // borrow one unit of the high half: (lo + 2^n, hi - 1)
            let lo = s.outputs[0].1.to_canonical_u64();
            let hi = s.outputs[1].1.to_canonical_u64();
            if hi > 0 && n < 63 {
                out.push(mk("borrow", vec![(lo_t, F::from_noncanonical_u64(lo + (1u64 << n))), (hi_t, F::from_canonical_u64(hi - 1))]));
            }
            // flip the lowest bit of hi and compensate nothing
            out.push(mk("hi^1", vec![(hi_t, F::from_canonical_u64(hi ^ 1))]));
            // negative representation: lo' = lo - 2^n (mod p), hi' = hi + 1
            out.push(mk("neg", vec![(lo_t, s.outputs[0].1 - F::from_canonical_u64(1u64 << n)), (hi_t, s.outputs[1].1 + F::ONE)]));
        }
    } else if s.kind == "EqualityGenerator" && s.outputs.len() == 2 && s.deps.len() == 2 {
        let (eq_t, eq) = s.outputs[0];
        let (inv_t, _iv) = s.outputs[1];
        let diff = s.deps[0].1 - s.deps[1].1;
        let flipped = F::ONE - eq;
        out.push(mk("flip,inv=0", vec![(eq_t, flipped), (inv_t, F::ZERO)]));
        out.push(mk("flip,inv=1/d", vec![(eq_t, flipped), (inv_t, inv(diff))]));
        out.push(mk("flip", vec![(eq_t, flipped)]));
        out.push(mk("inv=7", vec![(inv_t, F::from_canonical_u64(7))]));
        out.push(mk("eq=2", vec![(eq_t, F::TWO)]));
    } else if s.kind.starts_with("WireSplitGenerator") && s.deps.len() == 1 {
        // outputs are the per-gate chunk sums of the bit decomposition
        let nl = parse_field(&s.debug, "num_limbs").unwrap_or(63) as u32;
        let x = s.deps[0].1.to_canonical_u64();
        let chunk = |v: u64, i: usize| -> u64 {
            let sh = (i as u32) * nl;
            if sh >= 64 { 0 } else if nl >= 64 { v } else { (v >> sh) & ((1u64 << nl) - 1) }
        };
        if let Some(xp) = x.checked_add(P) {
            out.push(mk("alias", s.outputs.iter().enumerate().map(|(i, (t, _))| (*t, f(chunk(xp, i)))).collect()));
        }
        out.push(mk("bit0", s.outputs.iter().enumerate().map(|(i, (t, _))| (*t, f(chunk(x ^ 1, i)))).collect()));
        let k = s.outputs.len();
        let (t, v) = s.outputs[k - 1];
        out.push(mk("top+1", vec![(t, v + F::ONE)]));
    } else if s.kind.starts_with("BaseSumGenerator") {
        if let Some(&(t, v)) = s.outputs.first() {
            out.push(mk("sum+1", vec![(t, v + F::ONE)]));
        }
    } else if s.kind == "ArithmeticBaseGenerator" || s.kind.starts_with("Poseidon2") || s.kind == "RandomAccessGenerator" {
        if let Some(&(t, v)) = s.outputs.last() {
            out.push(mk("out+1", vec![(t, v + F::ONE)]));
        }
    }
    out
}

pub fn f(x: u64) -> F {
    F::from_noncanonical_u64(x)
}

/// Engine self-check on honest inputs: both paths agree.
pub fn cross_check(data: &CircuitData<F, C, D>, inputs: &[(Target, F)]) -> Result<Verdict, String> {
    let a = run(data, inputs);
    let b = run_plain(data, inputs);
    match (&a, &b) {
        (Verdict::Accepted(x), Verdict::Accepted(y)) if x == y => Ok(a),
        (Verdict::Rejected(_), Verdict::Rejected(_)) => Ok(a),
        _ => Err(format!("engine and CircuitData::prove disagree: {a:?} vs {b:?}")),
    }
}
