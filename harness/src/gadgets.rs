//! C30 / C31 / gadget half of C10: the real `is_const_less_than`, `enforce_target_less_than_const`
//! and `sort_digests4` (common/src/gadgets.rs), each built into a small circuit by the repo's own
//! functions and evaluated by the adversarial-witness oracle (engine.rs).
//!
//!  gadget-replay <K> <in> <out>   cases printed by TLC from Gadgets.tla (model values over P(K)),
//!                                 embedded bit-block-wise into 64-bit values; per distinct input the
//!                                 honest witness and the whole override catalogue on every hint site
//!  gadget-record <out> <n>        seeded random / landmark real-domain runs, one ndjson event each
//!                                 (values as 16-bit limbs) for GadgetsTrace.tla
use crate::engine::{self, f, Verdict, P};
use anyhow::Result;
use plonky2::iop::target::Target;
use plonky2::plonk::circuit_builder::CircuitBuilder;
use plonky2::plonk::circuit_data::{CircuitConfig, CircuitData};
use rand::rngs::StdRng;
use rand::{Rng, SeedableRng};
use rayon::prelude::*;
use serde_json::{json, Value};
use std::collections::BTreeMap;
use std::fs;
use std::io::Write;
use std::panic::{catch_unwind, AssertUnwindSafe};
use std::sync::Mutex;
use zk_circuits_common::circuit::{C, D, F};
use zk_circuits_common::gadgets::{enforce_target_less_than_const, is_const_less_than, sort_digests4};

pub struct Gadget {
    pub data: CircuitData<F, C, D>,
    pub ins: Vec<Target>,
}

/// Plonky2's standard recursion config without the proof-of-work grinding (84 bits of FRI query
/// soundness remain, so a verifier acceptance still means the constraints hold).
pub fn cfg() -> CircuitConfig {
    let mut c = CircuitConfig::standard_recursion_config();
    c.fri_config.proof_of_work_bits = 0;
    c.security_bits = 84;
    c
}

/// None = the repo's builder refused the parameters (panic), which is data.
pub fn build_lt(w: usize, c: u64) -> Option<Gadget> {
    catch_unwind(AssertUnwindSafe(|| {
        let mut b = CircuitBuilder::<F, D>::new(cfg());
        let x = b.add_virtual_target();
        let lt = is_const_less_than(&mut b, c as usize, x, w);
        b.register_public_input(lt.target);
        Gadget { data: b.build::<C>(), ins: vec![x] }
    }))
    .ok()
}

pub fn build_enf(w: usize, bound: u64) -> Option<Gadget> {
    catch_unwind(AssertUnwindSafe(|| {
        let mut b = CircuitBuilder::<F, D>::new(cfg());
        let x = b.add_virtual_target();
        enforce_target_less_than_const(&mut b, x, bound as usize, w);
        b.register_public_input(x);
        Gadget { data: b.build::<C>(), ins: vec![x] }
    }))
    .ok()
}

pub fn build_sort(n: usize) -> Option<Gadget> {
    catch_unwind(AssertUnwindSafe(|| {
        let mut b = CircuitBuilder::<F, D>::new(cfg());
        let vals: Vec<[Target; 4]> = (0..n).map(|_| core::array::from_fn(|_| b.add_virtual_target())).collect();
        let ins: Vec<Target> = vals.iter().flat_map(|d| d.iter().copied()).collect();
        for d in sort_digests4(&mut b, vals) {
            for t in d {
                b.register_public_input(t);
            }
        }
        Gadget { data: b.build::<C>(), ins }
    }))
    .ok()
}

/// Model value over P(K) -> 64-bit value: every model bit becomes a block of 32/K equal bits.
/// Monotone, maps 2^K-1 to 2^32-1, keeps "lo = 0", keeps "x < 2^w" for w -> w*32/K.
pub fn embed(v: u64, k: u32) -> u64 {
    let blk = 32 / k;
    let mut out = 0u64;
    for i in 0..(2 * k) {
        if (v >> i) & 1 == 1 {
            let mask = if blk == 64 { u64::MAX } else { (1u64 << blk) - 1 };
            out |= mask << (i * blk);
        }
    }
    out
}

fn attacks_on(g: &Gadget, inputs: &[(Target, F)], max_sites: usize, skip_plain: bool, pick: u64) -> Vec<(String, Verdict)> {
    let sites = match engine::sites(&g.data, inputs) {
        Ok(s) => s,
        Err(_) => return vec![],
    };
    let elig: Vec<&engine::Site> = sites
        .iter()
        .filter(|s| !skip_plain || s.kind == "LowHighGenerator" || s.kind == "EqualityGenerator" || s.kind.starts_with("WireSplit"))
        .filter(|s| !engine::catalogue(s).is_empty())
        .collect();
    // at most max_sites sites, spread over the circuit by a seeded stride; LowHigh sites first
    let mut chosen: Vec<&engine::Site> = vec![];
    if elig.len() <= max_sites {
        chosen = elig;
    } else {
        let lh: Vec<&engine::Site> = elig.iter().copied().filter(|s| s.kind == "LowHighGenerator").collect();
        let rest: Vec<&engine::Site> = elig.iter().copied().filter(|s| s.kind != "LowHighGenerator").collect();
        let take = |v: &Vec<&engine::Site>, k: usize, off: u64| -> Vec<usize> {
            if v.is_empty() || k == 0 {
                return vec![];
            }
            let k = k.min(v.len());
            (0..k).map(|i| ((off as usize % v.len()) + i * v.len() / k) % v.len()).collect()
        };
        let k1 = (max_sites * 2 / 3).max(1);
        for i in take(&lh, k1, pick) {
            chosen.push(lh[i]);
        }
        let left = max_sites.saturating_sub(chosen.len());
        for i in take(&rest, left, pick / 7) {
            chosen.push(rest[i]);
        }
    }
    let mut out = vec![];
    for s in chosen {
        for o in engine::catalogue(s) {
            let mut pre: Vec<(Target, F)> = inputs.to_vec();
            pre.extend(o.sets.iter().copied());
            let v = engine::run(&g.data, &pre);
            out.push((o.label, v));
        }
    }
    out
}

fn vjson(v: &Verdict) -> Value {
    match v {
        Verdict::Accepted(p) => json!({"acc": 1, "pis": p}),
        Verdict::Rejected(r) => json!({"acc": 0, "why": r}),
    }
}

pub fn replay(k: &str, inp: &str, outp: &str) -> Result<()> {
    engine::silence_panics();
    let k: u32 = k.parse()?;
    let cases: Vec<Value> = fs::read_to_string(inp)?.lines().filter(|l| !l.trim().is_empty()).map(|l| serde_json::from_str(l).unwrap()).collect();
    let cache: Mutex<BTreeMap<(String, usize, u64), std::sync::Arc<Option<Gadget>>>> = Mutex::new(BTreeMap::new());
    let get = |g: &str, w: usize, c: u64| -> std::sync::Arc<Option<Gadget>> {
        if let Some(x) = cache.lock().unwrap().get(&(g.to_string(), w, c)) {
            return x.clone();
        }
        let built = std::sync::Arc::new(match g {
            "lt" => build_lt(w, c),
            "enf" => build_enf(w, c),
            _ => build_sort(w),
        });
        cache.lock().unwrap().insert((g.to_string(), w, c), built.clone());
        built
    };
    let blk = (32 / k) as usize;
    let results: Vec<Value> = cases
        .par_iter()
        .map(|c| {
            let g = c["g"].as_str().unwrap();
            let attacks = c["attacks"].as_u64().unwrap_or(1) == 1;
            if g == "sort" {
                let d: Vec<Vec<u64>> = c["d"].as_array().unwrap().iter().map(|x| x.as_array().unwrap().iter().map(|y| y.as_u64().unwrap()).collect()).collect();
                let n = d.len();
                let l = d[0].len();
                // place the model limbs at positions chosen by the case; the other limbs are shared
                let h = c["place"].as_u64().unwrap_or(0) as usize;
                let pos: Vec<usize> = match l {
                    1 => vec![h % 4],
                    2 => [[0, 1], [0, 3], [1, 2], [2, 3], [1, 3], [0, 2]][h % 6].to_vec(),
                    _ => (0..l.min(4)).collect(),
                };
                let filler = [0u64, 7, P - 1, 1u64 << 32][(h / 6) % 4];
                let real: Vec<[u64; 4]> = d
                    .iter()
                    .map(|m| {
                        let mut r = [filler; 4];
                        for (j, p) in pos.iter().enumerate() {
                            r[*p] = embed(m[j], k);
                        }
                        r
                    })
                    .collect();
                let gd = get("sort", n, 0);
                let Some(gd) = gd.as_ref() else { return json!({"built": 0}) };
                let inputs: Vec<(Target, F)> = gd.ins.iter().zip(real.iter().flat_map(|r| r.iter())).map(|(t, v)| (*t, f(*v))).collect();
                let honest = engine::run(&gd.data, &inputs);
                let att: Vec<Value> = if attacks {
                    attacks_on(gd, &inputs, 24, true, c["place"].as_u64().unwrap_or(0)).into_iter().map(|(l, v)| json!({"label": l, "v": vjson(&v)})).collect()
                } else {
                    vec![]
                };
                json!({"built": 1, "real": real, "pos": pos, "filler": filler, "honest": vjson(&honest), "attacks": att})
            } else {
                let w = c["w"].as_u64().unwrap() as usize * blk;
                let cc = c["c"].as_u64().unwrap();
                // enf: the model's c is the exclusive bound; embed bound-1 and add one back
                let creal = if g == "enf" { embed(cc - 1, k).wrapping_add(1) } else { embed(cc, k) };
                let x = embed(c["x"].as_u64().unwrap(), k);
                let gd = get(g, w, creal);
                let Some(gd) = gd.as_ref() else { return json!({"built": 0, "w": w, "c": creal}) };
                let inputs = vec![(gd.ins[0], f(x))];
                let honest = engine::run(&gd.data, &inputs);
                let att: Vec<Value> = if attacks {
                    attacks_on(gd, &inputs, 24, true, 0).into_iter().map(|(l, v)| json!({"label": l, "v": vjson(&v)})).collect()
                } else {
                    vec![]
                };
                json!({"built": 1, "w": w, "c": creal, "x": x, "honest": vjson(&honest), "attacks": att})
            }
        })
        .collect();
    let mut fo = fs::File::create(outp)?;
    for r in results {
        writeln!(fo, "{}", r)?;
    }
    Ok(())
}

pub fn limbs16(x: u64) -> Vec<u64> {
    vec![(x >> 48) & 0xffff, (x >> 32) & 0xffff, (x >> 16) & 0xffff, x & 0xffff]
}

fn landmark(rng: &mut StdRng, w: usize) -> u64 {
    let top = if w >= 64 { u64::MAX } else { (1u64 << w) - 1 };
    let cands = [
        0, 1, 2, top.wrapping_sub(1), top, top.wrapping_add(1), top.wrapping_add(2),
        (1u64 << 32) - 2, (1u64 << 32) - 1, 1u64 << 32, (1u64 << 32) + 1,
        P - 2, P - 1, 0xFFFF_FFFF_0000_0000, 0xFFFF_FFFE_FFFF_FFFF, rng.gen::<u64>() % P, rng.gen::<u64>() & top,
    ];
    let v = cands[rng.gen_range(0..cands.len())];
    if v >= P { v - P } else { v }
}

/// impl -> spec: real-domain runs recorded for GadgetsTrace.tla
pub fn record(outp: &str, n: usize, seed: u64, kinds: &str) -> Result<()> {
    engine::silence_panics();
    let mut rng = StdRng::seed_from_u64(seed);
    let widths = [1usize, 2, 7, 8, 16, 31, 32, 33, 47, 48, 62, 63, 64];
    let mut plans: Vec<Value> = vec![];
    for i in 0..n {
        let kind = if kinds == "sort" { "sort" } else { ["lt", "lt", "enf"][i % 3] };
        if kind == "sort" {
            let nn = [1usize, 2, 3, 4, 5, 8, 9, 17][rng.gen_range(0..8)];
            let pool: Vec<u64> = (0..3).map(|_| landmark(&mut rng, 64)).collect();
            let d: Vec<[u64; 4]> = (0..nn)
                .map(|_| core::array::from_fn(|_| if rng.gen_bool(0.6) { pool[rng.gen_range(0..3)] } else { landmark(&mut rng, 64) }))
                .collect();
            plans.push(json!({"g": "sort", "d": d, "seed": rng.gen::<u64>()}));
        } else {
            let w = widths[rng.gen_range(0..widths.len())];
            let top = if w >= 64 { P - 1 } else { (1u64 << w) - 1 };
            let mut c = landmark(&mut rng, w).min(top);
            if rng.gen_bool(0.3) {
                c = rng.gen::<u64>() % (top.min(P - 1) + 1).max(1);
            }
            let mut x = landmark(&mut rng, w);
            if rng.gen_bool(0.4) {
                x = [c, c.wrapping_add(1) % P, c.saturating_sub(1)][rng.gen_range(0..3)];
            }
            if w == 64 && rng.gen_bool(0.1) {
                c = [P, P + 1, u64::MAX - 1, u64::MAX][rng.gen_range(0..4)];
            }
            let c = if kind == "enf" { c.max(1) } else { c };
            plans.push(json!({"g": kind, "w": w, "c": c, "x": x, "seed": rng.gen::<u64>()}));
        }
    }
    let events: Vec<Vec<Value>> = plans
        .par_iter()
        .map(|p| {
            let g = p["g"].as_str().unwrap();
            let mut rng = StdRng::seed_from_u64(p["seed"].as_u64().unwrap());
            let mut evs = vec![];
            if g == "sort" {
                let d: Vec<[u64; 4]> = serde_json::from_value(p["d"].clone()).unwrap();
                let Some(gd) = build_sort(d.len()) else { return evs };
                let inputs: Vec<(Target, F)> = gd.ins.iter().zip(d.iter().flat_map(|r| r.iter())).map(|(t, v)| (*t, f(*v))).collect();
                let dl: Vec<Vec<u64>> = d.iter().map(|r| r.iter().flat_map(|x| limbs16(*x)).collect()).collect();
                let mut push = |label: &str, honest: bool, v: &Verdict| {
                    let out: Vec<Vec<u64>> = match v.pis() {
                        Some(p) => p.chunks(4).map(|c| c.iter().flat_map(|x| limbs16(*x)).collect()).collect(),
                        None => vec![],
                    };
                    evs.push(json!({"g": "sort", "w": 0, "c": [0,0,0,0], "x": [0,0,0,0], "d": dl, "honest": honest, "acc": v.accepted(), "out": 0, "sorted": out, "label": label}));
                };
                let h = engine::run(&gd.data, &inputs);
                push("honest", true, &h);
                let att = attacks_on(&gd, &inputs, 12, true, rng.gen::<u64>());
                // keep a seeded sample of the attacks
                for (l, v) in att.iter() {
                    if rng.gen_bool(0.25) || v.accepted() {
                        push(l, false, v);
                    }
                }
            } else {
                let w = p["w"].as_u64().unwrap() as usize;
                let c = p["c"].as_u64().unwrap();
                let x = p["x"].as_u64().unwrap();
                let gd = if g == "lt" { build_lt(w, c) } else { build_enf(w, c) };
                let Some(gd) = gd else {
                    evs.push(json!({"g": g, "w": w, "c": limbs16(c), "x": limbs16(x), "d": [], "honest": true, "acc": false, "out": 0, "sorted": [], "label": "builder-refused", "refused": true}));
                    return evs;
                };
                let inputs = vec![(gd.ins[0], f(x))];
                let mut push = |label: &str, honest: bool, v: &Verdict| {
                    let out = match (g, v.pis()) {
                        ("lt", Some(p)) => p[0],
                        _ => 0,
                    };
                    evs.push(json!({"g": g, "w": w, "c": limbs16(c), "x": limbs16(x), "d": [], "honest": honest, "acc": v.accepted(), "out": out.min(2), "sorted": [], "label": label, "refused": false}));
                };
                let h = engine::run(&gd.data, &inputs);
                push("honest", true, &h);
                for (l, v) in attacks_on(&gd, &inputs, 16, true, rng.gen::<u64>()).iter() {
                    if v.accepted() || rng.gen_bool(0.2) {
                        push(l, false, v);
                    }
                }
            }
            evs
        })
        .collect();
    let mut fo = fs::File::create(outp)?;
    for e in events.into_iter().flatten() {
        writeln!(fo, "{}", e)?;
    }
    Ok(())
}

/// Oracle cross-check: the engine and `CircuitData::prove` agree on honest witnesses.
pub fn selftest() -> Result<()> {
    engine::silence_panics();
    if let Ok(n) = std::env::var("SORT_N") {
        let n: usize = n.parse()?;
        let t = std::time::Instant::now();
        let s = build_sort(n).unwrap();
        eprintln!("build {:?} degree {}", t.elapsed(), s.data.common.degree());
        let inputs: Vec<(Target, F)> = s.ins.iter().enumerate().map(|(i, t)| (*t, f((i as u64 * 7919) % 13))).collect();
        let t = std::time::Instant::now();
        let v = engine::run(&s.data, &inputs);
        eprintln!("run {:?} acc {}", t.elapsed(), v.accepted());
        let t = std::time::Instant::now();
        let st = engine::sites(&s.data, &inputs).unwrap();
        eprintln!("sites {:?} n {}", t.elapsed(), st.len());
        let t = std::time::Instant::now();
        let a = attacks_on(&s, &inputs, 12, true, 5);
        eprintln!("attacks {:?} n {}", t.elapsed(), a.len());
        return Ok(());
    }
    let g = build_lt(64, 0).unwrap();
    for x in [0u64, 1, P - 1, (1 << 32) - 1] {
        engine::cross_check(&g.data, &[(g.ins[0], f(x))]).map_err(|e| anyhow::anyhow!(e))?;
    }
    let s = build_sort(3).unwrap();
    let vals = [5u64, 0, 0, 0, 1, 0, 0, 0, 0, 0, 0, 9];
    let inputs: Vec<(Target, F)> = s.ins.iter().zip(vals.iter()).map(|(t, v)| (*t, f(*v))).collect();
    engine::cross_check(&s.data, &inputs).map_err(|e| anyhow::anyhow!(e))?;
    println!("ok");
    Ok(())
}
