//! C35: JsonCaps.tla's document classes synthesised as real JSON text and pushed through the real
//! `TransferProofJson::from_json_str` (under catch_unwind) and `validate`.
use anyhow::Result;
use serde_json::{json, Value};
use std::alloc::{GlobalAlloc, Layout, System};
use std::fs;
use std::io::Write;
use std::panic::{catch_unwind, AssertUnwindSafe};
use std::sync::atomic::{AtomicUsize, Ordering};
use zk_circuits_common::circuit::{TransferProofJson, MAX_TRANSFER_PROOF_JSON_BYTES};

/// Counts bytes requested from the allocator (whole process); read around single-threaded calls.
pub struct Counting;
pub static ALLOCATED: AtomicUsize = AtomicUsize::new(0);
unsafe impl GlobalAlloc for Counting {
    unsafe fn alloc(&self, l: Layout) -> *mut u8 {
        ALLOCATED.fetch_add(l.size(), Ordering::Relaxed);
        System.alloc(l)
    }
    unsafe fn dealloc(&self, p: *mut u8, l: Layout) {
        System.dealloc(p, l)
    }
    unsafe fn realloc(&self, p: *mut u8, l: Layout, n: usize) -> *mut u8 {
        ALLOCATED.fetch_add(n.saturating_sub(l.size()), Ordering::Relaxed);
        System.realloc(p, l, n)
    }
}

/// a JSON string of exactly `len` decoded BYTES. `mb`: made of two-byte characters behind one ASCII byte, so that
/// every even byte offset (all the caps are even) falls INSIDE a character - code that slices the string at a cap
/// must not panic on it.
fn hex_str(len: usize, escaped: bool, mb: bool, out: &mut String) {
    out.push('"');
    if mb && len >= 3 {
        out.push('a');
        for _ in 0..(len - 1) / 2 {
            out.push_str(if escaped { "\\u00e9" } else { "\u{e9}" });
        }
        if (len - 1) % 2 == 1 {
            out.push('b');
        }
    } else if escaped {
        for i in 0..len {
            out.push_str(if i % 2 == 0 { "\\u0061" } else { "\\u0030" });
        }
    } else {
        for i in 0..len {
            out.push(if i % 2 == 0 { 'a' } else { '0' });
        }
    }
    out.push('"');
}

fn synth(c: &Value) -> String {
    let g = |k: &str| c[k].as_u64().unwrap() as usize;
    let escaped = g("escaped") == 1;
    let mb = c.get("mb").and_then(|x| x.as_u64()).unwrap_or(0) == 1;
    let shape = c["shape"].as_str().unwrap();
    let mut s = String::with_capacity(g("nodes") * (g("nodeLen") + 3) * if escaped { 6 } else { 1 } + 8192);
    s.push('{');
    if g("extra") == 1 {
        s.push_str("\"note\":{\"unknown\":[1,2,3]},");
    }
    s.push_str("\"transfer_count\":7,\"state_root\":");
    if shape == "wrongtype" {
        s.push_str("12");
    } else {
        hex_str(g("root"), escaped, mb, &mut s);
    }
    s.push_str(",\"storage_proof\":[");
    for i in 0..g("nodes") {
        if i > 0 {
            s.push(',');
        }
        hex_str(g("nodeLen"), escaped, mb, &mut s);
    }
    s.push(']');
    if shape != "missing" {
        s.push_str(",\"indices\":[");
        for i in 0..g("idx") {
            if i > 0 {
                s.push(',');
            }
            s.push_str(&(i % 4).to_string());
        }
        s.push(']');
    }
    if shape != "truncated" {
        s.push('}');
    }
    if g("rawOver") == 1 {
        // JSON whitespace: changes the raw length and nothing else
        let target = MAX_TRANSFER_PROOF_JSON_BYTES + 1;
        while s.len() < target {
            s.push(' ');
        }
    }
    s
}

fn run_case(c: &Value, measure: bool) -> Value {
    let doc = synth(c);
    let raw_len = doc.len();
    let raw_over = raw_len > MAX_TRANSFER_PROOF_JSON_BYTES;
    let before = ALLOCATED.load(Ordering::Relaxed);
    let r = catch_unwind(AssertUnwindSafe(|| TransferProofJson::from_json_str(&doc)));
    let allocated = ALLOCATED.load(Ordering::Relaxed).saturating_sub(before);
    let model_accept = c["verdict"] == "ok";
    let mut why: Option<String> = None;
    let mut note: Option<String> = None;
    let mut accepted = false;
    if raw_over != (c["rawOver"] == 1) {
        return json!({"tool_error": format!("synthesised raw length {raw_len} does not realise rawOver={}", c["rawOver"])});
    }
    match r {
        Err(_) => why = Some("from_json_str panicked".into()),
        Ok(Ok(parsed)) => {
            accepted = true;
            if !model_accept {
                why = Some(format!("from_json_str accepted a document the model rejects at guard {}", c["verdict"]));
            } else {
                match catch_unwind(AssertUnwindSafe(|| parsed.validate())) {
                    Err(_) => why = Some("validate panicked on an accepted document".into()),
                    Ok(Err(e)) => why = Some(format!("accepted document fails validate(): {e}")),
                    Ok(Ok(())) => {
                        let g = |k: &str| c[k].as_u64().unwrap() as usize;
                        if parsed.state_root.len() != g("root") || parsed.storage_proof.len() != g("nodes")
                            || parsed.indices.len() != g("idx") || parsed.storage_proof.iter().any(|n| n.len() != g("nodeLen")) {
                            note = Some("decoded lengths differ from the synthesised ones".into());
                        }
                    }
                }
            }
        }
        Ok(Err(_)) => {
            if model_accept {
                // the property demands no completeness: recorded, not a violation
                note = Some("from_json_str rejected a well-formed in-cap document".into());
            }
            if measure && raw_over && allocated > 64 * 1024 {
                why = Some(format!("an over-long document ({raw_len} bytes) was rejected only after {allocated} bytes of allocation: the raw cap is not applied before parsing"));
            }
        }
    }
    json!({"ok": why.is_none(), "why": why, "note": note, "accepted": accepted, "raw_len": raw_len, "allocated": allocated})
}

pub fn replay(inp: &str, outp: &str) -> Result<()> {
    let cases: Vec<Value> = fs::read_to_string(inp)?
        .lines()
        .filter(|l| !l.trim().is_empty())
        .map(serde_json::from_str)
        .collect::<Result<_, _>>()?;
    let n = cases.len();
    let mut results: Vec<Option<Value>> = vec![None; n];
    // phase 1 (single-threaded, allocation measured): over-long documents
    for (i, c) in cases.iter().enumerate() {
        if c["rawOver"] == 1 {
            results[i] = Some(run_case(c, true));
        }
    }
    // phase 2: everything else, in parallel
    let rest: Vec<usize> = (0..n).filter(|i| results[*i].is_none()).collect();
    let workers = 12usize;
    let done: Vec<(usize, Value)> = std::thread::scope(|sc| {
        let mut hs = vec![];
        for w in 0..workers {
            let rest = &rest;
            let cases = &cases;
            hs.push(sc.spawn(move || {
                let mut out = vec![];
                let mut j = w;
                while j < rest.len() {
                    out.push((rest[j], run_case(&cases[rest[j]], false)));
                    j += workers;
                }
                out
            }));
        }
        hs.into_iter().flat_map(|h| h.join().unwrap()).collect()
    });
    for (i, v) in done {
        results[i] = Some(v);
    }
    let mut f = fs::File::create(outp)?;
    for r in results {
        writeln!(f, "{}", r.unwrap())?;
    }
    Ok(())
}
