//! C01-C04 (and the circuit half of C27): the REAL leaf circuit (`WormholeCircuit`, built by the repo's own
//! constructor) evaluated on arbitrary wire assignments by the adversarial-witness oracle.
//!
//!  leaf-replay <in> <out>   witnesses of Leaf.tla (symbolic wire values) realised with native Poseidon2
//!  leaf-record <out> <n>    seeded real-domain witnesses: an honest base, mutated at target level and by
//!                           hint overrides; one event per run with the expectations LeafTrace.tla compares
use crate::engine::{self, f, Verdict, P};
use crate::gadgets::limbs16;
use anyhow::Result;
use plonky2::field::types::{Field, PrimeField64};
use plonky2::hash::poseidon2::Poseidon2Hash;
use plonky2::iop::target::Target;
use plonky2::plonk::circuit_data::CircuitData;
use plonky2::plonk::config::Hasher;
use rand::rngs::StdRng;
use rand::{Rng, SeedableRng};
use rayon::prelude::*;
use serde_json::{json, Value};
use std::fs;
use std::io::Write;
use wormhole_circuit::circuit::circuit_logic::{CircuitTargets, WormholeCircuit};
use wormhole_circuit::nullifier::NULLIFIER_SALT;
use wormhole_circuit::unspendable_account::UNSPENDABLE_SALT;
use zk_circuits_common::circuit::{C, D, F};
use zk_circuits_common::utils::string_to_felts;

pub type Dg = [u64; 4];
pub const MAXD: usize = 16;

pub fn hash(v: &[u64]) -> Dg {
    let p: Vec<F> = v.iter().map(|x| f(*x)).collect();
    let h = Poseidon2Hash::hash_no_pad(&p);
    core::array::from_fn(|i| h.elements[i].to_canonical_u64())
}
fn hh(v: &[u64]) -> Dg {
    hash(&hash(v))
}
fn salt(s: &str) -> Vec<u64> {
    string_to_felts(s).unwrap().iter().map(|x| x.to_canonical_u64()).collect()
}
pub fn acct(secret: &Dg) -> Dg {
    let mut v = salt(UNSPENDABLE_SALT);
    v.extend(secret);
    hh(&v)
}
pub fn nullifier(secret: &Dg, tc: &[u64; 2]) -> Dg {
    let mut v = salt(NULLIFIER_SALT);
    v.extend(secret);
    v.extend(tc);
    hh(&v)
}
pub fn leaf_hash(to: &Dg, tc: &[u64; 2], asset: u64, input: u64) -> Dg {
    let mut v = to.to_vec();
    v.extend(tc);
    v.push(asset);
    v.push(input);
    hash(&v)
}
pub fn node(cur: &Dg, sibs: &[Dg; 3], pos: usize) -> Dg {
    let mut ch: Vec<&Dg> = vec![&sibs[0], &sibs[1], &sibs[2]];
    ch.insert(pos.min(3), cur);
    let v: Vec<u64> = ch.iter().flat_map(|d| d.iter().copied()).collect();
    hash(&v)
}
pub fn climb(start: &Dg, sibs: &[[Dg; 3]], pos: &[usize], depth: usize) -> Dg {
    let mut cur = *start;
    for l in 0..depth.min(MAXD) {
        cur = node(&cur, &sibs[l], pos[l]);
    }
    cur
}
#[derive(Clone)]
pub struct Hdr {
    pub parent: Dg,
    pub number: u64,
    pub state: Dg,
    pub extr: Dg,
    pub digest: Vec<u64>,
}
pub fn block_hash(h: &Hdr, troot: &Dg) -> Dg {
    let mut v = h.parent.to_vec();
    v.push(h.number);
    v.extend(h.state);
    v.extend(h.extr);
    v.extend(troot);
    v.extend(&h.digest);
    hash(&v)
}

pub struct Leaf {
    pub data: CircuitData<F, C, D>,
    pub t: CircuitTargets,
}
pub fn build() -> Leaf {
    let c = WormholeCircuit::default();
    let t = c.targets();
    Leaf { data: c.build_circuit(), t }
}

/// every input wire of the circuit, by fragment copy
#[derive(Clone)]
pub struct Wit {
    pub nhash: Dg,
    pub nsec: Dg,
    pub ntc: [u64; 2],
    pub aid: Dg,
    pub asec: Dg,
    pub lto: Dg,
    pub ltc: [u64; 2],
    pub asset: u64,
    pub input: u64,
    pub out1: u64,
    pub out2: u64,
    pub fee: u64,
    pub root: Dg,
    pub depth: u64,
    pub sibs: Vec<[Dg; 3]>,
    pub pos: Vec<u64>,
    pub flag: Option<u64>,
    pub exit1: Dg,
    pub exit2: Dg,
    pub bhash: Dg,
    pub hdr: Hdr,
    pub troot: Dg,
}

impl Leaf {
    pub fn inputs(&self, w: &Wit) -> Vec<(Target, F)> {
        let t = &self.t;
        let mut v: Vec<(Target, F)> = vec![];
        let mut set = |ts: &[Target], xs: &[u64]| {
            for (a, b) in ts.iter().zip(xs) {
                v.push((*a, f(*b)));
            }
        };
        set(&t.nullifier.hash.elements, &w.nhash);
        set(&t.nullifier.secret.elements, &w.nsec);
        set(&t.nullifier.transfer_count, &w.ntc);
        set(&t.unspendable_account.account_id.elements, &w.aid);
        set(&t.unspendable_account.secret.elements, &w.asec);
        let m = &t.zk_merkle_proof;
        set(&m.leaf.to_account.elements, &w.lto);
        set(&m.leaf.transfer_count, &w.ltc);
        set(&[m.leaf.asset_id, m.leaf.input_amount, m.leaf.output_amount_1, m.leaf.output_amount_2, m.leaf.volume_fee_bps],
            &[w.asset, w.input, w.out1, w.out2, w.fee]);
        set(&m.root_hash.elements, &w.root);
        set(&[m.depth], &[w.depth]);
        for l in 0..MAXD {
            for s in 0..3 {
                set(&m.siblings[l][s].elements, &w.sibs[l][s]);
            }
            set(&[m.positions[l]], &[w.pos[l]]);
        }
        if let Some(fl) = w.flag {
            set(&[m.is_not_dummy.target], &[fl]);
        }
        set(&t.exit_accounts.exit_account_1.address.elements, &w.exit1);
        set(&t.exit_accounts.exit_account_2.address.elements, &w.exit2);
        let h = &t.block_header;
        set(&h.block_hash.elements, &w.bhash);
        set(&h.header.parent_hash, &w.hdr.parent);
        set(&[h.header.block_number], &[w.hdr.number]);
        set(&h.header.state_root, &w.hdr.state);
        set(&h.header.extrinsics_root, &w.hdr.extr);
        set(&h.header.zk_tree_root, &w.troot);
        set(&h.header.digest, &w.hdr.digest);
        v
    }
    /// the 21 public inputs the statement of `w` should expose, in the order C05 states
    pub fn expected_pis(w: &Wit) -> Vec<u64> {
        let mut v = vec![w.asset, w.out1, w.out2, w.fee];
        v.extend(w.nhash);
        v.extend(w.exit1);
        v.extend(w.exit2);
        v.extend(w.bhash);
        v.push(w.hdr.number);
        v
    }
}

fn rd(rng: &mut StdRng) -> Dg {
    core::array::from_fn(|_| rng.gen::<u64>() % P)
}

/// concrete values behind the symbols of Leaf.tla
pub struct World {
    sec: [Dg; 2],
    tc: [[u64; 2]; 2],
    fx: std::collections::BTreeMap<String, Dg>,
    sibs: Vec<[Dg; 3]>,
    pos: Vec<usize>,
    hdr: [Hdr; 2],
    mid: usize,
}
fn world(rng: &mut StdRng) -> World {
    let mut fx = std::collections::BTreeMap::new();
    for k in ["afx", "nfx", "rfx", "rfx2", "bfx"] {
        fx.insert(k.to_string(), rd(rng));
    }
    let mk_h = |rng: &mut StdRng| Hdr { parent: rd(rng), number: rng.gen::<u32>() as u64, state: rd(rng), extr: rd(rng), digest: (0..28).map(|_| rng.gen::<u32>() as u64).collect() };
    World {
        sec: [rd(rng), rd(rng)],
        tc: {
            let a = [rng.gen::<u32>() as u64, rng.gen::<u32>() as u64];
            // the second count: one limb differs, both differ, or the two limbs are another pair of field elements that
            // RECOMBINES to the same 64-bit value (hi - k, lo + k * 2^32): equal as a number, different as a hash preimage
            let b = match rng.gen_range(0..5) {
                0 => [a[0] ^ 1, a[1]],
                1 => [a[0], a[1] ^ 1],
                2 => [(a[0] + P - 1) % P, a[1] + (1u64 << 32)],
                3 => [a[0] + 1, (a[1] + P - (1u64 << 32)) % P],
                _ => [rng.gen::<u32>() as u64, rng.gen::<u32>() as u64],
            };
            [a, b]
        },
        fx,
        sibs: (0..MAXD).map(|_| [rd(rng), rd(rng), rd(rng)]).collect(),
        pos: (0..MAXD).map(|_| rng.gen_range(0..4)).collect(),
        hdr: [mk_h(rng), mk_h(rng)],
        mid: rng.gen_range(1..MAXD),
    }
}
impl World {
    fn depth(&self, d: u64, maxd_model: u64) -> u64 {
        if d == 0 { 0 } else if d < maxd_model { self.mid as u64 } else if d == maxd_model { MAXD as u64 } else if d == 32 { 32 } else { MAXD as u64 + (d - maxd_model) }
    }
    fn idx(s: &str) -> usize {
        if s.ends_with('1') { 0 } else { 1 }
    }
    fn eval(&self, t: &Value, asset: u64, input: u64, maxd_model: u64) -> Dg {
        let a = t.as_array().unwrap();
        match a[0].as_str().unwrap() {
            "zero" => [0; 4],
            "A" => acct(&self.sec[Self::idx(a[1].as_str().unwrap())]),
            "N" => nullifier(&self.sec[Self::idx(a[1].as_str().unwrap())], &self.tc[Self::idx(a[2].as_str().unwrap())]),
            "L" => leaf_hash(&self.eval(&a[1], asset, input, maxd_model), &self.tc[Self::idx(a[2].as_str().unwrap())], asset, input),
            "R" => {
                let d = self.depth(a[2].as_u64().unwrap(), maxd_model) as usize;
                climb(&self.eval(&a[1], asset, input, maxd_model), &self.sibs, &self.pos, d)
            }
            "B" => block_hash(&self.hdr[Self::idx(a[2].as_str().unwrap())], &self.eval(&a[1], asset, input, maxd_model)),
            k => self.fx[k],
        }
    }
}

/// amounts for the `arith` wire: ok / one violated constraint chosen by the seed
fn arith(rng: &mut StdRng, ok: bool, o1z: bool, o2z: bool) -> (u64, u64, u64, u64, u64, String) {
    let fee = [0u64, 10, 9999, 10000, rng.gen_range(0..9000)][rng.gen_range(0..5)];
    let input = match rng.gen_range(0..4) { 0 => (1u64 << 32) - 1, 1 => rng.gen_range(20000..1u64 << 20), _ => rng.gen_range(20000..1u64 << 32) };
    let max_total = (input as u128 * (10000 - fee) as u128 / 10000) as u64;
    let asset = if rng.gen_bool(0.5) { 0 } else { rng.gen::<u32>() as u64 };
    let want = (!o1z) as u64 + (!o2z) as u64;
    let (mut o1, mut o2) = (0u64, 0u64);
    let fee = if max_total < want { 0 } else { fee };
    let max_total = (input as u128 * (10000 - fee) as u128 / 10000) as u64;
    let tight = rng.gen_bool(0.4);
    if !o1z && !o2z {
        o1 = if tight { max_total - 1 } else { 1 + rng.gen::<u64>() % (max_total / 2).max(1) };
        o2 = if tight { 1 } else { 1 + rng.gen::<u64>() % (max_total / 2).max(1) };
    } else if !o1z {
        o1 = if tight { max_total } else { 1 + rng.gen::<u64>() % max_total.max(1) };
    } else if !o2z {
        o2 = if tight { max_total } else { 1 + rng.gen::<u64>() % max_total.max(1) };
    }
    if ok {
        return (asset, input, o1, o2, fee, "ok".into());
    }
    // violations; those needing a non-zero output are skipped when both outputs must be zero
    // "solve-*": the named wire is the field element that makes diff = in*(10000-fee) - (o1+o2)*10000 a small
    // non-negative number although the wire itself is (almost surely) far outside its range
    let mut kinds = vec!["fee10001", "fee16384", "asset2^32", "in2^32", "feeWrap", "solve-in", "solve-fee"];
    let solve = |which: &str, rng: &mut StdRng| -> (u64, u64, u64, u64) {
        let ff = |x: u64| f(x);
        let d = ff(rng.gen_range(0..1u64 << 20));
        let tt = ff(10000);
        let fc = ff(10000 - fee.min(10000));
        let (i_, a_, b_) = (ff(input), ff(o1), ff(o2));
        match which {
            "solve-o1" => { let x = (i_ * fc - d) * tt.inverse() - b_; (input, x.to_canonical_u64(), o2, fee) }
            "solve-o2" => { let x = (i_ * fc - d) * tt.inverse() - a_; (input, o1, x.to_canonical_u64(), fee) }
            "solve-in" => { let fcn = if fc == F::ZERO { F::ONE } else { fc }; let x = (d + (a_ + b_) * tt) * fcn.inverse(); (x.to_canonical_u64(), o1, o2, if fc == F::ZERO { 9999 } else { fee }) }
            _ => { let inn = if i_ == F::ZERO { F::ONE } else { i_ }; let x = tt - (d + (a_ + b_) * tt) * inn.inverse(); (input.max(1), o1, o2, x.to_canonical_u64()) }
        }
    };
    if !o1z { kinds.extend(["out1+1", "out1=p-k", "out1=2^32", "solve-o1"]); }
    if !o2z { kinds.extend(["out2+1", "out2=2^32", "solve-o2"]); }
    let k = kinds[rng.gen_range(0..kinds.len())];
    if k.starts_with("solve-") {
        let (i2, a2, b2, f2) = solve(k, rng);
        // a solved value that happens to be in range is not a violation: fall back to a plain one
        let in_range = i2 < (1u64 << 32) && a2 < (1u64 << 32) && b2 < (1u64 << 32) && f2 <= 10000;
        if !in_range {
            return (asset, i2, a2, b2, f2, k.into());
        }
        return (asset, input, o1, o2, 10001, "fee10001".into());
    }
    match k {
        "fee10001" => (asset, input, o1, o2, 10001, k.into()),
        "fee16384" => (asset, input, o1.min(1), o2.min(1), 16384, k.into()),
        "feeWrap" => (asset, input, o1, o2, P - 5, k.into()),
        "asset2^32" => (1u64 << 32, input, o1, o2, fee, k.into()),
        "in2^32" => (asset, (1u64 << 32) + rng.gen_range(0..9), o1, o2, fee, k.into()),
        "out1+1" => {
            // make the inequality fail by exactly one unit
            let o1b = max_total + 1 - o2.min(max_total);
            (asset, input, o1b, o2.min(max_total), fee, k.into())
        }
        "out2+1" => {
            let o2b = max_total + 1 - o1.min(max_total);
            (asset, input, o1.min(max_total), o2b, fee, k.into())
        }
        "out1=p-k" => (asset, input, P - 1 - rng.gen_range(0..5), o2, fee, k.into()),
        "out1=2^32" => (asset, input, 1u64 << 32, o2, 0, k.into()),
        _ => (asset, input, o1, 1u64 << 32, 0, k.into()),
    }
}

fn vjson(v: &Verdict) -> Value {
    match v {
        Verdict::Accepted(p) => json!({"acc": 1, "pis": p}),
        Verdict::Rejected(r) => json!({"acc": 0, "why": r}),
    }
}

pub fn replay(inp: &str, outp: &str, seed: u64, maxd_model: u64) -> Result<()> {
    engine::silence_panics();
    let leaf = build();
    let cases: Vec<Value> = fs::read_to_string(inp)?.lines().filter(|l| !l.trim().is_empty()).map(|l| serde_json::from_str(l).unwrap()).collect();
    let rows: Vec<Value> = cases
        .par_iter()
        .enumerate()
        .map(|(i, c)| {
            let mut rng = StdRng::seed_from_u64(seed.wrapping_mul(1_000_003).wrapping_add(i as u64));
            let mut wd = world(&mut rng);
            // the alias limb pair (same 64-bit count, limbs outside 32 bits) stands for a count MISMATCH between the two
            // hashes; where the model uses one count for both, the count must be a well-formed one (in-range limbs) -
            // otherwise the circuit's limb range check, which the model's count domain does not contain, rejects it
            if c["ncnt"] == c["lcnt"] && wd.tc[1].iter().any(|x| *x > u32::MAX as u64) {
                wd.tc[1] = [wd.tc[0][0] ^ 1, wd.tc[0][1]];
            }
            let b = |k: &str| c[k].as_u64().unwrap() == 1;
            let s = |k: &str| c[k].as_str().unwrap().to_string();
            let (asset, input, o1, o2, fee, akind) = arith(&mut rng, s("arith") == "ok", b("o1z"), b("o2z"));
            let ev = |k: &str| wd.eval(&c[k], asset, input, maxd_model);
            let depth_model = c["depth"].as_u64().unwrap();
            let depth = wd.depth(depth_model, maxd_model);
            let mut pos: Vec<u64> = wd.pos.iter().map(|p| *p as u64).collect();
            let bad = [4u64, 5, 7, P - 1, 1 << 32][rng.gen_range(0..5)];
            let active = (depth.min(MAXD as u64)) as usize;
            match s("pos").as_str() {
                "badActive" => {
                    if active > 0 { pos[rng.gen_range(0..active)] = bad } else { pos[rng.gen_range(0..MAXD)] = bad }
                }
                "badInactive" => {
                    if active < MAXD { pos[rng.gen_range(active..MAXD)] = bad } else { pos[rng.gen_range(0..MAXD)] = bad }
                }
                _ => {}
            }
            let hidx = World::idx(&s("hrest"));
            let w = Wit {
                nhash: ev("nhash"), nsec: wd.sec[World::idx(&s("nsec"))], ntc: wd.tc[World::idx(&s("ncnt"))],
                aid: ev("aid"), asec: wd.sec[World::idx(&s("asec"))],
                lto: ev("lto"), ltc: wd.tc[World::idx(&s("lcnt"))],
                asset, input, out1: o1, out2: o2, fee,
                root: ev("root"), depth, sibs: wd.sibs.clone(), pos,
                flag: Some(c["flag"].as_u64().unwrap()),
                exit1: rd(&mut rng), exit2: if rng.gen_bool(0.3) { [0; 4] } else { rd(&mut rng) },
                bhash: ev("bhash"), hdr: wd.hdr[hidx].clone(), troot: ev("troot"),
            };
            let inputs = leaf.inputs(&w);
            let v = engine::run(&leaf.data, &inputs);
            // the same witness with the dummy flag left to the circuit's own generator
            let v2 = if i % 4 == 0 {
                let mut w2 = w.clone();
                w2.flag = None;
                engine::run(&leaf.data, &leaf.inputs(&w2))
            } else {
                v.clone()
            };
            json!({"v": vjson(&v), "v_flag_free": vjson(&v2), "expected_pis": Leaf::expected_pis(&w), "arith_kind": akind, "real_depth": depth})
        })
        .collect();
    let mut fo = fs::File::create(outp)?;
    for r in rows {
        writeln!(fo, "{}", r)?;
    }
    Ok(())
}

// ---------------------------------------------------------------- recording

fn dl(d: &[u64]) -> Vec<u64> {
    d.iter().flat_map(|x| limbs16(*x)).collect()
}

pub fn honest(rng: &mut StdRng, depth: usize, dummy: bool) -> Wit {
    let wd = world(rng);
    let z1 = dummy || rng.gen_bool(0.2);
    let z2 = dummy || rng.gen_bool(0.5);
    let (asset, input, o1, o2, fee, _) = arith(rng, true, z1, z2);
    let sec = wd.sec[0];
    let tc = wd.tc[0];
    let to = acct(&sec);
    let lh = leaf_hash(&to, &tc, asset, input);
    let root = climb(&lh, &wd.sibs, &wd.pos, depth);
    let hdr = wd.hdr[0].clone();
    let mut sibs = wd.sibs.clone();
    for l in depth..MAXD {
        if rng.gen_bool(0.5) { sibs[l] = [[0; 4]; 3]; }
    }
    let mut pos: Vec<u64> = wd.pos.iter().map(|p| *p as u64).collect();
    for l in depth..MAXD { if rng.gen_bool(0.7) { pos[l] = 0; } }
    if dummy {
        Wit { nhash: rd(rng), nsec: sec, ntc: tc, aid: to, asec: sec, lto: to, ltc: tc, asset, input, out1: 0, out2: 0, fee,
              root: rd(rng), depth: depth as u64, sibs, pos, flag: Some(0), exit1: rd(rng), exit2: rd(rng), bhash: [0; 4], hdr, troot: rd(rng) }
    } else {
        Wit { nhash: nullifier(&sec, &tc), nsec: sec, ntc: tc, aid: to, asec: sec, lto: to, ltc: tc, asset, input, out1: o1, out2: o2, fee,
              root, depth: depth as u64, sibs, pos, flag: Some(if o1 == 0 && o2 == 0 && block_hash(&hdr, &root) == [0; 4] { 0 } else { 1 }), exit1: rd(rng), exit2: rd(rng), bhash: block_hash(&hdr, &root), hdr, troot: root }
    }
}

/// target-level mutations (each keeps every other wire as in the honest witness)
/// another digest with the same sum of limbs (mod p)
fn sumshift(rng: &mut StdRng, d: &Dg) -> Dg {
    let delta = 1 + rng.gen::<u64>() % (P - 1);
    [((d[0] as u128 + delta as u128) % P as u128) as u64, ((d[1] as u128 + P as u128 - delta as u128) % P as u128) as u64, d[2], d[3]]
}

fn mutate(rng: &mut StdRng, w: &mut Wit, pick: usize) -> String {
    let muts = [
        "none", "split-secret", "split-count", "foreign-to", "single-hash-nullifier", "foreign-nullifier", "root-unrelated", "troot-unrelated",
        "header-parent", "header-number", "header-digest", "bhash-zero", "bhash-garbage", "flag0", "flag1", "depth17", "depth+1", "depth-1",
        "pos4-active", "pos4-inactive", "posP-1", "out1-wrapped", "fee10001", "fee16384", "ineq+1", "tc-limb-2^32", "asset-2^32", "number-2^32",
        "outs-zero-keep-bhash", "outs-zero-and-bhash-zero", "count-2^32-both", "sibling-changed", "aid-foreign-both", "in+1-leafhash-stale",
        // near misses: every constraint but ONE holds
        "split-secret+nullifier-follows", "split-count-lo+nullifier-follows", "split-count-hi+nullifier-follows", "troot-unrelated+bhash-follows",
        "root-unrelated+troot+bhash-follow", "foreign-to+aid+nullifier-keeps", "solve-out1", "solve-out2", "solve-in", "solve-fee",
        "depth17+root-follows", "pos4-inactive-only", "pos5-active+root-follows", "flag0+sibling-changed", "flag0+leaf-foreign-path", "count-limb-alias+nullifier-follows", "count-limb-alias-neg+nullifier-follows",
        // compressed comparisons: a digest that differs from the right one but has the SAME limb sum (what survives when four
        // per-limb equalities are folded into one equality of sums - seeded C03, second round)
        "root-sumshift+troot+bhash-follow", "troot-sumshift+bhash-follows", "nullifier-sumshift", "root-sumshift+troot+bhash-follow",
        // a NON-zero block hash whose limbs sum to 0 mod p, zero outputs, claimed dummy, nullifier not bound: a dummy test folded
        // into one comparison of the limb sum would let it through (seeded C13, second round, at the leaf)
        "bhash-zerosum+outs-zero+claimed-dummy+foreign-nullifier",
    ];
    // kinds are cycled, not drawn: every kind is exercised once per muts.len() mutations, whatever the seed
    let m = muts[pick % muts.len()];
    let d = w.depth as usize;
    match m {
        "split-secret" => w.nsec = rd(rng),
        "split-count" => w.ntc[1] ^= 1,
        "foreign-to" => w.lto = rd(rng),
        "single-hash-nullifier" => {
            let mut v = salt(NULLIFIER_SALT);
            v.extend(w.nsec);
            v.extend(w.ntc);
            w.nhash = hash(&v)
        }
        "foreign-nullifier" => w.nhash = rd(rng),
        "root-unrelated" => w.root = rd(rng),
        "troot-unrelated" => w.troot = rd(rng),
        "header-parent" => w.hdr.parent[2] ^= 1,
        "header-number" => w.hdr.number ^= 1,
        "header-digest" => w.hdr.digest[27] ^= 1,
        "bhash-zero" => { w.bhash = [0; 4]; w.flag = Some(if w.out1 == 0 && w.out2 == 0 { 0 } else { 1 }); }
        "bhash-garbage" => { w.bhash = rd(rng); w.flag = Some(1); }
        "flag0" => w.flag = Some(0),
        "flag1" => w.flag = Some(1),
        "depth17" => w.depth = 17,
        "depth+1" => w.depth += 1,
        "depth-1" => w.depth = w.depth.saturating_sub(1),
        "pos4-active" => { if d > 0 { w.pos[rng.gen_range(0..d)] = 4 } else { w.pos[0] = 4 } }
        "pos4-inactive" => { if d < MAXD { w.pos[rng.gen_range(d..MAXD)] = 4 } else { w.pos[0] = 5 } }
        "posP-1" => w.pos[rng.gen_range(0..MAXD)] = P - 1,
        "out1-wrapped" => w.out1 = P - 1 - rng.gen_range(0..4),
        "fee10001" => w.fee = 10001,
        "fee16384" => w.fee = 16384,
        "ineq+1" => {
            let max_total = (w.input as u128 * (10000 - w.fee.min(10000)) as u128 / 10000) as u64;
            w.out1 = max_total + 1 - w.out2.min(max_total);
        }
        "tc-limb-2^32" => { w.ntc[0] = 1 << 32; }
        "count-2^32-both" => { w.ntc[1] = (1 << 32) + 3; w.ltc[1] = (1 << 32) + 3; }
        "asset-2^32" => w.asset = 1 << 32,
        "number-2^32" => w.hdr.number = (1 << 32) + 1,
        "outs-zero-keep-bhash" => { w.out1 = 0; w.out2 = 0; w.flag = Some(if w.bhash == [0; 4] { 0 } else { 1 }); }
        "outs-zero-and-bhash-zero" => { w.out1 = 0; w.out2 = 0; w.bhash = [0; 4]; w.flag = Some(0); }
        "bhash-zerosum+outs-zero+claimed-dummy+foreign-nullifier" => { w.out1 = 0; w.out2 = 0; w.bhash = [P - 1, 1, 0, 0]; w.flag = Some(0); w.nhash = rd(rng); }
        "sibling-changed" => { let l = rng.gen_range(0..MAXD); w.sibs[l][1][3] ^= 1; }
        "aid-foreign-both" => { let x = rd(rng); w.aid = x; w.lto = x; }
        "in+1-leafhash-stale" => w.input += 1,
        "split-secret+nullifier-follows" => { w.nsec = rd(rng); w.nhash = nullifier(&w.nsec, &w.ntc); }
        "split-count-lo+nullifier-follows" => { w.ntc[1] ^= 1; w.nhash = nullifier(&w.nsec, &w.ntc); }
        "split-count-hi+nullifier-follows" => { w.ntc[0] ^= 1; w.nhash = nullifier(&w.nsec, &w.ntc); }
        "troot-unrelated+bhash-follows" => { w.troot = rd(rng); w.bhash = block_hash(&w.hdr, &w.troot); }
        "root-sumshift+troot+bhash-follow" => { w.root = sumshift(rng, &w.root); w.troot = w.root; w.bhash = block_hash(&w.hdr, &w.troot); }
        "troot-sumshift+bhash-follows" => { w.troot = sumshift(rng, &w.troot); w.bhash = block_hash(&w.hdr, &w.troot); }
        "nullifier-sumshift" => w.nhash = sumshift(rng, &w.nhash),
        "root-unrelated+troot+bhash-follow" => { w.root = rd(rng); w.troot = w.root; w.bhash = block_hash(&w.hdr, &w.troot); }
        "foreign-to+aid+nullifier-keeps" => { let x = rd(rng); w.lto = x; w.aid = x; }
        "solve-out1" | "solve-out2" | "solve-in" | "solve-fee" => {
            let d = f(rng.gen_range(0..1u64 << 20));
            let tt = f(10000);
            let fc = f(10000 - w.fee.min(10000));
            let (i_, a_, b_) = (f(w.input), f(w.out1), f(w.out2));
            match m {
                "solve-out1" => w.out1 = ((i_ * fc - d) * tt.inverse() - b_).to_canonical_u64(),
                "solve-out2" => w.out2 = ((i_ * fc - d) * tt.inverse() - a_).to_canonical_u64(),
                "solve-in" => { if fc != F::ZERO { w.input = ((d + (a_ + b_) * tt) * fc.inverse()).to_canonical_u64() } }
                _ => { if i_ != F::ZERO { w.fee = (tt - (d + (a_ + b_) * tt) * i_.inverse()).to_canonical_u64() } }
            }
        }
        "depth17+root-follows" => {
            // one more level than allowed, everything else consistent with a 17-level climb being cut at 16
            w.depth = 17;
        }
        "pos4-inactive-only" => { if d < MAXD { w.pos[MAXD - 1] = 4 } }
        "count-limb-alias+nullifier-follows" => { w.ntc = [(w.ntc[0] + P - 1) % P, w.ntc[1] + (1u64 << 32)]; w.nhash = nullifier(&w.nsec, &w.ntc); }
        "count-limb-alias-neg+nullifier-follows" => { w.ntc = [w.ntc[0] + 1, (w.ntc[1] + P - (1u64 << 32)) % P]; w.nhash = nullifier(&w.nsec, &w.ntc); }
        "flag0+sibling-changed" => { w.flag = Some(0); let l = rng.gen_range(0..MAXD); w.sibs[l][0][1] ^= 1; }
        "flag0+leaf-foreign-path" => { w.flag = Some(0); for l in 0..MAXD { w.sibs[l] = [rd(rng), rd(rng), rd(rng)]; } }
        "pos5-active+root-follows" => {
            if d > 0 {
                let l = rng.gen_range(0..d);
                w.pos[l] = 5;
                // with position 5 no slot takes the running hash: children are the three siblings and the last sibling again
                let sibs_pos: Vec<usize> = w.pos.iter().map(|p| (*p).min(3) as usize).collect();
                let lh = leaf_hash(&w.lto, &w.ltc, w.asset, w.input);
                let mut cur = lh;
                for lv in 0..d {
                    cur = if lv == l {
                        let s = &w.sibs[lv];
                        let v: Vec<u64> = [s[0], s[1], s[2], s[2]].iter().flat_map(|x| x.iter().copied()).collect();
                        hash(&v)
                    } else { node(&cur, &w.sibs[lv], sibs_pos[lv]) };
                }
                w.root = cur; w.troot = cur; w.bhash = block_hash(&w.hdr, &w.troot);
            }
        }
        _ => {}
    }
    m.to_string()
}

fn event(w: &Wit, v: &Verdict, honest_flag: bool, label: &str) -> Value {
    let sibs_pos: Vec<usize> = w.pos.iter().map(|p| (*p).min(3) as usize).collect();
    let lh = leaf_hash(&w.lto, &w.ltc, w.asset, w.input);
    let cl = climb(&lh, &w.sibs, &sibs_pos, w.depth.min(64) as usize);
    let pis_ok = match v.pis() { Some(p) => *p == Leaf::expected_pis(w), None => true };
    json!({
        "honest": honest_flag, "label": label, "acc": v.accepted(), "pis_ok": pis_ok,
        "asset": limbs16(w.asset), "input": limbs16(w.input), "out1": limbs16(w.out1), "out2": limbs16(w.out2), "fee": limbs16(w.fee),
        "number": limbs16(w.hdr.number), "tc": [limbs16(w.ltc[0]), limbs16(w.ltc[1])], "ntc": [limbs16(w.ntc[0]), limbs16(w.ntc[1])],
        "depth": limbs16(w.depth), "posmax": w.pos.iter().copied().max().unwrap().min(9),
        "nhash": dl(&w.nhash), "bhash": dl(&w.bhash), "lto": dl(&w.lto), "troot": dl(&w.troot),
        // expectations computed natively (Plonky2's Poseidon2) from the recipient-side wires of the witness
        "exp_null": dl(&nullifier(&w.asec, &w.ltc)), "exp_acct": dl(&acct(&w.asec)),
        "exp_bhash": dl(&block_hash(&w.hdr, &w.troot)), "exp_climb": dl(&cl),
    })
}

pub fn record(outp: &str, nplans: usize, seed: u64) -> Result<()> {
    engine::silence_panics();
    let leaf = build();
    let evs: Vec<Vec<Value>> = (0..nplans)
        .into_par_iter()
        .map(|i| {
            let mut rng = StdRng::seed_from_u64(seed.wrapping_mul(7_777_777).wrapping_add(i as u64));
            let depth = [0usize, 1, 2, 3, 8, 15, 16][rng.gen_range(0..7)];
            let depth = if rng.gen_bool(0.5) { depth } else { rng.gen_range(0..=MAXD) };
            let dummy = rng.gen_bool(0.2);
            let base = honest(&mut rng, depth, dummy);
            let mut out = vec![];
            let hv = engine::run(&leaf.data, &leaf.inputs(&base));
            out.push(event(&base, &hv, true, if dummy { "honest-dummy" } else { "honest" }));
            for j in 0..3usize {
                let mut w = base.clone();
                let m = mutate(&mut rng, &mut w, i * 3 + j + seed as usize);
                if m == "none" { continue; }
                let v = engine::run(&leaf.data, &leaf.inputs(&w));
                out.push(event(&w, &v, false, &m));
            }
            // hint overrides on the honest witness
            if i % 4 == 0 {
                let inputs = leaf.inputs(&base);
                if let Ok(sites) = engine::sites(&leaf.data, &inputs) {
                    let elig: Vec<&engine::Site> = sites.iter().filter(|s| s.kind == "LowHighGenerator" || s.kind == "EqualityGenerator" || s.kind.starts_with("WireSplit")).collect();
                    for _ in 0..4 {
                        if elig.is_empty() { break; }
                        let s = elig[rng.gen_range(0..elig.len())];
                        for o in engine::catalogue(s) {
                            let mut pre = inputs.clone();
                            pre.extend(o.sets.iter().copied());
                            let v = engine::run(&leaf.data, &pre);
                            if v.accepted() || rng.gen_bool(0.2) {
                                out.push(event(&base, &v, false, &o.label));
                            }
                        }
                    }
                }
            }
            out
        })
        .collect();
    let mut fo = fs::File::create(outp)?;
    for e in evs.into_iter().flatten() {
        writeln!(fo, "{}", e)?;
    }
    Ok(())
}

pub fn selftest() -> Result<()> {
    engine::silence_panics();
    let t = std::time::Instant::now();
    let leaf = build();
    eprintln!("leaf build {:?} degree {}", t.elapsed(), leaf.data.common.degree());
    let mut rng = StdRng::seed_from_u64(1);
    for (d, dummy) in [(0usize, false), (16, false), (3, true)] {
        let w = honest(&mut rng, d, dummy);
        let t = std::time::Instant::now();
        let v = engine::cross_check(&leaf.data, &leaf.inputs(&w)).map_err(|e| anyhow::anyhow!(e))?;
        eprintln!("depth {d} dummy {dummy}: {:?} acc {}", t.elapsed(), v.accepted());
        if !v.accepted() {
            return Err(anyhow::anyhow!("honest witness rejected: {v:?}"));
        }
        if v.pis().unwrap() != &Leaf::expected_pis(&w) {
            return Err(anyhow::anyhow!("public inputs differ from the statement"));
        }
    }
    println!("ok");
    Ok(())
}
