//! C05: the leaf prover boundary (`WormholeProver::commit/prove`, the canonical pinned `WormholeVerifier`, the
//! three leaf parsers) and C27: native 4-ary Merkle proofs (`ZkMerkleProof`) against the fold and against the
//! tree walk of the real leaf circuit.
//!
//!  leafapi-replay <in> <out>   LeafApi.tla input classes + an honest sweep over depths 0..16
//!  merkle-replay  <in> <out>   Merkle.tla proof classes on the native API and on the real leaf circuit
use crate::engine::{self, P};
use crate::leaf::{self, Dg, MAXD};
use anyhow::Result;
use plonky2::field::types::PrimeField64;
use plonky2::util::serialization::DefaultGateSerializer;
use rand::rngs::StdRng;
use rand::seq::SliceRandom;
use rand::{Rng, SeedableRng};
use rayon::prelude::*;
use serde_json::{json, Value};
use std::fs;
use std::io::Write;
use std::panic::{catch_unwind, AssertUnwindSafe};
use wormhole_circuit::circuit::circuit_logic::WormholeCircuit;
use wormhole_circuit::inputs::{CircuitInputs, ParsePublicInputs, PrivateCircuitInputs, PublicCircuitInputs};
use wormhole_prover::WormholeProver;
use wormhole_verifier::WormholeVerifier;
use zk_circuits_common::circuit::wormhole_leaf_circuit_config;
use zk_circuits_common::utils::bytes_to_felts;
use zk_circuits_common::zk_merkle::{hash_node, hash_node_presorted, insert_at_position, ZkMerkleProof};

fn bytes(d: &Dg) -> [u8; 32] {
    let mut b = [0u8; 32];
    for i in 0..4 {
        b[8 * i..8 * i + 8].copy_from_slice(&d[i].to_le_bytes());
    }
    b
}
fn digest(b: &[u8; 32]) -> Dg {
    core::array::from_fn(|i| u64::from_le_bytes(b[8 * i..8 * i + 8].try_into().unwrap()))
}
fn rd(rng: &mut StdRng) -> Dg {
    core::array::from_fn(|_| match rng.gen_range(0..10) { 0 => P - 1, 1 => 0, _ => rng.gen::<u64>() % P })
}

/// an honest statement + witness at byte level, with a tree of `depth` levels whose positions are the sorted ranks
struct Honest {
    inputs_pub: PublicCircuitInputs,
    secret: [u8; 32],
    tc: u64,
    ua: [u8; 32],
    parent: [u8; 32],
    state: [u8; 32],
    extr: [u8; 32],
    digest: [u8; 110],
    input_amount: u32,
    root: [u8; 32],
    sibs: Vec<[[u8; 32]; 3]>,
    pos: Vec<u8>,
    leaf_hash: Dg,
}

fn honest(rng: &mut StdRng, depth: usize) -> Honest {
    let secret = rd(rng);
    let tc: u64 = if rng.gen_bool(0.3) { rng.gen::<u32>() as u64 } else { rng.gen() };
    let tcl = [tc >> 32, tc & 0xffff_ffff];
    let to = leaf::acct(&secret);
    let fee: u32 = [0u32, 10, 9999, 10000, rng.gen_range(0..10000)][rng.gen_range(0..5)];
    let input: u32 = match rng.gen_range(0..4) { 0 => u32::MAX, 1 => rng.gen_range(0..100), _ => rng.gen() };
    let max_total = (input as u128 * (10000 - fee) as u128 / 10000) as u64;
    let o1 = if max_total == 0 { 0 } else { rng.gen::<u64>() % (max_total + 1) };
    let o2 = match rng.gen_range(0..3) { 0 => 0, 1 => max_total - o1, _ => rng.gen::<u64>() % (max_total - o1 + 1) };
    let asset: u32 = if rng.gen_bool(0.5) { 0 } else { rng.gen() };
    let lh = leaf::leaf_hash(&to, &tcl, asset as u64, input as u64);
    // tree: positions = rank of the running hash among the four children sorted as 32-byte strings
    let mut cur = lh;
    let mut sibs = vec![];
    let mut pos = vec![];
    for _ in 0..depth {
        let mut s = [bytes(&rd(rng)), bytes(&rd(rng)), bytes(&rd(rng))];
        s.sort();
        let cb = bytes(&cur);
        let p = s.iter().filter(|x| **x < cb).count();
        let sd: [Dg; 3] = [digest(&s[0]), digest(&s[1]), digest(&s[2])];
        cur = leaf::node(&cur, &sd, p);
        sibs.push(s);
        pos.push(p as u8);
    }
    let root = cur;
    let parent = rd(rng);
    let state = rd(rng);
    let extr = rd(rng);
    let mut dg = [0u8; 110];
    rng.fill(&mut dg[..]);
    let number: u32 = rng.gen();
    let digest_felts: Vec<u64> = bytes_to_felts(&dg).unwrap().iter().map(|x| x.to_canonical_u64()).collect();
    let hdr = leaf::Hdr { parent, number: number as u64, state, extr, digest: digest_felts };
    let mut bh = leaf::block_hash(&hdr, &root);
    if (o1 == 0 && o2 == 0) && bh == [0; 4] {
        bh[0] = 1;
    }
    let nul = leaf::nullifier(&secret, &tcl);
    let inputs_pub = PublicCircuitInputs {
        asset_id: asset,
        output_amount_1: o1 as u32,
        output_amount_2: o2 as u32,
        volume_fee_bps: fee,
        nullifier: bytes(&nul).try_into().unwrap(),
        exit_account_1: bytes(&rd(rng)).try_into().unwrap(),
        exit_account_2: bytes(&if rng.gen_bool(0.3) { [0; 4] } else { rd(rng) }).try_into().unwrap(),
        block_hash: bytes(&bh).try_into().unwrap(),
        block_number: number,
    };
    Honest { inputs_pub, secret: bytes(&secret), tc, ua: bytes(&to), parent: bytes(&parent), state: bytes(&state), extr: bytes(&extr), digest: dg,
             input_amount: input, root: bytes(&root), sibs, pos, leaf_hash: lh }
}

fn circuit_inputs(h: &Honest, sibs: Vec<[[u8; 32]; 3]>, pos: Vec<u8>) -> CircuitInputs {
    CircuitInputs {
        public: h.inputs_pub.clone(),
        private: PrivateCircuitInputs {
            secret: h.secret.try_into().unwrap(),
            transfer_count: h.tc,
            unspendable_account: h.ua.try_into().unwrap(),
            parent_hash: h.parent.try_into().unwrap(),
            state_root: h.state.try_into().unwrap(),
            extrinsics_root: h.extr.try_into().unwrap(),
            digest: h.digest,
            input_amount: h.input_amount,
            zk_tree_root: h.root,
            zk_merkle_siblings: sibs,
            zk_merkle_positions: pos,
        },
    }
}

/// a real leaf proof of a real (non-dummy) honest statement, through the repo's own prover
pub fn honest_leaf_proof(seed: u64) -> Result<plonky2::plonk::proof::ProofWithPublicInputs<zk_circuits_common::circuit::F, zk_circuits_common::circuit::C, { zk_circuits_common::circuit::D }>> {
    let mut rng = StdRng::seed_from_u64(seed);
    loop {
        let h = honest(&mut rng, 3);
        if h.inputs_pub.output_amount_1 == 0 && h.inputs_pub.output_amount_2 == 0 {
            continue;
        }
        let ci = circuit_inputs(&h, h.sibs.clone(), h.pos.clone());
        if let Ok(p) = WormholeProver::new(wormhole_leaf_circuit_config()).and_then(|p| p.commit(&ci)).and_then(|p| p.prove()) {
            return Ok(p);
        }
    }
}

fn pinned_verifier() -> Result<WormholeVerifier, String> {
    let vd = WormholeCircuit::new(wormhole_leaf_circuit_config()).map_err(|e| e.to_string())?.build_verifier();
    let common = vd.common.to_bytes(&DefaultGateSerializer).map_err(|_| "serialize common".to_string())?;
    let vo = vd.verifier_only.to_bytes().map_err(|_| "serialize verifier".to_string())?;
    WormholeVerifier::new_from_bytes(&vo, &common).map_err(|e| format!("pinned verifier refuses the freshly built canonical artifacts: {e}"))
}

/// commit + prove + pinned verify + three parsers; everything under catch_unwind
fn run_api(verifier: &Result<WormholeVerifier, String>, ci: &CircuitInputs) -> Value {
    let r = catch_unwind(AssertUnwindSafe(|| -> Value {
        let prover = match WormholeProver::new(wormhole_leaf_circuit_config()) {
            Ok(p) => p,
            Err(e) => return json!({"outcome": "error", "stage": "new", "msg": e.to_string()}),
        };
        let committed = match prover.commit(ci) {
            Ok(p) => p,
            Err(e) => return json!({"outcome": "error", "stage": "commit", "msg": e.to_string().chars().take(90).collect::<String>()}),
        };
        let proof = match committed.prove() {
            Ok(p) => p,
            Err(e) => return json!({"outcome": "error", "stage": "prove", "msg": e.to_string().chars().take(90).collect::<String>()}),
        };
        let v = match verifier {
            Ok(v) => v,
            Err(e) => return json!({"outcome": "error", "stage": "pinned-verifier", "msg": e}),
        };
        let vproof = match wormhole_verifier::ProofWithPublicInputs::from_bytes(proof.to_bytes(), &v.circuit_data.common) {
            Ok(p) => p,
            Err(_) => return json!({"outcome": "error", "stage": "proof-bytes"}),
        };
        if let Err(e) = v.verify_ref(&vproof) {
            return json!({"outcome": "error", "stage": "verify", "msg": e.to_string().chars().take(90).collect::<String>()});
        }
        let pis: Vec<u64> = proof.public_inputs.iter().map(|x| x.to_canonical_u64()).collect();
        let p1 = PublicCircuitInputs::try_from_proof(&proof).ok();
        let p2 = PublicCircuitInputs::try_from_u64_slice(&pis).ok();
        let p3 = wormhole_verifier::parse_public_inputs(&vproof).ok();
        let want = &ci.public;
        json!({"outcome": "proved", "npis": pis.len(),
               "parsers_ok": [p1.as_ref() == Some(want), p2.as_ref() == Some(want), p3.as_ref() == Some(want)],
               "order_ok": order_ok(&pis, want)})
    }));
    r.unwrap_or(json!({"outcome": "panic"}))
}

/// the 21 public inputs are asset, out1, out2, fee, nullifier, exit1, exit2, block hash, block number
fn order_ok(pis: &[u64], p: &PublicCircuitInputs) -> bool {
    let d = |b: &[u8]| -> Vec<u64> { (0..4).map(|i| u64::from_le_bytes(b[8 * i..8 * i + 8].try_into().unwrap())).collect() };
    let mut v = vec![p.asset_id as u64, p.output_amount_1 as u64, p.output_amount_2 as u64, p.volume_fee_bps as u64];
    v.extend(d(p.nullifier.as_ref()));
    v.extend(d(p.exit_account_1.as_ref()));
    v.extend(d(p.exit_account_2.as_ref()));
    v.extend(d(p.block_hash.as_ref()));
    v.push(p.block_number as u64);
    pis == v.as_slice()
}

pub fn api_replay(inp: &str, outp: &str, seed: u64, sweep: usize) -> Result<()> {
    engine::silence_panics();
    let verifier = pinned_verifier();
    let mut cases: Vec<Value> = fs::read_to_string(inp)?.lines().filter(|l| !l.trim().is_empty()).map(|l| serde_json::from_str(l).unwrap()).collect();
    // honest sweep: every depth 0..16, `sweep` seeds each
    for d in 0..=MAXD {
        for k in 0..sweep {
            cases.push(json!({"depth": d, "plen": "eq", "pval": "ok", "where": "first", "verdict": "proved", "reason": "statement", "sweep": k + 1}));
        }
    }
    let rows: Vec<Value> = cases
        .par_iter()
        .enumerate()
        .map(|(i, c)| {
            let mut rng = StdRng::seed_from_u64(seed.wrapping_mul(99_991).wrapping_add(i as u64));
            let depth = c["depth"].as_u64().unwrap() as usize;
            let h = honest(&mut rng, depth.min(MAXD));
            let mut sibs = h.sibs.clone();
            let mut pos = h.pos.clone();
            for _ in MAXD..depth {
                sibs.push([bytes(&rd(&mut rng)), bytes(&rd(&mut rng)), bytes(&rd(&mut rng))]);
                pos.push(rng.gen_range(0..4));
            }
            match c["plen"].as_str().unwrap() {
                "short" => { pos.pop(); }
                "long" => pos.push(0),
                _ => {}
            }
            if !pos.is_empty() {
                let at = if c["where"] == "last" { pos.len() - 1 } else { 0 };
                match c["pval"].as_str().unwrap() {
                    "four" => pos[at] = 4,
                    "max" => pos[at] = 255,
                    _ => {}
                }
            }
            let ci = circuit_inputs(&h, sibs, pos);
            let mut r = run_api(&verifier, &ci);
            r["case"] = c.clone();
            r
        })
        .collect();
    let mut fo = fs::File::create(outp)?;
    for r in rows {
        writeln!(fo, "{}", r)?;
    }
    Ok(())
}

// ---------------------------------------------------------------- C27

pub fn merkle_replay(inp: &str, outp: &str, seed: u64) -> Result<()> {
    engine::silence_panics();
    let leafc = leaf::build();
    let cases: Vec<Value> = fs::read_to_string(inp)?.lines().filter(|l| !l.trim().is_empty()).map(|l| serde_json::from_str(l).unwrap()).collect();
    let rows: Vec<Value> = cases
        .par_iter()
        .enumerate()
        .map(|(i, c)| {
            let mut rng = StdRng::seed_from_u64(seed.wrapping_mul(31_337).wrapping_add(i as u64));
            let depth = c["depth"].as_u64().unwrap() as usize;
            // a real statement whose tree path has min(depth,16) levels; a 17th level exists only natively
            let mut w = leaf::honest(&mut rng, depth.min(MAXD), false);
            // sorted-rank positions, as the chain produces them
            let lh = leaf::leaf_hash(&w.lto, &w.ltc, w.asset, w.input);
            let mut cur = lh;
            // tie class (every second case with a path, drawn): one level carries a sibling EQUAL to the running hash (duplicate
            // child / identical subtrees).  The sorted rank is the first of the two equal slots, the fold is unchanged,
            // and both native verifiers, from_unsorted and the circuit must treat the path like any other valid one.
            let tie_level = if depth.min(MAXD) > 0 && rng.gen_bool(0.5) { Some(rng.gen_range(0..depth.min(MAXD))) } else { None };
            for l in 0..depth.min(MAXD) {
                if tie_level == Some(l) { let k = rng.gen_range(0..3); w.sibs[l][k] = cur; }
                let mut s = [bytes(&w.sibs[l][0]), bytes(&w.sibs[l][1]), bytes(&w.sibs[l][2])];
                s.sort();
                let p = s.iter().filter(|x| **x < bytes(&cur)).count();
                w.sibs[l] = [digest(&s[0]), digest(&s[1]), digest(&s[2])];
                w.pos[l] = p as u64;
                cur = leaf::node(&cur, &w.sibs[l], p);
            }
            let mut nsibs: Vec<[[u8; 32]; 3]> = (0..depth.min(MAXD)).map(|l| [bytes(&w.sibs[l][0]), bytes(&w.sibs[l][1]), bytes(&w.sibs[l][2])]).collect();
            let mut npos: Vec<u8> = (0..depth.min(MAXD)).map(|l| w.pos[l] as u8).collect();
            for _ in MAXD..depth {
                let mut s = [bytes(&rd(&mut rng)), bytes(&rd(&mut rng)), bytes(&rd(&mut rng))];
                s.sort();
                let p = s.iter().filter(|x| **x < bytes(&cur)).count();
                cur = leaf::node(&cur, &[digest(&s[0]), digest(&s[1]), digest(&s[2])], p);
                nsibs.push(s);
                npos.push(p as u8);
            }
            let mut root = bytes(&cur);
            let mut leaf_hash = bytes(&lh);
            let honest_pos = npos.clone();
            // the circuit side: the same path inside a real (non-dummy) statement
            w.root = cur; w.troot = cur; w.bhash = leaf::block_hash(&w.hdr, &w.troot); w.depth = depth as u64;
            let mut corrupt = "none".to_string();
            match c["plen"].as_str().unwrap() { "short" => { npos.pop(); } "long" => npos.push(0), _ => {} }
            if c["pval"] == "four" && !npos.is_empty() {
                let at = rng.gen_range(0..npos.len());
                npos[at] = 4;
                if at < MAXD { w.pos[at] = 4; }
            }
            let bad_limb = [P, P + 1, u64::MAX][rng.gen_range(0..3)];
            let alias_root = c["rootok"].as_u64().unwrap() == 1 && c["canon"] != "all";
            // the fold a verifier without the canonicity guard would compute: every limb reduced mod p
            let refold = |leaf: &[u8; 32], sibs: &Vec<[[u8; 32]; 3]>, pos: &Vec<u8>| -> [u8; 32] {
                let red = |b: &[u8; 32]| -> [u64; 4] { let d = digest(b); [d[0] % P, d[1] % P, d[2] % P, d[3] % P] };
                let mut cur = red(leaf);
                for (l, s) in sibs.iter().enumerate() {
                    cur = leaf::node(&cur, &[red(&s[0]), red(&s[1]), red(&s[2])], pos[l] as usize);
                }
                bytes(&cur)
            };
            match c["canon"].as_str().unwrap() {
                "leaf" => {
                    let k = rng.gen_range(0..4);
                    if alias_root && depth > 0 {
                        // near miss: the alias v + p of a genuine small limb v, the root is the fold of the genuine value
                        let v: u64 = rng.gen_range(0..0xFFFF_FFFEu64);
                        leaf_hash[8 * k..8 * k + 8].copy_from_slice(&(v + P).to_le_bytes());
                        root = refold(&leaf_hash, &nsibs, &honest_pos);
                    } else {
                        leaf_hash[8 * k..8 * k + 8].copy_from_slice(&bad_limb.to_le_bytes());
                        if alias_root { root = leaf_hash; }
                    }
                }
                "sibling" => {
                    let l = rng.gen_range(0..nsibs.len()); let k = rng.gen_range(0..4); let s = rng.gen_range(0..3);
                    if alias_root {
                        let v: u64 = rng.gen_range(0..0xFFFF_FFFEu64);
                        nsibs[l][s][8 * k..8 * k + 8].copy_from_slice(&(v + P).to_le_bytes());
                        root = refold(&leaf_hash, &nsibs, &honest_pos);
                    } else {
                        nsibs[l][s][8 * k..8 * k + 8].copy_from_slice(&bad_limb.to_le_bytes());
                    }
                }
                _ => {}
            }
            if c["rootok"].as_u64().unwrap() == 0 && c["canon"] == "all" && c["pval"] == "ok" && c["plen"] == "eq" {
                // one single corruption of an otherwise valid proof
                let kinds: Vec<&str> = if depth.min(MAXD) > 0 { vec!["root", "sibling", "position", "leaf"] } else { vec!["root", "leaf"] };
                corrupt = kinds[rng.gen_range(0..kinds.len())].to_string();
                match corrupt.as_str() {
                    "root" => { root[rng.gen_range(0..32)] ^= 1; let r = digest(&root); if r.iter().all(|x| *x < P) { w.root = r; w.troot = r; w.bhash = leaf::block_hash(&w.hdr, &w.troot); } else { root = bytes(&cur); root[0] ^= 2; let r = digest(&root); w.root = r; w.troot = r; w.bhash = leaf::block_hash(&w.hdr, &w.troot); } }
                    "sibling" => { let l = rng.gen_range(0..depth.min(MAXD)); nsibs[l][1][3] ^= 1; w.sibs[l][1] = digest(&nsibs[l][1]); }
                    "position" => { let l = rng.gen_range(0..depth.min(MAXD)); let np = (npos[l] + 1 + rng.gen_range(0..3)) % 4; npos[l] = np; w.pos[l] = np as u64; }
                    _ => { leaf_hash[5] ^= 1; w.input ^= 1; }
                }
            }
            let unsorted: Vec<[[u8; 32]; 3]> = nsibs.iter().map(|s| { let mut t = *s; t.shuffle(&mut rng); t }).collect();
            let native = catch_unwind(AssertUnwindSafe(|| {
                let p = ZkMerkleProof::new(7, nsibs.clone(), npos.clone(), leaf_hash, root);
                (p.verify(), p.verify_with_positions())
            }));
            let build = catch_unwind(AssertUnwindSafe(|| {
                match ZkMerkleProof::from_unsorted(7, unsorted.clone(), leaf_hash, root) {
                    Ok(p) => json!({"ok": true, "positions_are_ranks": p.positions == honest_pos, "verifies": p.verify(), "depth": p.depth()}),
                    Err(_) => json!({"ok": false}),
                }
            }));
            // hash_node: order independence and agreement with presorted on honest levels
            let node_ok = catch_unwind(AssertUnwindSafe(|| {
                if depth == 0 || c["canon"] != "all" { return json!(null); }
                let l = 0;
                let s = [digest(&nsibs[l][0]), digest(&nsibs[l][1]), digest(&nsibs[l][2])];
                let ins = insert_at_position(bytes(&lh), &nsibs[l], honest_pos[l]).ok();
                let mut any = [bytes(&lh), nsibs[l][2], nsibs[l][0], nsibs[l][1]];
                any.shuffle(&mut rng);
                let a = hash_node(&any).ok();
                let b = ins.and_then(|x| hash_node_presorted(&x).ok());
                let expect = bytes(&leaf::node(&lh, &s, honest_pos[l] as usize));
                json!({"order_independent_and_presorted": a == b && a == Some(expect)})
            }));
            let circuit = if c["canon"] == "all" && c["plen"] == "eq" && corrupt != "leaf" {
                let v = engine::run(&leafc.data, &leafc.inputs(&w));
                json!(v.accepted())
            } else {
                json!(null)
            };
            json!({"case": c, "corrupt": corrupt, "tie": tie_level.is_some(),
                   "native": match native { Ok((a, b)) => json!({"verify": a, "verify_with_positions": b}), Err(_) => json!({"panic": true}) },
                   "build": build.unwrap_or(json!({"panic": true})), "node": node_ok.unwrap_or(json!({"panic": true})), "circuit": circuit})
        })
        .collect();
    let mut fo = fs::File::create(outp)?;
    for r in rows {
        writeln!(fo, "{}", r)?;
    }
    Ok(())
}

// ---------------------------------------------------------------------------------------------------------------
// End-to-end world (EndToEnd.tla): several honest leaves in ONE 4-ary tree of depth 2, two block headers over the
// same tree root.  Leaf i proved against block b gives the nullifier of leaf i under block b's hash.
pub struct E2EWorld {
    leaves: Vec<Honest>,
    blocks: Vec<([u8; 32], [u8; 32], [u8; 32], [u8; 110], u32, Dg)>,
}

pub fn e2e_world(seed: u64, outs: &[u32]) -> E2EWorld {
    let mut rng = StdRng::seed_from_u64(seed ^ 0xE2E);
    let n = outs.len();
    assert!(n <= 16);
    let mut specs = vec![];
    let mut hashes: Vec<Dg> = vec![];
    for _ in 0..n {
        let secret = rd(&mut rng);
        let tc: u64 = rng.gen::<u32>() as u64;
        let tcl = [tc >> 32, tc & 0xffff_ffff];
        let to = leaf::acct(&secret);
        let lh = leaf::leaf_hash(&to, &tcl, 0, 1000);
        specs.push((secret, tc, tcl, to, lh));
        hashes.push(lh);
    }
    while hashes.len() < 16 {
        hashes.push(rd(&mut rng));
    }
    // level 0: groups of four; level 1: the four group nodes
    let group = |members: &[Dg], me: usize| -> ([[u8; 32]; 3], u8, Dg) {
        let mut s: Vec<[u8; 32]> = (0..4).filter(|j| *j != me).map(|j| bytes(&members[j])).collect();
        s.sort();
        let cb = bytes(&members[me]);
        let p = s.iter().filter(|x| **x < cb).count();
        let sd: [Dg; 3] = [digest(&s[0]), digest(&s[1]), digest(&s[2])];
        ([s[0], s[1], s[2]], p as u8, leaf::node(&members[me], &sd, p))
    };
    let nodes: Vec<Dg> = (0..4).map(|g| group(&hashes[4 * g..4 * g + 4], 0).2).collect();
    let root = group(&nodes, 0).2;
    let mut blocks = vec![];
    for _ in 0..2 {
        let parent = rd(&mut rng);
        let state = rd(&mut rng);
        let extr = rd(&mut rng);
        let mut dg = [0u8; 110];
        rng.fill(&mut dg[..]);
        let number: u32 = rng.gen();
        let digest_felts: Vec<u64> = bytes_to_felts(&dg).unwrap().iter().map(|x| x.to_canonical_u64()).collect();
        let hdr = leaf::Hdr { parent, number: number as u64, state, extr, digest: digest_felts };
        let bh = leaf::block_hash(&hdr, &root);
        blocks.push((bytes(&parent), bytes(&state), bytes(&extr), dg, number, bh));
    }
    let mut leaves = vec![];
    for (i, (secret, tc, tcl, to, lh)) in specs.iter().enumerate() {
        let (s0, p0, n0) = group(&hashes[4 * (i / 4)..4 * (i / 4) + 4], i % 4);
        assert_eq!(n0, nodes[i / 4]);
        let (s1, p1, r1) = group(&nodes, i / 4);
        assert_eq!(r1, root);
        let nul = leaf::nullifier(secret, tcl);
        let mut exit1 = [0u8; 32];
        exit1[0] = 0xE0 + i as u8;
        exit1[9] = 7;
        let inputs_pub = PublicCircuitInputs {
            asset_id: 0,
            output_amount_1: outs[i],
            output_amount_2: 0,
            volume_fee_bps: 1,
            nullifier: bytes(&nul).try_into().unwrap(),
            exit_account_1: exit1.try_into().unwrap(),
            exit_account_2: [0u8; 32].try_into().unwrap(),
            block_hash: [0u8; 32].try_into().unwrap(),
            block_number: 0,
        };
        leaves.push(Honest { inputs_pub, secret: bytes(secret), tc: *tc, ua: bytes(to), parent: [0; 32], state: [0; 32], extr: [0; 32], digest: [0; 110],
                             input_amount: 1000, root: bytes(&root), sibs: vec![s0, s1], pos: vec![p0, p1], leaf_hash: *lh });
    }
    E2EWorld { leaves, blocks }
}

impl E2EWorld {
    pub fn nullifier(&self, i: usize) -> [u8; 32] {
        let b: &[u8] = self.leaves[i].inputs_pub.nullifier.as_ref();
        b.try_into().unwrap()
    }
    pub fn block_hash(&self, b: usize) -> [u8; 32] {
        bytes(&self.blocks[b].5)
    }
    /// a real leaf proof of leaf `i` against block `b`, through the repo's own prover
    pub fn leaf_proof(&self, i: usize, b: usize) -> Result<plonky2::plonk::proof::ProofWithPublicInputs<zk_circuits_common::circuit::F, zk_circuits_common::circuit::C, { zk_circuits_common::circuit::D }>> {
        let l = &self.leaves[i];
        let (parent, state, extr, dg, number, bh) = &self.blocks[b];
        let mut inputs_pub = l.inputs_pub.clone();
        inputs_pub.block_hash = bytes(bh).try_into().unwrap();
        inputs_pub.block_number = *number;
        let h = Honest { inputs_pub, secret: l.secret, tc: l.tc, ua: l.ua, parent: *parent, state: *state, extr: *extr, digest: *dg, input_amount: l.input_amount,
                         root: l.root, sibs: l.sibs.clone(), pos: l.pos.clone(), leaf_hash: l.leaf_hash };
        let ci = circuit_inputs(&h, h.sibs.clone(), h.pos.clone());
        WormholeProver::new(wormhole_leaf_circuit_config()).and_then(|p| p.commit(&ci)).and_then(|p| p.prove())
    }
}
