fn main() {
    println!("vh skeleton");
}
