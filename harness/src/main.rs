//! Conformance harness: drives the real code built from /repo's working tree (hooks on) from
//! TLC-generated behaviours, and records real executions for trace validation.
mod agg;
mod e2e;
mod engine;
mod gadgets;
mod jsoncaps;
mod leaf;
mod leafapi;
mod policy;
mod provers;
mod pool;
mod publish;
mod wrapper;

use anyhow::{anyhow, Result};

#[global_allocator]
static GLOBAL: jsoncaps::Counting = jsoncaps::Counting;

pub fn seed() -> u64 {
    std::env::var("VERIF_SEED").ok().and_then(|s| s.parse().ok()).unwrap_or(1)
}

fn main() -> Result<()> {
    let args: Vec<String> = std::env::args().collect();
    let cmd = args.get(1).map(|s| s.as_str()).unwrap_or("");
    match cmd {
        "pool-replay" => pool::replay(&args[2], &args[3]),
        "pool-record" => pool::record(&args[2], seed(), args[3].parse()?, args[4].parse()?, args[5].parse()?),
        "jsoncaps-replay" => jsoncaps::replay(&args[2], &args[3]),
        "policy-baseline" => policy::baseline(),
        "policy-replay" => policy::replay(&args[2], &args[3]),
        "policy-ctors" => policy::ctors(&args[2], &args[3]),
        "publish-replay" => publish::replay(&args[2], &args[3], &args[4]),
        "publish-child" => publish::child(&args[2]),
        "gadget-replay" => gadgets::replay(&args[2], &args[3], &args[4]),
        "gadget-record" => gadgets::record(&args[2], args[3].parse()?, seed(), &args[4]),
        "gadget-selftest" => gadgets::selftest(),
        "pb-replay" => wrapper::pb_replay(&args[2], &args[3], seed()),
        "qb-replay" => wrapper::qb_replay(&args[2], &args[3], seed()),
        "wrap-record" => wrapper::record(&args[2], args[3].parse()?, &args[4], seed(), args.get(5).map(|s| s == "big").unwrap_or(false)),
        "wrap-selftest" => wrapper::selftest(),
        "leaf-replay" => leaf::replay(&args[2], &args[3], seed(), args[4].parse()?),
        "leaf-record" => leaf::record(&args[2], args[3].parse()?, seed()),
        "leaf-selftest" => leaf::selftest(),
        "commit-replay" => provers::commit_replay(&args[2], &args[3], seed()),
        "pub-commit-replay" => provers::pub_commit_replay(&args[2], &args[3], seed()),
        "shuffle-record" => provers::shuffle_record(&args[2], args[3].parse()?, args[4].parse()?, args[5].parse()?, seed()),
        "recursion-replay" => agg::recursion_replay(&args[2], &args[3]),
        "aggregator-replay" => agg::aggregator_replay(&args[2], &args[3], &args[4]),
        "e2e-replay" => e2e::e2e_replay(&args[2], &args[3], &args[4], seed()),
        "leafapi-replay" => leafapi::api_replay(&args[2], &args[3], seed(), args[4].parse()?),
        "merkle-replay" => leafapi::merkle_replay(&args[2], &args[3], seed()),
        _ => Err(anyhow!("unknown subcommand {cmd}")),
    }
}
