//! C28: Policy.tla's grid replayed on the real `validate_circuit_config`, the real circuit /
//! prover constructors and the real profiling-CLI flag validation (`memprof/src/config.rs`, a
//! bin-only module, compiled in by path).
use anyhow::{anyhow, Result};
use plonky2::plonk::circuit_data::CircuitConfig;
use serde_json::json;
use std::fs;
use std::io::Write;
use std::panic::{catch_unwind, AssertUnwindSafe};
use zk_circuits_common::circuit::{validate_circuit_config, wormhole_private_batch_circuit_config};

#[allow(dead_code)]
#[path = "/repo/wormhole/memprof/src/config.rs"]
mod memprof_config;
use memprof_config::{AggConfigArgs, ZkMode};

fn knobs(c: &CircuitConfig) -> Vec<u64> {
    vec![
        c.num_challenges as u64,
        c.security_bits as u64,
        c.fri_config.num_query_rounds as u64,
        c.num_wires as u64,
        c.num_routed_wires as u64,
        c.max_quotient_degree_factor as u64,
        c.fri_config.rate_bits as u64,
        c.fri_config.cap_height as u64,
    ]
}

fn config_of(k: &[i64]) -> CircuitConfig {
    let mut c = wormhole_private_batch_circuit_config();
    c.num_challenges = k[0] as usize;
    c.security_bits = k[1] as usize;
    c.fri_config.num_query_rounds = k[2] as usize;
    c.num_wires = k[3] as usize;
    c.num_routed_wires = k[4] as usize;
    c.max_quotient_degree_factor = k[5] as usize;
    c.fri_config.rate_bits = k[6] as usize;
    c.fri_config.cap_height = k[7] as usize;
    c
}

pub fn baseline() -> Result<()> {
    println!("{}", json!(knobs(&wormhole_private_batch_circuit_config())));
    Ok(())
}

fn opt(v: i64) -> Option<usize> {
    if v < 0 { None } else { Some(v as usize) }
}

fn read_cases(inp: &str) -> Result<Vec<Vec<i64>>> {
    let mut out = vec![];
    for l in fs::read_to_string(inp)?.lines() {
        if l.trim().is_empty() {
            continue;
        }
        let v: Vec<i64> = serde_json::from_str(l)?;
        out.push(v);
    }
    Ok(out)
}

/// In-process part: the pure decision functions.
pub fn replay(inp: &str, outp: &str) -> Result<()> {
    let cases = read_cases(inp)?;
    let mut f = fs::File::create(outp)?;
    let (mut n_cfg, mut n_flags, mut n_valid, mut n_accepted) = (0u64, 0u64, 0u64, 0u64);
    let mut mismatches = 0u64;
    for case in &cases {
        if case[0] == 0 {
            n_cfg += 1;
            let cfg = config_of(&case[1..9]);
            let expect = case[9] == 1;
            let got = catch_unwind(AssertUnwindSafe(|| validate_circuit_config(&cfg).is_ok()));
            let why = match got {
                Err(_) => Some("validate_circuit_config panicked".to_string()),
                Ok(g) if g != expect => Some(format!("validate_circuit_config verdict: model {} code {}", if expect { "accept" } else { "reject" }, if g { "accept" } else { "reject" })),
                _ => None,
            };
            if expect {
                n_valid += 1;
            }
            if let Some(w) = why {
                mismatches += 1;
                if mismatches <= 50 {
                    writeln!(f, "{}", json!({"kind": "config", "case": case, "why": w}))?;
                }
            }
        } else {
            n_flags += 1;
            let args = AggConfigArgs {
                num_challenges: opt(case[1]),
                security_bits: opt(case[2]),
                num_query_rounds: opt(case[3]),
                num_wires: opt(case[4]),
                num_routed_wires: opt(case[5]),
                max_quotient_degree_factor: opt(case[6]),
                rate_bits: opt(case[7]),
                cap_height: opt(case[8]),
                zk_mode: if case[9] == 1 { Some(ZkMode::Disabled) } else { None },
                allow_weakening_security: case[10] == 1,
            };
            let expect = case[11] == 1;
            let got = catch_unwind(AssertUnwindSafe(|| args.validate().is_ok()));
            let mut why = match got {
                Err(_) => Some("flag validation panicked".to_string()),
                Ok(g) if g != expect => Some(format!("flag validation verdict: model {} code {}", if expect { "accept" } else { "reject" }, if g { "accept" } else { "reject" })),
                _ => None,
            };
            // the CLI builds a config only from an accepted flag set
            if matches!(got, Ok(true)) {
                n_accepted += 1;
                match catch_unwind(AssertUnwindSafe(|| args.build())) {
                    Err(_) => why = why.or(Some("building the config from accepted flags panicked".into())),
                    Ok(cfg) => {
                        if validate_circuit_config(&cfg).is_err() {
                            why = Some(format!("accepted flag set builds a config the policy rejects: {:?}", knobs(&cfg)));
                        } else if why.is_none() {
                            let model: Vec<u64> = case[12..20].iter().map(|x| *x as u64).collect();
                            if knobs(&cfg) != model {
                                why = Some(format!("built config: model {:?} code {:?}", model, knobs(&cfg)));
                            }
                        }
                    }
                }
            }
            if let Some(w) = why {
                mismatches += 1;
                if mismatches <= 50 {
                    writeln!(f, "{}", json!({"kind": "flags", "case": case, "why": w}))?;
                }
            }
        }
    }
    writeln!(f, "{}", json!({"summary": true, "configs": n_cfg, "flag_sets": n_flags, "valid": n_valid,
                             "accepted": n_accepted, "mismatches": mismatches}))?;
    Ok(())
}

/// Child-process part: constructors on every config of the grid the model rejects. Progress is
/// written before each call so that the parent can name the cell at which the child died.
pub fn ctors(inp: &str, progress: &str) -> Result<()> {
    use wormhole_aggregator::private_batch::circuit::circuit_logic::PrivateBatchCircuit;
    use wormhole_aggregator::public_batch::circuit::circuit_logic::PublicBatchCircuit;
    use wormhole_circuit::circuit::circuit_logic::WormholeCircuit;
    let cases = read_cases(inp)?;
    let leaf = WormholeCircuit::new(zk_circuits_common::circuit::wormhole_leaf_circuit_config())
        .map_err(|e| anyhow!("canonical leaf config rejected: {e}"))?
        .build_circuit();
    let vd = leaf.verifier_data();
    // a circuit with the private-batch public-input layout (2 leaves), as the pool harness uses
    let inner = crate::pool::build_stand_in().data.verifier_data();
    let inner_leaves = crate::pool::INNER_LEAVES;
    let mut pf = fs::File::create(progress)?;
    let mut n = 0u64;
    for (i, case) in cases.iter().enumerate() {
        if case[0] != 0 || case[9] == 1 {
            continue;
        }
        n += 1;
        for ctor in ["WormholeCircuit::new", "WormholeProver::new", "PrivateBatchCircuit::new", "PublicBatchCircuit::new"] {
            writeln!(pf, "{}", json!({"at": i, "ctor": ctor, "case": case}))?;
            pf.flush()?;
            let cfg = config_of(&case[1..9]);
            let r = catch_unwind(AssertUnwindSafe(|| -> bool {
                match ctor {
                    "WormholeCircuit::new" => WormholeCircuit::new(cfg).is_err(),
                    "WormholeProver::new" => wormhole_prover::WormholeProver::new(cfg).is_err(),
                    "PrivateBatchCircuit::new" => PrivateBatchCircuit::new(cfg, &vd.common, &vd.verifier_only, 1).is_err(),
                    _ => PublicBatchCircuit::new(cfg, inner.common.clone(), &inner.verifier_only, 1, inner_leaves).is_err(),
                }
            }));
            match r {
                Ok(true) => {}
                Ok(false) => {
                    writeln!(pf, "{}", json!({"bad": i, "ctor": ctor, "case": case, "why": format!("{ctor} accepted a config the policy rejects")}))?;
                }
                Err(_) => {
                    writeln!(pf, "{}", json!({"bad": i, "ctor": ctor, "case": case, "why": format!("{ctor} panicked on a config the policy rejects")}))?;
                }
            }
        }
    }
    // the canonical configs are accepted by their constructors
    for (name, ok) in [
        ("WormholeCircuit::new(leaf config)", WormholeCircuit::new(zk_circuits_common::circuit::wormhole_leaf_circuit_config()).is_ok()),
        ("PrivateBatchCircuit::new(private-batch config)", PrivateBatchCircuit::new(wormhole_private_batch_circuit_config(), &vd.common, &vd.verifier_only, 1).is_ok()),
    ] {
        if !ok {
            writeln!(pf, "{}", json!({"bad": -1, "ctor": name, "case": [], "why": format!("{name} rejected its canonical config")}))?;
        }
    }
    writeln!(pf, "{}", json!({"done": true, "rejected_configs": n}))?;
    Ok(())
}
