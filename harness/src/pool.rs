//! Pool conformance: replay of TLC behaviours on the real `ProofPool` and recording of seeded random
//! histories of the real pool for trace validation by `PoolTrace.tla`.
use std::collections::{BTreeMap, HashMap, HashSet};
use std::io::{BufRead, Write};
use std::time::Duration;

use anyhow::{anyhow, Result};
use plonky2::field::types::{Field, PrimeField64};
use plonky2::iop::target::Target;
use plonky2::iop::witness::{PartialWitness, WitnessWrite};
use plonky2::plonk::circuit_builder::CircuitBuilder;
use plonky2::plonk::circuit_data::{CircuitConfig, CircuitData};
use plonky2::plonk::proof::ProofWithPublicInputs;
use qp_wormhole_inputs::BytesDigest;
use rand::rngs::StdRng;
use rand::{Rng, SeedableRng};
use serde_json::{json, Value};
use wormhole_aggregator::pool::verif_hooks as hooks;
use wormhole_aggregator::pool::{BatchKey, PoolLimits, ProofPool};
use wormhole_aggregator::private_batch::circuit::constants::aggregated_output as ao;
use zk_circuits_common::circuit::{C, D, F};
use zk_circuits_common::utils::try_4_felts_to_bytes;

type Proof = ProofWithPublicInputs<F, C, D>;

pub const INNER_LEAVES: usize = 2;

pub struct StandIn {
    pub data: CircuitData<F, C, D>,
    pub targets: Vec<Target>,
}

/// A circuit whose public inputs have the private-batch layout and are otherwise free (as the
/// repo's own pool tests use): admission logic is exercised with real proofs and a real verifier.
pub fn build_stand_in() -> StandIn {
    let config = CircuitConfig::standard_recursion_config();
    let mut builder = CircuitBuilder::<F, D>::new(config);
    let targets = builder.add_virtual_targets(ao::pi_len(INNER_LEAVES));
    builder.register_public_inputs(&targets);
    StandIn { data: builder.build::<C>(), targets }
}

fn null_digest_felts(n: u64) -> [u64; 4] {
    // injective, canonical, never zero
    [n.wrapping_mul(7919) + 1, n, 0x1234_5678_9abc, n * n + 3]
}

fn block_felts(b: u64) -> [u64; 4] {
    if b == 0 { [0; 4] } else { [b, b.wrapping_mul(31) + 7, 0xffff_ffff, 0xffff_ffff_0000_0000] }
}

fn digest_of(f: [u64; 4]) -> BytesDigest {
    let felts: Vec<F> = f.iter().map(|x| F::from_canonical_u64(*x)).collect();
    try_4_felts_to_bytes(&felts).unwrap()
}

#[derive(Clone, Debug)]
pub struct Sub {
    pub id: u64,
    pub block: u64,
    pub asset: u64,
    pub fee: u64,
    pub nulls: Vec<u64>,
    pub valid: bool,
    pub len_ok: bool,
    pub slots: Vec<u64>,
}

impl Sub {
    fn from_json(v: &Value) -> Sub {
        Sub {
            id: v["id"].as_u64().unwrap(),
            block: v["key"]["block"].as_u64().unwrap(),
            asset: v["key"]["asset"].as_u64().unwrap(),
            fee: v["key"]["fee"].as_u64().unwrap(),
            nulls: v["nulls"].as_array().unwrap().iter().map(|x| x.as_u64().unwrap()).collect(),
            valid: v["valid"].as_bool().unwrap(),
            len_ok: v["lenOk"].as_bool().unwrap(),
            slots: v["slots"].as_array().unwrap().iter().map(|x| x.as_u64().unwrap()).collect(),
        }
    }
    fn to_json(&self) -> Value {
        json!({"id": self.id, "key": {"block": self.block, "asset": self.asset, "fee": self.fee},
               "nulls": self.nulls, "valid": self.valid, "lenOk": self.len_ok, "slots": self.slots})
    }
    fn key(&self) -> BatchKey {
        BatchKey { block_hash: digest_of(block_felts(self.block)), asset_id: self.asset, volume_fee_bps: self.fee }
    }
}

/// Builds (and caches) real proofs for palette entries.
pub struct Forge {
    pub si: StandIn,
    pub unit: u128, // real volume per model unit (2^64 / VolCap)
    cache: HashMap<String, Proof>,
}

impl Forge {
    pub fn new(vol_cap: u64) -> Self {
        Forge { si: build_stand_in(), unit: (1u128 << 64) / vol_cap as u128, cache: HashMap::new() }
    }

    fn pis(&self, s: &Sub) -> Vec<u64> {
        let mut v = vec![0u64; ao::pi_len(INNER_LEAVES)];
        v[ao::NUM_EXIT_SLOTS_OFFSET] = 2 * INNER_LEAVES as u64;
        v[ao::ASSET_ID_OFFSET] = s.asset;
        v[ao::VOLUME_FEE_BPS_OFFSET] = s.fee;
        v[ao::BLOCK_HASH_OFFSET..ao::BLOCK_HASH_OFFSET + 4].copy_from_slice(&block_felts(s.block));
        v[ao::BLOCK_NUMBER_OFFSET] = s.id; // unused by the pool: makes every palette entry's inputs unique
        assert!(s.slots.len() <= 2 * INNER_LEAVES);
        for (i, sl) in s.slots.iter().enumerate() {
            let real = (*sl as u128) * self.unit;
            assert!(real < 0xFFFF_FFFF_0000_0001u128, "slot volume must be a field element");
            v[ao::exit_slots_start() + i * ao::EXIT_SLOT_LEN] = real as u64;
        }
        assert!(!s.nulls.is_empty() && s.nulls.len() <= INNER_LEAVES);
        for i in 0..INNER_LEAVES {
            let n = s.nulls[i.min(s.nulls.len() - 1)];
            let st = ao::nullifiers_start(INNER_LEAVES) + 4 * i;
            v[st..st + 4].copy_from_slice(&null_digest_felts(n));
        }
        v
    }

    pub fn proof(&mut self, s: &Sub) -> Proof {
        let k = s.to_json().to_string();
        if let Some(p) = self.cache.get(&k) {
            return p.clone();
        }
        let mut pis = self.pis(s);
        let want = pis.clone();
        if !s.valid {
            // prove a different statement, then overwrite the public inputs: the proof carries the
            // wanted key and nullifiers but fails cryptographic verification
            pis[ao::BLOCK_NUMBER_OFFSET] = 0xdead_beef;
            pis[ao::exit_slots_start() + 1] ^= 1;
        }
        let mut pw = PartialWitness::new();
        for (t, v) in self.si.targets.iter().zip(pis.iter()) {
            pw.set_target(*t, F::from_canonical_u64(*v)).unwrap();
        }
        let mut proof = self.si.data.prove(pw).unwrap();
        proof.public_inputs = want.iter().map(|x| F::from_canonical_u64(*x)).collect();
        if !s.len_ok {
            if s.id % 2 == 0 { proof.public_inputs.push(F::ZERO); } else { proof.public_inputs.pop(); }
        }
        self.cache.insert(k, proof.clone());
        proof
    }
}

pub struct Limits {
    pub max_proofs: usize,
    pub max_buckets: usize,
    pub max_verifies: usize,
    pub window: u64,
    pub batch: usize,
    pub vol_cap: u64,
}

impl Limits {
    pub fn from_json(v: &Value) -> Limits {
        Limits {
            max_proofs: v["max_proofs"].as_u64().unwrap() as usize,
            max_buckets: v["max_buckets"].as_u64().unwrap() as usize,
            max_verifies: v["max_verifies"].as_u64().unwrap() as usize,
            window: v["window"].as_u64().unwrap(),
            batch: v["batch"].as_u64().unwrap() as usize,
            vol_cap: v["vol_cap"].as_u64().unwrap(),
        }
    }
    pub fn to_json(&self) -> Value {
        json!({"max_proofs": self.max_proofs, "max_buckets": self.max_buckets, "max_verifies": self.max_verifies,
               "window": self.window, "batch": self.batch, "vol_cap": self.vol_cap})
    }
}

/// The real pool plus the bookkeeping that turns its concrete state into the spec's vocabulary.
pub struct Driver<'a> {
    pub pool: ProofPool,
    pub forge: &'a mut Forge,
    pub lim: &'a Limits,
    pub now: u64,
    id_by_pis: HashMap<Vec<u64>, u64>,
    null_by_digest: HashMap<BytesDigest, u64>,
    key_by_real: BTreeMap<BatchKey, (u64, u64, u64)>,
}

impl<'a> Driver<'a> {
    pub fn new(forge: &'a mut Forge, lim: &'a Limits, palette: &[Sub]) -> Result<Self> {
        hooks::set_virtual_now(Some(Duration::from_secs(0)));
        let pool = ProofPool::new(
            forge.si.data.verifier_data(),
            INNER_LEAVES,
            lim.batch,
            PoolLimits {
                max_proofs: lim.max_proofs,
                max_buckets: lim.max_buckets,
                max_verifies_per_window: lim.max_verifies,
                verify_window: Duration::from_secs(lim.window),
            },
        )?;
        let mut id_by_pis = HashMap::new();
        let mut null_by_digest = HashMap::new();
        let mut key_by_real = BTreeMap::new();
        for s in palette {
            let mut pis = forge.pis(s);
            if !s.len_ok {
                if s.id % 2 == 0 { pis.push(0); } else { pis.pop(); }
            }
            if id_by_pis.insert(pis, s.id).is_some() {
                return Err(anyhow!("palette entries must have distinct public inputs"));
            }
            for n in &s.nulls {
                null_by_digest.insert(digest_of(null_digest_felts(*n)), *n);
            }
            key_by_real.insert(s.key(), (s.block, s.asset, s.fee));
        }
        Ok(Driver { pool, forge, lim, now: 0, id_by_pis, null_by_digest, key_by_real })
    }

    fn key_json(&self, k: &BatchKey) -> Value {
        match self.key_by_real.get(k) {
            Some((b, a, f)) => json!({"block": b, "asset": a, "fee": f}),
            None => json!({"unknown_key": format!("{:?}", k)}),
        }
    }

    fn id_of(&self, p: &Proof) -> i64 {
        let pis: Vec<u64> = p.public_inputs.iter().map(|f| f.to_canonical_u64()).collect();
        self.id_by_pis.get(&pis).map(|x| *x as i64).unwrap_or(-1)
    }

    fn vol_units(&self, v: u64) -> Value {
        if v == u64::MAX {
            return json!(self.lim.vol_cap);
        }
        let u = self.forge.unit;
        if (v as u128) % u == 0 { json!(((v as u128) / u) as u64) } else { json!(format!("raw:{}", v)) }
    }

    fn secs(d: Duration) -> Value {
        if d.subsec_nanos() == 0 { json!(d.as_secs()) } else { json!(format!("frac:{:?}", d)) }
    }

    /// Projection of the real pool in the shape of MC_PoolSim!Proj (canonically ordered).
    pub fn project(&self) -> Value {
        let pr = self.pool.verif_project();
        let stats = self.pool.bucket_stats();
        let mut bk = vec![];
        for b in &pr.buckets {
            let st = stats.iter().find(|s| s.key == b.key);
            let stj = match st {
                Some(s) => json!({"num": s.num_proofs, "oldest": Self::secs(s.oldest_age),
                                  "vol": self.vol_units(s.total_volume),
                                  "snap": s.last_snapshot_age.map(Self::secs).unwrap_or(json!(-1)),
                                  "batch": s.batch_size}),
                None => json!("missing"),
            };
            let entries: Vec<Value> = b.proofs.iter().map(|q| {
                let mut nulls: Vec<i64> = q.nullifiers.iter()
                    .map(|d| self.null_by_digest.get(d).map(|x| *x as i64).unwrap_or(-1)).collect();
                nulls.sort();
                nulls.dedup();
                let id = self.id_by_pis.get(&q.public_inputs).map(|x| *x as i64).unwrap_or(-1);
                json!({"id": id, "nulls": nulls, "vol": self.vol_units(q.volume), "at": Self::secs(q.admitted_at)})
            }).collect();
            bk.push(json!({"key": self.key_json(&b.key), "entries": entries,
                           "snap": b.last_snapshot_at.map(Self::secs).unwrap_or(json!(-1)), "stats": stj}));
        }
        // stats for buckets that do not exist would be a disagreement too
        let extra_stats = stats.iter().filter(|s| !pr.buckets.iter().any(|b| b.key == s.key)).count();
        let mut idx: Vec<(i64, Value)> = pr.index.iter()
            .map(|(n, k)| (self.null_by_digest.get(n).map(|x| *x as i64).unwrap_or(-1), self.key_json(k))).collect();
        idx.sort_by(|a, b| a.0.cmp(&b.0).then(a.1.to_string().cmp(&b.1.to_string())));
        let idx: Vec<Value> = idx.into_iter().map(|(n, k)| json!({"n": n, "key": k})).collect();
        bk.sort_by_key(|b| b["key"].to_string());
        json!({"bk": bk, "idx": idx, "win": Self::secs(pr.verify_window_started), "ver": pr.verifies_in_window,
               "now": self.now, "size": self.pool.len(), "nb": self.pool.num_buckets(),
               "empty": self.pool.is_empty(), "extra_stats": extra_stats})
    }

    /// Execute one call; returns the observation record {ok/result class, verified, count, ids}.
    pub fn exec(&mut self, call: &Value, palette: &HashMap<u64, Sub>) -> Value {
        let op = call["op"].as_str().unwrap();
        let before = hooks::verify_calls();
        let obs = match op {
            "push" => {
                let s = &palette[&call["id"].as_u64().unwrap()];
                let proof = self.forge.proof(s);
                let r = std::panic::catch_unwind(std::panic::AssertUnwindSafe(|| self.pool.push(proof)));
                match r {
                    Ok(Ok(k)) => json!({"ok": true, "key": self.key_json(&k), "class": "Ok"}),
                    Ok(Err(e)) => json!({"ok": false, "class": classify(&e.to_string())}),
                    Err(_) => json!({"ok": false, "class": "PANIC"}),
                }
            }
            "evict_settled" => {
                let set: HashSet<BytesDigest> = call["set"].as_array().unwrap().iter()
                    .map(|n| digest_of(null_digest_felts(n.as_u64().unwrap()))).collect();
                json!({"count": self.pool.evict_settled(&set)})
            }
            "evict_older" => {
                json!({"count": self.pool.evict_older_than(Duration::from_secs(call["age"].as_u64().unwrap()))})
            }
            "snapshot" => {
                let k = key_from_json(&call["key"]);
                match self.pool.snapshot_batch(&k) {
                    Some(v) => {
                        let ids: Vec<i64> = v.iter().map(|p| self.id_of(p)).collect();
                        let pre = wormhole_aggregator::public_batch::prover::verif_preflight_private_batch_proofs(
                            &v, self.lim.batch, &self.forge.si.data.verifier_data());
                        json!({"some": true, "ids": ids, "preflight_ok": pre.is_ok(),
                               "preflight_err": pre.err().map(|e| e.to_string()).unwrap_or_default()})
                    }
                    None => json!({"some": false, "ids": []}),
                }
            }
            "remove_bucket" => {
                let k = key_from_json(&call["key"]);
                let v = self.pool.remove_bucket(&k);
                let ids: Vec<i64> = v.iter().map(|p| self.id_of(p)).collect();
                json!({"count": ids.len(), "ids": ids})
            }
            "tick" => {
                self.now += call["d"].as_u64().unwrap();
                hooks::set_virtual_now(Some(Duration::from_secs(self.now)));
                json!({})
            }
            _ => panic!("unknown op {op}"),
        };
        let mut obs = obs;
        obs["verified"] = json!(hooks::verify_calls() - before);
        obs
    }
}

pub fn key_from_json(k: &Value) -> BatchKey {
    BatchKey {
        block_hash: digest_of(block_felts(k["block"].as_u64().unwrap())),
        asset_id: k["asset"].as_u64().unwrap(),
        volume_fee_bps: k["fee"].as_u64().unwrap(),
    }
}

/// Informational only (never compared): which rejection the message names.
pub(crate) fn classify(msg: &str) -> &'static str {
    if msg.contains("pool is full") { "Full" }
    else if msg.contains("length mismatch") || msg.contains("failed to parse") { "Shape" }
    else if msg.contains("all-dummy") { "Dummy" }
    else if msg.contains("budget") { "Budget" }
    else if msg.contains("verification failed") { "Invalid" }
    else if msg.contains("bucket limit") { "BucketCap" }
    else if msg.contains("already staged") { "Duplicate" }
    else { "Other" }
}

fn canon_state(v: &Value) -> Value {
    // canonical form of a spec-side Proj record for comparison with Driver::project
    let mut bk: Vec<Value> = v["bk"].as_array().cloned().unwrap_or_default().into_iter().map(|b| {
        let entries: Vec<Value> = b["entries"].as_array().cloned().unwrap_or_default().into_iter().map(|e| {
            let mut nulls: Vec<i64> = e["nulls"].as_array().unwrap().iter().map(|x| x.as_i64().unwrap()).collect();
            nulls.sort();
            json!({"id": e["id"], "nulls": nulls, "vol": e["vol"], "at": e["at"]})
        }).collect();
        json!({"key": b["key"], "entries": entries, "snap": b["snap"], "stats": b["stats"]})
    }).collect();
    bk.sort_by_key(|b| b["key"].to_string());
    let mut idx: Vec<Value> = v["idx"].as_array().cloned().unwrap_or_default();
    idx.sort_by(|a, b| a["n"].as_i64().cmp(&b["n"].as_i64()));
    json!({"bk": bk, "idx": idx, "win": v["win"], "ver": v["ver"], "now": v["now"], "size": v["size"]})
}

fn compare_state(model: &Value, real: &Value, now: u64, batch: usize) -> Option<String> {
    let m = canon_state(model);
    let mb = m["bk"].as_array().unwrap();
    let rb = real["bk"].as_array().unwrap();
    if mb.len() != rb.len() { return Some(format!("bucket count: model {} real {}", mb.len(), rb.len())); }
    for (a, b) in mb.iter().zip(rb.iter()) {
        if a["key"] != b["key"] { return Some(format!("bucket keys differ: {} vs {}", a["key"], b["key"])); }
        if a["entries"] != b["entries"] { return Some(format!("entries of {}: model {} real {}", a["key"], a["entries"], b["entries"])); }
        if a["snap"] != b["snap"] { return Some(format!("last snapshot of {}: model {} real {}", a["key"], a["snap"], b["snap"])); }
        let (ms, rs) = (&a["stats"], &b["stats"]);
        for f in ["num", "oldest", "vol", "snap"] {
            if ms[f] != rs[f] { return Some(format!("stats.{f} of {}: model {} real {}", a["key"], ms[f], rs[f])); }
        }
        if rs["batch"] != json!(batch) { return Some("stats.batch_size".into()); }
    }
    if m["idx"] != real["idx"] { return Some(format!("index: model {} real {}", m["idx"], real["idx"])); }
    for f in ["win", "ver", "size"] {
        if m[f] != real[f] { return Some(format!("{f}: model {} real {}", m[f], real[f])); }
    }
    if m["now"] != json!(now) { return Some("clock drift in harness".into()); }
    if real["nb"] != json!(rb.len()) || real["empty"] != json!(rb.is_empty()) || real["extra_stats"] != json!(0) {
        return Some(format!("num_buckets/is_empty/bucket_stats inconsistent with buckets: {}", real));
    }
    None
}

fn compare_obs(call: &Value, exp: &Value, obs: &Value) -> Option<String> {
    let op = call["op"].as_str().unwrap();
    let exp_ver = if exp["verified"].as_bool().unwrap() { 1 } else { 0 };
    if obs["verified"].as_u64().unwrap() != exp_ver {
        return Some(format!("verify calls: model {} real {}", exp_ver, obs["verified"]));
    }
    match op {
        "push" => {
            let ok = exp["result"] == "Ok";
            if obs["ok"].as_bool().unwrap() != ok {
                return Some(format!("push verdict: model {} real {}", exp["result"], obs));
            }
            if obs["class"] == "PANIC" { return Some("push panicked".into()); }
            if ok && obs["key"].is_null() { return Some("no key returned".into()); }
        }
        "evict_settled" | "evict_older" => {
            if obs["count"] != exp["count"] { return Some(format!("evicted count: model {} real {}", exp["count"], obs["count"])); }
        }
        "snapshot" => {
            let some = exp["result"] == "some";
            if obs["some"].as_bool().unwrap() != some { return Some("snapshot Some/None".into()); }
            if obs["ids"] != exp["ids"] { return Some(format!("snapshot ids: model {} real {}", exp["ids"], obs["ids"])); }
            if some && obs["preflight_ok"] != json!(true) {
                return Some(format!("snapshot rejected by the public-batch preflight: {}", obs["preflight_err"]));
            }
        }
        "remove_bucket" => {
            if obs["ids"] != exp["ids"] { return Some(format!("removed ids: model {} real {}", exp["ids"], obs["ids"])); }
        }
        _ => {}
    }
    None
}

/// `vh pool-replay <in.ndjson> <out.ndjson>`: one behaviour per input line.
pub fn replay(inp: &str, out: &str) -> Result<()> {
    let f = std::io::BufReader::new(std::fs::File::open(inp)?);
    let mut w = std::io::BufWriter::new(std::fs::File::create(out)?);
    let mut forges: HashMap<u64, Forge> = HashMap::new();
    for (ln, line) in f.lines().enumerate() {
        let line = line?;
        if line.trim().is_empty() { continue; }
        let beh: Value = serde_json::from_str(&line)?;
        let lim = Limits::from_json(&beh["limits"]);
        let palette: Vec<Sub> = beh["palette"].as_array().unwrap().iter().map(Sub::from_json).collect();
        let pmap: HashMap<u64, Sub> = palette.iter().map(|s| (s.id, s.clone())).collect();
        let forge = forges.entry(lim.vol_cap).or_insert_with(|| Forge::new(lim.vol_cap));
        let mut d = Driver::new(forge, &lim, &palette)?;
        let mut mismatch: Option<Value> = None;
        let steps = beh["steps"].as_array().unwrap();
        let mut classes: Vec<String> = vec![];
        for (i, st) in steps.iter().enumerate() {
            let obs = d.exec(&st["call"], &pmap);
            let real = d.project();
            let mm = compare_obs(&st["call"], &st["res"], &obs).or_else(|| compare_state(&st["st"], &real, d.now, lim.batch));
            if st["call"]["op"] == "push" { classes.push(st["res"]["result"].as_str().unwrap().to_string()); }
            else { classes.push(st["call"]["op"].as_str().unwrap().to_string()); }
            if let Some(m) = mm {
                mismatch = Some(json!({"step": i + 1, "call": st["call"], "expected_res": st["res"], "observed": obs,
                                       "expected_state": canon_state(&st["st"]), "observed_state": real, "why": m}));
                break;
            }
        }
        writeln!(w, "{}", json!({"line": ln + 1, "steps": steps.len(), "ok": mismatch.is_none(),
                                  "mismatch": mismatch, "classes": classes}))?;
    }
    Ok(())
}

/// `vh pool-record <out.ndjson> <runs> <steps>`: seeded random histories of the real pool over a
/// larger domain (many keys and nullifiers, random limits, real 64-bit volumes) as ndjson events.
pub fn record(out: &str, seed: u64, runs: usize, steps: usize, variant: u64) -> Result<()> {
    let mut rng = StdRng::seed_from_u64(seed ^ (variant.wrapping_mul(0x9e37_79b9_7f4a_7c15)));
    let lim = Limits {
        max_proofs: rng.gen_range(2..=7),
        max_buckets: rng.gen_range(1..=4),
        max_verifies: rng.gen_range(1..=6),
        window: rng.gen_range(1..=5),
        batch: rng.gen_range(1..=2).min(2),
        vol_cap: 16,
    };
    let lim = Limits { batch: lim.batch.min(lim.max_proofs), ..lim };
    // palette: 12 real keys (+2 dummy keys), 16 nullifiers, ~60 submissions
    let mut palette: Vec<Sub> = vec![];
    let nkeys = rng.gen_range(6..=12);
    let keys: Vec<(u64, u64, u64)> = (0..nkeys).map(|i| (1 + (i % 4) as u64, (i / 4 % 2) as u64, 1 + (i / 8) as u64)).collect();
    let mut id = 1u64;
    for _ in 0..rng.gen_range(30..=60) {
        let (b, a, f) = if rng.gen_bool(0.08) { (0, rng.gen_range(0..2), rng.gen_range(1..3)) } else { keys[rng.gen_range(0..keys.len())] };
        let n1 = rng.gen_range(1..=16u64);
        let nulls = if rng.gen_bool(0.5) { vec![n1] } else { let n2 = rng.gen_range(1..=16u64); if n2 == n1 { vec![n1] } else { vec![n1, n2] } };
        let nslots = rng.gen_range(0..=4);
        let slots: Vec<u64> = (0..nslots).map(|_| *[0u64, 1, 2, 7, 8, 15].get(rng.gen_range(0..6)).unwrap()).collect();
        palette.push(Sub { id, block: b, asset: a, fee: f, nulls, valid: !rng.gen_bool(0.12), len_ok: !rng.gen_bool(0.06), slots });
        id += 1;
    }
    let pmap: HashMap<u64, Sub> = palette.iter().map(|s| (s.id, s.clone())).collect();
    let mut forge = Forge::new(lim.vol_cap);
    let mut w = std::io::BufWriter::new(std::fs::File::create(out)?);
    writeln!(w, "{}", json!({"op": "config", "limits": lim.to_json(),
                              "palette": palette.iter().map(|s| s.to_json()).collect::<Vec<_>>()}))?;
    for _ in 0..runs {
        let mut d = Driver::new(&mut forge, &lim, &palette)?;
        writeln!(w, "{}", json!({"op": "reset", "st": d.project()}))?;
        for _ in 0..steps {
            let r = rng.gen_range(0..100);
            let call = if r < 55 {
                json!({"op": "push", "id": palette[rng.gen_range(0..palette.len())].id})
            } else if r < 65 {
                let k = rng.gen_range(1..=3);
                let set: Vec<u64> = (0..k).map(|_| rng.gen_range(1..=16u64)).collect::<HashSet<_>>().into_iter().collect();
                json!({"op": "evict_settled", "set": set})
            } else if r < 72 {
                json!({"op": "evict_older", "age": rng.gen_range(0..=4)})
            } else if r < 80 {
                let s = &palette[rng.gen_range(0..palette.len())];
                json!({"op": "snapshot", "key": {"block": s.block, "asset": s.asset, "fee": s.fee}})
            } else if r < 85 {
                let s = &palette[rng.gen_range(0..palette.len())];
                json!({"op": "remove_bucket", "key": {"block": s.block, "asset": s.asset, "fee": s.fee}})
            } else {
                json!({"op": "tick", "d": rng.gen_range(1..=3)})
            };
            let obs = d.exec(&call, &pmap);
            let mut ev = call.clone();
            ev["obs"] = obs;
            ev["st"] = d.project();
            writeln!(w, "{}", ev)?;
        }
    }
    Ok(())
}
