//! C14 / C15 (and pieces of C16, C18, C11): the REAL batch provers over a stand-in leaf circuit with the Wormhole
//! leaf public-input layout (test-helpers' fake leaf: any statement can be proved in milliseconds), so that whole
//! recursive private-batch / public-batch proofs are affordable in a release build.
//!
//!  commit-replay <in> <out>      BatchProver.tla cases on PrivateBatchProver::commit/prove (+ the wrapper-only circuit
//!                                for "rejected => unprovable") and PublicBatchProver::commit/prove
//!  shuffle-record <out> <n> <k> <reps>   repeated real commits: slot arrangement and dummy nullifiers observed from
//!                                the proof's public output
use crate::engine::{self, f};
use crate::wrapper;
use anyhow::{anyhow, Result};
use plonky2::field::types::{Field, PrimeField64};
use plonky2::iop::target::Target;
use plonky2::iop::witness::PartialWitness;
use plonky2::plonk::circuit_data::{CircuitData, VerifierCircuitData};
use plonky2::plonk::proof::ProofWithPublicInputs;
use rayon::prelude::*;
use serde_json::{json, Value};
use std::fs;
use std::io::Write;
use std::panic::{catch_unwind, AssertUnwindSafe};
use std::sync::Mutex;
use test_helpers::fake_leaf::{build_fake_leaf_circuit, prove_fake_leaf};
use wormhole_aggregator::private_batch::circuit::circuit_logic::PrivateBatchCircuit;
use wormhole_aggregator::private_batch::prover::PrivateBatchProver;
use plonky2::iop::witness::WitnessWrite;
use wormhole_aggregator::public_batch::circuit::circuit_logic::PublicBatchCircuit;
use wormhole_aggregator::public_batch::prover::{PublicBatchInputs, PublicBatchProver};
use zk_circuits_common::circuit::{wormhole_private_batch_circuit_config, wormhole_public_batch_circuit_config, C, D, F};

pub type Proof = ProofWithPublicInputs<F, C, D>;

pub struct FakeLeaf {
    pub data: CircuitData<F, C, D>,
    pub pis: [Target; 21],
}
impl FakeLeaf {
    pub fn new() -> Self {
        let (data, pis) = build_fake_leaf_circuit();
        FakeLeaf { data, pis }
    }
    pub fn prove(&self, stmt: &[u64]) -> Proof {
        let v: [F; 21] = core::array::from_fn(|i| f(stmt[i]));
        prove_fake_leaf(&self.data, &self.pis, v)
    }
}

pub const TEMPLATE: [u64; 21] = [0, 0, 0, 25, 0, 0, 0, 0, 0, 0, 0, 0, 0, 0, 0, 0, 0, 0, 0, 0, 0];

fn stmt_of(c: &Value, emb: &wrapper::Emb) -> Vec<u64> {
    wrapper::child_vec_pub(c, emb, 0)
}

fn pis_of(p: &Proof) -> Vec<u64> {
    p.public_inputs.iter().map(|x| x.to_canonical_u64()).collect()
}

/// the private-batch verifier for (fake leaf, n): a second, deterministic build of the same circuit
fn pb_verifier(leaf: &FakeLeaf, n: usize) -> Result<VerifierCircuitData<F, C, D>> {
    Ok(PrivateBatchCircuit::new(wormhole_private_batch_circuit_config(), &leaf.data.common, &leaf.data.verifier_only, n)?.build_verifier())
}

fn realise(leaf: &FakeLeaf, sup: &[Value], emb: &wrapper::Emb) -> Vec<Proof> {
    sup.iter()
        .map(|p| {
            let st = stmt_of(&p["st"], emb);
            let mut proof = leaf.prove(&st);
            if !p["valid"].as_bool().unwrap() {
                // a public input changed after proving: the proof no longer verifies
                proof.public_inputs[1] += F::ONE;
            }
            if !p["lenok"].as_bool().unwrap() {
                proof.public_inputs.pop();
            }
            proof
        })
        .collect()
}

pub fn commit_replay(inp: &str, outp: &str, seed: u64) -> Result<()> {
    engine::silence_panics();
    let cases: Vec<Value> = fs::read_to_string(inp)?.lines().filter(|l| !l.trim().is_empty()).map(|l| serde_json::from_str(l).unwrap()).collect();
    let emb = wrapper::make_emb(seed);
    let leaf = FakeLeaf::new();
    let template = leaf.prove(&TEMPLATE);
    let verifiers: Mutex<std::collections::BTreeMap<usize, std::sync::Arc<VerifierCircuitData<F, C, D>>>> = Mutex::new(Default::default());
    let get_ver = |n: usize| -> Result<std::sync::Arc<VerifierCircuitData<F, C, D>>> {
        if let Some(v) = verifiers.lock().unwrap().get(&n) {
            return Ok(v.clone());
        }
        let v = std::sync::Arc::new(pb_verifier(&leaf, n)?);
        verifiers.lock().unwrap().insert(n, v.clone());
        Ok(v)
    };
    let wrapper_cache: Mutex<std::collections::BTreeMap<usize, std::sync::Arc<Option<wrapper::Wrapper>>>> = Mutex::new(Default::default());
    let get_wr = |n: usize| -> std::sync::Arc<Option<wrapper::Wrapper>> {
        if let Some(v) = wrapper_cache.lock().unwrap().get(&n) {
            return v.clone();
        }
        let v = std::sync::Arc::new(wrapper::build_pb(n));
        wrapper_cache.lock().unwrap().insert(n, v.clone());
        v
    };
    let pool = rayon::ThreadPoolBuilder::new().num_threads(6).build()?;
    let rows: Vec<Value> = pool.install(|| {
        cases
            .par_iter()
            .map(|c| {
                let n = c["n"].as_u64().unwrap() as usize;
                let sup = c["sup"].as_array().unwrap();
                if c["layer"] != "private" {
                    return json!({"skipped": "public layer handled by pub-commit-replay"});
                }
                let r = catch_unwind(AssertUnwindSafe(|| -> Result<Value> {
                    let proofs = realise(&leaf, sup, &emb);
                    let prover = PrivateBatchProver::new(wormhole_private_batch_circuit_config(), leaf.data.common.clone(), &leaf.data.verifier_only, n, template.clone())
                        .map_err(|e| anyhow!("prover construction failed: {e}"))?;
                    match prover.commit(proofs) {
                        Err(e) => {
                            // rejected: is the padded batch provable? (wrapper-only circuit over the padded statements)
                            let mut provable = Value::Null;
                            if c["provable"].as_u64().unwrap_or(2) != 2 {
                                let w = get_wr(n);
                                if let Some(w) = w.as_ref() {
                                    let mut ch: Vec<Vec<u64>> = sup.iter().map(|p| stmt_of(&p["st"], &emb)).collect();
                                    while ch.len() < n {
                                        ch.push(TEMPLATE.to_vec());
                                    }
                                    let pre: Vec<[u64; 4]> = (0..n).map(|i| [i as u64 + 1, 2, 3, 4]).collect();
                                    provable = json!(engine::run(&w.data, &w.inputs(&ch, &pre)).accepted());
                                }
                            }
                            Ok(json!({"commit": "err", "msg": e.to_string().chars().take(100).collect::<String>(), "padded_batch_provable": provable}))
                        }
                        Ok(committed) => match committed.prove() {
                            Err(e) => Ok(json!({"commit": "ok", "prove": "err", "msg": e.to_string().chars().take(100).collect::<String>()})),
                            Ok(proof) => {
                                let ver = get_ver(n)?;
                                let ok = ver.verify(proof.clone()).is_ok();
                                Ok(json!({"commit": "ok", "prove": "ok", "verified": ok, "pis": pis_of(&proof)}))
                            }
                        },
                    }
                }));
                match r {
                    Ok(Ok(v)) => v,
                    Ok(Err(e)) => json!({"tool_error": e.to_string()}),
                    Err(_) => json!({"commit": "panic"}),
                }
            })
            .collect()
    });
    let mut fo = fs::File::create(outp)?;
    let digs: std::collections::BTreeMap<String, Vec<u64>> = emb.dig.iter().map(|(k, v)| (k.to_string(), v.to_vec())).collect();
    writeln!(fo, "{}", json!({"emb": {"dig": digs, "amt_unit": 1u64 << 30}}))?;
    for r in rows {
        writeln!(fo, "{}", r)?;
    }
    Ok(())
}

/// C15: repeated real commits of k distinguishable real proofs into an n-slot batch.
pub fn shuffle_record(outp: &str, n: usize, k: usize, reps: usize, seed: u64) -> Result<()> {
    engine::silence_panics();
    let leaf = FakeLeaf::new();
    let template = leaf.prove(&TEMPLATE);
    let ver = pb_verifier(&leaf, n)?;
    // real proof j pays amount j+1 to account [100+j,0,0,0] with nullifier [200+j,..]; same block / fee / asset 0
    let reals: Vec<Proof> = (0..k)
        .map(|j| {
            let mut st = vec![0u64, j as u64 + 1, 0, 10];
            st.extend([200 + j as u64, 1, 1, 1]);
            st.extend([100 + j as u64, 0, 0, 0]);
            st.extend([0, 0, 0, 0]);
            st.extend([7, 7, 7, 7]);
            st.push(42);
            leaf.prove(&st)
        })
        .collect();
    let pool = rayon::ThreadPoolBuilder::new().num_threads(6).build()?;
    let rows: Vec<Value> = pool.install(|| {
        (0..reps)
            .into_par_iter()
            .map(|_| {
                let r = catch_unwind(AssertUnwindSafe(|| -> Result<Value> {
                    let prover = PrivateBatchProver::new(wormhole_private_batch_circuit_config(), leaf.data.common.clone(), &leaf.data.verifier_only, n, template.clone())?;
                    let proof = prover.commit(reals.clone())?.prove()?;
                    let ok = ver.verify(proof.clone()).is_ok();
                    let p = pis_of(&proof);
                    // slot j holds real proof r iff exit slot 2j is (r+1, account 100+r)
                    let arrangement: Vec<i64> = (0..n)
                        .map(|j| {
                            let b = 8 + 5 * (2 * j);
                            if p[b] == 0 && p[b + 1] == 0 { -1 } else if p[b + 1] >= 100 && p[b + 1] < 100 + k as u64 && p[b] == p[b + 1] - 99 { (p[b + 1] - 100) as i64 } else { -2 }
                        })
                        .collect();
                    let ns = 8 + 10 * n;
                    let nulls: Vec<Vec<u64>> = (0..n).map(|i| p[ns + 4 * i..ns + 4 * i + 4].to_vec()).collect();
                    Ok(json!({"verified": ok, "arrangement": arrangement, "nulls": nulls, "second_slots_zero": (0..n).all(|j| p[8 + 5 * (2 * j + 1)..8 + 5 * (2 * j + 2)].iter().all(|x| *x == 0))}))
                }));
                match r {
                    Ok(Ok(v)) => v,
                    Ok(Err(e)) => json!({"error": e.to_string()}),
                    Err(_) => json!({"panic": true}),
                }
            })
            .collect()
    });
    let _ = seed;
    let mut fo = fs::File::create(outp)?;
    for r in rows {
        writeln!(fo, "{}", r)?;
    }
    Ok(())
}

// ---------------------------------------------------------------- public layer

/// an inner (private-batch) proof with a chosen header: n leaves, `real` of them real with the given header
pub fn inner_proof(leaf: &FakeLeaf, pbc: &CircuitData<F, C, D>, pbt: &wormhole_aggregator::private_batch::circuit::circuit_logic::PrivateBatchCircuitTargets,
                   n: usize, header: Option<(u64, u64, [u64; 4], u64)>, tag: u64) -> Result<Proof> {
    let mut leaves = vec![];
    for i in 0..n {
        let st: Vec<u64> = match (header, i) {
            (Some((asset, fee, block, number)), 0) => {
                let mut s = vec![asset, 5 + tag % 3, 0, fee];
                s.extend([900 + tag, 3, 3, 3]);
                s.extend([50 + tag % 2, 0, 0, 0]);
                s.extend([0, 0, 0, 0]);
                s.extend(block);
                s.push(number);
                s
            }
            (Some((asset, _, _, _)), _) => { let mut t = TEMPLATE.to_vec(); t[0] = asset; t }
            (None, _) => TEMPLATE.to_vec(),
        };
        leaves.push(leaf.prove(&st));
    }
    let pre: Vec<[F; 4]> = (0..n).map(|i| [f(tag * 10 + i as u64 + 1), f(2), f(3), f(4)]).collect();
    let mut pw = PartialWitness::new();
    // the witness of the private-batch circuit, filled through its public targets (the repo's own filler is crate-private)
    for (t, p) in pbt.leaf_proofs.iter().zip(&leaves) {
        pw.set_proof_with_pis_target(t, p)?;
    }
    for (ts, vs) in pbt.dummy_nullifier_pre_images.iter().zip(&pre) {
        for (t, v) in ts.iter().zip(vs) {
            pw.set_target(*t, *v)?;
        }
    }
    pbc.prove(pw).map_err(|e| anyhow!("inner proof: {e}"))
}

pub fn pub_commit_replay(inp: &str, outp: &str, seed: u64) -> Result<()> {
    engine::silence_panics();
    let cases: Vec<Value> = fs::read_to_string(inp)?.lines().filter(|l| !l.trim().is_empty()).map(|l| serde_json::from_str(l).unwrap()).collect();
    let emb = wrapper::make_emb(seed);
    let leaf = FakeLeaf::new();
    let nleaf = 1usize;
    let pbcirc = PrivateBatchCircuit::new(wormhole_private_batch_circuit_config(), &leaf.data.common, &leaf.data.verifier_only, nleaf)?;
    let pbt = pbcirc.targets();
    let pbc = pbcirc.build_circuit();
    let template = inner_proof(&leaf, &pbc, &pbt, nleaf, None, 0)?;
    // one inner proof per distinct header, proved once
    let mut headers: std::collections::BTreeMap<String, Proof> = Default::default();
    for c in &cases {
        for p in c["sup"].as_array().unwrap() {
            let st = &p["st"];
            let key = format!("{}-{}-{}", st["asset"], st["fee"], st["block"]);
            if !headers.contains_key(&key) {
                let g = |k: &str| st[k].as_u64().unwrap();
                let hdr = if g("block") == 0 { None } else { Some((g("asset") * 7, g("fee") * 25, emb.dig[&g("block")], g("number") * 100_003)) };
                // an all-dummy inner with a non-zero asset cannot exist (the template asset is 0): header None covers it
                headers.insert(key, inner_proof(&leaf, &pbc, &pbt, nleaf, hdr, headers.len() as u64)?);
            }
        }
    }
    let pool = rayon::ThreadPoolBuilder::new().num_threads(6).build()?;
    let rows: Vec<Value> = pool.install(|| {
        cases
            .par_iter()
            .map(|c| {
                let m = c["n"].as_u64().unwrap() as usize;
                let sup = c["sup"].as_array().unwrap();
                let r = catch_unwind(AssertUnwindSafe(|| -> Result<Value> {
                    let proofs: Vec<Proof> = sup
                        .iter()
                        .map(|p| {
                            let st = &p["st"];
                            let mut proof = headers[&format!("{}-{}-{}", st["asset"], st["fee"], st["block"])].clone();
                            if !p["valid"].as_bool().unwrap() { proof.public_inputs[8] += F::ONE; }
                            if !p["lenok"].as_bool().unwrap() { proof.public_inputs.pop(); }
                            proof
                        })
                        .collect();
                    let heads: Vec<Vec<u64>> = proofs.iter().map(|p| pis_of(p)[..8.min(p.public_inputs.len())].to_vec()).collect();
                    let prover = PublicBatchProver::new(wormhole_public_batch_circuit_config(), pbc.common.clone(), &pbc.verifier_only, m, nleaf, template.clone())
                        .map_err(|e| anyhow!("public prover construction failed: {e}"))?;
                    let addr: [u8; 32] = core::array::from_fn(|i| (i as u8) % 7);
                    match prover.commit(PublicBatchInputs { proofs, aggregator_address: addr.try_into().unwrap() }) {
                        Err(e) => Ok(json!({"commit": "err", "msg": e.to_string().chars().take(100).collect::<String>(), "heads": heads})),
                        Ok(committed) => match committed.prove() {
                            Err(e) => Ok(json!({"commit": "ok", "prove": "err", "msg": e.to_string().chars().take(100).collect::<String>(), "heads": heads})),
                            Ok(proof) => {
                                let ver = PublicBatchCircuit::new(wormhole_public_batch_circuit_config(), pbc.common.clone(), &pbc.verifier_only, m, nleaf)?.build_verifier();
                                let ok = ver.verify(proof.clone()).is_ok();
                                Ok(json!({"commit": "ok", "prove": "ok", "verified": ok, "pis": pis_of(&proof), "heads": heads, "template_head": pis_of(&template)[..8].to_vec(),
                                          "inner_pis": sup.iter().map(|p| { let st = &p["st"]; pis_of(&headers[&format!("{}-{}-{}", st["asset"], st["fee"], st["block"])]) }).collect::<Vec<_>>(),
                                          "template_pis": pis_of(&template)}))
                            }
                        },
                    }
                }));
                match r {
                    Ok(Ok(v)) => v,
                    Ok(Err(e)) => json!({"tool_error": e.to_string()}),
                    Err(_) => json!({"commit": "panic"}),
                }
            })
            .collect()
    });
    let mut fo = fs::File::create(outp)?;
    for r in rows {
        writeln!(fo, "{}", r)?;
    }
    Ok(())
}
