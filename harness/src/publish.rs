//! C23: behaviours of Publish.tla replayed on the real publish code.
//!
//! `publish-replay <in.ndjson> <out.ndjson> <scratch-root>`: for every TLC behaviour a child
//! process (`publish-child`) prepares the initial directory tree, installs the hook callback
//! (fail a stage / fail a rename / abort the process at the chosen hook point), and runs the real
//! `generate_all_circuit_binaries` (mode "gen") or the real `commit_staging_dir` (mode "commit").
//! At every hook point the child appends the projected directory tree to an event file; the
//! parent compares hook by hook and at the end (after return or after the crash) against the
//! model's states.
use anyhow::{anyhow, bail, Context, Result};
use circuit_builder::verif_hooks::{self, Point};
use serde_json::{json, Value};
use std::collections::BTreeMap;
use std::fs;
use std::io::Write;
use std::path::{Path, PathBuf};

const PREV: &[(&str, &str)] = &[("common.bin", "prev-common"), ("stale.bin", "prev-stale"), ("config.json", "prev-config")];
const NEWM: &[(&str, &str)] = &[("common.bin", "new-common"), ("verifier.bin", "new-verifier"), ("config.json", "new-config")];

fn read_dir_map(p: &Path) -> Option<BTreeMap<String, Vec<u8>>> {
    let mut m = BTreeMap::new();
    for e in fs::read_dir(p).ok()? {
        let e = e.ok()?;
        let name = e.file_name().to_string_lossy().to_string();
        let data = if e.path().is_dir() { b"<dir>".to_vec() } else { fs::read(e.path()).unwrap_or_default() };
        m.insert(name, data);
    }
    Some(m)
}

fn is_marker(m: &BTreeMap<String, Vec<u8>>, set: &[(&str, &str)]) -> bool {
    m.len() == set.len() && set.iter().all(|(k, v)| m.get(*k).map(|d| d == v.as_bytes()).unwrap_or(false))
}

/// `new_names`: in mode "gen" the file names of a complete generated set (from the reference run).
fn classify(p: &Path, new_names: &Option<Vec<String>>) -> String {
    let Ok(md) = fs::symlink_metadata(p) else { return "absent".into() };
    if !md.is_dir() {
        return "file".into();
    }
    let Some(m) = read_dir_map(p) else { return "unreadable".into() };
    if is_marker(&m, PREV) {
        return "prev".into();
    }
    match new_names {
        None => {
            if is_marker(&m, NEWM) {
                return "new".into();
            }
        }
        Some(names) => {
            let have: Vec<String> = m.keys().cloned().collect();
            if &have == names
                && m.values().all(|d| !d.is_empty())
                && wormhole_aggregator::CircuitBinsConfig::load(p).is_ok()
            {
                return "new".into();
            }
        }
    }
    "partial".into()
}

fn project(root: &Path, new_names: &Option<Vec<String>>) -> Value {
    let out = root.join("out");
    let mut stg = vec![];
    let mut old = vec![];
    let mut other = vec![];
    for e in fs::read_dir(root).unwrap() {
        let e = e.unwrap();
        let n = e.file_name().to_string_lossy().to_string();
        if n == "out" || n == "events.ndjson" || n == "result.json" || n == "plan.json" {
            continue;
        }
        if n.starts_with(".out.staging-") {
            if n.ends_with(".old") {
                old.push(e.path());
            } else {
                stg.push(e.path());
            }
        } else {
            other.push(n);
        }
    }
    let one = |v: &Vec<PathBuf>| -> String {
        match v.len() {
            0 => "absent".into(),
            1 => classify(&v[0], new_names),
            _ => "multiple".into(),
        }
    };
    json!({"out": classify(&out, new_names), "old": one(&old), "stg": one(&stg), "stray": other})
}

fn write_set(dir: &Path, set: &[(&str, &str)]) -> Result<()> {
    fs::create_dir_all(dir)?;
    for (k, v) in set {
        fs::write(dir.join(k), v)?;
    }
    Ok(())
}

/// Child: run one behaviour. argv: <root> (contains plan.json)
pub fn child(root: &str) -> Result<()> {
    let root = PathBuf::from(root);
    let plan: Value = serde_json::from_str(&fs::read_to_string(root.join("plan.json"))?)?;
    let mode = plan["mode"].as_str().unwrap().to_string();
    let new_names: Option<Vec<String>> = plan.get("new_names").and_then(|v| {
        if v.is_null() { None } else { Some(v.as_array().unwrap().iter().map(|s| s.as_str().unwrap().to_string()).collect()) }
    });
    let out = root.join("out");
    match plan["init"].as_str().unwrap() {
        "absent" => {}
        "prev" => write_set(&out, PREV)?,
        "file" => fs::write(&out, b"i am a file")?,
        x => bail!("bad init {x}"),
    }
    let staging = root.join(".out.staging-verif");
    if mode == "commit" && plan["stg0"] == "new" {
        write_set(&staging, NEWM)?;
    }
    let fail_stage = plan["fail_stage"].as_u64().unwrap_or(0) as u32;
    let crash_stage = plan["crash_stage"].as_u64().unwrap_or(0) as u32;
    let crash_after_rename = plan["crash_after_rename"].as_u64().unwrap_or(0) as u32;
    let rename_fail: Vec<u32> = plan["rename_fail"].as_array().map(|a| a.iter().map(|x| x.as_u64().unwrap() as u32).collect()).unwrap_or_default();
    let evpath = root.join("events.ndjson");
    let root2 = root.clone();
    let nn = new_names.clone();
    let emit = move |v: Value| {
        let mut f = fs::OpenOptions::new().create(true).append(true).open(&evpath).unwrap();
        writeln!(f, "{}", v).unwrap();
        f.sync_all().ok();
    };
    verif_hooks::install(Box::new(move |p: Point| -> bool {
        match p {
            Point::Stage(k) => {
                let fs_ = project(&root2, &nn);
                if k == crash_stage {
                    emit(json!({"a": "Crash", "k": 0, "ok": true, "fs": fs_}));
                    std::process::abort();
                }
                let fail = k == fail_stage;
                emit(json!({"a": "Stage", "k": k, "ok": !fail, "fs": fs_}));
                fail
            }
            Point::BeforeRename(i) => rename_fail.contains(&i),
            Point::AfterRename(i, ok) => {
                let fs_ = project(&root2, &nn);
                emit(json!({"a": "Rename", "k": i, "ok": ok, "fs": fs_.clone()}));
                if i == crash_after_rename {
                    emit(json!({"a": "Crash", "k": 0, "ok": true, "fs": fs_}));
                    std::process::abort();
                }
                false
            }
        }
    }));
    let r = if mode == "gen" {
        circuit_builder::generate_all_circuit_binaries(&out, false, 1, Some(1))
    } else {
        verif_hooks::commit_staging_dir(&staging, &out)
    };
    let res = json!({"result": if r.is_ok() { "ok" } else { "err" }, "error": r.err().map(|e| format!("{e:#}"))});
    fs::write(root.join("result.json"), res.to_string())?;
    Ok(())
}

fn plan_of(beh: &Value) -> Value {
    let mut fail_stage = 0;
    let mut crash_stage = 0;
    let mut crash_after_rename = 0;
    let mut rename_fail = vec![];
    let steps = beh["steps"].as_array().unwrap();
    let mut stages_seen = 0u64;
    for (i, s) in steps.iter().enumerate() {
        match s["a"].as_str().unwrap() {
            "Stage" => {
                stages_seen = s["k"].as_u64().unwrap();
                if !s["ok"].as_bool().unwrap() {
                    fail_stage = stages_seen;
                }
            }
            "Rename" => {
                if !s["ok"].as_bool().unwrap() {
                    rename_fail.push(s["k"].as_u64().unwrap());
                }
            }
            "Crash" => {
                if i > 0 && steps[i - 1]["a"] == "Rename" {
                    crash_after_rename = steps[i - 1]["k"].as_u64().unwrap();
                } else {
                    crash_stage = stages_seen + 1;
                }
            }
            _ => {}
        }
    }
    json!({"mode": beh["mode"], "init": beh["init"], "stg0": beh["stg0"], "fail_stage": fail_stage,
           "crash_stage": crash_stage, "crash_after_rename": crash_after_rename, "rename_fail": rename_fail})
}

fn fs_eq(model: &Value, real: &Value) -> Option<String> {
    for k in ["out", "old", "stg"] {
        if model[k] != real[k] {
            return Some(format!("{k}: model {} real {}", model[k], real[k]));
        }
    }
    if real["stray"].as_array().map(|a| !a.is_empty()).unwrap_or(false) {
        return Some(format!("stray entries next to the output: {}", real["stray"]));
    }
    None
}

fn run_one(exe: &Path, root: &Path, beh: &Value, new_names: &Option<Vec<String>>) -> Result<Value> {
    let _ = fs::remove_dir_all(root);
    fs::create_dir_all(root)?;
    let mut plan = plan_of(beh);
    plan["new_names"] = match new_names {
        Some(n) if beh["mode"] == "gen" => json!(n),
        _ => Value::Null,
    };
    fs::write(root.join("plan.json"), plan.to_string())?;
    let st = std::process::Command::new(exe)
        .arg("publish-child")
        .arg(root)
        .stdout(std::process::Stdio::null())
        .stderr(std::process::Stdio::null())
        .status()
        .context("spawn child")?;
    let nn = if beh["mode"] == "gen" { new_names.clone() } else { None };
    let final_fs = project(root, &nn);
    let events: Vec<Value> = fs::read_to_string(root.join("events.ndjson"))
        .unwrap_or_default()
        .lines()
        .filter(|l| !l.trim().is_empty())
        .map(|l| serde_json::from_str(l).unwrap())
        .collect();
    let result = if root.join("result.json").exists() {
        let v: Value = serde_json::from_str(&fs::read_to_string(root.join("result.json"))?)?;
        v["result"].as_str().unwrap().to_string()
    } else if st.success() {
        "noresult".to_string()
    } else {
        "crashed".to_string()
    };
    // compare
    let steps = beh["steps"].as_array().unwrap();
    let mut why: Option<String> = None;
    let mut at = 0usize;
    for (i, s) in steps.iter().enumerate() {
        at = i;
        let Some(e) = events.get(i) else {
            why = Some(format!("hook event #{} missing: model expects {} k={} ok={}, the code stopped after {} events (result {})",
                               i + 1, s["a"], s["k"], s["ok"], events.len(), result));
            break;
        };
        if e["a"] != s["a"] || e["k"] != s["k"] || e["ok"] != s["ok"] {
            why = Some(format!("hook event #{}: model {} k={} ok={}, code {} k={} ok={}", i + 1, s["a"], s["k"], s["ok"], e["a"], e["k"], e["ok"]));
            break;
        }
        if let Some(d) = fs_eq(&s["fs"], &e["fs"]) {
            why = Some(format!("directory tree at hook event #{} ({} k={}): {}", i + 1, s["a"], s["k"], d));
            break;
        }
    }
    if why.is_none() && events.len() > steps.len() {
        let e = &events[steps.len()];
        why = Some(format!("extra hook event #{}: code {} k={} ok={} not in the model behaviour", steps.len() + 1, e["a"], e["k"], e["ok"]));
    }
    if why.is_none() {
        if beh["final"]["result"].as_str().unwrap() != result {
            why = Some(format!("reported result: model {} code {}", beh["final"]["result"], result));
        } else if let Some(d) = fs_eq(&beh["final"], &final_fs) {
            why = Some(format!("final directory tree: {}", d));
        }
    }
    // The code took a path the model does not have (an event is missing, extra or different): that alone is
    // not a violation of C23.  Judge what the property itself says on everything that was observed.
    let mut diverged = false;
    if let Some(w) = &why {
        if w.starts_with("hook event") || w.starts_with("extra hook event") {
            diverged = true;
            why = prop_check(beh, &events, &final_fs, &result).map(|p| format!("{p} (the code left the model's path: {w})"));
        }
    }
    let _ = fs::remove_dir_all(root);
    Ok(json!({"ok": why.is_none(), "why": why, "diverged": diverged, "at": at, "events": events, "final_fs": final_fs, "result": result,
              "plan": plan_of(beh)}))
}

/// C23 as stated, evaluated on the observed directory trees (every hook point and the end).
fn prop_check(beh: &Value, events: &[Value], final_fs: &Value, result: &str) -> Option<String> {
    let init = beh["init"].as_str().unwrap();
    let mode = beh["mode"].as_str().unwrap();
    let mut seen: Vec<(&str, &Value)> = events.iter().map(|e| ("at a hook point", &e["fs"])).collect();
    seen.push(("at the end", final_fs));
    for (at, fs_) in &seen {
        let out = fs_["out"].as_str().unwrap_or("?");
        let old = fs_["old"].as_str().unwrap_or("?");
        let stg = fs_["stg"].as_str().unwrap_or("?");
        if !(out == init || out == "new" || out == "absent") {
            return Some(format!("{at} the output path holds '{out}': neither the complete previous set nor the complete new set"));
        }
        if init == "prev" && out != "prev" && !(out == "new" || (old == "prev" && stg == "new")) {
            return Some(format!("{at} the previous set is gone from the output path (now '{out}') and the two copies do not both survive (old='{old}', staging='{stg}')"));
        }
    }
    let out = final_fs["out"].as_str().unwrap_or("?");
    if result == "ok" && out != "new" {
        return Some(format!("success reported but the output path holds '{out}'"));
    }
    if result == "err" && out == "new" && init != "new" {
        return Some("failure reported although the new set is live".into());
    }
    let reached_publish = events.iter().any(|e| e["a"] == "Rename");
    if mode == "gen" && result == "err" && !reached_publish {
        let stray = final_fs["stray"].as_array().map(|a| !a.is_empty()).unwrap_or(false);
        if out != init {
            return Some(format!("a failed generation changed the output path ('{init}' -> '{out}')"));
        }
        if final_fs["stg"] != "absent" || final_fs["old"] != "absent" || stray {
            return Some(format!("a failed generation left a staging directory behind (staging='{}', old='{}', stray={})", final_fs["stg"], final_fs["old"], final_fs["stray"]));
        }
    }
    None
}

pub fn replay(inp: &str, outp: &str, scratch: &str) -> Result<()> {
    let exe = std::env::current_exe()?;
    let scratch = PathBuf::from(scratch);
    fs::create_dir_all(&scratch)?;
    let behs: Vec<Value> = fs::read_to_string(inp)?
        .lines()
        .filter(|l| !l.trim().is_empty())
        .map(|l| serde_json::from_str(l))
        .collect::<Result<_, _>>()?;
    // reference run: what a complete generated set looks like (names only; contents are fresh proofs)
    let new_names: Option<Vec<String>> = if behs.iter().any(|b| b["mode"] == "gen") {
        let root = scratch.join("reference");
        let _ = fs::remove_dir_all(&root);
        fs::create_dir_all(&root)?;
        circuit_builder::generate_all_circuit_binaries(root.join("out"), false, 1, Some(1))
            .map_err(|e| anyhow!("reference generation failed: {e:#}"))?;
        let m = read_dir_map(&root.join("out")).ok_or_else(|| anyhow!("reference output unreadable"))?;
        let _ = fs::remove_dir_all(&root);
        Some(m.keys().cloned().collect())
    } else {
        None
    };
    let n = behs.len();
    let results: Vec<Value> = std::thread::scope(|sc| {
        let workers = 4usize;
        let mut handles = vec![];
        for w in 0..workers {
            let behs = &behs;
            let exe = &exe;
            let scratch = &scratch;
            let new_names = &new_names;
            handles.push(sc.spawn(move || {
                let mut out = vec![];
                let mut i = w;
                while i < n {
                    let root = scratch.join(format!("b{i}"));
                    let r = run_one(exe, &root, &behs[i], new_names)
                        .unwrap_or_else(|e| json!({"ok": false, "why": format!("harness error: {e:#}"), "tool_error": true}));
                    out.push((i, r));
                    i += workers;
                }
                out
            }));
        }
        let mut all: Vec<(usize, Value)> = handles.into_iter().flat_map(|h| h.join().unwrap()).collect();
        all.sort_by_key(|x| x.0);
        all.into_iter().map(|x| x.1).collect()
    });
    let mut f = fs::File::create(outp)?;
    for r in results {
        writeln!(f, "{}", r)?;
    }
    writeln!(f, "{}", json!({"new_names": new_names}))?;
    Ok(())
}
