//! C06-C10, C12, C13, C36: the REAL wrapper constraint builders of the aggregator
//! (`build_private_batch_constraints`, `build_public_batch_constraints`, exported by the cfg-guarded
//! hooks) built over FREE child public inputs (no recursive verifier), evaluated by the
//! adversarial-witness oracle.
//!
//!  pb-replay <in> <out>       PrivateBatch.tla cases (small model values) embedded into real values
//!  qb-replay <in> <out>       PublicBatch.tla cases
//!  wrap-record <out> <n> <kind>   seeded real-domain batches (kind = pb | qb | two), events for WrapperTrace.tla
use crate::engine::{self, f, Verdict, P};
use crate::gadgets::{cfg, limbs16};
use anyhow::Result;
use plonky2::field::types::{Field, PrimeField64};
use plonky2::fri::proof::FriProofTarget;
use plonky2::gadgets::polynomial::PolynomialCoeffsExtTarget;
use plonky2::hash::hash_types::MerkleCapTarget;
use plonky2::hash::poseidon2::Poseidon2Hash;
use plonky2::iop::target::Target;
use plonky2::plonk::circuit_builder::CircuitBuilder;
use plonky2::plonk::circuit_data::CircuitData;
use plonky2::plonk::config::Hasher;
use plonky2::plonk::proof::{OpeningSetTarget, ProofTarget, ProofWithPublicInputsTarget};
use rand::rngs::StdRng;
use rand::{Rng, SeedableRng};
use rayon::prelude::*;
use serde_json::{json, Value};
use std::collections::BTreeMap;
use std::fs;
use std::io::Write;
use std::panic::{catch_unwind, AssertUnwindSafe};
use std::sync::{Arc, Mutex};
use wormhole_aggregator::private_batch::circuit::circuit_logic::{verif_build_private_batch_constraints, PrivateBatchCircuitTargets};
use wormhole_aggregator::public_batch::circuit::circuit_logic::{verif_build_public_batch_constraints, PublicBatchCircuitTargets};
use zk_circuits_common::circuit::{C, D, F};

pub const LEAF_PI: usize = 21;

fn free_proof(b: &mut CircuitBuilder<F, D>, npis: usize) -> ProofWithPublicInputsTarget<D> {
    let pis = b.add_virtual_targets(npis);
    let pow = b.add_virtual_target();
    ProofWithPublicInputsTarget {
        proof: ProofTarget {
            wires_cap: MerkleCapTarget(vec![]),
            plonk_zs_partial_products_cap: MerkleCapTarget(vec![]),
            quotient_polys_cap: MerkleCapTarget(vec![]),
            openings: OpeningSetTarget {
                constants: vec![], plonk_sigmas: vec![], wires: vec![], plonk_zs: vec![], plonk_zs_next: vec![],
                lookup_zs: vec![], next_lookup_zs: vec![], partial_products: vec![], quotient_polys: vec![],
            },
            opening_proof: FriProofTarget {
                commit_phase_merkle_caps: vec![], query_round_proofs: vec![],
                final_poly: PolynomialCoeffsExtTarget(vec![]), pow_witness: pow,
            },
        },
        public_inputs: pis,
    }
}

pub struct Wrapper {
    pub data: CircuitData<F, C, D>,
    /// child public-input targets, child by child
    pub child_pis: Vec<Vec<Target>>,
    /// private batch: preimage targets per slot; public batch: the aggregator address (one entry)
    pub extra: Vec<[Target; 4]>,
    pub pow: Vec<Target>,
}

pub fn build_pb(n: usize) -> Option<Wrapper> {
    catch_unwind(AssertUnwindSafe(|| {
        let mut b = CircuitBuilder::<F, D>::new(cfg());
        let leaf_proofs: Vec<_> = (0..n).map(|_| free_proof(&mut b, LEAF_PI)).collect();
        let pre: Vec<[Target; 4]> = (0..n).map(|_| core::array::from_fn(|_| b.add_virtual_target())).collect();
        let targets = PrivateBatchCircuitTargets { leaf_proofs: leaf_proofs.clone(), dummy_nullifier_pre_images: pre.clone() };
        verif_build_private_batch_constraints(&mut b, &targets, n);
        Wrapper {
            data: b.build::<C>(),
            child_pis: leaf_proofs.iter().map(|p| p.public_inputs.clone()).collect(),
            extra: pre,
            pow: leaf_proofs.iter().map(|p| p.proof.opening_proof.pow_witness).collect(),
        }
    }))
    .ok()
}

pub fn build_qb(m: usize, n: usize) -> Option<Wrapper> {
    catch_unwind(AssertUnwindSafe(|| {
        let mut b = CircuitBuilder::<F, D>::new(cfg());
        let inner: Vec<_> = (0..m).map(|_| free_proof(&mut b, LEAF_PI * n + 8)).collect();
        let addr: [Target; 4] = core::array::from_fn(|_| b.add_virtual_target());
        let targets = PublicBatchCircuitTargets { private_batch_proofs: inner.clone(), aggregator_address: addr };
        verif_build_public_batch_constraints(&mut b, &targets, m, n);
        Wrapper {
            data: b.build::<C>(),
            child_pis: inner.iter().map(|p| p.public_inputs.clone()).collect(),
            extra: vec![addr],
            pow: inner.iter().map(|p| p.proof.opening_proof.pow_witness).collect(),
        }
    }))
    .ok()
}

impl Wrapper {
    pub fn inputs(&self, children: &[Vec<u64>], extra: &[[u64; 4]]) -> Vec<(Target, F)> {
        let mut v = vec![];
        for (ts, vals) in self.child_pis.iter().zip(children) {
            for (t, x) in ts.iter().zip(vals) {
                v.push((*t, f(*x)));
            }
        }
        for (ts, vals) in self.extra.iter().zip(extra) {
            for (t, x) in ts.iter().zip(vals) {
                v.push((*t, f(*x)));
            }
        }
        for t in &self.pow {
            v.push((*t, F::ZERO));
        }
        v
    }
}

pub fn hh(pre: [u64; 4]) -> [u64; 4] {
    let p: Vec<F> = pre.iter().map(|x| f(*x)).collect();
    let h1 = Poseidon2Hash::hash_no_pad(&p);
    let h2 = Poseidon2Hash::hash_no_pad(&h1.elements);
    core::array::from_fn(|i| h2.elements[i].to_canonical_u64())
}

// ---------------------------------------------------------------- embedding of model values

/// The "digest number line" of the model (0 = zero digest, 1 < 2 < 3 < 9, with 2 and 9 the values
/// H(H(u)) may take) realised with real hashes: D(2) = HH(u2), D(9) = HH(u9) > D(2), D(1), D(3)
/// neighbours of D(2) in its most significant limb. Other positive values get seeded digests placed
/// by their order.
pub struct Emb {
    pub dig: BTreeMap<u64, [u64; 4]>,
    pub pre: BTreeMap<u64, [u64; 4]>,
    /// digests for the EQUALITY-ONLY roles (exit accounts, block hashes): as `dig`, except that value 1 is a non-zero digest
    /// whose limbs sum to 0 mod p and value 3 has the same limb sum as value 2 - what survives when a per-limb comparison
    /// is folded into one comparison of limb sums (seeded C13 / C03, second round)
    pub eq: BTreeMap<u64, [u64; 4]>,
}

pub fn make_emb(seed: u64) -> Emb {
    let mut rng = StdRng::seed_from_u64(seed ^ 0x5eed);
    let rnd4 = |rng: &mut StdRng| -> [u64; 4] { core::array::from_fn(|_| rng.gen::<u64>() % P) };
    loop {
        let u2 = rnd4(&mut rng);
        let u9 = rnd4(&mut rng);
        let (h2, h9) = (hh(u2), hh(u9));
        if h2[0] < (1 << 20) || h2[0] > P - (1 << 20) || h9[0] <= h2[0] + 1000 {
            continue;
        }
        let mut dig = BTreeMap::new();
        let mut pre = BTreeMap::new();
        dig.insert(0, [0u64; 4]);
        dig.insert(2, h2);
        dig.insert(9, h9);
        pre.insert(2, u2);
        pre.insert(9, u9);
        // neighbours: same lower limbs, so the order is decided by limb 0 only ...
        dig.insert(1, [h2[0] - 1, h2[1], h2[2], h2[3]]);
        // ... and one that differs from D(2) only in the LAST limb
        let mut d3 = h2;
        d3[3] = if h2[3] < P - 1 { h2[3] + 1 } else { h2[3] };
        if d3 == h2 {
            d3[0] += 1;
        }
        dig.insert(3, d3);
        for v in 4..9u64 {
            dig.insert(v, [h2[0] + 1 + (v - 3) * ((h9[0] - h2[0] - 1) / 8), rng.gen::<u64>() % P, 0, P - 1]);
        }
        let mut eq = dig.clone();
        eq.insert(1, [P - 1, 1, 0, 0]);
        let delta = 1 + rng.gen::<u64>() % (1 << 40);
        eq.insert(3, [((h2[0] as u128 + delta as u128) % P as u128) as u64, ((h2[1] as u128 + P as u128 - delta as u128) % P as u128) as u64, h2[2], h2[3]]);
        return Emb { dig, pre, eq };
    }
}

const AMT_UNIT: u64 = 1 << 30; // RangeBound = 4 units = 2^32
/// scalar embeddings. mode 0: unrelated scales. mode 1: asset and fee move by the SAME step in OPPOSITE directions,
/// mode 2: in the same direction - so that a conflict in both fields cancels in a sum / a difference of deviations
/// (a constraint that merges the two comparisons linearly would accept such batches).
fn scal(kind: &str, v: u64, mode: u64) -> u64 {
    match (kind, mode) {
        ("asset", 0) => v * 7,
        ("fee", 0) => v * 25,
        ("asset", _) => 40 + 9 * v,
        ("fee", 1) => 60 - 9 * v,
        ("fee", _) => 60 + 9 * v,
        _ => v * 100_003,
    }
}
fn scal_table() -> Value {
    let t = |k: &str, m: u64| -> Vec<u64> { (0..10).map(|v| if k == "fee" && m == 1 && v > 6 { 0 } else { scal(k, v, m) }).collect() };
    json!([{"asset": t("asset", 0), "fee": t("fee", 0), "number": t("number", 0)},
           {"asset": t("asset", 1), "fee": t("fee", 1), "number": t("number", 1)},
           {"asset": t("asset", 2), "fee": t("fee", 2), "number": t("number", 2)}])
}

fn child_vec(c: &Value, emb: &Emb, mode: u64) -> Vec<u64> {
    let g = |k: &str| c[k].as_u64().unwrap();
    let mut v = vec![scal("asset", g("asset"), mode), g("out1") * AMT_UNIT, g("out2") * AMT_UNIT, scal("fee", g("fee"), mode)];
    v.extend(emb.dig[&g("null")]);
    v.extend(emb.eq[&g("exit1")]);
    v.extend(emb.eq[&g("exit2")]);
    v.extend(emb.eq[&g("block")]);
    v.push(scal("number", g("number"), mode));
    v
}

pub fn child_vec_pub(c: &Value, emb: &Emb, mode: u64) -> Vec<u64> {
    child_vec(c, emb, mode)
}

fn vjson(v: &Verdict) -> Value {
    match v {
        Verdict::Accepted(p) => json!({"acc": 1, "pis": p}),
        Verdict::Rejected(r) => json!({"acc": 0, "why": r}),
    }
}

/// honest + a seeded sample of the override catalogue; returns (label, verdict) of every attack
fn attacks(w: &Wrapper, inputs: &[(Target, F)], max_sites: usize, pick: u64) -> Vec<(String, Verdict)> {
    let sites = match engine::sites(&w.data, inputs) {
        Ok(s) => s,
        Err(_) => return vec![],
    };
    let elig: Vec<&engine::Site> = sites
        .iter()
        .filter(|s| s.kind == "LowHighGenerator" || s.kind == "EqualityGenerator" || s.kind.starts_with("WireSplit"))
        .collect();
    if elig.is_empty() {
        return vec![];
    }
    let mut out = vec![];
    let k = max_sites.min(elig.len());
    for i in 0..k {
        let s = elig[(pick as usize % elig.len() + i * elig.len() / k) % elig.len()];
        for o in engine::catalogue(s) {
            let mut pre = inputs.to_vec();
            pre.extend(o.sets.iter().copied());
            out.push((o.label, engine::run(&w.data, &pre)));
        }
    }
    out
}

type Cache = Mutex<BTreeMap<(usize, usize), Arc<Option<Wrapper>>>>;
fn cached(cache: &Cache, m: usize, n: usize) -> Arc<Option<Wrapper>> {
    if let Some(x) = cache.lock().unwrap().get(&(m, n)) {
        return x.clone();
    }
    let w = Arc::new(if m == 0 { build_pb(n) } else { build_qb(m, n) });
    cache.lock().unwrap().insert((m, n), w.clone());
    w
}

fn read_cases(inp: &str) -> Result<Vec<Value>> {
    Ok(fs::read_to_string(inp)?.lines().filter(|l| !l.trim().is_empty()).map(|l| serde_json::from_str(l).unwrap()).collect())
}

pub fn pb_replay(inp: &str, outp: &str, seed: u64) -> Result<()> {
    engine::silence_panics();
    let cases = read_cases(inp)?;
    let emb = make_emb(seed);
    let cache: Cache = Mutex::new(BTreeMap::new());
    let rows: Vec<Value> = cases
        .par_iter()
        .map(|c| {
            let n = c["n"].as_u64().unwrap() as usize;
            let w = cached(&cache, 0, n);
            let Some(w) = w.as_ref() else { return json!({"built": 0}) };
            let mode = c["mode"].as_u64().unwrap_or(0);
            let children: Vec<Vec<u64>> = c["ch"].as_array().unwrap().iter().map(|x| child_vec(x, &emb, mode)).collect();
            let pre: Vec<[u64; 4]> = c["hh"].as_array().unwrap().iter().map(|x| emb.pre[&x.as_u64().unwrap()]).collect();
            let inputs = w.inputs(&children, &pre);
            let honest = engine::run(&w.data, &inputs);
            let att: Vec<Value> = if c["attacks"].as_u64().unwrap_or(0) == 1 {
                attacks(w, &inputs, 10, c["pick"].as_u64().unwrap_or(0)).into_iter().map(|(l, v)| json!({"label": l, "v": vjson(&v)})).collect()
            } else {
                vec![]
            };
            json!({"built": 1, "honest": vjson(&honest), "attacks": att})
        })
        .collect();
    let mut fo = fs::File::create(outp)?;
    let digs: BTreeMap<String, Vec<u64>> = emb.dig.iter().map(|(k, v)| (k.to_string(), v.to_vec())).collect();
    let eqs: BTreeMap<String, Vec<u64>> = emb.eq.iter().map(|(k, v)| (k.to_string(), v.to_vec())).collect();
    writeln!(fo, "{}", json!({"emb": {"dig": digs, "eq": eqs, "amt_unit": AMT_UNIT, "scal": scal_table()}}))?;
    for r in rows {
        writeln!(fo, "{}", r)?;
    }
    Ok(())
}

fn inner_vec(b: &Value, n: usize, emb: &Emb, junk: u64, mode: u64) -> Vec<u64> {
    let g = |k: &str| b[k].as_u64().unwrap();
    // header: [nslots, asset, fee, block(4), number]; nslots and padding are not read by the public batch
    let mut v = vec![if junk % 2 == 0 { 2 * n as u64 } else { 999 }, scal("asset", g("asset"), mode), scal("fee", g("fee"), mode)];
    v.extend(emb.eq[&g("block")]);
    v.push(scal("number", g("number"), mode));
    for s in b["slots"].as_array().unwrap() {
        v.push(s[0].as_u64().unwrap() * AMT_UNIT);
        v.extend(emb.eq[&s[1].as_u64().unwrap()]);
    }
    for x in b["nulls"].as_array().unwrap() {
        v.extend(emb.dig[&x.as_u64().unwrap()]);
    }
    while v.len() < LEAF_PI * n + 8 {
        v.push(if junk % 3 == 0 { 0 } else { junk });
    }
    v
}

pub fn qb_replay(inp: &str, outp: &str, seed: u64) -> Result<()> {
    engine::silence_panics();
    let cases = read_cases(inp)?;
    let emb = make_emb(seed);
    let cache: Cache = Mutex::new(BTreeMap::new());
    let rows: Vec<Value> = cases
        .par_iter()
        .map(|c| {
            let inn = c["inn"].as_array().unwrap();
            let m = inn.len();
            let n = inn[0]["nulls"].as_array().unwrap().len();
            let w = cached(&cache, m, n);
            let Some(w) = w.as_ref() else { return json!({"built": 0}) };
            let junk = c["pick"].as_u64().unwrap_or(0);
            let mode = c["mode"].as_u64().unwrap_or(0);
            let children: Vec<Vec<u64>> = inn.iter().enumerate().map(|(i, x)| inner_vec(x, n, &emb, junk + i as u64, mode)).collect();
            let addr = emb.dig[&c["addr"].as_u64().unwrap()];
            let inputs = w.inputs(&children, &[addr]);
            let honest = engine::run(&w.data, &inputs);
            let att: Vec<Value> = if c["attacks"].as_u64().unwrap_or(0) == 1 {
                attacks(w, &inputs, 10, junk).into_iter().map(|(l, v)| json!({"label": l, "v": vjson(&v)})).collect()
            } else {
                vec![]
            };
            json!({"built": 1, "honest": vjson(&honest), "attacks": att})
        })
        .collect();
    let mut fo = fs::File::create(outp)?;
    let digs: BTreeMap<String, Vec<u64>> = emb.dig.iter().map(|(k, v)| (k.to_string(), v.to_vec())).collect();
    let eqs: BTreeMap<String, Vec<u64>> = emb.eq.iter().map(|(k, v)| (k.to_string(), v.to_vec())).collect();
    writeln!(fo, "{}", json!({"emb": {"dig": digs, "eq": eqs, "amt_unit": AMT_UNIT, "scal": scal_table()}}))?;
    for r in rows {
        writeln!(fo, "{}", r)?;
    }
    Ok(())
}

// ---------------------------------------------------------------- recording real-domain runs

fn dl(d: &[u64]) -> Vec<u64> {
    d.iter().flat_map(|x| limbs16(*x)).collect()
}
fn amt(x: u64) -> Vec<u64> {
    vec![x >> 16, x & 0xffff]
}

/// a leaf public-input vector -> the trace spec's child record (limbs)
fn child_rec(v: &[u64]) -> Value {
    json!({"asset": limbs16(v[0]), "out1": amt(v[1]), "out2": amt(v[2]), "fee": limbs16(v[3]), "null": dl(&v[4..8]),
           "exit1": dl(&v[8..12]), "exit2": dl(&v[12..16]), "block": dl(&v[16..20]), "number": limbs16(v[20])})
}

/// private-batch public inputs -> structured output (limbs); pad_ok = padding all zero and length right
fn pb_out_rec(p: &[u64], n: usize) -> Value {
    if p.len() != LEAF_PI * n + 8 {
        return json!({"len_ok": false});
    }
    let mut slots = vec![];
    for k in 0..2 * n {
        let b = 8 + 5 * k;
        slots.push(json!([amt_wide(p[b]), dl(&p[b + 1..b + 5])]));
    }
    let ns = 8 + 10 * n;
    let nulls: Vec<Vec<u64>> = (0..n).map(|i| dl(&p[ns + 4 * i..ns + 4 * i + 4])).collect();
    let pad_ok = p[ns + 4 * n..].iter().all(|x| *x == 0);
    json!({"len_ok": true, "nslots": p[0].min(1 << 20), "asset": limbs16(p[1]), "fee": limbs16(p[2]), "block": dl(&p[3..7]), "number": limbs16(p[7]),
           "slots": slots, "nulls": nulls, "pad_ok": pad_ok})
}
/// amounts in outputs may in principle be any felt: keep the high part bounded for TLC (>= 2^47 saturates)
fn amt_wide(x: u64) -> Vec<u64> {
    vec![(x >> 16).min((1 << 30) - 1), x & 0xffff]
}

fn qb_out_rec(p: &[u64], m: usize, n: usize) -> Value {
    let want = 12 + 10 * n * m + 4 * n * m;
    if p.len() != want {
        return json!({"len_ok": false});
    }
    let mut slots = vec![];
    for k in 0..2 * n * m {
        let b = 12 + 5 * k;
        slots.push(json!([amt_wide(p[b]), dl(&p[b + 1..b + 5])]));
    }
    let ns = 12 + 10 * n * m;
    let nulls: Vec<Vec<u64>> = (0..n * m).map(|i| dl(&p[ns + 4 * i..ns + 4 * i + 4])).collect();
    json!({"len_ok": true, "addr": dl(&p[0..4]), "asset": limbs16(p[4]), "fee": limbs16(p[5]), "block": dl(&p[6..10]), "number": limbs16(p[10]),
           "total": p[11].min(1 << 20), "slots": slots, "nulls": nulls})
}

fn inner_rec(v: &[u64], n: usize) -> Value {
    let mut slots = vec![];
    for k in 0..2 * n {
        let b = 8 + 5 * k;
        slots.push(json!([amt_wide(v[b]), dl(&v[b + 1..b + 5])]));
    }
    let ns = 8 + 10 * n;
    let nulls: Vec<Vec<u64>> = (0..n).map(|i| dl(&v[ns + 4 * i..ns + 4 * i + 4])).collect();
    json!({"asset": limbs16(v[1]), "fee": limbs16(v[2]), "block": dl(&v[3..7]), "number": limbs16(v[7]), "slots": slots, "nulls": nulls})
}

fn rnd_digest(rng: &mut StdRng) -> [u64; 4] {
    core::array::from_fn(|_| match rng.gen_range(0..8) {
        0 => 0,
        1 => P - 1,
        2 => (1u64 << 32) - 1,
        3 => 1u64 << 32,
        _ => rng.gen::<u64>() % P,
    })
}

/// a random batch of n leaf statements in the domain leaf proofs can attest (scalars and amounts < 2^32)
fn rnd_leaves(rng: &mut StdRng, n: usize) -> Vec<Vec<u64>> {
    let nblocks = if rng.gen_bool(0.75) { 1 } else { 2 };
    let blocks: Vec<([u64; 4], u64)> = (0..nblocks).map(|_| (rnd_digest(rng), rng.gen::<u32>() as u64)).collect();
    let accounts: Vec<[u64; 4]> = (0..3).map(|i| if i == 0 && rng.gen_bool(0.5) { [0; 4] } else { rnd_digest(rng) }).collect();
    let nulls: Vec<[u64; 4]> = (0..n + 1).map(|_| rnd_digest(rng)).collect();
    let asset = if rng.gen_bool(0.5) { 0 } else { rng.gen::<u32>() as u64 };
    let fee = rng.gen_range(0..10001u64);
    let big = rng.gen_bool(0.3);
    let pdummy = [0.0, 0.3, 0.6][rng.gen_range(0..3)];
    (0..n)
        .map(|i| {
            let dummy = rng.gen_bool(pdummy);
            let (blk, num) = blocks[rng.gen_range(0..blocks.len())];
            let amount = |rng: &mut StdRng| -> u64 {
                match rng.gen_range(0..6) {
                    0 => 0,
                    1 if big => (1u64 << 31) + rng.gen_range(0..3),
                    2 if big => (1u64 << 32) - 1,
                    3 if big => 1u64 << 31,
                    _ => rng.gen_range(0..1u64 << 20),
                }
            };
            let mut v = vec![
                if rng.gen_bool(0.93) { asset } else { asset + 1 },
                amount(rng),
                amount(rng),
                if rng.gen_bool(0.9) { fee } else { (fee + 1) % 10001 },
            ];
            let nl = if rng.gen_bool(0.85) { nulls[i] } else { nulls[rng.gen_range(0..nulls.len())] };
            v.extend(nl);
            v.extend(accounts[rng.gen_range(0..accounts.len())]);
            v.extend(if rng.gen_bool(0.5) { accounts[rng.gen_range(0..accounts.len())] } else { [0; 4] });
            v.extend(if dummy { [0; 4] } else { blk });
            v.push(if dummy { rng.gen::<u32>() as u64 } else { num });
            v
        })
        .collect()
}

pub fn record(outp: &str, nplans: usize, kind: &str, seed: u64, big: bool) -> Result<()> {
    engine::silence_panics();
    let cache: Cache = Mutex::new(BTreeMap::new());
    let mut master = StdRng::seed_from_u64(seed ^ 0xabc1);
    let plans: Vec<(usize, u64)> = (0..nplans).map(|i| (i, master.gen::<u64>())).collect();
    let sizes: &[usize] = if big { &[1, 2, 3, 4, 6, 8, 16] } else { &[1, 2, 3, 4, 5] };
    let evs: Vec<Vec<Value>> = plans
        .par_iter()
        .map(|(i, s)| {
            let mut rng = StdRng::seed_from_u64(*s);
            let mut out = vec![];
            let n = sizes[rng.gen_range(0..sizes.len())];
            if kind == "pb" {
                let w = cached(&cache, 0, n);
                let Some(w) = w.as_ref() else { return out };
                let leaves = rnd_leaves(&mut rng, n);
                let pre: Vec<[u64; 4]> = (0..n).map(|_| core::array::from_fn(|_| rng.gen::<u64>() % P)).collect();
                let inputs = w.inputs(&leaves, &pre);
                let v = engine::run(&w.data, &inputs);
                let hhs: Vec<Vec<u64>> = pre.iter().map(|u| dl(&hh(*u))).collect();
                let o = v.pis().map(|p| pb_out_rec(p, n)).unwrap_or(json!({}));
                out.push(json!({"k": "pb", "honest": true, "label": "honest", "ch": leaves.iter().map(|l| child_rec(l)).collect::<Vec<_>>(), "hh": hhs, "acc": v.accepted(), "out": o}));
                if *i % 3 == 0 {
                    for (l, av) in attacks(w, &inputs, 6, rng.gen()) {
                        if av.accepted() {
                            let o = av.pis().map(|p| pb_out_rec(p, n)).unwrap_or(json!({}));
                            out.push(json!({"k": "pb", "honest": false, "label": l, "ch": leaves.iter().map(|l| child_rec(l)).collect::<Vec<_>>(), "hh": hhs, "acc": true, "out": o}));
                        }
                    }
                }
            } else {
                // public batch over m inner statements; inner statements are either outputs of real
                // private-batch wrapper runs ("two": the two layers chained) or random structures ("qb")
                let m = [1usize, 2, 3, 4][rng.gen_range(0..4)];
                let n = n.min(if big { 8 } else { 3 });
                let w = cached(&cache, m, n);
                let Some(w) = w.as_ref() else { return out };
                let mut inners: Vec<Vec<u64>> = vec![];
                let mut leafsets: Vec<Value> = vec![];
                if kind == "two" {
                    let pbw = cached(&cache, 0, n);
                    let Some(pbw) = pbw.as_ref() else { return out };
                    // one shared block / asset / fee so that the real inners are compatible most of the time
                    let base = rnd_leaves(&mut rng, n * m);
                    for j in 0..m {
                        let mut leaves: Vec<Vec<u64>> = base[j * n..(j + 1) * n].to_vec();
                        let all_dummy = rng.gen_bool(0.25);
                        for l in leaves.iter_mut() {
                            l[0] = base[0][0];
                            l[3] = base[0][3];
                            let is_dummy = l[16..20].iter().all(|x| *x == 0);
                            if all_dummy {
                                for x in 16..20 { l[x] = 0; }
                                l[1] = 0; l[2] = 0;
                            } else if !is_dummy {
                                for x in 16..21 { l[x] = base[0][x]; }
                                if base[0][16..20].iter().all(|x| *x == 0) { l[16] = 5; l[20] = 9; }
                            }
                        }
                        let pre: Vec<[u64; 4]> = (0..n).map(|_| core::array::from_fn(|_| rng.gen::<u64>() % P)).collect();
                        let v = engine::run(&pbw.data, &pbw.inputs(&leaves, &pre));
                        match v.pis() {
                            Some(p) => {
                                leafsets.push(json!({"ch": leaves.iter().map(|l| child_rec(l)).collect::<Vec<_>>(), "hh": pre.iter().map(|u| dl(&hh(*u))).collect::<Vec<_>>()}));
                                inners.push(p.clone());
                            }
                            None => return out, // incompatible leaf set: nothing to aggregate
                        }
                    }
                } else {
                    let blocks: Vec<[u64; 4]> = vec![rnd_digest(&mut rng), rnd_digest(&mut rng)];
                    let asset = rng.gen::<u32>() as u64;
                    let fee = rng.gen_range(0..10001u64);
                    for _ in 0..m {
                        let dummy = rng.gen_bool(0.3);
                        let mut v = vec![
                            if rng.gen_bool(0.8) { 2 * n as u64 } else { rng.gen::<u32>() as u64 },
                            { let both = rng.gen_bool(0.08); if both || rng.gen_bool(0.1) { asset.wrapping_add(1) } else { asset } },
                            { if rng.gen_bool(0.16) { if rng.gen_bool(0.5) { fee + 1 } else { fee.saturating_sub(1) } } else { fee } },
                        ];
                        v.extend(if dummy { [0u64; 4] } else if rng.gen_bool(0.85) { blocks[0] } else { blocks[1] });
                        v.push(rng.gen::<u32>() as u64);
                        for _ in 0..2 * n {
                            v.push(if rng.gen_bool(0.4) { 0 } else { rng.gen::<u32>() as u64 });
                            v.extend(if rng.gen_bool(0.3) { [0u64; 4] } else { rnd_digest(&mut rng) });
                        }
                        for _ in 0..n {
                            v.extend(rnd_digest(&mut rng));
                        }
                        while v.len() < LEAF_PI * n + 8 {
                            v.push(if rng.gen_bool(0.5) { 0 } else { rng.gen::<u64>() % P });
                        }
                        inners.push(v);
                    }
                }
                let addr = rnd_digest(&mut rng);
                let inputs = w.inputs(&inners, &[addr]);
                let v = engine::run(&w.data, &inputs);
                let o = v.pis().map(|p| qb_out_rec(p, m, n)).unwrap_or(json!({}));
                out.push(json!({"k": kind, "honest": true, "label": "honest", "inn": inners.iter().map(|x| inner_rec(x, n)).collect::<Vec<_>>(), "leafsets": leafsets, "addr": dl(&addr), "acc": v.accepted(), "out": o}));
                if *i % 3 == 0 {
                    for (l, av) in attacks(w, &inputs, 6, rng.gen()) {
                        if av.accepted() {
                            let o = av.pis().map(|p| qb_out_rec(p, m, n)).unwrap_or(json!({}));
                            out.push(json!({"k": kind, "honest": false, "label": l, "inn": inners.iter().map(|x| inner_rec(x, n)).collect::<Vec<_>>(), "leafsets": leafsets, "addr": dl(&addr), "acc": true, "out": o}));
                        }
                    }
                }
            }
            out
        })
        .collect();
    let mut fo = fs::File::create(outp)?;
    for e in evs.into_iter().flatten() {
        writeln!(fo, "{}", e)?;
    }
    Ok(())
}

pub fn selftest() -> Result<()> {
    engine::silence_panics();
    let t = std::time::Instant::now();
    let w = build_pb(2).ok_or_else(|| anyhow::anyhow!("build_pb failed"))?;
    eprintln!("pb(2) build {:?} degree {}", t.elapsed(), w.data.common.degree());
    let mut rng = StdRng::seed_from_u64(1);
    let leaves = rnd_leaves(&mut rng, 2);
    let pre = vec![[1u64, 2, 3, 4], [5, 6, 7, 8]];
    let inputs = w.inputs(&leaves, &pre);
    let t = std::time::Instant::now();
    let v = engine::cross_check(&w.data, &inputs).map_err(|e| anyhow::anyhow!(e))?;
    eprintln!("pb(2) run {:?} acc {}", t.elapsed(), v.accepted());
    let t = std::time::Instant::now();
    let q = build_qb(2, 2).ok_or_else(|| anyhow::anyhow!("build_qb failed"))?;
    eprintln!("qb(2,2) build {:?} degree {}", t.elapsed(), q.data.common.degree());
    println!("ok");
    Ok(())
}
