/-
  C34 audit: lists every declaration of the repository's Lean specification (all modules `WormholeSpec*`)
  with its kind and the axioms it depends on (`Lean.collectAxioms`, i.e. what `#print axioms` shows).
  One JSON object per line on stdout, a final {"done": n}.  Run from the scratch copy of `/repo/formal`
  after `lake build`:

      lake env lean /verif/lean/Audit.lean

  The check (vlib/props/leanbridge.py) fails if any declaration depends on `sorryAx`, or on an axiom outside the
  three logical ones and the two trusted-base axioms the package declares in `Trusted.lean`.
-/
import Lean
import WormholeSpec

open Lean

namespace C34

def kindOf : ConstantInfo → String
  | .thmInfo _ => "theorem"
  | .defnInfo _ => "def"
  | .axiomInfo _ => "axiom"
  | .opaqueInfo _ => "opaque"
  | .inductInfo _ => "inductive"
  | .ctorInfo _ => "ctor"
  | .recInfo _ => "rec"
  | .quotInfo _ => "quot"

def audit : CoreM Unit := do
  let env ← getEnv
  let mods := env.header.moduleNames
  let mut n := 0
  for (name, ci) in env.constants.map₁.toList do
    let some idx := env.getModuleIdxFor? name | continue
    let m := mods[idx.toNat]!
    if !(m.getRoot == `WormholeSpec) then continue
    let kind := kindOf ci
    if kind == "ctor" || kind == "rec" then continue
    if name.isInternalDetail && kind != "theorem" && kind != "axiom" then continue
    let axs ← collectAxioms name
    let j := Json.mkObj [("name", Json.str name.toString), ("module", Json.str m.toString), ("kind", Json.str kind),
                         ("axioms", Json.arr (axs.map (fun a => Json.str a.toString)))]
    IO.println j.compress
    n := n + 1
  IO.println (Json.mkObj [("done", Json.num (JsonNumber.fromNat n))]).compress

end C34

#eval C34.audit
