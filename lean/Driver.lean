/-
  C34 driver: evaluates the EXECUTABLE DEFINITIONS OF THE REPOSITORY'S LEAN SPECIFICATION
  (`/repo/formal`, package `WormholeSpec`) on private batches exported by TLC.

  Run from a scratch copy of `/repo/formal` after `lake build`:

      lake env lean --run /verif/lean/Driver.lean <cases.ndjson>  >  <results.ndjson>

  Nothing of the specification is re-implemented here.  The driver only
    * parses one JSON case per line into the spec's own types (`LeafPublic`, `Digest`, `PrivateBatchOutput`);
    * adds the `Decidable` instances the spec does not derive (they unfold the spec's `Prop`s, they do not restate them);
    * instantiates the abstract hash by the projection `H [a,b,c,d] = <a,b,c,d>`, so that for the witnessed
      preimage `u_i := (hh_i).toList` the spec's `ro.dummyNull u_i = H (H u_i).toList` evaluates to the
      replacement nullifier `hh_i` the case carries (the real Poseidon2 value in the real-value embedding;
      the hash itself is outside this property);
    * prints what the spec's definitions yield:
        slots   = groupExits (maskedChildPairs leaves)
        ref     = leaves.find? isRealB                      (the match scrutinee of `referenceFromFirstReal`)
        raw     = buildNullifiers ro leaves us             (per-slot selection, `AggregationBridge`)
        sorted  = `raw` arranged by the spec's `digestLt`; `sorted_ok` = nullifiersSorted sorted /\ sorted.Perm raw
      and, for every candidate output handed in (the TLA+ model's `out`, the real circuit's public inputs),
      the spec's clauses decided on it:
        exits   : cand.exitSlots = groupExits (maskedChildPairs leaves)
        ref     : referenceFromFirstReal leaves cand
        perm    : cand.nullifiers.Perm (buildNullifiers ro leaves us)
        sorted  : nullifiersSorted cand.nullifiers
        len     : cand.nullifiers.length = leaves.length
        meta    : metadataConsistent leaves cand            (reported, not judged: it also pins block NUMBERS
                                                             across real children, which the wrapper leaves to the leaf circuit)
-/
import WormholeSpec
import Lean.Data.Json

open Lean WormholeSpec

namespace C34

-- ---------------------------------------------------------------- instances the spec does not derive
deriving instance DecidableEq for ExitSlot

instance (a b : Digest) : Decidable (digestLt a b) := by
  unfold digestLt; exact inferInstance

instance (a b : Digest) : Decidable (digestLE a b) := by
  unfold digestLE; exact inferInstance

instance (ns : List Digest) : Decidable (nullifiersSorted ns) := by
  unfold nullifiersSorted; exact inferInstance

instance (leaves : List LeafPublic) (out : PrivateBatchOutput) : Decidable (metadataConsistent leaves out) := by
  unfold metadataConsistent; exact inferInstance

instance (leaves : List LeafPublic) (out : PrivateBatchOutput) :
    Decidable (referenceFromFirstReal leaves out) := by
  unfold referenceFromFirstReal
  split <;> exact inferInstance

-- ---------------------------------------------------------------- the hash stand-in
/-- `H [a,b,c,d] = <a,b,c,d>`: with `u := d.toList`, `ro.dummyNull u = H (H u).toList = d`. -/
def tableRO : RandomOracle :=
  { H := fun l => match l with
      | [a, b, c, d] => ⟨a, b, c, d⟩
      | _ => Digest.zero }

-- ---------------------------------------------------------------- arrangement by the spec's order
def insertAsc (x : Digest) : List Digest → List Digest
  | [] => [x]
  | y :: ys => if digestLt y x then y :: insertAsc x ys else x :: y :: ys

def sortAsc : List Digest → List Digest
  | [] => []
  | x :: xs => insertAsc x (sortAsc xs)

-- ---------------------------------------------------------------- JSON in
def nat (j : Json) (k : String) : Except String Nat := do
  (← j.getObjVal? k).getNat?

def digOf (j : Json) : Except String Digest := do
  let a ← j.getArr?
  if a.size != 4 then throw "digest: 4 limbs expected"
  return ⟨← a[0]!.getNat?, ← a[1]!.getNat?, ← a[2]!.getNat?, ← a[3]!.getNat?⟩

def dig (j : Json) (k : String) : Except String Digest := do
  digOf (← j.getObjVal? k)

def leafOf (j : Json) : Except String LeafPublic := do
  return { assetId := ← nat j "asset", outputAmount1 := ← nat j "out1", outputAmount2 := ← nat j "out2",
           volumeFeeBps := ← nat j "fee", nullifier := ← dig j "null", exitAccount1 := ← dig j "exit1",
           exitAccount2 := ← dig j "exit2", blockHash := ← dig j "block", blockNumber := ← nat j "number" }

def slotOf (j : Json) : Except String ExitSlot := do
  let a ← j.getArr?
  if a.size != 2 then throw "slot: [sum, account] expected"
  return ⟨← a[0]!.getNat?, ← digOf a[1]!⟩

def outOf (j : Json) : Except String PrivateBatchOutput := do
  let slots ← (← (← j.getObjVal? "slots").getArr?).toList.mapM slotOf
  let nulls ← (← (← j.getObjVal? "nulls").getArr?).toList.mapM digOf
  return { numExitSlots := ← nat j "nslots", assetId := ← nat j "asset", volumeFeeBps := ← nat j "fee",
           blockHash := ← dig j "block", blockNumber := ← nat j "number", exitSlots := slots, nullifiers := nulls }

-- ---------------------------------------------------------------- JSON out
def jn (n : Nat) : Json := Json.num (JsonNumber.fromNat n)
def jd (d : Digest) : Json := Json.arr #[jn d.x0, jn d.x1, jn d.x2, jn d.x3]
def jb (b : Bool) : Json := Json.bool b
def jl {α} (f : α → Json) (l : List α) : Json := Json.arr (l.map f).toArray

def evalCase (j : Json) : Except String Json := do
  let id ← nat j "id"
  let leaves ← (← (← j.getObjVal? "ch").getArr?).toList.mapM leafOf
  let hh ← (← (← j.getObjVal? "hh").getArr?).toList.mapM digOf
  let us : List (List Felt) := hh.map Digest.toList
  let ro := tableRO
  -- the spec's definitions
  let slots := groupExits (maskedChildPairs leaves)
  let first := leaves.find? isRealB
  let raw := buildNullifiers ro leaves us
  let sorted := sortAsc raw
  let sortedOk := decide (nullifiersSorted sorted) && decide (sorted.Perm raw)
  let refJ := match first with
    | some p => Json.mkObj [("fee", jn p.volumeFeeBps), ("block", jd p.blockHash), ("number", jn p.blockNumber),
                            ("asset", jn p.assetId)]
    | none => Json.null
  let cands := match j.getObjVal? "cands" with
    | .ok (Json.arr a) => a.toList
    | _ => []
  let verdicts ← cands.mapM fun c => do
    let name ← (← c.getObjVal? "name").getStr?
    let out ← outOf c
    return Json.mkObj [
      ("name", Json.str name),
      ("exits", jb (decide (out.exitSlots = groupExits (maskedChildPairs leaves)))),
      ("ref", jb (decide (referenceFromFirstReal leaves out))),
      ("perm", jb (decide (out.nullifiers.Perm (buildNullifiers ro leaves us)))),
      ("sorted", jb (decide (nullifiersSorted out.nullifiers))),
      ("len", jb (decide (out.nullifiers.length = leaves.length))),
      ("meta", jb (decide (metadataConsistent leaves out)))]
  return Json.mkObj [
    ("id", jn id),
    ("slots", jl (fun (s : ExitSlot) => Json.arr #[jn s.sum, jd s.account]) slots),
    ("total", jn (slotsTotal slots)),
    ("input_total", jn (inputExitTotal leaves)),
    ("ref", refJ),
    ("raw", jl jd raw),
    ("sorted", jl jd sorted),
    ("sorted_ok", jb sortedOk),
    ("cands", Json.arr verdicts.toArray)]

end C34

def main (args : List String) : IO UInt32 := do
  let path ← match args with
    | [p] => pure p
    | _ => do IO.eprintln "usage: Driver.lean <cases.ndjson>"; return 2
  let text ← IO.FS.readFile path
  let out ← IO.getStdout
  let mut n := 0
  for line in text.splitOn "\n" do
    if line.isEmpty then continue
    match Json.parse line >>= C34.evalCase with
    | .ok r => out.putStrLn r.compress; n := n + 1
    | .error e => IO.eprintln s!"case {n}: {e}"; return 2
  out.putStrLn (Json.mkObj [("done", C34.jn n)]).compress
  return 0
