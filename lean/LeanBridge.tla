----------------------------- MODULE LeanBridge -----------------------------
(* C34, the TLA+ = Lean leg of the three-way agreement, decided by TLC.

   Each record of the file IOEnv.TRACE (ndjson) is one private batch drawn by TLC from PrivateBatch.tla
   (child statements ch, replacement nullifiers hh, in MODEL values: digests 0,1,2,3,9, amounts in units)
   together with what the repository's Lean definitions returned for it (evaluated by /verif/lean/Driver.lean
   on an equality- and order-preserving embedding of the model values into the spec's 4-limb digests, decoded
   back to model values by the check):

      lean.slots   groupExits (maskedChildPairs leaves)          as <<sum, account>> pairs
      lean.ref     leaves.find? isRealB                          [some, fee, block, number]
      lean.nulls   buildNullifiers arranged by the spec's digestLt (certified in Lean by nullifiersSorted /\ Perm)

   The reference is BatchDecl - the declarative module written from the property texts that TLC proves equal
   to the constraint program PrivateBatch.tla and that WrapperTrace instantiates for recorded real runs -
   instantiated exactly as MC_PrivateBatch does (naturals).  Records cover batches the wrapper rejects too:
   the three definitions are total.  Acceptance: POSTCONDITION (all records matched). *)
EXTENDS Naturals, Sequences, FiniteSets, TLC, Json, IOUtils

Rec == ndJsonDeserialize(IOEnv.TRACE)
VARIABLE l

BAmtAdd(a, b) == a + b
BAmtOk(a) == a < 4
BDLt(a, b) == a < b
D == INSTANCE BatchDecl WITH ZeroD <- 0, ZeroF <- 0, AmtZero <- 0, AmtAdd <- BAmtAdd, AmtOk <- BAmtOk, DLt <- BDLt

SlotsAgree(e) ==
  LET s == D!ExitSlots(e.ch) IN
    /\ Len(e.lean.slots) = Len(s)
    /\ \A k \in 1 .. Len(s) : e.lean.slots[k][1] = s[k][1] /\ e.lean.slots[k][2] = s[k][2]
RefAgrees(e) ==
  IF D!RealIdx(e.ch) = {} THEN e.lean.ref.some = 0
  ELSE LET r == D!FirstReal(e.ch) IN
         /\ e.lean.ref.some = 1
         /\ e.lean.ref.fee = r.fee /\ e.lean.ref.block = r.block /\ e.lean.ref.number = r.number
NullsAgree(e) ==
  LET s == D!SortAsc(D!Selected(e.ch, e.hh)) IN
    /\ Len(e.lean.nulls) = Len(s)
    /\ \A k \in 1 .. Len(s) : e.lean.nulls[k] = s[k]
\* conservation, as the Lean theorem states it, on the values Lean computed
Conserves(e) == D!SumSeq([k \in 1 .. Len(e.lean.slots) |-> e.lean.slots[k][1]]) = D!TotalRealPaid(e.ch)

EventOk(e) == SlotsAgree(e) /\ RefAgrees(e) /\ NullsAgree(e) /\ Conserves(e)

Which(e) == [slots |-> SlotsAgree(e), ref |-> RefAgrees(e), nulls |-> NullsAgree(e), conserves |-> Conserves(e)]
Expected(e) == [slots |-> D!ExitSlots(e.ch),
                ref |-> IF D!RealIdx(e.ch) = {} THEN [some |-> 0] ELSE [some |-> 1] @@ D!FirstReal(e.ch),
                nulls |-> D!SortAsc(D!Selected(e.ch, e.hh))]

TraceInit == l = 1
TraceNext == l <= Len(Rec) /\ EventOk(Rec[l]) /\ l' = l + 1
TraceSpec == TraceInit /\ [][TraceNext]_l
TraceAccepted ==
    LET d == TLCGet("stats").diameter IN
    IF d = Len(Rec) + 1 THEN PrintT(<<"TRACEOK", ToJson([events |-> Len(Rec)])>>)
    ELSE /\ PrintT(<<"TRACEFAIL", ToJson([matched |-> d - 1, first_unmatched |-> Rec[d], agree |-> Which(Rec[d]),
                                         tla |-> Expected(Rec[d])])>>)
         /\ FALSE
=============================================================================
