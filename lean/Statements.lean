/-
  C34: the theorems the property names - conservation, encoding, security reduction, and the bridge from the
  wrapper constraints to the relation - restated here FROM THE PROPERTY TEXT and closed by the repository's
  own theorems.  If a theorem of the spec is weakened, renamed away or no longer proves the statement, this
  file stops type-checking and the check fails ("the Lean specification does not check").
  Each restatement is a `theorem` so that Audit-style axiom collection applies to it too (`#print axioms` below).

      lake env lean /verif/lean/Statements.lean        (from the scratch copy of /repo/formal, after `lake build`)
-/
import WormholeSpec

open WormholeSpec

namespace C34

/-- conservation: a private batch settles exactly what its non-dummy children pay -/
theorem conservation (ro : RandomOracle) (leaves : List LeafPublic) (us : List (List Felt))
    (out : PrivateBatchOutput) (h : RPrivateBatch ro leaves us out) :
    slotsTotal out.exitSlots = inputExitTotal leaves :=
  RPrivateBatch_value_conservation h

/-- conservation of the executable grouping itself -/
theorem grouping_conserves (leaves : List LeafPublic) :
    slotsTotal (groupExits (maskedChildPairs leaves)) = inputExitTotal leaves :=
  groupExits_maskedChildPairs leaves

/-- the relation pins the three things the conformance part compares -/
theorem relation_pins (ro : RandomOracle) (leaves : List LeafPublic) (us : List (List Felt))
    (out : PrivateBatchOutput) (h : RPrivateBatch ro leaves us out) :
    out.exitSlots = groupExits (maskedChildPairs leaves) ∧ referenceFromFirstReal leaves out ∧
      nullifiersSorted out.nullifiers :=
  ⟨h.2.2.2.2.2, h.2.1, h.2.2.2.1⟩

/-- the wrapper constraints imply the relation -/
theorem bridge (ro : RandomOracle) (leaves : List LeafPublic) (us : List (List Felt))
    (out : PrivateBatchOutput) (h : PrivateBatchCircuit ro leaves us out) : RPrivateBatch ro leaves us out :=
  private_batch_bridge h

/-- encoding: the 4-byte edge encoding is lossless, the 8-byte decode is injective on canonical limbs -/
theorem encoding32 (v : Nat) (h : v < 2 ^ 32) : v % goldilocks = v :=
  feltOf_id_of_lt_2pow32 h

theorem encoding64 (a b : Nat) (ha : a < goldilocks) (hb : b < goldilocks)
    (h : a % goldilocks = b % goldilocks) : a = b :=
  feltOf_inj_canonical ha hb h

theorem encodingDigest (l₁ l₂ : List Nat) (h₁ : ∀ v ∈ l₁, v < goldilocks) (h₂ : ∀ v ∈ l₂, v < goldilocks)
    (h : l₁.map (· % goldilocks) = l₂.map (· % goldilocks)) : l₁ = l₂ :=
  bytesToDigest_inj_canonical h₁ h₂ h

/-- security reductions: one-time withdrawal and spend-path exclusivity, as reductions to a collision -/
theorem oneTimeWithdrawal (ro : RandomOracle) (s₁ s₂ : Digest) (c : List Felt)
    (haddr : ro.WA s₁ = ro.WA s₂) : ro.Null s₁ c = ro.Null s₂ c ∨ HasCollision ro.H :=
  ro.same_deposit_same_nullifier_or_collision haddr rfl

theorem noDoubleSpend (ro : RandomOracle) (cr : ro.CollisionResistant) (s₁ s₂ : Digest) (c : List Felt)
    (haddr : ro.WA s₁ = ro.WA s₂) (hn : ro.Null s₁ c ≠ ro.Null s₂ c) : False :=
  ro.no_double_spend cr haddr rfl hn

theorem spendPath (ro : RandomOracle) (pk : List Felt) (s : Digest) (h : ro.H pk = ro.WA s) :
    pk = (ro.H (wormholeSalt ++ s.toList)).toList ∨ HasCollision ro.H :=
  ro.spend_path_unique_or_collision h

end C34

#print axioms C34.conservation
#print axioms C34.grouping_conserves
#print axioms C34.relation_pins
#print axioms C34.bridge
#print axioms C34.encoding32
#print axioms C34.encoding64
#print axioms C34.encodingDigest
#print axioms C34.oneTimeWithdrawal
#print axioms C34.noDoubleSpend
#print axioms C34.spendPath
