------------------------------ MODULE AggSystem ------------------------------
(* Beyond the listed properties: the miner-side aggregation LOOP around the pool
   (wormhole/aggregator/src/aggregator.rs: push_proof / snapshot_batch -> ProvingContext::prove_batch off the
   pool lock -> on-chain settlement -> evict_settled / evict_older_than), composed from Pool.tla.

   New state: `inflight` - snapshots handed to proving workers (a worker holds CLONES; the pool keeps custody),
              `chain`    - nullifiers settled on chain (each at most once: the chain rejects a batch that
                           contains an already settled nullifier),
              `landed`   - batches that settled.
   Workers may crash at any time.  The pool learns about settlement only through SyncSettled.

   Safety:   a crash or a finished proof never changes the pool (custody);
             every proved batch was a snapshot (ids in admission order, <= Batch, one bucket, all valid);
             the chain never settles a nullifier twice; after a sync no pooled proof carries a settled nullifier;
             all of Pool's invariants still hold in the composed system.
   Liveness (no-clock configuration, strong fairness on proving and syncing): a pooled valid proof is eventually
             settled or leaves the pool.                                                                   *)
EXTENDS MC_Pool

CONSTANT Logging      \* TRUE: keep the call history for replay; FALSE for liveness checking (finite state space)
VARIABLES inflight, chain, landed, hist
svars == <<vars, inflight, chain, landed, hist>>

Proj ==
    [bk   |-> SetToSeq({[key |-> k, entries |-> [i \in DOMAIN buckets[k] |->
                            [id |-> buckets[k][i].id, nulls |-> SetToSeq(buckets[k][i].nulls),
                             vol |-> buckets[k][i].vol, at |-> buckets[k][i].at]],
                         snap |-> IF k \in DOMAIN lastSnap THEN lastSnap[k] ELSE -1,
                         stats |-> Stats[k]] : k \in DOMAIN buckets}),
     idx  |-> SetToSeq({[n |-> n, key |-> index[n]] : n \in DOMAIN index}),
     win  |-> winStart, ver |-> verifies, now |-> now, size |-> Size]
\* pool calls are logged (the replay harness executes exactly these on the real ProofPool); worker / chain steps are silent
Log(call) == IF Logging THEN hist' = Append(hist, [call |-> call, res |-> res', st |-> Proj']) ELSE UNCHANGED hist
Silent == UNCHANGED hist

NullsOf(ids) == UNION {(CHOOSE p \in MCPalette : p.id = ids[i]).nulls : i \in DOMAIN ids}

SInit == Init /\ inflight = {} /\ chain = {} /\ landed = {} /\ hist = <<>>

SPush(p) == Push(p) /\ Log([op |-> "push", id |-> p.id]) /\ UNCHANGED <<inflight, chain, landed>>
\* snapshot_batch + hand the clones to a worker
StartProve(k) == /\ k \in DOMAIN buckets /\ Cardinality(inflight) < 2
                 /\ Snapshot(k) /\ Log([op |-> "snapshot", key |-> k])
                 /\ inflight' = inflight \cup {[key |-> k, ids |-> res'.ids]}
                 /\ UNCHANGED <<chain, landed>>
\* the worker finishes; the chain takes the batch iff none of its nullifiers is settled yet
FinishCore(j) == /\ j \in inflight /\ inflight' = inflight \ {j}
                 /\ IF NullsOf(j.ids) \cap chain = {}
                      THEN chain' = chain \cup NullsOf(j.ids) /\ landed' = landed \cup {j}
                      ELSE UNCHANGED <<chain, landed>>
                 /\ UNCHANGED vars
FinishProve(j) == FinishCore(j) /\ Silent
WorkerCrash(j) == j \in inflight /\ inflight' = inflight \ {j} /\ UNCHANGED <<vars, chain, landed>> /\ Silent
\* the miner learns the settled set
SyncSettled == /\ chain # {} /\ EvictSettled(chain) /\ Log([op |-> "evict_settled", set |-> SetToSeq(chain)])
               /\ UNCHANGED <<inflight, chain, landed>>
SExpire(a) == EvictOlderThan(a) /\ Log([op |-> "evict_older", age |-> a]) /\ UNCHANGED <<inflight, chain, landed>>
STick(d) == now + d <= MaxNow /\ Tick(d) /\ Log([op |-> "tick", d |-> d]) /\ UNCHANGED <<inflight, chain, landed>>

SNext == \/ \E p \in MCPalette : SPush(p)
         \/ \E k \in AllKeys : StartProve(k)
         \/ \E j \in inflight : FinishProve(j) \/ WorkerCrash(j)
         \/ SyncSettled
         \/ \E a \in 0 .. MaxAge : SExpire(a)
         \/ \E d \in 1 .. 2 : STick(d)
SSpec == SInit /\ [][SNext]_svars
\* -simulate picks uniformly among successors; the \E w multiplicities balance the mix
SimNext == \/ \E p \in MCPalette, w \in 1 .. 2 : SPush(p)
           \/ \E k \in AllKeys, w \in 1 .. 2 : StartProve(k)
           \/ \E j \in inflight, w \in 1 .. 3 : FinishProve(j)
           \/ \E j \in inflight : WorkerCrash(j)
           \/ \E w \in 1 .. 4 : SyncSettled
           \/ \E a \in 0 .. MaxAge : SExpire(a)
           \/ \E d \in 1 .. 2, w \in 1 .. 2 : Tick(d) /\ Log([op |-> "tick", d |-> d]) /\ UNCHANGED <<inflight, chain, landed>>
SimSpec == SInit /\ [][SimNext]_svars
\* for liveness: no clock, proving and syncing are strongly fair, crashes cannot go on forever
LNext == \/ \E p \in MCPalette : SPush(p)
         \/ \E k \in AllKeys : StartProve(k)
         \/ \E j \in inflight : FinishProve(j) \/ WorkerCrash(j)
         \/ SyncSettled
LSpec == SInit /\ [][LNext]_svars
         /\ \A k \in AllKeys : SF_svars(StartProve(k))
         /\ SF_svars(\E j \in inflight : FinishProve(j))
         /\ SF_svars(SyncSettled)

\* liveness spec mutant (vacuity control): the miner never has to sync
LSpecNoSync == SInit /\ [][LNext]_svars
               /\ \A k \in AllKeys : SF_svars(StartProve(k))
               /\ SF_svars(\E j \in inflight : FinishProve(j))
\* ------------------------------------------------------------------ properties
Custody == [][(\E j \in inflight : inflight' = inflight \ {j}) => UNCHANGED poolVars]_svars
InflightWereSnapshots ==
    \A j \in inflight \cup landed :
        /\ Len(j.ids) \in 1 .. Batch
        /\ \A i \in DOMAIN j.ids : \E p \in MCPalette : p.id = j.ids[i] /\ p.valid /\ p.lenOk /\ p.key = j.key /\ ~IsDummyKey(p.key)
ChainSettlesOnce ==
    \A a, b \in landed : a # b => NullsOf(a.ids) \cap NullsOf(b.ids) = {}
ChainIsLanded == chain = UNION {NullsOf(j.ids) : j \in landed}
\* right after a sync no pooled proof carries a settled nullifier (the chain may settle more later)
SyncedPoolIsClean == [][(res'.op = "evict_settled" /\ chain' = chain /\ inflight' = inflight /\ poolVars' # poolVars) => \A e \in Entries(buckets') : e.nulls \cap chain' = {}]_svars
SysInv == C20Inv /\ C22Inv /\ C19Inv /\ InflightWereSnapshots /\ ChainSettlesOnce /\ ChainIsLanded
\* every pooled proof is eventually settled (its nullifiers on chain) or out of the pool
EventuallyResolved == \A p \in MCPalette : (p.id \in PooledIds(buckets)) ~> (p.id \notin PooledIds(buckets))

Limits == [max_proofs |-> MaxProofs, max_buckets |-> MaxBuckets, max_verifies |-> MaxVerifies,
           window |-> Window, batch |-> Batch, vol_cap |-> VolCap]
PaletteJson == SetToSeq({[id |-> p.id, key |-> p.key, nulls |-> SetToSeq(p.nulls), valid |-> p.valid,
                          lenOk |-> p.lenOk, slots |-> p.slots] : p \in MCPalette})
EmitAtDepth == Len(hist) < Depth
               \/ PrintT(<<"REPLAY", ToJson([limits |-> Limits, palette |-> PaletteJson, steps |-> hist])>>)
sview == <<view, inflight, chain, landed>>
=============================================================================
