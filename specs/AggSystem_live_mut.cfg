SPECIFICATION LSpecNoSync
CONSTANTS
  MaxProofs = 2
  MaxBuckets = 2
  MaxVerifies = 3
  Window = 1
  Batch = 2
  VolCap = 4
  MaxNow = 0
  MaxAge = 0
  Depth = 0
  Logging = FALSE
  PaletteSel = {1, 2, 4}
  Palette <- MCPalette
INVARIANTS SysInv
PROPERTIES EventuallyResolved
VIEW sview
CHECK_DEADLOCK FALSE
