SPECIFICATION SSpec
CONSTANTS
  MaxProofs = 3
  MaxBuckets = 2
  MaxVerifies = 3
  Window = 2
  Batch = 2
  VolCap = 4
  MaxNow = 1
  MaxAge = 1
  Depth = 0
  Logging = TRUE
  PaletteSel = {1, 2, 5, 6}
  Palette <- MCPalette
INVARIANTS SysInv
PROPERTIES Custody SyncedPoolIsClean
VIEW sview
CHECK_DEADLOCK FALSE
