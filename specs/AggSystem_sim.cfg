SPECIFICATION SimSpec
CONSTANTS
  MaxProofs = 4
  MaxBuckets = 3
  MaxVerifies = 3
  Window = 3
  Batch = 2
  VolCap = 4
  MaxNow = 1000
  MaxAge = 2
  Depth = 36
  Logging = TRUE
  PaletteSel = {1, 2, 3, 4, 5, 6, 7, 8, 9, 10, 11, 12}
  Palette <- MCPalette
INVARIANTS EmitAtDepth SysInv
CHECK_DEADLOCK FALSE
