------------------------------ MODULE Aggregator ------------------------------
(* C18: public-batch proofs are bound to the configured aggregator address
   (wormhole/aggregator/src/aggregator.rs: ProvingContext::verify / prove_batch).
   A public-batch proof is abstracted to what verify reads: its public-input length class, the address it
   exposes, the address it was PROVED under (the address is a circuit input exposed as public inputs 0..3,
   so a proof stays cryptographically valid only while the exposed address is the proved one) and whether
   any other public input was tampered with.                                                              *)
EXTENDS Naturals, TLC
CONSTANTS Addrs
VARIABLES cfg, p, stage, verdict
vars == <<cfg, p, stage, verdict>>
Proofs == [len : {"ok", "short", "long"}, provedUnder : Addrs, exposes : Addrs, tampered : BOOLEAN]
Init == cfg \in Addrs /\ p \in Proofs /\ stage = "len" /\ verdict = "none"
Rej == stage' = "end" /\ verdict' = "rejected" /\ UNCHANGED <<cfg, p>>
GLen == stage = "len" /\ IF p.len # "ok" THEN Rej ELSE stage' = "addr" /\ UNCHANGED <<cfg, p, verdict>>
GAddr == stage = "addr" /\ IF p.exposes # cfg THEN Rej ELSE stage' = "crypto" /\ UNCHANGED <<cfg, p, verdict>>
CryptoValid == p.exposes = p.provedUnder /\ ~p.tampered
GCrypto == stage = "crypto" /\ IF ~CryptoValid THEN Rej ELSE stage' = "end" /\ verdict' = "accepted" /\ UNCHANGED <<cfg, p>>
Done == stage = "end" /\ UNCHANGED vars
Next == GLen \/ GAddr \/ GCrypto \/ Done
Spec == Init /\ [][Next]_vars
(* C18 *) AddressBound == (stage = "end" /\ verdict = "accepted") => (p.exposes = cfg /\ p.provedUnder = cfg /\ p.len = "ok" /\ ~p.tampered)
(* C18 *) OtherAddressRejectedEvenIfValid == (stage = "end" /\ p.exposes # cfg) => verdict = "rejected"
(* C18 *) OwnProofsAccepted == (stage = "end" /\ p = [len |-> "ok", provedUnder |-> cfg, exposes |-> cfg, tampered |-> FALSE]) => verdict = "accepted"
AggInv == AddressBound /\ OtherAddressRejectedEvenIfValid /\ OwnProofsAccepted
=============================================================================
