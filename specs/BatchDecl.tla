------------------------------ MODULE BatchDecl ------------------------------
(* Declarative semantics of the two aggregation wrappers, written from the property texts
   (C06-C09, C12, C13, C36) - NOT from the code.  Value-representation independent: digests,
   field scalars and amounts are opaque; the instantiating module supplies

      ZeroD            the all-zero digest          ZeroF     the zero field scalar
      AmtZero, AmtAdd  amounts with exact (non-wrapping) addition
      AmtOk(a)         a < 2^32                      DLt(a,b)  strict canonical order on digests

   MC modules instantiate with small naturals, trace modules with 16-bit-limb tuples, so the same
   definitions judge TLC's exhaustive models and recorded runs of the real circuits.

   A leaf statement  (child) is a record
      [asset, out1, out2, fee, null, exit1, exit2, block, number]
   A private-batch statement (inner of the public batch) is a record
      [asset, fee, block, number, slots (sequence of 2N <<sum, account>>), nulls (sequence of N)] *)
EXTENDS Naturals, Sequences, FiniteSets

CONSTANTS ZeroD, ZeroF, AmtZero, AmtAdd(_, _), AmtOk(_), DLt(_, _)

\* ------------------------------------------------------------------ helpers
RECURSIVE SumSeq(_)
SumSeq(s) == IF s = <<>> THEN AmtZero ELSE AmtAdd(s[1], SumSeq(Tail(s)))
RECURSIVE FlattenSeq(_)
FlattenSeq(s) == IF s = <<>> THEN <<>> ELSE s[1] \o FlattenSeq(Tail(s))
\* insertion sort by DLt: THE ascending arrangement (unique as a sequence, also with duplicates)
RECURSIVE InsertAsc(_, _)
InsertAsc(x, s) == IF s = <<>> THEN <<x>>
                   ELSE IF DLt(s[1], x) THEN <<s[1]>> \o InsertAsc(x, Tail(s))
                   ELSE <<x>> \o s
RECURSIVE SortAsc(_)
SortAsc(s) == IF s = <<>> THEN <<>> ELSE InsertAsc(s[1], SortAsc(Tail(s)))
Zeros(n, z) == [i \in 1 .. n |-> z]

\* ------------------------------------------------------------------ private batch (C06-C09)
IsDummy(c) == c.block = ZeroD
RealIdx(ch) == {i \in 1 .. Len(ch) : ~IsDummy(ch[i])}
ZeroChildHdr == [fee |-> ZeroF, block |-> ZeroD, number |-> ZeroF]
FirstReal(ch) ==
  IF RealIdx(ch) = {} THEN ZeroChildHdr
  ELSE LET i == CHOOSE i \in RealIdx(ch) : \A j \in RealIdx(ch) : i <= j
       IN [fee |-> ch[i].fee, block |-> ch[i].block, number |-> ch[i].number]

\* the dummy-masked (account, amount) pairs in slot order: slot 2i-1 = first output of leaf i
Masked(ch) ==
  [k \in 1 .. 2 * Len(ch) |->
     LET c == ch[(k + 1) \div 2] IN
       IF IsDummy(c) THEN <<ZeroD, AmtZero>>
       ELSE IF k % 2 = 1 THEN <<c.exit1, c.out1>> ELSE <<c.exit2, c.out2>>]
GroupSum(m, k) == SumSeq([j \in 1 .. Len(m) |-> IF m[j][1] = m[k][1] THEN m[j][2] ELSE AmtZero])
FirstOcc(m, k) == \A j \in 1 .. k - 1 : m[j][1] # m[k][1]
\* exit slot k of the output: <<sum, account>>
ExitSlot(m, k) == IF FirstOcc(m, k) THEN <<GroupSum(m, k), m[k][1]>> ELSE <<AmtZero, ZeroD>>
ExitSlots(ch) == LET m == Masked(ch) IN [k \in 1 .. Len(m) |-> ExitSlot(m, k)]

\* per-slot nullifiers: real ones forwarded, dummy ones replaced by hh[i] = H(H(u_i))
Selected(ch, hh) == [i \in 1 .. Len(ch) |-> IF IsDummy(ch[i]) THEN hh[i] ELSE ch[i].null]

PBAccepts(ch) ==
  /\ \A i \in 1 .. Len(ch) : ch[i].asset = ch[1].asset
  /\ \A i, j \in RealIdx(ch) : /\ ch[i].block = ch[j].block
                               /\ ch[i].fee = ch[j].fee
                               /\ (i # j => ch[i].null # ch[j].null)
  /\ \A k \in 1 .. 2 * Len(ch) : AmtOk(ExitSlot(Masked(ch), k)[1])

\* the structured output; PBFlat is the 21N+8 vector (scalars as themselves, digests as 1 item)
PBOutput(ch, hh) ==
  [nslots |-> 2 * Len(ch), asset |-> ch[1].asset, fee |-> FirstReal(ch).fee,
   block |-> FirstReal(ch).block, number |-> FirstReal(ch).number,
   slots |-> ExitSlots(ch), nulls |-> SortAsc(Selected(ch, hh))]

\* C08
TotalOut(o) == SumSeq([k \in 1 .. Len(o.slots) |-> o.slots[k][1]])
TotalRealPaid(ch) == SumSeq([i \in 1 .. Len(ch) |-> IF IsDummy(ch[i]) THEN AmtZero ELSE AmtAdd(ch[i].out1, ch[i].out2)])
PaidTo(ch, a) == SumSeq([k \in 1 .. 2 * Len(ch) |->
                    LET c == ch[(k + 1) \div 2] IN
                      IF IsDummy(c) THEN AmtZero
                      ELSE IF k % 2 = 1 THEN (IF c.exit1 = a THEN c.out1 ELSE AmtZero)
                      ELSE (IF c.exit2 = a THEN c.out2 ELSE AmtZero)])
PBConserves(ch, o) ==
  /\ TotalOut(o) = TotalRealPaid(ch)
  /\ \A k \in 1 .. Len(o.slots) : o.slots[k][1] # AmtZero => o.slots[k][1] = PaidTo(ch, o.slots[k][2])

\* C09, literal clause: every dummy, duplicate or unused output slot is the all-zero slot
ZeroSlot == <<AmtZero, ZeroD>>
DummySlotsZero(ch, o) == \A i \in 1 .. Len(ch) : IsDummy(ch[i]) => (o.slots[2 * i - 1] = ZeroSlot /\ o.slots[2 * i] = ZeroSlot)
DuplicateSlotsZero(ch, o) == LET m == Masked(ch) IN \A k \in 1 .. Len(m) : ~FirstOcc(m, k) => o.slots[k] = ZeroSlot
\* "unused": a real leaf's output paying amount zero to the zero account
UnusedSlotsZero(ch, o) == LET m == Masked(ch) IN
   \A k \in 1 .. Len(m) : (~IsDummy(ch[(k + 1) \div 2]) /\ m[k] = <<ZeroD, AmtZero>>) => o.slots[k] = ZeroSlot
\* the one known exception class (finding F2): a REAL leaf pays a non-zero amount to the zero account;
\* the first zero-account slot (possibly a dummy's or an unused one) then carries that group's sum
RealPaysZeroAccount(ch) == PaidTo(ch, ZeroD) # AmtZero

\* ------------------------------------------------------------------ public batch (C12, C13)
InnerDummy(b) == b.block = ZeroD
RealInners(inn) == {i \in 1 .. Len(inn) : ~InnerDummy(inn[i])}
ZeroInnerHdr == [asset |-> ZeroF, fee |-> ZeroF, block |-> ZeroD, number |-> ZeroF]
FirstRealInner(inn) ==
  IF RealInners(inn) = {} THEN ZeroInnerHdr
  ELSE LET i == CHOOSE i \in RealInners(inn) : \A j \in RealInners(inn) : i <= j
       IN [asset |-> inn[i].asset, fee |-> inn[i].fee, block |-> inn[i].block, number |-> inn[i].number]
QBAccepts(inn) == \A i, j \in RealInners(inn) :
                     inn[i].block = inn[j].block /\ inn[i].asset = inn[j].asset /\ inn[i].fee = inn[j].fee
QBOutput(inn, addr) ==
  LET h == FirstRealInner(inn)
      nsl == Len(inn[1].slots)
      nnl == Len(inn[1].nulls)
  IN [addr |-> addr, asset |-> h.asset, fee |-> h.fee, block |-> h.block, number |-> h.number,
      total |-> Len(inn) * nsl,
      slots |-> FlattenSeq([i \in 1 .. Len(inn) |-> IF InnerDummy(inn[i]) THEN Zeros(nsl, ZeroSlot) ELSE inn[i].slots]),
      nulls |-> FlattenSeq([i \in 1 .. Len(inn) |-> IF InnerDummy(inn[i]) THEN Zeros(nnl, ZeroD) ELSE inn[i].nulls])]

\* a private-batch output read as an inner statement of the public batch
AsInner(o) == [asset |-> o.asset, fee |-> o.fee, block |-> o.block, number |-> o.number, slots |-> o.slots, nulls |-> o.nulls]
=============================================================================
