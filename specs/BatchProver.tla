----------------------------- MODULE BatchProver -----------------------------
(* C14 / C15: the commit step of the two batch provers
     wormhole/aggregator/src/private_batch/prover/lib.rs  PrivateBatchProver::commit + ensure_leaf_batch_compatible
     wormhole/aggregator/src/public_batch/prover/lib.rs   PublicBatchProver::commit + preflight_private_batch_proofs
   as the ordered guard sequence the code runs, followed by Pad, Shuffle (private batch only) and Fill.
   The circuit predicates come from BatchDecl (PBAccepts / QBAccepts: shown equal to the circuits by
   PrivateBatch.tla / PublicBatch.tla), so the invariants relate the native preflight to the circuit:
      commit Ok                      => the committed slots satisfy the circuit, whatever the shuffle   (C14)
      commit Err, reason not policy  => the padded batch is unprovable                                  (C14)
      commit Ok                      => slots = a permutation of supplied ++ (N-k) templates (private),
                                        supplied ++ templates in the given order (public)               (C15)
   SumGuard = FALSE is the code BEFORE the repair of finding F1 (the grouped-sum bound was not mirrored). *)
EXTENDS BatchDecl, TLC

CONSTANTS N,              \* batch size of the layer under study
          Layer,          \* "private" | "public"
          StmtDom,        \* statements supplied proofs may carry (leaf statements / inner statements)
          Template,       \* the validated padding template's statement
          SumGuard

VARIABLES sup, stage, idx, verdict, slots
vars == <<sup, stage, idx, verdict, slots>>

\* a supplied proof: its statement, whether it verifies under the pinned child verifier, whether its
\* public-input vector has the right length.  At most one proof of a vector is defective.
Proofs == [st : StmtDom, valid : BOOLEAN, lenok : BOOLEAN]
Defective(p) == ~p.valid \/ ~p.lenok
\* the supplied vector is built one proof per step (TLC's workers share the enumeration), then frozen
Init == sup = <<>> /\ stage = "build" /\ idx = 1 /\ verdict = <<"none">> /\ slots = <<>>
AddProof == /\ stage = "build" /\ Len(sup) <= N
            /\ \E p \in Proofs : (Defective(p) => \A i \in DOMAIN sup : ~Defective(sup[i])) /\ sup' = Append(sup, p)
            /\ UNCHANGED <<stage, idx, verdict, slots>>
Freeze == stage = "build" /\ stage' = "empty" /\ UNCHANGED <<sup, idx, verdict, slots>>

K == Len(sup)
Stmts == [i \in 1 .. K |-> sup[i].st]
Fail(r) == stage' = "end" /\ verdict' = <<"err", r>> /\ UNCHANGED <<sup, idx, slots>>
Go(s) == stage' = s /\ UNCHANGED <<sup, verdict, slots>>

GEmpty == stage = "empty" /\ IF K = 0 THEN Fail("empty") ELSE Go("toomany") /\ idx' = 1
GTooMany == stage = "toomany" /\ IF K > N THEN Fail("toomany") ELSE Go("perproof") /\ idx' = 1
\* per proof, in order: length, verification, (private, padding needed) native asset
GPerProof == /\ stage = "perproof"
             /\ IF ~sup[idx].lenok THEN Fail("len")
                ELSE IF ~sup[idx].valid THEN Fail("verify")
                ELSE IF Layer = "private" /\ K < N /\ sup[idx].st.asset # ZeroF THEN Fail("asset_padding")
                ELSE IF idx = K THEN Go("compat") /\ idx' = 1
                ELSE Go("perproof") /\ idx' = idx + 1

\* ensure_leaf_batch_compatible / ensure_private_batch_compatible
RealSup == {i \in 1 .. K : Stmts[i].block # ZeroD}
FirstRealSup == CHOOSE i \in RealSup : \A j \in RealSup : i <= j
PrivMirror ==
  IF \E i \in 1 .. K : Stmts[i].asset # Stmts[1].asset THEN "asset"
  ELSE IF \E i \in RealSup : Stmts[i].block # Stmts[FirstRealSup].block THEN "block"
  ELSE IF \E i \in RealSup : Stmts[i].fee # Stmts[FirstRealSup].fee THEN "fee"
  ELSE IF \E i, j \in RealSup : i # j /\ Stmts[i].null = Stmts[j].null THEN "dupnull"
  ELSE IF SumGuard /\ \E k \in 1 .. 2 * K : ~AmtOk(ExitSlot(Masked(Stmts), k)[1]) THEN "sum"
  ELSE IF RealSup = {} THEN "alldummy"
  ELSE "ok"
PubMirror ==
  IF \E i \in RealSup : Stmts[i].block # Stmts[FirstRealSup].block THEN "block"
  ELSE IF \E i \in RealSup : Stmts[i].asset # Stmts[FirstRealSup].asset THEN "asset"
  ELSE IF \E i \in RealSup : Stmts[i].fee # Stmts[FirstRealSup].fee THEN "fee"
  ELSE IF RealSup = {} THEN "alldummy"
  ELSE "ok"
GCompat == /\ stage = "compat"
           /\ LET r == IF Layer = "private" THEN PrivMirror ELSE PubMirror
              IN IF r # "ok" THEN Fail(r) ELSE Go("pad") /\ UNCHANGED idx

Padded == Stmts \o [i \in 1 .. N - K |-> Template]
Pad == stage = "pad" /\ slots' = Padded /\ stage' = "shuffle" /\ UNCHANGED <<sup, idx, verdict>>
PermsOfN == {p \in [1 .. N -> 1 .. N] : \A a, b \in 1 .. N : a # b => p[a] # p[b]}
Shuffle == /\ stage = "shuffle"
           /\ IF Layer = "private" /\ N > 1
                THEN \E p \in PermsOfN : slots' = [i \in 1 .. N |-> slots[p[i]]]
                ELSE UNCHANGED slots
           /\ stage' = "end" /\ verdict' = <<"ok", "committed">> /\ UNCHANGED <<sup, idx>>
Done == stage = "end" /\ UNCHANGED vars
Next == AddProof \/ Freeze \/ GEmpty \/ GTooMany \/ GPerProof \/ GCompat \/ Pad \/ Shuffle \/ Done
Spec == Init /\ [][Next]_vars

\* ------------------------------------------------------------------ properties
Ended == stage = "end"
Ok == Ended /\ verdict[1] = "ok"
CircuitAccepts(s) == IF Layer = "private" THEN PBAccepts(s) ELSE QBAccepts(s)
Structural == {"empty", "toomany", "len", "verify"}
Policies == {"asset_padding", "alldummy"}

(* C14 *) AcceptsOnlyIf == Ok => /\ K \in 1 .. N /\ \A i \in 1 .. K : sup[i].valid /\ sup[i].lenok
                                 /\ RealSup # {}
                                 /\ (Layer = "private" /\ K < N => \A i \in 1 .. K : Stmts[i].asset = ZeroF)
(* C14 *) CommittedWitnessSatisfiesCircuit == Ok => CircuitAccepts(slots)
(* C14 *) NonPolicyRejectionsAreUnprovable ==
   (Ended /\ verdict[1] = "err" /\ verdict[2] \notin Structural \cup Policies) => ~CircuitAccepts(Padded)
\* and nothing provable is refused except for the documented policies (the preflight is not stricter than the circuit)
(* C14 *) RejectionsAreJustified ==
   (Ended /\ verdict[1] = "err") => (verdict[2] \in Structural \cup Policies \/ ~CircuitAccepts(Padded))
(* C15 *) Cnt(s, v) == Cardinality({i \in 1 .. Len(s) : s[i] = v})
(* C15 *) PaddingExact == Ok =>
   /\ Len(slots) = N
   /\ \A i \in 1 .. N : Cnt(slots, slots[i]) = Cnt(Padded, slots[i])
   /\ (Layer = "public" => slots = Padded)
ProverInv == AcceptsOnlyIf /\ CommittedWitnessSatisfiesCircuit /\ NonPolicyRejectionsAreUnprovable
             /\ RejectionsAreJustified /\ PaddingExact
=============================================================================
