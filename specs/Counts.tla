------------------------------ MODULE Counts ------------------------------
(* Per-layer proof counts (C29).

   Three kinds of cells, one initial state each:

   kind = "ep"     a public entry point called with count tokens (a = leaves per private batch,
                   b = private batches per public batch; b = NONE where the entry point has a single
                   count or the optional one is absent).  Every entry point is the program
                         ValidateCount(a) ; ValidateCount(b) ; Build
                   where Build stands for everything that allocates, creates directories, reads
                   artifacts or constructs circuits.  The property: Build is reached only with counts
                   in 1..64, and the call is rejected iff a count is 0 or above 64.
   kind = "arith"  the checked layout-length arithmetic  12 + m*(2n)*5 + m*n*4  on unbounded
                   naturals (little-endian base-256 digit sequences; TLC integers are 32-bit)
                   against the code's sequence of checked_mul / checked_add steps: the result is
                   either the overflow token or the exact value - it never wraps.
   kind = "cfg"    the config file: Save / Load with the current and the legacy key for every valid
                   pair, rejection of out-of-range counts read from a file.                      *)
EXTENDS Naturals, Integers, Sequences, FiniteSets, TLC

MaxCount == 64
NONE == -1
HUGE == 2000000001     \* token for 2^40
UMAX == 2000000002     \* token for usize::MAX
BIG == 4096            \* the largest count a vector is synthesised for (length-derived counts)

ValidCount(x) == x >= 1 /\ x <= MaxCount
AllValid(a, b) == ValidCount(a) /\ (b = NONE \/ ValidCount(b))

-----------------------------------------------------------------------------
(* unbounded naturals: little-endian sequences of base-256 digits, no trailing zero digit *)
RECURSIVE Norm(_)
Norm(x) == IF x = <<>> THEN <<>>
           ELSE IF x[Len(x)] = 0 THEN Norm(SubSeq(x, 1, Len(x) - 1)) ELSE x

RECURSIVE FromNat(_)
FromNat(k) == IF k = 0 THEN <<>> ELSE <<k % 256>> \o FromNat(k \div 256)

RECURSIVE AddC(_, _, _)
AddC(x, y, cy) ==
  IF x = <<>> /\ y = <<>> THEN (IF cy = 0 THEN <<>> ELSE <<cy>>)
  ELSE LET dx == IF x = <<>> THEN 0 ELSE Head(x)
           dy == IF y = <<>> THEN 0 ELSE Head(y)
           s == dx + dy + cy
       IN <<s % 256>> \o AddC(IF x = <<>> THEN <<>> ELSE Tail(x), IF y = <<>> THEN <<>> ELSE Tail(y), s \div 256)
Add(x, y) == Norm(AddC(x, y, 0))

RECURSIVE MulDigit(_, _, _)
MulDigit(x, d, cy) ==
  IF x = <<>> THEN (IF cy = 0 THEN <<>> ELSE <<cy>>)
  ELSE LET s == Head(x) * d + cy IN <<s % 256>> \o MulDigit(Tail(x), d, s \div 256)

RECURSIVE Mul(_, _)
Mul(x, y) == IF y = <<>> \/ x = <<>> THEN <<>>
             ELSE Add(MulDigit(x, Head(y), 0), <<0>> \o Mul(x, Tail(y)))

WordDigits == 8                          \* usize is 64 bits
Fits(x) == Len(Norm(x)) <= WordDigits

(* the machine's checked operations: a result or the overflow token *)
OVF == <<999>>
CheckedMul(x, y) == IF x = OVF \/ y = OVF THEN OVF
                    ELSE LET p == Mul(x, y) IN IF Fits(p) THEN p ELSE OVF
CheckedAdd(x, y) == IF x = OVF \/ y = OVF THEN OVF
                    ELSE LET s == Add(x, y) IN IF Fits(s) THEN s ELSE OVF

\* try_pi_len(num_private_batch_proofs = m, num_leaf_proofs = n), step by step as the code runs it
TryPiLen(m, n) ==
  LET slots == CheckedMul(n, FromNat(2))
      nulls == n
      exitFelts == CheckedMul(CheckedMul(m, slots), FromNat(5))
      nullFelts == CheckedMul(CheckedMul(m, nulls), FromNat(4))
  IN CheckedAdd(CheckedAdd(FromNat(12), exitFelts), nullFelts)

\* the layout length as the documentation states it: header 12, 2mn exit slots of 5, mn nullifiers of 4
ExactLen(m, n) == Add(Add(FromNat(12), Mul(Mul(Mul(m, n), FromNat(2)), FromNat(5))), Mul(Mul(m, n), FromNat(4)))

-----------------------------------------------------------------------------
(* the config file *)
CurrentKey == "num_private_batch_proofs"
LegacyKey == "num_layer0_proofs"
AcceptedKeys == {CurrentKey, LegacyKey}

\* a file: the leaf count, and the optional second count under some key ("absent": no such field)
Save(cfg) == [leaf |-> cfg.leaf, key |-> CurrentKey, pb |-> cfg.pb]      \* None is written as null
Load(f) ==
  LET pb == IF f.key \in AcceptedKeys THEN f.pb ELSE NONE                \* unknown fields are ignored
  IN IF AllValid(f.leaf, pb) THEN [ok |-> TRUE, leaf |-> f.leaf, pb |-> pb]
     ELSE [ok |-> FALSE, leaf |-> 0, pb |-> NONE]
Loaded(cfg) == [ok |-> TRUE, leaf |-> cfg.leaf, pb |-> cfg.pb]

-----------------------------------------------------------------------------
(* one cell per behaviour *)
VARIABLES cell, pc, built
vars == <<cell, pc, built>>

\* the guard the entry points apply (validate_proof_count)
CountGuard(x) == x >= 1 /\ x <= MaxCount

\* an entry point checks its counts one after the other, then builds
Step ==
  /\ cell.kind = "ep"
  /\ \/ /\ pc = "entry"
        /\ pc' = IF CountGuard(cell.a) THEN (IF cell.b = NONE THEN "checked" ELSE "check_b") ELSE "rejected"
        /\ UNCHANGED built
     \/ /\ pc = "check_b"
        /\ pc' = IF CountGuard(cell.b) THEN "checked" ELSE "rejected"
        /\ UNCHANGED built
     \/ /\ pc = "checked"
        /\ pc' = "returned"
        /\ built' = TRUE
  /\ UNCHANGED cell

Next == Step \/ (pc \in {"rejected", "returned", "static"} /\ UNCHANGED vars)

(* C29 *)
Terminal == pc \in {"rejected", "returned"}
ValidatedBeforeBuild == built => AllValid(cell.a, cell.b)
RejectIffOutOfRange == (cell.kind = "ep" /\ Terminal) => ((pc = "rejected") <=> ~AllValid(cell.a, cell.b))
RejectedBuiltNothing == pc = "rejected" => ~built

ArithNeverWraps ==
  cell.kind = "arith" =>
    LET r == TryPiLen(cell.m, cell.n)
        e == ExactLen(cell.m, cell.n)
    IN /\ r = OVF \/ r = e                       \* never a wrapped value
       /\ ~Fits(e) => r = OVF                    \* an overflow is reported
       /\ r # OVF => Fits(r)
       /\ (cell.mv # NONE /\ cell.nv # NONE /\ ValidCount(cell.mv) /\ ValidCount(cell.nv))
            => r = FromNat(12 + 14 * cell.mv * cell.nv)

ConfigRoundTrips ==
  cell.kind = "cfg" =>
    LET cfg == [leaf |-> cell.a, pb |-> cell.b] IN
    IF AllValid(cell.a, cell.b)
    THEN /\ Load(Save(cfg)) = Loaded(cfg)
         /\ Load([leaf |-> cell.a, key |-> CurrentKey, pb |-> cell.b]) = Loaded(cfg)
         /\ Load([leaf |-> cell.a, key |-> LegacyKey, pb |-> cell.b]) = Loaded(cfg)
    ELSE /\ ~Load([leaf |-> cell.a, key |-> CurrentKey, pb |-> cell.b]).ok
         /\ ~Load([leaf |-> cell.a, key |-> LegacyKey, pb |-> cell.b]).ok

C29Inv == ValidatedBeforeBuild /\ RejectIffOutOfRange /\ RejectedBuiltNothing /\ ArithNeverWraps /\ ConfigRoundTrips
=============================================================================
