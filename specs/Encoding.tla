------------------------------ MODULE Encoding ------------------------------
(* Byte / digest / integer encodings (C25) and compact node hashing (C26).

   Transcriptions ("self-contained functions with rich case analysis") of
     common/src/serialization.rs   bytes_to_felts, felts_to_bytes, try_felts_to_u128/u64,
                                   try_u128_to_quantized_felt, try_felt_to_quantized_u128,
                                   hash_bytes_compact, bytes_to_digest, digest_to_bytes
       (+ the qp-poseidon-core routines they delegate to: BytesToU64sIter, u64s_to_bytes,
          bytes_to_u64s_compact, try_canonical_limb)
     wormhole/inputs/src/lib.rs    BytesDigest::try_from
     common/src/zk_merkle.rs       hash_node, hash_node_presorted
   each next to a declarative predicate written from the property text; the invariants say the two
   agree on every explored case.

   VALUES.  TLC integers are 32-bit.  A 64-bit value is a 4-tuple of 16-bit limbs, MOST significant
   first; a u128 is 8 limbs; a byte is an integer 0..255; a 32-byte digest / child is 4 64-bit
   limbs in memory order (limb i = bytes 8i-7..8i, little-endian).  A field element is identified
   with its canonical representative (what to_canonical_u64 observes).  Poseidon2 is the
   uninterpreted injective constructor H.

   The boolean CONSTANTS are spec-mutant switches (vacuity control): all TRUE in the real
   specification; with one of them FALSE some invariant must fail.                              *)
EXTENDS Naturals, Sequences, FiniteSets, TLC

CONSTANTS Cap,                \* MAX_SERIALIZED_BYTES (2^20)
          Kinds, CasesOf(_),  \* the explored cases, by kind (supplied by the MC module)
          EdgeUniverse,       \* byte strings over which injectivity of the edge encoding is quantified
          CompactUniverse,    \* byte strings over which injectivity of the compact encoding is quantified
          Terminator,         \* the edge encoding appends the 0x01 terminator
          AlignCheck,         \* hash_bytes_compact rejects lengths that are not multiples of 8
          CanonCheck,         \* hash_bytes_compact rejects limbs >= p
          SortChildren,       \* hash_node sorts before hashing
          StrictP,            \* digest validation compares with  <  p   (not <=)
          Limb32Incl,         \* u32-limb decoding accepts  v <= 2^32-1 (not <)
          QuantIncl           \* quantisation accepts  q <= 2^32-1      (not <)

VARIABLES k, c              \* the kind of case and the case itself

--------------------------------------------------------------------------------
(* generic helpers *)
B16 == 65536
Zeros(n) == [i \in 1 .. n |-> 0]
Pad(x, w) == Zeros(w - Len(x)) \o x
RECURSIVE Flatten(_)
Flatten(ss) == IF Len(ss) = 0 THEN <<>> ELSE ss[1] \o Flatten(Tail(ss))

RECURSIVE SeqLt(_, _)     \* lexicographic order on equal-length sequences = numeric order on limb tuples
SeqLt(a, b) == IF Len(a) = 0 THEN FALSE
               ELSE IF a[1] # b[1] THEN a[1] < b[1] ELSE SeqLt(Tail(a), Tail(b))
SeqLe(a, b) == a = b \/ SeqLt(a, b)

\* ordered guards <<name, holds>>; the verdict is the first guard that fails
FirstFail(g) ==
  LET bad == {i \in 1 .. Len(g) : ~g[i][2]}
  IN IF bad = {} THEN "ok" ELSE g[CHOOSE i \in bad : \A j \in bad : i <= j][1]

--------------------------------------------------------------------------------
(* 64-bit values, the Goldilocks prime, field elements *)
PL == <<65535, 65535, 0, 1>>          \* p = 2^64 - 2^32 + 1
Mask32 == <<0, 0, 65535, 65535>>      \* BIT_32_LIMB_MASK
LtP(x) == SeqLt(x, PL)
\* from_noncanonical_u64 followed by to_canonical_u64: one conditional subtraction of p
Canon(x) == IF LtP(x) THEN x
            ELSE IF x[4] >= 1 THEN <<0, 0, x[3], x[4] - 1>> ELSE <<0, 0, x[3] - 1, 65535>>
CanonSeq(v) == [i \in 1 .. Len(v) |-> Canon(v[i])]
Fits32(x) == x[1] = 0 /\ x[2] = 0

\* u32::from_le_bytes(w) as u64   /   (v as u32).to_le_bytes()
WordToFelt(w) == <<0, 0, w[4] * 256 + w[3], w[2] * 256 + w[1]>>
FeltToWord(f) == <<f[4] % 256, f[4] \div 256, f[3] % 256, f[3] \div 256>>
\* u64::from_le_bytes(b)          /   v.to_le_bytes()
LimbOfBytes(b) == <<b[8] * 256 + b[7], b[6] * 256 + b[5], b[4] * 256 + b[3], b[2] * 256 + b[1]>>
BytesOfLimb(x) == <<x[4] % 256, x[4] \div 256, x[3] % 256, x[3] \div 256,
                    x[2] % 256, x[2] \div 256, x[1] % 256, x[1] \div 256>>

--------------------------------------------------------------------------------
(* EDGE ENCODING: 4 bytes per felt + terminator  (bytes_to_felts -> BytesToU64sIter) *)
RECURSIVE EncodeWords(_)
EncodeWords(s) ==
  IF Len(s) >= 4 THEN <<SubSeq(s, 1, 4)>> \o EncodeWords(SubSeq(s, 5, Len(s)))
  ELSE IF Terminator THEN << s \o <<1>> \o Zeros(3 - Len(s)) >>     \* last[rem.len()] = 1
  ELSE IF Len(s) = 0 THEN <<>> ELSE << s \o Zeros(4 - Len(s)) >>    \* spec mutant: zero padding only
EncodeOk(s) == Len(s) <= Cap                                         \* input.len() > MAX => Err
EncodeFelts(s) == LET w == EncodeWords(s) IN [i \in 1 .. Len(w) |-> WordToFelt(w[i])]
FeltCount(len) == len \div 4 + 1

(* its decoder as a guard sequence (felts_to_bytes -> u64s_to_bytes), on the shape the guards read:
   n = number of felts, fit = every felt's value is < 2^32, last = the last felt as a 4-byte word
   (<<>> when there is none or it does not fit)                                              *)
MaxFelts == (Cap + 4) \div 4                                         \* MAX_SERIALIZED_FELTS
Shape(v) == [n |-> Len(v),
             fit |-> \A i \in 1 .. Len(v) : Fits32(Canon(v[i])),
             last |-> IF Len(v) = 0 \/ ~Fits32(Canon(v[Len(v)])) THEN <<>> ELSE FeltToWord(Canon(v[Len(v)]))]
MarkerAt(w, j) == w[j] = 1 /\ \A m \in j + 1 .. 4 : w[m] = 0
HasMarker(w) == \E j \in 1 .. 4 : MarkerAt(w, j)
MarkerIdx(w) == CHOOSE j \in 1 .. 4 : MarkerAt(w, j)
DecodeGuards(sh) == <<
  <<"felt_cap",   sh.n <= MaxFelts>>,
  <<"nonempty",   sh.n > 0>>,
  <<"limb32",     sh.fit>>,
  <<"terminator", Len(sh.last) = 4 /\ HasMarker(sh.last)>> >>
DecodeVerdict(sh) == FirstFail(DecodeGuards(sh))
DecodeLen(sh) == 4 * (sh.n - 1) + MarkerIdx(sh.last) - 1
DecodeBytes(v) ==
  LET n == Len(v)
      w == [i \in 1 .. n |-> FeltToWord(Canon(v[i]))]
  IN Flatten(SubSeq(w, 1, n - 1)) \o SubSeq(w[n], 1, MarkerIdx(w[n]) - 1)

(* "malformed" from the property text: no byte string encodes to the vector.  A preimage of v can
   only be a prefix of v's own byte image with 4(n-1)..4(n-1)+3 bytes, so the search is exact. *)
InImage(v) ==
  /\ Len(v) > 0
  /\ \A i \in 1 .. Len(v) : Fits32(Canon(v[i]))
  /\ LET all == Flatten([i \in 1 .. Len(v) |-> FeltToWord(Canon(v[i]))])
     IN \E r \in 0 .. 3 : EncodeFelts(SubSeq(all, 1, 4 * (Len(v) - 1) + r)) = CanonSeq(v)
TailWordOk(w) == Len(w) = 4 /\ \E r \in 0 .. 3 : EncodeWords(SubSeq(w, 1, r)) = <<w>>

EdgeInv(x) ==
  LET f == EncodeFelts(x) IN
  /\ Len(f) = FeltCount(Len(x))
  /\ \A i \in 1 .. Len(f) : Fits32(f[i])
  /\ EncodeOk(x) => /\ DecodeVerdict(Shape(f)) = "ok"           \* round trip
                    /\ DecodeBytes(f) = x
  /\ \A y \in EdgeUniverse : y # x => EncodeFelts(y) # f         \* injective
\* lengths around the cap (content abstracted to one fill byte): everything the encoder accepts passes
\* the decoder's length guard, and that guard is tight
EdgeLenInv(e) ==
  /\ e.len <= Cap => FeltCount(e.len) <= MaxFelts
  /\ FeltCount(Cap) = MaxFelts /\ FeltCount(Cap + 4) > MaxFelts
DecodeInv(v) ==
  LET ok == DecodeVerdict(Shape(v)) = "ok" IN
  /\ ok <=> (Len(v) <= MaxFelts /\ InImage(v))                   \* rejects exactly the malformed ones
  /\ ok => EncodeFelts(DecodeBytes(v)) = CanonSeq(v)             \* and inverts the encoder
DecodeLenInv(sh) ==
  (DecodeVerdict(sh) = "ok") <=> (sh.n >= 1 /\ sh.n <= MaxFelts /\ sh.fit /\ TailWordOk(sh.last))

--------------------------------------------------------------------------------
(* DIGESTS: BytesDigest::try_from (8-byte chunks in order), bytes_to_digest / digest_to_bytes *)
DigestGuards(d) == [i \in 1 .. 4 |-> <<"chunk_out_of_field_range", IF StrictP THEN LtP(d[i]) ELSE SeqLe(d[i], PL)>>]   \* v >= ORDER => Err
DigestAccept(d) == FirstFail(DigestGuards(d)) = "ok"
DigestValid(d) == \A i \in 1 .. 4 : LtP(d[i])                    \* the property text
DigestFelts(d) == [i \in 1 .. 4 |-> Canon(d[i])]                 \* from_noncanonical_u64 of each limb
FeltsDigest(f) == f                                              \* to_canonical_u64().to_le_bytes() of each felt
DigestInv(d) ==
  /\ DigestAccept(d) <=> DigestValid(d)
  /\ DigestAccept(d) => FeltsDigest(DigestFelts(d)) = d
  /\ ~DigestValid(d) => FeltsDigest(DigestFelts(d)) # d          \* why validity is needed: the felt map is lossy

--------------------------------------------------------------------------------
(* INTEGER LIMBS: u128_to_felts / try_felts_to_u128 (4 felts), u64 (2 felts) *)
LimbOk(v) == IF Limb32Incl THEN SeqLe(v, Mask32) ELSE SeqLt(v, Mask32)   \* as_32_bit_limb: v <= MASK
LimbGuards(f) == [i \in 1 .. Len(f) |-> <<"limb_exceeds_32_bits", LimbOk(Canon(f[i]))>>]
LimbsAccept(f) == FirstFail(LimbGuards(f)) = "ok"
LimbsValue(f) == Flatten([i \in 1 .. Len(f) |-> <<Canon(f[i])[3], Canon(f[i])[4]>>])   \* out |= limb << (32*(n-1-i))
IntToFelts(n) == [i \in 1 .. Len(n) \div 2 |-> <<0, 0, n[2 * i - 1], n[2 * i]>>]       \* (num >> shift) & MASK
LimbsInv(f) ==
  /\ LimbsAccept(f) <=> \A i \in 1 .. Len(f) : Fits32(Canon(f[i]))       \* exactly the limbs below 2^32
  /\ LimbsAccept(f) => IntToFelts(LimbsValue(f)) = CanonSeq(f)
IntInv(n) == LimbsAccept(IntToFelts(n)) /\ LimbsValue(IntToFelts(n)) = n    \* decoding inverts encoding

--------------------------------------------------------------------------------
(* QUANTISATION: num / 10^10 > u32::MAX => Err.   Big naturals as 9 limbs (144 bits). *)
RECURSIVE MulSmallFrom(_, _, _, _), AddFrom(_, _, _, _), MulDFrom(_, _, _)
MulSmallFrom(x, d, i, cy) == IF i = 0 THEN <<>>
                             ELSE LET t == x[i] * d + cy IN MulSmallFrom(x, d, i - 1, t \div B16) \o <<t % B16>>
MulSmall(x, d) == MulSmallFrom(x, d, Len(x), 0)                  \* d <= 256
AddFrom(x, y, i, cy) == IF i = 0 THEN <<>>
                        ELSE LET t == x[i] + y[i] + cy IN AddFrom(x, y, i - 1, t \div B16) \o <<t % B16>>
Add(x, y) == AddFrom(x, y, Len(x), 0)
DDigits == <<2, 84, 11, 228, 0>>                                 \* AMOUNT_QUANTIZATION_FACTOR = 10^10, base 256
DL == <<2, 21515, 58368>>                                        \* the same in 16-bit limbs (0x2_540B_E400)
MulDFrom(x, i, acc) == IF i > 5 THEN acc
                       ELSE MulDFrom(x, i + 1, Add(MulSmall(acc, 256), MulSmall(x, DDigits[i])))
MulD(x) == MulDFrom(x, 1, Zeros(Len(x)))                         \* x * 10^10 (same width; callers pad)
\* q = num div 10^10, as the defining relation of integer division
QuotOk(num, q) == LET n == Pad(num, 9)
                      m == MulD(Pad(q, 9))
                  IN SeqLe(m, n) /\ SeqLt(n, Add(m, Pad(DL, 9)))
QuantVerdict(q) == IF (IF QuantIncl THEN SeqLe(q, Pad(Mask32, Len(q))) ELSE SeqLt(q, Pad(Mask32, Len(q))))
                   THEN "ok" ELSE "exceeds"                      \* quantized > MASK => Err
QuantT == <<0, 0, 0, 2, 21515, 58368, 0, 0>>                     \* 2^32 * 10^10: the least rejected amount
\* a case is (q, r) with r < 10^10; the amount is q*10^10 + r
QuantNum(e) == Add(MulD(Pad(e.q, 9)), Pad(e.r, 9))
QuantInv(e) ==
  LET num == QuantNum(e) IN
  /\ num[1] = 0 /\ SeqLt(Pad(e.r, 9), Pad(DL, 9)) /\ QuotOk(Tail(num), e.q)       \* the case is well formed
  /\ (QuantVerdict(e.q) = "ok") <=> ~SeqLt(Pad(Mask32, 8), e.q)    \* fails exactly when the quantized value exceeds u32
  /\ (QuantVerdict(e.q) = "ok") <=> SeqLt(Tail(num), QuantT)       \* i.e. exactly from 2^32 * 10^10 on
\* felt -> amount: as_32_bit_limb, then * 10^10
FqInv(f) == LimbsAccept(<<f>>) <=> Fits32(Canon(f))

--------------------------------------------------------------------------------
(* COMPACT ENCODING (8 bytes per felt) and the compact hash domain (hash_bytes_compact) *)
PadTo8(s) == s \o Zeros((8 - (Len(s) % 8)) % 8)                    \* padded.resize(padded_len, 0)
CompactLimbs(s) == LET p == PadTo8(s) IN [i \in 1 .. Len(p) \div 8 |-> LimbOfBytes(SubSeq(p, 8 * i - 7, 8 * i))]
CompactFelts(s) == CanonSeq(CompactLimbs(s))                     \* the field sequence that is hashed
CompactGuards(len, canon) == <<
  <<"cap",       len <= Cap>>,
  <<"align",     ~AlignCheck \/ len % 8 = 0>>,
  <<"canonical", ~CanonCheck \/ canon>> >>
AllCanon(limbs) == \A i \in 1 .. Len(limbs) : LtP(limbs[i])
CompactVerdict(s) == FirstFail(CompactGuards(Len(s), AllCanon(CompactLimbs(s))))
CompactValid(len, canon) == len <= Cap /\ len % 8 = 0 /\ canon   \* the property text
H(felts) == <<"H", felts>>
CompactHash(s) == IF CompactVerdict(s) = "ok" THEN [ok |-> TRUE, h |-> H(CompactFelts(s))]
                  ELSE [ok |-> FALSE, h |-> <<>>]
CompactInv(s) ==
  /\ (CompactVerdict(s) = "ok") <=> CompactValid(Len(s), AllCanon(CompactLimbs(s)))
  /\ CompactVerdict(s) = "ok" =>
       \A t \in CompactUniverse : (t # s /\ CompactVerdict(t) = "ok") => CompactFelts(t) # CompactFelts(s)
  /\ CompactVerdict(s) = "ok" => Flatten([i \in 1 .. Len(s) \div 8 |-> BytesOfLimb(CompactFelts(s)[i])]) = s
CompactLenInv(e) == (FirstFail(CompactGuards(e.len, e.canon)) = "ok") <=> CompactValid(e.len, e.canon)

--------------------------------------------------------------------------------
(* NODE HASH: hash_node = sort the four 32-byte children ([u8; 32] order = lexicographic on bytes),
   concatenate, compact hash;  hash_node_presorted = the same without the sort *)
ChildBytes(ch) == Flatten([i \in 1 .. 4 |-> BytesOfLimb(ch[i])])
\* byte-lexicographic order, decided at the first differing limb (its little-endian bytes)
ChildLt(a, b) == LET df == {i \in 1 .. 4 : a[i] # b[i]}
                 IN IF df = {} THEN FALSE
                    ELSE LET m == CHOOSE i \in df : \A j \in df : i <= j
                         IN SeqLt(BytesOfLimb(a[m]), BytesOfLimb(b[m]))
ChildLe(a, b) == ~ChildLt(b, a)
Perms4 == {p \in [1 .. 4 -> 1 .. 4] : \A i, j \in 1 .. 4 : i # j => p[i] # p[j]}
Permute(q, p) == [i \in 1 .. 4 |-> q[p[i]]]
IsSorted(q) == \A i \in 1 .. 3 : ChildLe(q[i], q[i + 1])
RECURSIVE InsertCh(_, _), SortFrom(_, _)
InsertCh(x, s) == IF Len(s) = 0 THEN <<x>>
                  ELSE IF ChildLe(x, s[1]) THEN <<x>> \o s ELSE <<s[1]>> \o InsertCh(x, Tail(s))
SortFrom(q, i) == IF i = 0 THEN <<>> ELSE InsertCh(q[i], SortFrom(q, i - 1))
SortCh(q) == SortFrom(q, 4)                                      \* sorted.sort()
Presorted(q) == CompactHash(Flatten([i \in 1 .. 4 |-> ChildBytes(q[i])]))
HashNode(q) == Presorted(IF SortChildren THEN SortCh(q) ELSE q)
ChildCanon(ch) == \A j \in 1 .. 4 : LtP(ch[j])
Count(q, x) == Cardinality({i \in 1 .. 4 : q[i] = x})
SameMultiset(q, r) == \A i \in 1 .. 4 : Count(q, q[i]) = Count(r, q[i]) /\ Count(q, r[i]) = Count(r, r[i])
\* the children a felt sequence of length 16 came from
Unhash(h) == [i \in 1 .. 4 |-> [j \in 1 .. 4 |-> h[2][4 * (i - 1) + j]]]
NodeInv(q) ==
  LET r == HashNode(q) IN
  /\ IsSorted(SortCh(q)) /\ SameMultiset(SortCh(q), q)           \* SortCh is a sort
  /\ r.ok <=> \A i \in 1 .. 4 : ChildCanon(q[i])                 \* an error exactly for a non-canonical child
  /\ \A p \in Perms4 : HashNode(Permute(q, p)) = r               \* independent of child order
  /\ Presorted(SortCh(q)) = r                                   \* equals presorted hashing on sorted children
  /\ IsSorted(q) => Presorted(q) = r
  /\ r.ok => SameMultiset(Unhash(r.h), q)                        \* H injective: equal hashes <=> equal child multisets

--------------------------------------------------------------------------------
Init == \E kk \in Kinds : k = kk /\ c \in CasesOf(kk)
Next == UNCHANGED <<k, c>>
Spec == Init /\ [][Next]_<<k, c>>

C25Kinds == {"edge", "edgelen", "dec", "declen", "digest", "limbs", "int", "fq", "quant"}
C26Kinds == {"compact", "compactlen", "node"}
C25Inv ==
  CASE k = "edge"    -> EdgeInv(c)
    [] k = "edgelen" -> EdgeLenInv(c)
    [] k = "dec"     -> DecodeInv(c)
    [] k = "declen"  -> DecodeLenInv(c)
    [] k = "digest"  -> DigestInv(c)
    [] k = "limbs"   -> LimbsInv(c)
    [] k = "int"     -> IntInv(c)
    [] k = "fq"      -> FqInv(c)
    [] k = "quant"   -> QuantInv(c)
    [] OTHER         -> TRUE
C26Inv ==
  CASE k = "compact"    -> CompactInv(c)
    [] k = "compactlen" -> CompactLenInv(c)
    [] k = "node"       -> NodeInv(c)
    [] OTHER            -> TRUE
=============================================================================
