SPECIFICATION TraceSpec
CONSTANTS
  Cap = 1048576
  Kinds = {}
  CasesOf <- TrCasesOf
  EdgeUniverse = {}
  CompactUniverse = {}
  Terminator = TRUE
  AlignCheck = TRUE
  CanonCheck = TRUE
  SortChildren = TRUE
  StrictP = TRUE
  Limb32Incl = TRUE
  QuantIncl = TRUE
POSTCONDITION TraceAccepted
CHECK_DEADLOCK FALSE
