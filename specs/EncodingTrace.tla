--------------------------- MODULE EncodingTrace ---------------------------
(* Trace validation for C25 / C26 at REAL sizes: every event recorded by `vh-enc record` (a seeded random
   or boundary input, and what the real functions returned for it) must be what Encoding.tla's
   transcriptions and predicates say.  Values are 16-bit limbs (most significant first), bytes small
   integers; results are "ok" | "err" | "panic" (a panic never matches).  Inputs too large to log
   (edgebig: up to 2 MiB) are logged as length + sampled 4-byte windows + the tail + the harness's
   byte comparison of decode(encode(x)) with x.  The node events carry, for each of the 24 child
   orders, Plonky2's native Poseidon2 of the concatenation in that order (the hash oracle); the
   specification picks the order IT sorts to.                                                  *)
EXTENDS Encoding, Json, IOUtils

Rec == ndJsonDeserialize(IOEnv.TRACE)
VARIABLE l
TrCasesOf(kk) == {}

R(b) == IF b THEN "ok" ELSE "err"

EncOk(o, x) == IF EncodeOk(x) THEN o.r = "ok" /\ o.felts = EncodeFelts(x) ELSE o.r = "err"
DecOk(o, v) == IF DecodeVerdict(Shape(v)) = "ok" THEN o.r = "ok" /\ o.bytes = DecodeBytes(v) ELSE o.r = "err"

EdgeEv(e) ==
  /\ EncOk(e.enc, e.x) /\ EncOk(e.enc2, e.x)
  /\ EncodeOk(e.x) => /\ e.dec.r = "ok" /\ e.dec.bytes = e.x          \* round trip through the real decoder
                      /\ e.dec2.r = "ok" /\ e.dec2.bytes = e.x
EdgePairEv(e) ==
  /\ EncOk(e.fx, e.x) /\ EncOk(e.fy, e.y)
  /\ (e.x # e.y /\ e.fx.r = "ok" /\ e.fy.r = "ok") => e.fx.felts # e.fy.felts      \* injective
EdgeBigEv(e) ==
  IF e.len <= Cap
  THEN /\ e.enc = "ok" /\ e.nfelts = FeltCount(e.len)
       /\ \A i \in 1 .. Len(e.wins) :
            LET w == e.wins[i] IN w.i < e.len \div 4 /\ Len(w.bytes) = 4 /\ w.felt = WordToFelt(w.bytes)
       /\ Len(e.tail.bytes) = e.len % 4 /\ <<e.tail.felt>> = EncodeFelts(e.tail.bytes)
       /\ e.dec = "ok" /\ e.declen = e.len /\ e.rt = 1
  ELSE e.enc = "err"
DecEv(e) == DecOk(e.dec, e.v) /\ DecOk(e.dec2, e.v)
DecBigEv(e) ==
  LET sh == [n |-> e.n, fit |-> e.fit = 1, last |-> e.last] IN
  e.r = "unrealisable" \/
  IF DecodeVerdict(sh) = "ok" THEN e.r = "ok" /\ e.outlen = DecodeLen(sh) ELSE e.r = "err"

DigestEv(e) ==
  LET ok == DigestAccept(e.d) IN
  /\ \A nm \in DOMAIN e.v : e.v[nm] = R(ok)                  \* every validating entry point: accepted iff every limb < p
  /\ ok => /\ e.rt = "ok" /\ e.felts = DigestFelts(e.d)      \* accepted digests round-trip through felts
           /\ e.back = e.d /\ e.back2 = e.d /\ e.back3 = e.d /\ e.pi_back = e.d

LimbsEv(e) ==
  IF LimbsAccept(e.f) THEN /\ e.r = "ok" /\ e.val = LimbsValue(e.f)
                           /\ e.r2 = "ok" /\ e.val2 = LimbsValue(e.f)
  ELSE e.r = "err" /\ e.r2 = "err"
IntEv(e) ==
  /\ e.enc = "ok" /\ e.felts = IntToFelts(e.n) /\ e.felts2 = IntToFelts(e.n)
  /\ e.r = "ok" /\ e.val = e.n                                \* decoding inverts encoding
FqEv(e) ==
  IF LimbsAccept(<<e.f>>) THEN e.r = "ok" /\ e.val = MulD(Pad(Canon(e.f), 8)) ELSE e.r = "err"
QuantEv(e) ==
  IF SeqLt(e.num, QuantT)
  THEN /\ e.r = "ok" /\ Fits32(e.q) /\ QuotOk(e.num, e.q)     \* the quantized value, which fits u32
       /\ QuantVerdict(e.q) = "ok"
       /\ e.back.r = "ok" /\ e.back.val = MulD(Pad(e.q, 8))
  ELSE e.r = "err"                                            \* fails exactly from 2^32 * 10^10 on

NodeEv(e) ==
  LET q == e.ch
      canon == \A i \in 1 .. 4 : ChildCanon(q[i])
      srt == {j \in 1 .. Len(e.runs) : \A i \in 1 .. 4 : q[e.runs[j].p[i]] = SortCh(q)[i]}
      want == e.runs[CHOOSE j \in srt : TRUE].nat             \* oracle value of H(CompactFelts(sorted children))
  IN /\ Len(e.runs) = 24
     /\ \A p \in Perms4 : \E j \in 1 .. 24 : \A i \in 1 .. 4 : e.runs[j].p[i] = p[i]     \* all 24 orders were run
     /\ srt # {}
     /\ HashNode(q).ok = canon
     /\ \A j \in 1 .. 24 :
          LET rn == e.runs[j] IN
          /\ rn.node.r = R(canon) /\ rn.pre.r = R(canon)      \* an error, not a panic, exactly for a non-canonical child
          /\ canon => /\ rn.node.h = want                     \* order-independent, = hash of the sorted concatenation
                      /\ rn.pre.h = rn.nat                    \* presorted hashing = hash of the children as given
CompactLenEv(e) ==
  e.r = "unreachable" \/ e.r = R(FirstFail(CompactGuards(e.len, e.canon = 1)) = "ok")

EventOk(e) ==
  CASE e.k = "edge"       -> EdgeEv(e)
    [] e.k = "edgepair"   -> EdgePairEv(e)
    [] e.k = "edgebig"    -> EdgeBigEv(e)
    [] e.k = "dec"        -> DecEv(e)
    [] e.k = "decbig"     -> DecBigEv(e)
    [] e.k = "digest"     -> DigestEv(e)
    [] e.k = "limbs"      -> LimbsEv(e)
    [] e.k = "int"        -> IntEv(e)
    [] e.k = "fq"         -> FqEv(e)
    [] e.k = "quant"      -> QuantEv(e)
    [] e.k = "node"       -> NodeEv(e)
    [] e.k = "compactlen" -> CompactLenEv(e)
    [] OTHER              -> FALSE

TraceInit == l = 1 /\ k = "trace" /\ c = 0
TraceNext == l <= Len(Rec) /\ EventOk(Rec[l]) /\ l' = l + 1 /\ UNCHANGED <<k, c>>
TraceSpec == TraceInit /\ [][TraceNext]_<<l, k, c>>

TraceAccepted ==
    LET d == TLCGet("stats").diameter IN
    IF d = Len(Rec) + 1 THEN PrintT(<<"TRACEOK", ToJson([events |-> Len(Rec)])>>)
    ELSE /\ PrintT(<<"TRACEFAIL", ToJson([matched |-> d - 1, first_unmatched |-> Rec[d]])>>)
         /\ FALSE
=============================================================================
