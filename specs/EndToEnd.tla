------------------------------ MODULE EndToEnd ------------------------------
(* Beyond the listed properties: the whole pipeline as ONE system, bound to the real code with real proofs at
   every layer (harness/src/e2e.rs).

       deposits (leaves of one 4-ary tree)  --leaf proofs-->  private batches (N = 2, recursion)
           --push_proof-->  the aggregator's pool  --snapshot_batch-->  ProvingContext::prove_batch (M = 2, recursion)
           --the chain reads the aggregated proof's public inputs-->  settled nullifiers  --evict_settled-->  pool

   The state machine is AggSystem's (pool + workers + chain); what is new is the palette - every proof is a
   composition of deposits (Compose) - and that the worker's step is LOGGED, so the replay can really prove the
   snapshot, read the settled set off the aggregated proof and feed it back into evict_settled.

   Model nullifier n is deposit n.  Proof 23 competes with 21 for deposit 2; proof 25 is deposit 1 proved against
   the other block (same nullifier, other bucket).

   Checked by TLC (exhaustively, no clock): all of AggSystem's invariants, plus
     NoDoubleSettlement   a deposit's nullifier lands on chain through at most one batch
     ConservationE2E      the amount a landed batch pays out is the sum of its deposits' outputs
   The replay then holds the REAL pipeline to every behaviour: admission verdicts, snapshots, the exposed nullifier
   lists, conservation of the exit amounts over both recursion layers, chain acceptance, eviction counts and the
   pool's statistics after every call.                                                                        *)
EXTENDS AggSystem

Leaf(n, o) == [n |-> n, out |-> o]
Compose(i) == CASE i = 21 -> <<Leaf(1, 1), Leaf(2, 2)>>
                [] i = 22 -> <<Leaf(3, 3)>>
                [] i = 23 -> <<Leaf(2, 2), Leaf(4, 1)>>
                [] i = 24 -> <<Leaf(5, 1)>>
                [] i = 25 -> <<Leaf(1, 1)>>
LeavesOf(i) == {Compose(i)[k] : k \in DOMAIN Compose(i)}
\* the palette entries are exactly their compositions: nullifier set, volume, and a deposit has ONE amount
ASSUME \A p \in MCPalette : /\ p.id \in 21 .. 25 /\ p.valid /\ p.lenOk
                            /\ p.nulls = {l.n : l \in LeavesOf(p.id)}
                            /\ Len(Compose(p.id)) \in 1 .. 2
                            /\ ProofVol(p) = SatSumSeq([k \in DOMAIN Compose(p.id) |-> Compose(p.id)[k].out])
ASSUME \A p, q \in MCPalette : \A a \in LeavesOf(p.id), b \in LeavesOf(q.id) : a.n = b.n => a.out = b.out

\* the worker finishes: the step is logged with what the chain decides
EFinish(j) == /\ FinishCore(j)
              /\ IF Logging
                   THEN hist' = Append(hist, [call |-> [op |-> "prove", key |-> j.key, ids |-> j.ids,
                                                        lands |-> (NullsOf(j.ids) \cap chain = {})],
                                              res |-> res, st |-> Proj])
                   ELSE UNCHANGED hist
ENext == \/ \E p \in MCPalette : SPush(p)
         \/ \E k \in AllKeys : StartProve(k)
         \/ \E j \in inflight : EFinish(j)
         \/ SyncSettled
ESpec == SInit /\ [][ENext]_svars
\* simulation mix: proving and syncing often enough that a behaviour of ~14 calls closes the loop at least once
ESimNext == \/ \E p \in MCPalette : SPush(p)
            \/ \E k \in AllKeys, w \in 1 .. 2 : StartProve(k)
            \/ \E j \in inflight, w \in 1 .. 4 : EFinish(j)
            \/ \E w \in 1 .. 3 : SyncSettled
ESimSpec == SInit /\ [][ESimNext]_svars

\* spec mutant (vacuity control): a chain that does not check for settled nullifiers - NoDoubleSettlement must fail
BadFinish(j) == /\ j \in inflight /\ inflight' = inflight \ {j}
                /\ chain' = chain \cup NullsOf(j.ids) /\ landed' = landed \cup {j}
                /\ UNCHANGED vars /\ UNCHANGED hist
ESpecBadChain == SInit /\ [][(\E p \in MCPalette : SPush(p)) \/ (\E k \in AllKeys : StartProve(k)) \/ (\E j \in inflight : BadFinish(j)) \/ SyncSettled]_svars

DepositsOf(ids) == UNION {LeavesOf(ids[i]) : i \in DOMAIN ids}
NoDoubleSettlement == \A a, b \in landed : a # b => {l.n : l \in DepositsOf(a.ids)} \cap {l.n : l \in DepositsOf(b.ids)} = {}
RECURSIVE SumOut(_)
SumOut(S) == IF S = {} THEN 0 ELSE LET l == CHOOSE x \in S : TRUE IN l.out + SumOut(S \ {l})
\* within one landed batch no deposit is counted twice, so the batch pays exactly the sum over its distinct deposits
ConservationE2E == \A j \in landed :
    LET vols == [i \in DOMAIN j.ids |-> ProofVol(CHOOSE p \in MCPalette : p.id = j.ids[i])]
    IN  SatSumSeq(vols) = SumOut(DepositsOf(j.ids))
E2EInv == SysInv /\ NoDoubleSettlement /\ ConservationE2E

\* the verification budget is out of the picture here (MaxVerifies is never reached): the counter is hidden from the
\* exhaustive search, which would otherwise multiply every state by the number of admissions so far
eview == <<buckets, index, lastSnap, inflight, chain, landed>>

ComposeJson == SetToSeq({[id |-> p.id, leaves |-> Compose(p.id)] : p \in MCPalette})
EEmit == Len(hist) < Depth
         \/ PrintT(<<"REPLAY", ToJson([limits |-> Limits, palette |-> PaletteJson, compose |-> ComposeJson, steps |-> hist])>>)
=============================================================================
