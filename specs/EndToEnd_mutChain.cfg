SPECIFICATION ESpecBadChain
CONSTANTS
  MaxProofs = 4
  MaxBuckets = 2
  MaxVerifies = 1000
  Window = 1000
  Batch = 2
  VolCap = 1000
  MaxNow = 0
  MaxAge = 0
  Depth = 14
  Logging = FALSE
  PaletteSel = {21, 22, 23, 24, 25}
  Palette <- MCPalette
INVARIANTS E2EInv
VIEW eview
CHECK_DEADLOCK FALSE
