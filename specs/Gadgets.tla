------------------------------- MODULE Gadgets -------------------------------
(* common/src/gadgets.rs as nondeterministic constraint programs over the Goldilocks
   *family*  P(K) = 2^(2K) - 2^K + 1  (K = 32 in production; K = 2 and K = 4 give the primes
   13 and 241 with exactly the structure the code relies on:
       2^(2K) - P = 2^K - 1,
       the integers >= P expressible as two K-bit halves are exactly  hi = 2^K-1 /\ lo >= 1,
       only values < 2^K - 1 have a second ("x + P") decomposition,
       2^(K+1) <= P  (so the K+1-bit split inside u32_lt is unique)).

   A behaviour is ONE WITNESS: every wire the honest generator would compute (bit
   decompositions, low/high halves, equality hints, comparison bits) is chosen by the prover
   from the whole domain Plonky2's gates allow; `ok` records whether every constraint held.
   A failed constraint abandons the witness (absorbing pc = "rejected").

   gadget kinds (inp.g):
     "lt"   is_const_less_than(c, x, w)           out = [c < x]
     "enf"  enforce_target_less_than_const(x, c, w)   (c = exclusive bound)
     "u32"  u32_lt(a = c, b = x)   both < 2^K      (contract used by the sorter)
     "eq"   is_equal(c, x)                          (contract used everywhere)
     "sort" sort_digests4 generalised to n digests of L limbs                       *)
EXTENDS Naturals, Sequences, FiniteSets, TLC

CONSTANTS K,            \* half width
          LtInputs,     \* set of [g, w, c, x] records to explore
          SortInputs,   \* set of sequences of digests (each a sequence of L limbs)
          WrapExcluded, \* TRUE = the code as written; FALSE = spec mutant (vacuity control)
          ParityRounds  \* TRUE = the code as written (round % 2); FALSE = spec mutant

Half == 2^K
P    == Half * Half - Half + 1
El   == 0 .. P - 1
W    == 2 * K
FAdd(a, b) == (a + b) % P
FSub(a, b) == (a + P - b) % P
FMul(a, b) == (a * b) % P
B(b) == IF b THEN 1 ELSE 0

\* ---- Plonky2 primitive relations (trusted base) ----
\* split_low_high(x, n, b): lo < 2^n, hi < 2^(b-n), x = lo + hi * 2^n   (mod P)
SplitLowHighRel(x, n, b, lo, hi) == lo < 2^n /\ hi < 2^(b - n) /\ x = (lo + hi * 2^n) % P
\* is_equal(x, y) with hints (eq, inv):  eq * (x - y) = 0  /\  (x - y) * inv = 1 - eq
IsEqualRel(x, y, eq, inv) == FMul(eq, FSub(x, y)) = 0 /\ FMul(FSub(x, y), inv) = FSub(1, eq)
\* split_le(x, n): bits b_i in {0,1}, sum b_i 2^i = x (mod P); a pattern is an integer v < 2^n
SplitLeRel(x, n, v) == v < 2^n /\ v % P = x
Inv(d) == IF d = 0 THEN 0 ELSE CHOOSE i \in El : FMul(d, i) = 1
Bit(v, i) == (v \div 2^i) % 2

VARIABLES inp, pc, ok, honest, wv, hs, rnd, idx
vars == <<inp, pc, ok, honest, wv, hs, rnd, idx>>

W0 == [lo |-> 0, hi |-> 0, e1 |-> 0, e2 |-> 0, hl |-> 0, ll |-> 0, he |-> 0, bits |-> 0, out |-> 0]

Init == /\ \/ inp \in LtInputs
           \/ inp \in {[g |-> "sort", d |-> s] : s \in SortInputs}
        /\ pc = "start" /\ ok = TRUE /\ honest = TRUE /\ wv = W0 /\ hs = <<>> /\ rnd = 0 /\ idx = 1

\* a constrained step: c = all constraints of this step hold; h = the choice is the honest generator's
Step(next, w2, c, h) == /\ wv' = w2 /\ ok' = c /\ honest' = (honest /\ h)
                        /\ pc' = IF c THEN next ELSE "rejected"
                        /\ UNCHANGED <<inp, hs, rnd, idx>>

\* ------------------------------------------------------------------ is_const_less_than
Start == /\ pc = "start" /\ inp.g # "sort"
         /\ pc' = CASE inp.g \in {"lt", "enf"} -> (IF inp.w = W THEN "split" ELSE "bits")
                    [] inp.g = "u32" -> "u32"
                    [] inp.g = "eq"  -> "eq"
         /\ UNCHANGED <<inp, ok, honest, wv, hs, rnd, idx>>

\* the constant the comparison uses: c for "lt", bound-1 for "enf"
Left == IF inp.g = "enf" THEN inp.c - 1 ELSE inp.c

\* narrow path: split_le(x, w) then the bit comparator, most significant bit first
BitCmp(c, v, w) ==
  LET RECURSIVE F(_, _, _)
      F(i, lt, eq) == IF i = 0 THEN lt
                      ELSE LET a == Bit(c, i - 1)  b == Bit(v, i - 1)
                               thisLt == (a = 0 /\ b = 1 /\ eq)
                           IN F(i - 1, lt \/ thisLt, eq /\ (a = b))
  IN B(F(w, FALSE, TRUE))

SplitBits == /\ pc = "bits"
             /\ \E v \in 0 .. 2^inp.w - 1 :
                   Step("cmpbits", [wv EXCEPT !.bits = v], SplitLeRel(inp.x, inp.w, v), v = inp.x % 2^inp.w)
CmpBits == /\ pc = "cmpbits"
           /\ Step(IF inp.g = "enf" THEN "enforce" ELSE "done",
                   [wv EXCEPT !.out = BitCmp(Left, wv.bits, inp.w)], TRUE, TRUE)

\* wide path: split_canonical_u32_halves + two u32_lt + is_equal
EqChoices(a, b) == {<<e, i>> : e \in {0, 1, 2}, i \in {0, 1, Inv(FSub(a, b))}}
SplitCanon == /\ pc = "split"
              /\ \E l \in 0 .. Half - 1, h \in 0 .. Half - 1 :
                    Step("wrap1", [wv EXCEPT !.lo = l, !.hi = h],
                         SplitLowHighRel(inp.x, K, W, l, h), l = inp.x % Half /\ h = inp.x \div Half)
Wrap1 == /\ pc = "wrap1"                       \* hi_is_max = is_equal(hi, 2^K - 1)
         /\ \E ch \in EqChoices(wv.hi, Half - 1) :
               Step("wrap2", [wv EXCEPT !.e1 = ch[1]], IsEqualRel(wv.hi, Half - 1, ch[1], ch[2]),
                    ch[1] = B(wv.hi = Half - 1) /\ ch[2] = Inv(FSub(wv.hi, Half - 1)))
Wrap2 == /\ pc = "wrap2"                       \* lo_is_zero = is_equal(lo, 0)
         /\ \E ch \in EqChoices(wv.lo, 0) :
               Step("wrapc", [wv EXCEPT !.e2 = ch[1]], IsEqualRel(wv.lo, 0, ch[1], ch[2]),
                    ch[1] = B(wv.lo = 0) /\ ch[2] = Inv(wv.lo))
WrapConnect == /\ pc = "wrapc"                 \* connect(hi_is_max AND NOT lo_is_zero, 0)
               /\ Step("hilt", wv, WrapExcluded => FMul(wv.e1, FSub(1, wv.e2)) = 0, TRUE)

\* u32_lt(a, b): t = a + 2^K - b; (lo, ge) = split_low_high(t, K, K+1); lt = 1 - ge
U32Choices == {<<l, g>> : l \in 0 .. Half - 1, g \in {0, 1}}
U32Rel(a, b, l, g) == SplitLowHighRel(FSub(FAdd(a, Half), b), K, K + 1, l, g)
U32Honest(a, b, l, g) == LET t == FSub(FAdd(a, Half), b) IN l = t % Half /\ g = (t \div Half) % 2
HiLt == /\ pc = "hilt"
        /\ \E ch \in U32Choices :
              Step("lolt", [wv EXCEPT !.hl = 1 - ch[2]], U32Rel(Left \div Half, wv.hi, ch[1], ch[2]),
                   U32Honest(Left \div Half, wv.hi, ch[1], ch[2]))
LoLt == /\ pc = "lolt"
        /\ \E ch \in U32Choices :
              Step("hieq", [wv EXCEPT !.ll = 1 - ch[2]], U32Rel(Left % Half, wv.lo, ch[1], ch[2]),
                   U32Honest(Left % Half, wv.lo, ch[1], ch[2]))
HiEq == /\ pc = "hieq"
        /\ \E ch \in EqChoices(Left \div Half, wv.hi) :
              Step("combine", [wv EXCEPT !.he = ch[1]], IsEqualRel(Left \div Half, wv.hi, ch[1], ch[2]),
                   ch[1] = B(Left \div Half = wv.hi) /\ ch[2] = Inv(FSub(Left \div Half, wv.hi)))
\* or(hi_lt, and(hi_eq, lo_lt)) with Plonky2's arithmetic: and = a*b, or = a + b - a*b
Combine == /\ pc = "combine"
           /\ LET a == FMul(wv.he, wv.ll) IN
              Step(IF inp.g = "enf" THEN "enforce" ELSE "done",
                   [wv EXCEPT !.out = FSub(FAdd(wv.hl, a), FMul(wv.hl, a))], TRUE, TRUE)
Enforce == /\ pc = "enforce" /\ Step("done", wv, wv.out = 0, TRUE)

\* stand-alone contracts
U32 == /\ pc = "u32"
       /\ \E ch \in U32Choices :
             Step("done", [wv EXCEPT !.out = 1 - ch[2]], U32Rel(inp.c, inp.x, ch[1], ch[2]),
                  U32Honest(inp.c, inp.x, ch[1], ch[2]))
Eq == /\ pc = "eq"
      /\ \E e \in El, i \in {0, 1, 2, Inv(FSub(inp.c, inp.x))} :
            Step("done", [wv EXCEPT !.out = e], IsEqualRel(inp.c, inp.x, e, i),
                 e = B(inp.c = inp.x) /\ i = Inv(FSub(inp.c, inp.x)))

\* ------------------------------------------------------------------ sort_digests4
NDig == Len(inp.d)
LimbsPer == Len(inp.d[1])
\* lexicographic < on equal-length sequences of naturals
RECURSIVE SeqLt(_, _)
SeqLt(a, b) == IF a = <<>> THEN FALSE
               ELSE IF a[1] # b[1] THEN a[1] < b[1] ELSE SeqLt(Tail(a), Tail(b))

SortStart == /\ pc = "start" /\ inp.g = "sort"
             /\ pc' = IF NDig <= 1 THEN "egress" ELSE "ingress"
             /\ hs' = IF NDig <= 1 THEN inp.d ELSE [k \in 1 .. NDig |-> <<>>]
             /\ idx' = 1 /\ rnd' = 0 /\ UNCHANGED <<inp, ok, honest, wv>>

\* ingress: one canonical split per limb, halves appended most significant first
Ingress == /\ pc = "ingress"
           /\ LET dg == ((idx - 1) \div LimbsPer) + 1
                  lb == ((idx - 1) % LimbsPer) + 1
                  x  == inp.d[dg][lb]
              IN \E l \in 0 .. Half - 1, h \in 0 .. Half - 1 :
                   LET c == SplitLowHighRel(x, K, W, l, h) /\ (WrapExcluded => ~(h = Half - 1 /\ l # 0))
                   IN /\ ok' = c /\ honest' = (honest /\ l = x % Half /\ h = x \div Half)
                      /\ hs' = [hs EXCEPT ![dg] = @ \o <<h, l>>]
                      /\ idx' = idx + 1
                      /\ pc' = IF ~c THEN "rejected"
                               ELSE IF idx = NDig * LimbsPer THEN "round" ELSE "ingress"
                      /\ UNCHANGED <<inp, wv, rnd>>

\* one round of the odd-even transposition network (comparators of one round are disjoint).
\* halves8_lt is used by contract: its inputs are range-checked halves, on which u32_lt and
\* is_equal are exact (checked by the "u32" and "eq" kinds above).
RoundStart(r) == IF ParityRounds THEN r % 2 ELSE 0
Round == /\ pc = "round"
         /\ LET s == RoundStart(rnd)
                Swap(v, i) == IF SeqLt(v[i], v[i + 1]) THEN v ELSE [v EXCEPT ![i] = v[i + 1], ![i + 1] = v[i]]
                RECURSIVE Pass(_, _)
                Pass(v, i) == IF i + 1 > NDig THEN v ELSE Pass(Swap(v, i), i + 2)
            IN /\ hs' = Pass(hs, s + 1)
               /\ rnd' = rnd + 1
               /\ pc' = IF rnd + 1 = NDig THEN "egress" ELSE "round"
               /\ UNCHANGED <<inp, ok, honest, wv, idx>>

Egress == /\ pc = "egress"
          /\ hs' = IF NDig <= 1 THEN hs
                   ELSE [k \in 1 .. NDig |-> [j \in 1 .. LimbsPer |-> (hs[k][2 * j - 1] * Half + hs[k][2 * j]) % P]]
          /\ pc' = "done" /\ UNCHANGED <<inp, ok, honest, wv, rnd, idx>>

Done == pc \in {"done", "rejected"} /\ UNCHANGED vars

Next == Start \/ SplitBits \/ CmpBits \/ SplitCanon \/ Wrap1 \/ Wrap2 \/ WrapConnect \/ HiLt \/ LoLt
        \/ HiEq \/ Combine \/ Enforce \/ U32 \/ Eq \/ SortStart \/ Ingress \/ Round \/ Egress \/ Done
Spec == Init /\ [][Next]_vars

\* ------------------------------------------------------------------ properties
Accepted == pc = "done" /\ ok

(* C30 *)
LtSound == (Accepted /\ inp.g = "lt") =>
              /\ (inp.w < W => inp.x < 2^inp.w)
              /\ wv.out = B(inp.c < inp.x)
LtComplete == (pc = "rejected" /\ honest /\ inp.g = "lt") => (inp.w < W /\ inp.x >= 2^inp.w)
EnfSound == (Accepted /\ inp.g = "enf") => inp.x < inp.c
EnfComplete == (pc = "rejected" /\ honest /\ inp.g = "enf") => ~(inp.x < inp.c)
U32Contract == /\ (Accepted /\ inp.g = "u32") => wv.out = B(inp.c < inp.x)
               /\ (pc = "rejected" /\ inp.g = "u32") => ~honest
EqContract == /\ (Accepted /\ inp.g = "eq") => wv.out = B(inp.c = inp.x)
              /\ (pc = "rejected" /\ inp.g = "eq") => ~honest

(* C31 *)
IsSortedAsc(s) == \A i \in 1 .. Len(s) - 1 : ~SeqLt(s[i + 1], s[i])
Count(s, e) == Cardinality({i \in 1 .. Len(s) : s[i] = e})
IsPermOf(s, t) == Len(s) = Len(t) /\ \A i \in 1 .. Len(t) : Count(s, t[i]) = Count(t, t[i])
SortSound == (Accepted /\ inp.g = "sort") => (IsPermOf(hs, inp.d) /\ IsSortedAsc(hs))
SortComplete == (pc = "rejected" /\ inp.g = "sort") => ~honest

(* C10, gadget half: the output is a function of the inputs - implied by LtSound/SortSound, since
   the right-hand sides mention no witness wire; stated separately for the record *)
NoWitnessFreedom == LtSound /\ SortSound /\ U32Contract /\ EqContract

GadgetInv == LtSound /\ LtComplete /\ EnfSound /\ EnfComplete /\ U32Contract /\ EqContract
             /\ SortSound /\ SortComplete
=============================================================================
