---------------------------- MODULE GadgetsTrace ----------------------------
(* Trace validation for the gadgets at the PRODUCTION field (K = 32): every recorded evaluation of
   the real gadget circuits (honest witness or an override of some hint generator, decided by the
   real prover + verifier) must satisfy the same properties Gadgets.tla proves of the model:
       LtSound / LtComplete / EnfSound / EnfComplete / SortSound / SortComplete.
   Field elements are 4 big-endian 16-bit limbs (TLC integers are 32-bit), digests 16 limbs. *)
EXTENDS Naturals, Sequences, FiniteSets, TLC, Json, IOUtils

Rec == ndJsonDeserialize(IOEnv.TRACE)
VARIABLE l

RECURSIVE SeqLt(_, _)
SeqLt(a, b) == IF a = <<>> THEN FALSE
               ELSE IF a[1] # b[1] THEN a[1] < b[1] ELSE SeqLt(Tail(a), Tail(b))

\* x < 2^w for x = <<l1,l2,l3,l4>> (l1 most significant), 0 < w <= 64
BelowPow2(x, w) ==
  \A j \in 1 .. 4 :
     LET base == 64 - 16 * j IN          \* limb j covers bits base .. base+15
       IF w <= base THEN x[j] = 0
       ELSE IF w >= base + 16 THEN TRUE
       ELSE x[j] < 2^(w - base)
B(b) == IF b THEN 1 ELSE 0

LtSound(e) == e.acc => ((e.w < 64 => BelowPow2(e.x, e.w)) /\ e.out = B(SeqLt(e.c, e.x)))
LtComplete(e) == (e.honest /\ ~e.acc) => (e.w < 64 /\ ~BelowPow2(e.x, e.w))
EnfSound(e) == e.acc => SeqLt(e.x, e.c)
EnfComplete(e) == (e.honest /\ ~e.acc) => ~SeqLt(e.x, e.c)

IsSortedAsc(s) == \A i \in 1 .. Len(s) - 1 : ~SeqLt(s[i + 1], s[i])
Count(s, v) == Cardinality({i \in 1 .. Len(s) : s[i] = v})
IsPermOf(s, t) == Len(s) = Len(t) /\ \A i \in 1 .. Len(t) : Count(s, t[i]) = Count(t, t[i])
SortSound(e) == e.acc => (IsPermOf(e.sorted, e.d) /\ IsSortedAsc(e.sorted))
SortComplete(e) == e.honest => e.acc

\* the builder may refuse parameters only when the constant does not fit the width
RefusedOk(e) == e.refused => (e.w < 64 /\ ~BelowPow2(IF e.g = "enf" THEN e.c ELSE e.c, e.w))

EventOk(e) ==
  CASE e.g = "lt"   -> IF e.refused THEN RefusedOk(e) ELSE LtSound(e) /\ LtComplete(e)
    [] e.g = "enf"  -> IF e.refused THEN TRUE ELSE EnfSound(e) /\ EnfComplete(e)
    [] e.g = "sort" -> SortSound(e) /\ SortComplete(e)

TraceInit == l = 1
TraceNext == l <= Len(Rec) /\ EventOk(Rec[l]) /\ l' = l + 1
TraceSpec == TraceInit /\ [][TraceNext]_l

TraceAccepted ==
    LET d == TLCGet("stats").diameter IN
    IF d = Len(Rec) + 1 THEN PrintT(<<"TRACEOK", ToJson([events |-> Len(Rec)])>>)
    ELSE /\ PrintT(<<"TRACEFAIL", ToJson([matched |-> d - 1, first_unmatched |-> Rec[d]])>>)
         /\ FALSE
=============================================================================
