-------------------------- MODULE GoldilocksLemmas --------------------------
(* Unbounded (not model-checked) lemmas at PRODUCTION constants behind the gadget models, which TLC explores
   over the miniature fields P(2) = 13 and P(4) = 241 only.  Proved by TLAPS (SMT back end). *)
EXTENDS Integers, TLAPS

B == 4294967296                    \* 2^32
P == B * B - B + 1                \* 2^64 - 2^32 + 1 (written through B: the literal exceeds the prover's native integers)

(* split_canonical_u32_halves: x = lo + 2^32 hi with 32-bit halves and the wrap-around exclusion
   (hi = 2^32 - 1  =>  lo = 0).  The split of a field element is UNIQUE: no second witness (alias x + p). *)
Canon(lo, hi) == /\ lo \in 0 .. B - 1 /\ hi \in 0 .. B - 1 /\ (hi = B - 1 => lo = 0)

THEOREM CanonicalSplitUnique ==
  \A lo, hi, lo2, hi2 \in Int :
     (Canon(lo, hi) /\ Canon(lo2, hi2) /\ \E k \in {-1, 0, 1} : lo + B * hi = lo2 + B * hi2 + k * P)
        => (lo = lo2 /\ hi = hi2)
  BY SMT DEF Canon, P, B

(* every canonical field element has a canonical split (completeness) *)
THEOREM CanonicalSplitExists ==
  \A x \in 0 .. P - 1 : \E lo, hi \in Int : Canon(lo, hi) /\ x = lo + B * hi
  <1> TAKE x \in 0 .. P - 1
  <1> DEFINE hi == x \div B
  <1> DEFINE lo == x % B
  <1>0. x \in Int /\ x >= 0 BY SMT DEF P, B
  <1>1. x = lo + B * hi /\ lo \in 0 .. B - 1 BY <1>0, Z3 DEF B, lo, hi
  <1>2. hi \in 0 .. B - 1 BY SMT DEF B, P
  <1>3. hi = B - 1 => lo = 0 BY <1>1, SMT DEF B, P
  <1> QED BY <1>1, <1>2, <1>3 DEF Canon

(* the split value never wraps: lo + 2^32 hi < p for a canonical pair, so the integer value IS the field value *)
THEOREM CanonicalSplitBelowP ==
  \A lo, hi \in Int : Canon(lo, hi) => lo + B * hi < P
  BY SMT DEF Canon, P, B

(* u32_lt via the borrow bit: for 32-bit a, b the field element a - b + 2^32 splits with hi = 1 iff a >= b *)
THEOREM LtBorrow ==
  \A a, b \in 0 .. B - 1 : LET d == a - b + B IN (d \div B = 1) <=> (a >= b)
  BY SMT DEF B

(* u64 comparison through 32-bit halves (u64_lt_const): lexicographic order on (hi, lo) is the numeric order *)
THEOREM HalvesOrder ==
  \A alo, ahi, clo, chi \in 0 .. B - 1 :
     (ahi < chi \/ (ahi = chi /\ alo < clo)) <=> (alo + B * ahi < clo + B * chi)
  BY SMT DEF B

(* grouped exit sums: at most 2 * 64 slots of 32-bit amounts never wrap in the field, so the circuit's running sum is
   the integer sum and its 32-bit range check means what it says *)
THEOREM SumsDoNotWrap ==
  \A s \in Int : (0 <= s /\ s <= 128 * (B - 1)) => s < P
  BY SMT DEF P, B

(* fee rule: both sides of  (out1 + out2) * 10000 <= input * (10000 - fee)  stay below p for 32-bit amounts *)
THEOREM FeeSidesDoNotWrap ==
  \A o1, o2, inp \in 0 .. B - 1 : \A fee \in 0 .. 10000 :
      (o1 + o2) * 10000 < P /\ inp * (10000 - fee) < P /\ inp * (10000 - fee) >= 0
  <1> TAKE o1, o2, inp \in 0 .. B - 1
  <1> TAKE fee \in 0 .. 10000
  <1>1. (o1 + o2) * 10000 < P BY SMT DEF P, B
  <1>2. 10000 - fee \in 0 .. 10000 BY SMT
  <1>3. inp * (10000 - fee) <= inp * 10000 /\ inp * (10000 - fee) >= 0 BY <1>2, SMT DEF B
  <1>4. inp * 10000 < P BY SMT DEF P, B
  <1>5. inp * (10000 - fee) \in Int /\ inp * 10000 \in Int BY <1>2, SMT DEF B
  <1>6. inp * (10000 - fee) < P BY <1>3, <1>4, <1>5, SMT DEF P, B
  <1> QED BY <1>1, <1>3, <1>6
=============================================================================
