------------------------------ MODULE JsonCaps ------------------------------
(* Transfer-proof JSON parsing (C35).

   A document is described by what the parser's guards read:
     rawOver   the raw text is longer than RawCap bytes (padding with JSON whitespace
               changes the raw length and nothing else)
     shape     "ok" | "truncated" | "wrongtype" | "missing"   (malformed structure)
     root      decoded length of state_root
     nodes     number of storage-proof nodes, each of decoded length nodeLen
     idx       number of indices
     escaped   strings written with \u00XX escapes (raw longer than decoded)
     extra     an unknown extra field is present
     mb        strings are made of multi-byte characters (the caps count BYTES; a cap may fall inside a character)

   ParseVerdict  is `TransferProofJson::from_json_str` as the guard sequence the code
                 runs: raw cap first, then the bounded visitors in field order.
   ValidateVerdict is the standalone `validate()` on the decoded value.            *)
EXTENDS Naturals, Sequences, FiniteSets, TLC

CONSTANTS RawCap, RootCap, NodesCap, NodeLenCap, TotalCap, IdxCap,
          GRoot, GNodes, GNodeLen, GIdx

Docs == [rawOver : BOOLEAN, shape : {"ok", "truncated", "wrongtype", "missing"},
         root : GRoot, nodes : GNodes, nodeLen : GNodeLen, idx : GIdx,
         escaped : BOOLEAN, extra : BOOLEAN, mb : BOOLEAN]

Total(d) == d.nodes * d.nodeLen

\* the caps as the property states them
OverAnyCap(d) ==
  \/ d.rawOver
  \/ d.root > RootCap
  \/ d.nodes > NodesCap
  \/ (d.nodes > 0 /\ d.nodeLen > NodeLenCap)
  \/ Total(d) > TotalCap
  \/ d.idx > IdxCap

\* from_json_str: guards in code order (fields are visited in document order:
\* transfer_count, state_root, storage_proof, indices)
ParseGuards(d) == <<
  <<"raw_cap",    ~d.rawOver>>,
  <<"syntax",     d.shape = "ok">>,
  <<"state_root", d.root <= RootCap>>,
  <<"node_len",   d.nodes = 0 \/ d.nodeLen <= NodeLenCap>>,
  <<"node_total_or_count", Total(d) <= TotalCap /\ d.nodes <= NodesCap>>,
  <<"indices",    d.idx <= IdxCap>> >>

FirstFail(g) ==
  LET bad == {i \in 1..Len(g) : ~g[i][2]}
  IN IF bad = {} THEN "ok" ELSE g[CHOOSE i \in bad : \A j \in bad : i <= j][1]

ParseVerdict(d) == FirstFail(ParseGuards(d))
Accepted(d) == ParseVerdict(d) = "ok"

\* validate(): guards in code order, on the decoded value
ValidateGuards(d) == <<
  <<"state_root", d.root <= RootCap>>,
  <<"node_count", d.nodes <= NodesCap>>,
  <<"node_len",   d.nodes = 0 \/ d.nodeLen <= NodeLenCap>>,
  <<"node_total", Total(d) <= TotalCap>>,
  <<"indices",    d.idx <= IdxCap>> >>
ValidateOk(d) == FirstFail(ValidateGuards(d)) = "ok"

VARIABLE d
Init == d \in Docs
Next == UNCHANGED d
Spec == Init /\ [][Next]_d

(* C35 *)
OverCapRejected == OverAnyCap(d) => ~Accepted(d)
RawCapFirst == d.rawOver => ParseVerdict(d) = "raw_cap"
AcceptedValidates == Accepted(d) => ValidateOk(d)
\* neither escapes nor unknown fields change the verdict
ExactOnWellFormed == (d.shape = "ok" /\ ~OverAnyCap(d)) => Accepted(d)
C35Inv == OverCapRejected /\ RawCapFirst /\ AcceptedValidates /\ ExactOnWellFormed
=============================================================================
