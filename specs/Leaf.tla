-------------------------------- MODULE Leaf --------------------------------
(* The leaf (spend) circuit - wormhole/circuit/src/{circuit.rs, nullifier.rs, unspendable_account.rs,
   zk_merkle_proof.rs, block_header/} - as a constraint program over SYMBOLIC wire values.

   Every input target of the real circuit is a wire the prover chooses freely, per fragment copy:
     nullifier.{hash (public), secret, count}      account.{id, secret}
     tree.{root, depth, positions, is_not_dummy, leaf.{to, count, amounts...}}
     header.{block_hash (public), tree_root, number (public), rest}
   Hashes are injective constructors (collision-freeness is the modelling assumption):
     Acct(s) = H(H(wormhole-salt || s))      Null(s, c) = H(H(nullifier-salt || s || c))
     LeafHash(to, c, amt) = H(to || c || asset || input)
     Fold(h, d)  = the 4-ary climb of d levels from h along the witness's siblings/positions
     BlockHash(hdr) = H(parent || number || state root || extrinsics root || tree root || digest)
   The arithmetic fragment (range checks, fee inequality) is summarised by one wire `arith`
   ("ok" iff all 32-bit range checks and the fee rule hold); it is modelled bit-exactly in LeafFee.tla.

   One action per constraint group of the code; a failed constraint abandons the witness.
   Gadgets / is_equal are used by the contracts of Gadgets.tla.                                    *)
EXTENDS Naturals, Sequences, FiniteSets, TLC

CONSTANTS MAXD,           \* MAX_DEPTH (16 in production; 2 or 3 here)
          MaxDev,         \* witnesses differing from an honest one on at most MaxDev wires
          \* spec mutants (vacuity control); all TRUE = the code as written
          ShareSecret, SentinelNeedsOutputs, ConnectDummyFlag, GateRootByFlag

Secrets == {"s1", "s2"}
Counts == {"c1", "c2"}
Acct(s) == <<"A", s>>
Null(s, c) == <<"N", s, c>>
LeafHash(to, c) == <<"L", to, c>>
Fold(h, d) == <<"R", h, d>>
BlockHash(root, rest) == <<"B", root, rest>>
ZeroD == <<"zero">>

AcctVals == {Acct(s) : s \in Secrets} \cup {<<"afx">>}
NullVals == {Null(s, c) : s \in Secrets, c \in Counts} \cup {<<"nfx">>}
DepthVals == 0 .. MAXD + 2 \cup {32}           \* 32 = 2^5: outside the 5-bit guard
PosVals == {"ok", "badActive", "badInactive"}  \* some position > 3 on an active / an inactive level

\* a witness: one value per input wire
Wires == {"nsec", "asec", "ncnt", "lcnt", "aid", "lto", "nhash", "arith", "depth", "pos", "root", "troot",
          "bhash", "hrest", "o1z", "o2z", "flag"}

\* honest witnesses: a real spend and the dummy sentinel
HonestReal(d) ==
  [nsec |-> "s1", asec |-> "s1", ncnt |-> "c1", lcnt |-> "c1", aid |-> Acct("s1"), lto |-> Acct("s1"),
   nhash |-> Null("s1", "c1"), arith |-> "ok", depth |-> d, pos |-> "ok",
   root |-> Fold(LeafHash(Acct("s1"), "c1"), d), troot |-> Fold(LeafHash(Acct("s1"), "c1"), d),
   bhash |-> BlockHash(Fold(LeafHash(Acct("s1"), "c1"), d), "h1"), hrest |-> "h1",
   o1z |-> FALSE, o2z |-> TRUE, flag |-> 1]
\* the dummy: zero block hash, zero outputs, everything else arbitrary (here: unrelated junk)
HonestDummy ==
  [nsec |-> "s1", asec |-> "s1", ncnt |-> "c1", lcnt |-> "c1", aid |-> Acct("s1"), lto |-> Acct("s1"),
   nhash |-> <<"nfx">>, arith |-> "ok", depth |-> 0, pos |-> "ok", root |-> <<"rfx">>, troot |-> <<"rfx2">>,
   bhash |-> ZeroD, hrest |-> "h1", o1z |-> TRUE, o2z |-> TRUE, flag |-> 0]

Alt(w, x) ==
  CASE x \in {"nsec", "asec"} -> Secrets
    [] x \in {"ncnt", "lcnt"} -> Counts
    [] x \in {"aid", "lto"} -> AcctVals
    [] x = "nhash" -> NullVals
    [] x = "arith" -> {"ok", "bad"}
    [] x = "depth" -> DepthVals
    [] x = "pos" -> PosVals
    [] x = "root" -> {<<"rfx">>, <<"rfx2">>} \cup {Fold(LeafHash(t, c), d) : t \in AcctVals, c \in Counts, d \in 0 .. MAXD}
    [] x = "troot" -> {<<"rfx">>, <<"rfx2">>} \cup {Fold(LeafHash(t, c), d) : t \in AcctVals, c \in Counts, d \in 0 .. MAXD}
    [] x = "bhash" -> {ZeroD, <<"bfx">>} \cup {BlockHash(r, h) : r \in {<<"rfx">>, <<"rfx2">>} \cup {Fold(LeafHash(t, c), d) : t \in AcctVals, c \in Counts, d \in 0 .. MAXD}, h \in {"h1", "h2"}}
    [] x = "hrest" -> {"h1", "h2"}
    [] x \in {"o1z", "o2z"} -> BOOLEAN
    [] x = "flag" -> {0, 1, 2}

VARIABLES w, base, devs, pc, ok
vars == <<w, base, devs, pc, ok>>

\* witnesses are built from an honest one by changing one wire per step (TLC shares prefixes)
Init == /\ \/ \E d \in 0 .. MAXD : w = HonestReal(d) /\ base = "real"
           \/ w = HonestDummy /\ base = "dummy"
        /\ devs = {} /\ pc = "mutate" /\ ok = TRUE
Mutate == /\ pc = "mutate" /\ Cardinality(devs) < MaxDev
          /\ \E x \in Wires \ devs : \E v \in Alt(w, x) \ {w[x]} :
                w' = [w EXCEPT ![x] = v] /\ devs' = devs \cup {x}
          /\ UNCHANGED <<base, pc, ok>>
Freeze == pc = "mutate" /\ pc' = "account" /\ UNCHANGED <<w, base, devs, ok>>

Step(next, c) == /\ ok' = c /\ pc' = (IF c THEN next ELSE "rejected") /\ UNCHANGED <<w, base, devs>>

\* UnspendableAccount::circuit - unconditional: id = H(H(salt || secret))
Account == pc = "account" /\ Step("arith", w.aid = Acct(w.asec))
\* ZkMerkleProofData::circuit - 32-bit range checks and the fee rule (LeafFee.tla), for dummies too
Arith == pc = "arith" /\ Step("depth", w.arith = "ok")
\* enforce_target_less_than_const(depth, MAX_DEPTH + 1, 5 bits)
Depth == pc = "depth" /\ Step("positions", w.depth \in 0 .. MAXD)
\* range_check(position, 2) on EVERY level, active or not
Positions == pc = "positions" /\ Step("rootbind", w.pos = "ok")
\* (current - root) * is_not_dummy = 0, with the fragment's own flag wire
Climb == Fold(LeafHash(w.lto, w.lcnt), w.depth)
RootBind == pc = "rootbind" /\ Step("shared", (GateRootByFlag /\ w.flag = 0) \/ Climb = w.root)
\* connect_shared_targets: secret, count, recipient shared between fragments
Shared == pc = "shared" /\ Step("dummyflag", (ShareSecret => w.nsec = w.asec) /\ w.ncnt = w.lcnt /\ w.aid = w.lto)
\* is_dummy = (block hash = 0) AND (out1 = 0) AND (out2 = 0); is_not_dummy = 1 - is_dummy; connected to the flag wire
Sentinel == w.bhash = ZeroD /\ (SentinelNeedsOutputs => (w.o1z /\ w.o2z))
Ind == IF Sentinel THEN 0 ELSE 1
DummyFlag == pc = "dummyflag" /\ Step("nullbind", w.flag \in {0, 1} /\ (ConnectDummyFlag => w.flag = Ind))
\* Nullifier::conditional_hash_binding
NullBind == pc = "nullbind" /\ Step("hashbind", Ind = 0 \/ w.nhash = Null(w.nsec, w.ncnt))
\* BlockHeader::conditional_block_hash_binding
HashBind == pc = "hashbind" /\ Step("treebind", Ind = 0 \/ w.bhash = BlockHash(w.troot, w.hrest))
\* (header.tree_root - proof.root) * is_not_dummy = 0
TreeBind == pc = "treebind" /\ Step("done", Ind = 0 \/ w.troot = w.root)
Done == pc \in {"done", "rejected"} /\ UNCHANGED vars

Next == Mutate \/ Freeze \/ Account \/ Arith \/ Depth \/ Positions \/ RootBind \/ Shared \/ DummyFlag
        \/ NullBind \/ HashBind \/ TreeBind \/ Done
Spec == Init /\ [][Next]_vars

\* how many constraint groups a witness violates (all evaluated, regardless of where the program stopped):
\* witnesses with exactly one are the ones a single dropped constraint would let through
B01(b) == IF b THEN 0 ELSE 1
NumViolated ==
    B01(w.aid = Acct(w.asec)) + B01(w.arith = "ok") + B01(w.depth \in 0 .. MAXD) + B01(w.pos = "ok")
  + B01((w.flag = 0) \/ Climb = w.root) + B01(w.nsec = w.asec) + B01(w.ncnt = w.lcnt) + B01(w.aid = w.lto)
  + B01(w.flag = Ind) + B01(Ind = 0 \/ w.nhash = Null(w.nsec, w.ncnt))
  + B01(Ind = 0 \/ w.bhash = BlockHash(w.troot, w.hrest)) + B01(Ind = 0 \/ w.troot = w.root)

\* ------------------------------------------------------------------ properties (declarative, from the texts)
Accepted == pc = "done" /\ ok
\* the FULL dummy sentinel of the statement: zero block hash and both outputs zero
FullDummy == w.bhash = ZeroD /\ w.o1z /\ w.o2z

(* C01 *) RangeAndFeeAlways == Accepted => w.arith = "ok"
(* C02 *) NullifierBound == (Accepted /\ ~FullDummy) =>
             \E s \in Secrets, c \in Counts : w.nhash = Null(s, c) /\ w.lto = Acct(s) /\ w.lcnt = c
(* C03 *) HeaderBound == (Accepted /\ ~FullDummy) =>
             /\ w.bhash = BlockHash(w.troot, w.hrest)
             /\ w.depth \in 0 .. MAXD /\ w.pos = "ok"
             /\ w.troot = Fold(LeafHash(w.lto, w.lcnt), w.depth)
(* C04 *) BindingsSkippedOnlyForFullDummy ==
             (Accepted /\ ~(/\ w.nhash = Null(w.asec, w.lcnt) /\ w.lto = Acct(w.asec)
                            /\ w.bhash = BlockHash(w.troot, w.hrest) /\ w.troot = Climb)) => FullDummy
(* C04 *) NoFreedomOverDummyDecision == Accepted => w.flag = (IF FullDummy THEN 0 ELSE 1)
(* C05, model level *) HonestAccepted == (devs = {} /\ pc \in {"done", "rejected"}) => ok

LeafInv == RangeAndFeeAlways /\ NullifierBound /\ HeaderBound /\ BindingsSkippedOnlyForFullDummy
           /\ NoFreedomOverDummyDecision /\ HonestAccepted
=============================================================================
