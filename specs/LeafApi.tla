------------------------------- MODULE LeafApi -------------------------------
(* C05: the leaf PROVER boundary (wormhole/prover/src/lib.rs: WormholeProver::commit / prove,
   ZkMerkleProofData::try_from / fill_targets) as an ordered guard sequence over input classes, and the
   completeness statement: every well-formed honest input yields a proof the canonical pinned verifier
   accepts, whose 21 public inputs are the statement in the stated order and parse back to it.

   An input class:  depth (number of sibling levels) 0..MAXD+2,  plen = length of the positions vector
   relative to depth ("eq", "short", "long"),  pval = largest position value ("ok" = all in 0..3, "four",
   "max" = 255),  where = level of the offending position ("first", "last").                          *)
EXTENDS Naturals, TLC
CONSTANTS MAXD
Classes == [depth : 0 .. MAXD + 2, plen : {"eq", "short", "long"}, pval : {"ok", "four", "max"}, where : {"first", "last"}]
Feasible(c) == /\ (c.plen = "short" => c.depth >= 1)
               /\ (c.pval # "ok" => (c.depth >= 1 /\ (c.plen = "short" => c.depth >= 2)))
               /\ (c.pval = "ok" => c.where = "first")
               /\ (c.depth <= 1 => c.where = "first")

VARIABLES c, stage, verdict
vars == <<c, stage, verdict>>
Init == c \in {x \in Classes : Feasible(x)} /\ stage = "depth" /\ verdict = "none"
Fail(s) == stage' = "end" /\ verdict' = <<"error", s>> /\ UNCHANGED c
\* fill_witness: depth bound first
GDepth == stage = "depth" /\ IF c.depth > MAXD THEN Fail("depth") ELSE stage' = "lens" /\ UNCHANGED <<c, verdict>>
\* ZkMerkleProofData::try_from: positions and siblings have equal length
GLens == stage = "lens" /\ IF c.plen # "eq" THEN Fail("lengths") ELSE stage' = "positions" /\ UNCHANGED <<c, verdict>>
\* fill_targets: every position is 0..3
GPos == stage = "positions" /\ IF c.pval # "ok" THEN Fail("position") ELSE stage' = "prove" /\ UNCHANGED <<c, verdict>>
\* prove + pinned verifier + parsers: the honest witness satisfies the circuit (Leaf.tla: HonestAccepted)
Prove == stage = "prove" /\ stage' = "end" /\ verdict' = <<"proved", "statement">> /\ UNCHANGED c
Done == stage = "end" /\ UNCHANGED vars
Next == GDepth \/ GLens \/ GPos \/ Prove \/ Done
Spec == Init /\ [][Next]_vars

WellFormed == c.depth <= MAXD /\ c.plen = "eq" /\ c.pval = "ok"
(* C05 *) Exact == stage = "end" => ((verdict[1] = "proved") <=> WellFormed)
(* C05 *) NeverPanics == stage = "end" => verdict[1] \in {"proved", "error"}
ApiInv == Exact /\ NeverPanics
=============================================================================
