------------------------------- MODULE LeafFee -------------------------------
(* The arithmetic fragment of the leaf circuit (zk_merkle_proof.rs, ZkMerkleProofData::circuit), bit-exact
   over the Goldilocks family P(K) with miniature constants chosen so that the production margins carry over:

      production (K = 32)                         miniature (K = 4, P = 241)
      amounts, fee, asset, counts: 32 bits        AB  = 3 bits
      BPS = 10000                                 BPS = 3
      fee complement BPS - fee: 14 bits           CB  = 2 bits       (2^CB > BPS, as 2^14 > 10000)
      diff = in*(BPS-fee) - (o1+o2)*BPS: 48 bits  DB  = 5 bits       (max rhs < 2^DB; max lhs < P - 2^DB)

   Every wire is a field element chosen by the prover; range checks are split_le constraints
   (x < 2^n as an integer, unique because 2^n < P).  The property is the integer statement of C01.   *)
EXTENDS Naturals, TLC
CONSTANTS K, AB, BPS, CB, DB, Vals,
          RangeOut2, FeeBits     \* spec mutants: TRUE / CB = the code as written
Half == 2^K
P == Half * Half - Half + 1
FSub(a, b) == (a + P - b) % P
FMul(a, b) == (a * b) % P
FAdd(a, b) == (a + b) % P

VARIABLES inp, o1, o2, fee, pc, ok
vars == <<inp, o1, o2, fee, pc, ok>>
Init == inp \in Vals /\ o1 \in Vals /\ o2 \in Vals /\ fee \in Vals /\ pc = "range" /\ ok = TRUE
Step(next, c) == ok' = c /\ pc' = (IF c THEN next ELSE "rejected") /\ UNCHANGED <<inp, o1, o2, fee>>
Range == pc = "range" /\ Step("feecomp", inp < 2^AB /\ o1 < 2^AB /\ (RangeOut2 => o2 < 2^AB) /\ fee < 2^AB)
FeeComp == pc = "feecomp" /\ Step("diff", FSub(BPS, fee) < 2^FeeBits)
Diff == pc = "diff" /\ Step("done", FSub(FMul(inp, FSub(BPS, fee)), FMul(FAdd(o1, o2), BPS)) < 2^DB)
Done == pc \in {"done", "rejected"} /\ UNCHANGED vars
Next == Range \/ FeeComp \/ Diff \/ Done
Spec == Init /\ [][Next]_vars

IntOk == /\ inp < 2^AB /\ o1 < 2^AB /\ o2 < 2^AB /\ fee <= BPS
         /\ (o1 + o2) * BPS <= inp * (BPS - fee)
(* C01: satisfiable exactly for the integer-valid statements (soundness AND completeness) *)
FeeExact == pc \in {"done", "rejected"} => ((pc = "done") <=> IntOk)
=============================================================================
