------------------------------ MODULE LeafTrace ------------------------------
(* Trace validation of the REAL leaf circuit at production values.  One event = one evaluation of the
   repo's WormholeCircuit on a chosen assignment of ALL its input wires (honest witness, a target-level
   mutation of it, or an override of a hint generator), decided by the real prover and verifier.
   Field elements are 4 big-endian 16-bit limbs, digests 16 limbs.  The expectations exp_* are computed
   with Plonky2's native Poseidon2 from the witness wires of the *recipient side* (account secret, leaf
   count, header fields, siblings/positions), i.e. they are the existential witnesses of C02 / C03:
       exp_acct  = H(H(wormhole-salt || s))            exp_null = H(H(nullifier-salt || s || c))
       exp_bhash = H(parent || number || state || extrinsics || tree root || digest)
       exp_climb = 4-ary climb of min(depth,16) levels from H(to || c || asset || input)
   The same properties as Leaf.tla / LeafFee.tla are evaluated on every event.                        *)
EXTENDS Naturals, Sequences, FiniteSets, TLC, Json, IOUtils

Rec == ndJsonDeserialize(IOEnv.TRACE)
VARIABLE l
ZeroD == [k \in 1 .. 16 |-> 0]
ZeroF == <<0, 0, 0, 0>>
Lt32(x) == x[1] = 0 /\ x[2] = 0

\* (out1 + out2) * 10000 <= input * (10000 - fee) over the integers, for 32-bit operands and fee <= 10000
FeeRule(e) ==
  LET fc == 10000 - e.fee[4]
      ol0 == e.out1[4] + e.out2[4]
      ol == ol0 % 65536
      oh == e.out1[3] + e.out2[3] + (ol0 \div 65536)
      xl0 == e.input[4] * fc
      xl == xl0 % 65536
      xh == e.input[3] * fc + (xl0 \div 65536)
      yl0 == ol * 10000
      yl == yl0 % 65536
      yh == oh * 10000 + (yl0 \div 65536)
  IN yh < xh \/ (yh = xh /\ yl <= xl)

(* C01 *) RangeAndFee(e) ==
  /\ Lt32(e.asset) /\ Lt32(e.input) /\ Lt32(e.out1) /\ Lt32(e.out2) /\ Lt32(e.number)
  /\ Lt32(e.tc[1]) /\ Lt32(e.tc[2])
  /\ e.fee[1] = 0 /\ e.fee[2] = 0 /\ e.fee[3] = 0 /\ e.fee[4] <= 10000
  /\ FeeRule(e)
FullDummy(e) == e.bhash = ZeroD /\ e.out1 = ZeroF /\ e.out2 = ZeroF
(* C02 *) NullifierBound(e) == e.nhash = e.exp_null /\ e.lto = e.exp_acct
(* C03 *) HeaderBound(e) == /\ e.bhash = e.exp_bhash /\ e.troot = e.exp_climb
                            /\ e.depth[1] = 0 /\ e.depth[2] = 0 /\ e.depth[3] = 0 /\ e.depth[4] <= 16
                            /\ e.posmax <= 3

EventOk(e) ==
  /\ e.acc => RangeAndFee(e)                                           \* C01, for dummies too (C04)
  /\ (e.acc /\ ~FullDummy(e)) => (NullifierBound(e) /\ HeaderBound(e)) \* C02, C03; skipped only for the full sentinel (C04)
  /\ e.acc => e.pis_ok                                                 \* C05: the 21 public inputs are the statement, in order
  /\ e.honest => e.acc                                                 \* C05: completeness of the circuit on honest witnesses

TraceInit == l = 1
TraceNext == l <= Len(Rec) /\ EventOk(Rec[l]) /\ l' = l + 1
TraceSpec == TraceInit /\ [][TraceNext]_l
TraceAccepted ==
    LET d == TLCGet("stats").diameter IN
    IF d = Len(Rec) + 1 THEN PrintT(<<"TRACEOK", ToJson([events |-> Len(Rec)])>>)
    ELSE /\ PrintT(<<"TRACEFAIL", ToJson([matched |-> d - 1, first_unmatched |-> Rec[d]])>>)
         /\ FALSE
=============================================================================
