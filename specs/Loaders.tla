------------------------------ MODULE Loaders ------------------------------
(* Artifact loaders (C17).

   A loader is the sequence of actions the code runs over the artifacts ("slots") it is given:

     size    s   compare the size of file / slice s with the loader's cap     (over the cap: reject, nothing read)
     read    s   read file s into memory
     pin     s   bytes of s = bytes of a fresh rebuild of the canonical circuit for the configured shape
     hashpin s   keccak-256 of slice s = the pinned commitment of the canonical leaf artifact
     decode  s   deserialise s                                                (semantic loaders only)
     sempin  s   the decoded data = the canonical rebuild for the configured shape
     use     s   what happens afterwards (template validation, circuit build, ...: C16 / C29, passes here)

   A case gives ONE slot of the loader an artifact class (all other slots hold the canonical bytes):

     canonical | othershape (canonical for another shape: built for 2 leaves / 2 inner proofs) | otherconfig (the same
     circuit logic under another CircuitConfig) | truncated (last byte missing) | extended (one more byte) |
     flip_header / flip_middle / flip_tail (one bit flipped in that region) | atcap (zero-extended to exactly the
     cap) | capplus1 (cap + 1 bytes) | sparse (16 x cap, a sparse file / lazily mapped slice)

   or configures another shape than the one every artifact was built for (cfg = "other"), or plants extra
   `prover.bin`, `private_batch_prover.bin`, `public_batch_prover.bin` entries in the directory (extras).

   For the semantic pin the outcome of Plonky2's deserialiser on a non-canonical byte string of the same circuit
   (does it ignore the extra byte? normalise the flipped bit?) is not part of this model: `sem` is a free attribute of
   such a case ("decodes to the canonical data or not"), fixed at replay by decoding the concrete bytes.           *)
EXTENDS Naturals, Sequences, FiniteSets, TLC

VCap == 1048576          \* MAX_VERIFIER_ARTIFACT_BYTES (wormhole/verifier)
ACap == 67108864         \* MAX_ARTIFACT_FILE_BYTES (wormhole/aggregator)
Nominal == 1000          \* stands for the size of a canonical artifact (far below either cap)

LeafSlots == {"leaf_common", "leaf_verifier"}
PrivSlots == {"priv_common", "priv_verifier"}
PubSlots == {"pub_common", "pub_verifier"}
VerifierSlots == LeafSlots \cup PrivSlots \cup PubSlots
OtherSlots == {"leaf_dummy", "priv_dummy", "config"}
ProverSlots == {"prover", "private_batch_prover", "public_batch_prover"}

Loaders == {"wv_from_bytes", "wv_from_files", "leaf_pin_bytes", "priv_pin_bytes",
            "pb_from_bytes", "pb_from_files", "pb_from_dir", "pb_build",
            "pub_from_bytes", "pub_from_files", "pub_from_dir", "pub_build",
            "agg_new", "config_load"}

Kind(l) == CASE l \in {"wv_from_bytes", "leaf_pin_bytes", "priv_pin_bytes", "pb_from_bytes", "pub_from_bytes"} -> "bytes"
             [] l \in {"wv_from_files", "pb_from_files", "pub_from_files"} -> "files"
             [] OTHER -> "dir"

\* 0 = the loader has no size cap of its own (it compares slices it was handed)
Cap(l) == CASE l \in {"wv_from_bytes", "wv_from_files"} -> VCap
            [] l \in {"leaf_pin_bytes", "priv_pin_bytes", "pb_from_bytes", "pub_from_bytes"} -> 0
            [] OTHER -> ACap

\* the bound the code compares with (the property's bound is Cap)
CheckedCap(l) == Cap(l)

File(s) == << <<"size", s>>, <<"read", s>> >>
Act(op, s) == << <<op, s>> >>

WvBytes == << <<"size", "leaf_verifier">>, <<"size", "leaf_common">>, <<"hashpin", "leaf_verifier">>,
              <<"hashpin", "leaf_common">>, <<"use", "leaf_verifier">> >>
PbBytes == << <<"pin", "leaf_common">>, <<"pin", "leaf_verifier">>, <<"use", "leaf_dummy">> >>
PubBytes == << <<"pin", "priv_common">>, <<"pin", "priv_verifier">>, <<"use", "priv_dummy">> >>

(* the loaders, actions in code order *)
ProgOf(l) ==
  CASE l = "wv_from_bytes"  -> WvBytes
    [] l = "wv_from_files"  -> File("leaf_verifier") \o File("leaf_common") \o WvBytes
    [] l = "leaf_pin_bytes" -> << <<"pin", "leaf_common">>, <<"pin", "leaf_verifier">> >>
    [] l = "priv_pin_bytes" -> << <<"pin", "priv_common">>, <<"pin", "priv_verifier">> >>
    [] l = "pb_from_bytes"  -> PbBytes
    [] l = "pb_from_files"  -> File("leaf_common") \o File("leaf_verifier") \o File("leaf_dummy") \o PbBytes
    [] l = "pb_from_dir"    -> File("config") \o File("leaf_common") \o File("leaf_verifier") \o File("leaf_dummy")
                               \o PbBytes
    [] l = "pb_build"       -> File("leaf_common") \o File("leaf_verifier")
                               \o << <<"pin", "leaf_common">>, <<"pin", "leaf_verifier">> >>
                               \o File("leaf_dummy") \o Act("use", "leaf_dummy")
    [] l = "pub_from_bytes" -> PubBytes
    [] l = "pub_from_files" -> File("priv_common") \o File("priv_verifier") \o File("priv_dummy") \o PubBytes
    [] l = "pub_from_dir"   -> File("config") \o File("priv_common") \o File("priv_verifier") \o File("priv_dummy")
                               \o PubBytes
    [] l = "pub_build"      -> File("priv_common") \o File("priv_verifier")
                               \o << <<"pin", "priv_common">>, <<"pin", "priv_verifier">>, <<"use", "priv_verifier">> >>
    [] l = "agg_new"        -> File("config") \o File("priv_common") \o File("priv_verifier")
                               \o << <<"pin", "priv_common">>, <<"pin", "priv_verifier">> >>
                               \o File("pub_common") \o File("pub_verifier")
                               \o << <<"decode", "pub_common">>, <<"decode", "pub_verifier">>,
                                     <<"sempin", "pub_common">>, <<"sempin", "pub_verifier">> >>
                               \o File("priv_dummy") \o Act("use", "priv_dummy")
    [] l = "config_load"    -> File("config") \o Act("use", "config")

\* (a separate name so that a model can override Prog and still refer to the original)
Prog(l) == ProgOf(l)

SlotsOf(l) == {ProgOf(l)[i][2] : i \in DOMAIN ProgOf(l)}
SemSlots(l) == {ProgOf(l)[i][2] : i \in {j \in DOMAIN ProgOf(l) : ProgOf(l)[j][1] = "sempin"}}
TakesShape(l) == l \notin {"wv_from_bytes", "wv_from_files", "leaf_pin_bytes", "config_load"}

SameCircuitClasses == {"truncated", "extended", "flip_header", "flip_middle", "flip_tail"}
OverClasses == {"capplus1", "sparse"}

ClassesFor(l, s) ==
  IF s \in VerifierSlots
    THEN {"canonical", "otherconfig"} \cup SameCircuitClasses
         \cup (IF s \in LeafSlots THEN {} ELSE {"othershape"})
         \cup (IF Cap(l) > 0 THEN {"atcap"} \cup OverClasses ELSE {})
    ELSE IF Cap(l) > 0 THEN OverClasses ELSE {}

Size(k, cap) == CASE k = "truncated" -> Nominal - 1
                  [] k = "extended" -> Nominal + 1
                  [] k = "atcap" -> cap
                  [] k = "capplus1" -> cap + 1
                  [] k = "sparse" -> 16 * cap
                  [] OTHER -> Nominal

\* may the bytes of a case decode to the canonical data although they are not the canonical bytes?
SemFree(l, s, k) == s \in SemSlots(l) /\ k \in SameCircuitClasses \cup {"atcap"}

-----------------------------------------------------------------------------
VARIABLES loader, slot, class, sem, cfg, extras,      \* the case
          pc, verdict, stage, readSet, hashed         \* the run
vars == <<loader, slot, class, sem, cfg, extras, pc, verdict, stage, readSet, hashed>>

ClassOf(s) == IF s = slot THEN class ELSE "canonical"

\* canonical FOR THE CONFIGURED SHAPE: the leaf circuit has no shape
BytesCanonical(s) == ClassOf(s) = "canonical" /\ (cfg = "same" \/ s \in LeafSlots)
SemCanonical(s) == IF ClassOf(s) = "canonical" THEN cfg = "same"
                   ELSE IF s = slot /\ SemFree(loader, slot, class) THEN sem ELSE FALSE

\* the checks as the code performs them (the two predicates above are the property's)
PinPasses(s) == BytesCanonical(s)
SemPinPasses(s) == SemCanonical(s)

Init ==
  /\ loader \in Loaders
  /\ \/ /\ slot = "none" /\ class = "canonical" /\ sem = TRUE
        /\ cfg \in (IF TakesShape(loader) THEN {"same", "other"} ELSE {"same"})
        /\ extras \in (IF Kind(loader) = "dir" /\ cfg = "same" THEN BOOLEAN ELSE {FALSE})
     \/ /\ slot \in SlotsOf(loader)
        /\ class \in ClassesFor(loader, slot) \ {"canonical"}
        /\ sem \in (IF SemFree(loader, slot, class) THEN BOOLEAN ELSE {FALSE})
        /\ cfg = "same" /\ extras = FALSE
  /\ pc = 1 /\ verdict = "running" /\ stage = "-" /\ readSet = {} /\ hashed = {}

Reject(op) == verdict' = "rejected" /\ stage' = op /\ UNCHANGED pc

Step ==
  /\ verdict = "running"
  /\ LET a == Prog(loader)[pc]
         op == a[1]
         s == a[2]
         advance == IF pc = Len(Prog(loader))
                      THEN verdict' = "accepted" /\ stage' = "accept" /\ UNCHANGED pc
                      ELSE pc' = pc + 1 /\ UNCHANGED <<verdict, stage>>
     IN CASE op = "size" ->
               /\ IF Size(ClassOf(s), Cap(loader)) > CheckedCap(loader) THEN Reject("size") ELSE advance
               /\ UNCHANGED <<readSet, hashed>>
          [] op = "read" -> readSet' = readSet \cup {s} /\ advance /\ UNCHANGED hashed
          [] op = "pin" ->
               /\ IF PinPasses(s) THEN advance ELSE Reject("pin")
               /\ UNCHANGED <<readSet, hashed>>
          [] op = "hashpin" ->
               /\ hashed' = hashed \cup {s}
               /\ IF PinPasses(s) THEN advance ELSE Reject("pin")
               /\ UNCHANGED readSet
          [] op = "decode" -> advance /\ UNCHANGED <<readSet, hashed>>     \* a failing decode is folded into sempin
          [] op = "sempin" ->
               /\ IF SemPinPasses(s) THEN advance ELSE Reject("sempin")
               /\ UNCHANGED <<readSet, hashed>>
          [] op = "use" -> advance /\ UNCHANGED <<readSet, hashed>>
  /\ UNCHANGED <<loader, slot, class, sem, cfg, extras>>

Next == Step
Spec == Init /\ [][Next]_vars

Done == verdict # "running"
Oversized == slot # "none" /\ Cap(loader) > 0 /\ Size(class, Cap(loader)) > Cap(loader)

(* C17 *)
\* accepted => every verifier artifact the loader pins is canonical for the configured shape
\* (byte-identical for the leaf and the private batch, semantically identical for the public batch)
AcceptedOnlyCanonical ==
  verdict = "accepted" =>
    \A s \in SlotsOf(loader) \cap VerifierSlots :
      IF s \in SemSlots(loader) THEN SemCanonical(s) ELSE BytesCanonical(s)
\* over the cap => rejected at the size check: never read, never hashed
OversizedNeverRead ==
  (Done /\ Oversized) => verdict = "rejected" /\ stage = "size" /\ slot \notin readSet /\ slot \notin hashed
\* no loader has an action on a prover artifact, whatever lies in the directory
NoProverArtifact ==
  /\ \A i \in DOMAIN Prog(loader) : Prog(loader)[i][2] \notin ProverSlots
  /\ readSet \cap ProverSlots = {} /\ hashed \cap ProverSlots = {}
\* vacuity: the canonical set for the configured shape is accepted
CanonicalAccepted ==
  (Done /\ slot = "none" /\ cfg = "same") => verdict = "accepted"
C17Inv == AcceptedOnlyCanonical /\ OversizedNeverRead /\ NoProverArtifact /\ CanonicalAccepted
=============================================================================
