SPECIFICATION Spec
CONSTANTS
  Addrs = {"A", "B", "Z"}
INVARIANTS AggInv Emit
CHECK_DEADLOCK FALSE
