---- MODULE MC_Aggregator ----
EXTENDS Aggregator, Json
Emit == stage = "end" => PrintT(<<"REPLAY", ToJson([cfg |-> cfg, len |-> p.len, proved |-> p.provedUnder, exposes |-> p.exposes,
                                                     tampered |-> IF p.tampered THEN 1 ELSE 0, verdict |-> verdict])>>)
====
