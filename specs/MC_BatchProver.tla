--------------------------- MODULE MC_BatchProver ---------------------------
EXTENDS BatchProver, Json, IOUtils
MCAmtAdd(a, b) == a + b
MCAmtOk(a) == a < 4
MCDLt(a, b) == a < b
Env(n, d) == IF n \in DOMAIN IOEnv THEN IOEnv[n] ELSE d
MCN == atoi(Env("BPN", "2"))
MCLayer == Env("BPLAYER", "private")
NearK == atoi(Env("BPNEAR", "2"))
\* leaf statements near a base real statement (at most 2 fields differ), plus dummies
LeafFull == [asset : {0, 1}, out1 : {0, 1, 3}, out2 : {0, 3}, fee : {0, 1}, null : {1, 2}, exit1 : {0, 1}, exit2 : {0, 1}, block : {0, 1, 2}, number : {7}]
LeafBase == [asset |-> 0, out1 |-> 3, out2 |-> 0, fee |-> 0, null |-> 1, exit1 |-> 1, exit2 |-> 0, block |-> 1, number |-> 7]
LF == {"asset", "out1", "out2", "fee", "null", "exit1", "exit2", "block"}
LeafNear == {c \in LeafFull : Cardinality({f \in LF : c[f] # LeafBase[f]}) <= NearK}
LeafTemplate == [asset |-> 0, out1 |-> 0, out2 |-> 0, fee |-> 1, null |-> 0, exit1 |-> 0, exit2 |-> 0, block |-> 0, number |-> 0]
\* inner (private-batch) statements: only the header matters to the public preflight and circuit
InnerDomS == [asset : {0, 1}, fee : {0, 1}, block : {0, 1, 2}, number : {7},
              slots : IF NearK >= 2 THEN {<<<<3, 1>>, <<0, 0>>>>, <<<<0, 0>>, <<0, 0>>>>} ELSE {<<<<3, 1>>, <<0, 0>>>>},
              nulls : IF NearK >= 2 THEN {<<1>>, <<2>>} ELSE {<<1>>}]
InnerTemplate == [asset |-> 0, fee |-> 1, block |-> 0, number |-> 0, slots |-> <<<<0, 0>>, <<0, 0>>>>, nulls |-> <<9>>]
MCStmtDom == IF MCLayer = "private" THEN LeafNear ELSE InnerDomS
MCTemplate == IF MCLayer = "private" THEN LeafTemplate ELSE InnerTemplate
\* simulation: vector length and proofs drawn at random (mostly sound proofs, mostly near the base statement)
Pk(seq) == seq[RandomElement(1 .. Len(seq))]
RandProof(z) == [st |-> IF MCLayer = "private" THEN RandomElement(LeafNear) ELSE RandomElement(InnerDomS),
                 valid |-> Pk(<<TRUE, TRUE, TRUE, TRUE, TRUE, TRUE, TRUE, FALSE>>), lenok |-> Pk(<<TRUE, TRUE, TRUE, TRUE, TRUE, TRUE, TRUE, TRUE, TRUE, FALSE>>)]
SimInit == sup = <<>> /\ stage = "pick" /\ idx = 1 /\ verdict = <<"none">> /\ slots = <<>>
Pick == /\ stage = "pick"
        /\ LET k == Pk(<<0, 1, 1, 1, 2, 2, 2, 2, 2, 3>>) IN sup' = [i \in 1 .. (IF k > N + 1 THEN N + 1 ELSE k) |-> RandProof(i)]
        /\ stage' = "empty" /\ UNCHANGED <<idx, verdict, slots>>
SimSpec == SimInit /\ [][Pick \/ Next]_vars

Emit == Ended =>
  PrintT(<<"REPLAY", ToJson([layer |-> Layer, n |-> N, sup |-> sup, verdict |-> verdict[1], reason |-> verdict[2],
                             provable |-> IF K \in 1 .. N THEN (IF CircuitAccepts(Padded) THEN 1 ELSE 0) ELSE 2,
                             k |-> K,
                             \* the largest grouped exit sum of the supplied statements (private layer): 4 = exactly the range bound
                             maxsum |-> IF Layer = "private" /\ K >= 1
                                          THEN LET m == Masked(Stmts)
                                                   sums == {ExitSlot(m, j)[1] : j \in 1 .. 2 * K}
                                               IN CHOOSE x \in sums : \A y \in sums : y <= x
                                          ELSE 0])>>)
=============================================================================
