SPECIFICATION Spec
CONSTANTS
  N <- MCN
  Layer <- MCLayer
  StmtDom <- MCStmtDom
  Template <- MCTemplate
  SumGuard = FALSE
  ZeroD = 0
  ZeroF = 0
  AmtZero = 0
  AmtAdd <- MCAmtAdd
  AmtOk <- MCAmtOk
  DLt <- MCDLt
INVARIANTS ProverInv
CHECK_DEADLOCK FALSE
