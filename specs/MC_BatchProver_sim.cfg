SPECIFICATION SimSpec
CONSTANTS
  N <- MCN
  Layer <- MCLayer
  StmtDom <- MCStmtDom
  Template <- MCTemplate
  SumGuard = TRUE
  ZeroD = 0
  ZeroF = 0
  AmtZero = 0
  AmtAdd <- MCAmtAdd
  AmtOk <- MCAmtOk
  DLt <- MCDLt
INVARIANTS ProverInv Emit
CHECK_DEADLOCK FALSE
