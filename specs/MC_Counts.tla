---------------------------- MODULE MC_Counts ----------------------------
(* Model-checking instance of Counts.tla: every entry point x every pair of count tokens, the
   arithmetic operand grid, every valid config pair x file variant. *)
EXTENDS Counts, Json

CONSTANT Tier
Thorough == Tier = "thorough"

Tok(x) == IF x = HUGE THEN "HUGE" ELSE IF x = UMAX THEN "UMAX" ELSE IF x = BIG THEN "BIG"
          ELSE IF x = NONE THEN "NONE" ELSE ToString(x)

Extra == IF Thorough THEN {2, 63, 66, 1000} ELSE {}
T6 == {0, 1, 64, 65, HUGE, UMAX} \cup Extra
TD == {0, 1, 64, 65, BIG} \cup Extra   \* counts derived from the length of a synthesised vector

Cell(ep, a, b, key) == [kind |-> "ep", ep |-> ep, a |-> a, b |-> b, key |-> key,
                        m |-> <<>>, n |-> <<>>, mv |-> NONE, nv |-> NONE]

OneCount == {"validate_proof_count", "num_leaves_from_pi_len", "priv_circuit_new", "add_recursive_verifiers",
             "priv_prover_new", "priv_prover_new_from_bytes", "priv_prover_new_from_files",
             "priv_prover_new_from_binaries_dir", "gen_private_batch_bins", "load_canonical_pb_vd", "canonical_pb_vd"}
Derived == {"priv_parser_u64", "priv_parser_felt"}
TwoCounts == {"config_validate", "pub_parser", "pub_circuit_new", "pub_prover_new", "pub_prover_new_from_bytes",
              "pub_prover_new_from_files", "pub_prover_new_from_binaries_dir", "aggregator_with_limits", "pool_new",
              "gen_public_batch_bins", "canonical_pub_vd"}
OptionalSecond == {"config_new", "config_validate", "gen_all_bins"}

EpCells ==
       {Cell(e, a, NONE, "new") : e \in OneCount, a \in T6}
  \cup {Cell(e, a, NONE, "new") : e \in Derived, a \in TD}
  \cup {Cell(e, a, b, "new") : e \in TwoCounts, a \in T6, b \in T6}
  \cup {Cell(e, a, b, "new") : e \in OptionalSecond, a \in T6, b \in T6 \cup {NONE}}
  \cup {Cell("config_load", a, b, k) : a \in T6, b \in T6, k \in {"new", "legacy"}}
  \cup {Cell("config_load", a, NONE, "new") : a \in T6}

\* operands of the layout arithmetic: small values and the 64-bit boundaries
\* X = (2^64 - 1 - 12) \div 14: 12 + 14 X is the largest representable length
Small == {0, 1, 2, 64, 65}
Big == { <<0, 0, 0, 128>>,                               \* 2^31
         <<0, 0, 0, 0, 1>>,                              \* 2^32
         <<0, 0, 0, 0, 0, 1>>,                           \* 2^40
         <<0, 0, 0, 0, 0, 0, 0, 16>>,                    \* 2^60
         <<0, 0, 0, 0, 0, 0, 0, 32>>,                    \* 2^61: 10 * 2^61 wraps although 4 * 2^61 fits
         <<153, 153, 153, 153, 153, 153, 153, 25>>,      \* Y - 1 = 2^64 \div 10: 12 + 10 (Y-1) wraps although 10 (Y-1) fits
         <<154, 153, 153, 153, 153, 153, 153, 25>>,      \* Y: 10 Y wraps
         <<0, 0, 0, 0, 0, 0, 0, 64>>,                    \* 2^62
         <<0, 0, 0, 0, 0, 0, 0, 128>>,                   \* 2^63
         <<72, 146, 36, 73, 146, 36, 73, 18>>,           \* X
         <<73, 146, 36, 73, 146, 36, 73, 18>>,           \* X + 1
         <<255, 255, 255, 255, 255, 255, 255, 255>> }    \* 2^64 - 1
Operands == {[d |-> FromNat(k), v |-> k] : k \in Small} \cup {[d |-> x, v |-> NONE] : x \in Big}
ArithCells == {[kind |-> "arith", ep |-> "try_pi_len", a |-> 0, b |-> NONE, key |-> "new",
                m |-> x.d, n |-> y.d, mv |-> x.v, nv |-> y.v] : x \in Operands, y \in Operands}

CfgPairs == 1 .. MaxCount
CfgCells ==
       {[kind |-> "cfg", ep |-> "config_file", a |-> a, b |-> b, key |-> k, m |-> <<>>, n |-> <<>>, mv |-> NONE, nv |-> NONE] :
          a \in CfgPairs, b \in CfgPairs \cup {NONE}, k \in {"save", "new"}}
  \cup {[kind |-> "cfg", ep |-> "config_file", a |-> a, b |-> b, key |-> "legacy", m |-> <<>>, n |-> <<>>, mv |-> NONE, nv |-> NONE] :
          a \in CfgPairs, b \in CfgPairs}

Init == /\ cell \in EpCells \cup ArithCells \cup CfgCells
        /\ pc = IF cell.kind = "ep" THEN "entry" ELSE "static"
        /\ built = FALSE
Spec == Init /\ [][Next]_vars

B(x) == IF x THEN 1 ELSE 0
Emit ==
  CASE cell.kind = "ep" /\ Terminal ->
         PrintT(<<"REPLAY", ToJson([kind |-> "ep", ep |-> cell.ep, a |-> Tok(cell.a), b |-> Tok(cell.b), key |-> cell.key,
                                     reject |-> B(pc = "rejected")])>>)
    [] cell.kind = "arith" ->
         LET r == TryPiLen(cell.m, cell.n) IN
         PrintT(<<"REPLAY", ToJson([kind |-> "arith", m |-> cell.m, n |-> cell.n,
                                     exp |-> IF r = OVF THEN "overflow" ELSE "some",
                                     value |-> IF r = OVF THEN <<>> ELSE r])>>)
    [] cell.kind = "cfg" ->
         LET f == IF cell.key = "save" THEN Save([leaf |-> cell.a, pb |-> cell.b])
                  ELSE [leaf |-> cell.a, key |-> IF cell.key = "legacy" THEN LegacyKey ELSE CurrentKey, pb |-> cell.b]
             l == Load(f)
         IN PrintT(<<"REPLAY", ToJson([kind |-> "cfg", a |-> Tok(cell.a), b |-> Tok(cell.b), key |-> cell.key,
                                        ok |-> B(l.ok), la |-> Tok(l.leaf), lb |-> Tok(l.pb)])>>)
    [] OTHER -> TRUE

-----------------------------------------------------------------------------
(* broken variants of the specification: each must violate C29Inv (vacuity control) *)
MutCountGuard(x) == x >= 1 /\ x <= MaxCount + 1                      \* "> 65" instead of "> 64"
MutCheckedMul(x, y) ==                                               \* wrapping multiplication
  IF x = OVF \/ y = OVF THEN OVF ELSE LET p == Mul(x, y) IN Norm(SubSeq(p, 1, IF Len(p) < WordDigits THEN Len(p) ELSE WordDigits))
MutAcceptedKeys == {CurrentKey}                                      \* the legacy key dropped
=============================================================================
