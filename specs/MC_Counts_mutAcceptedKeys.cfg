SPECIFICATION Spec
CONSTANTS
  Tier = "quick"
  AcceptedKeys <- MutAcceptedKeys
INVARIANTS C29Inv
CHECK_DEADLOCK FALSE
