SPECIFICATION Spec
CONSTANTS
  Tier = "quick"
  CheckedMul <- MutCheckedMul
INVARIANTS C29Inv
CHECK_DEADLOCK FALSE
