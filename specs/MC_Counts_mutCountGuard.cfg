SPECIFICATION Spec
CONSTANTS
  Tier = "quick"
  CountGuard <- MutCountGuard
INVARIANTS C29Inv
CHECK_DEADLOCK FALSE
