SPECIFICATION Spec
CONSTANTS
  Tier = "quick"
INVARIANTS C29Inv Emit
CHECK_DEADLOCK FALSE
