SPECIFICATION Spec
CONSTANTS
  Tier = "thorough"
INVARIANTS C29Inv Emit
CHECK_DEADLOCK FALSE
