SPECIFICATION Spec
CONSTANTS
  Cap = 1048576
  Kinds <- MCKinds
  CasesOf <- MCCasesOf
  EdgeUniverse <- MCEdgeUniverse
  CompactUniverse <- MCCompactUniverse
  Terminator = TRUE
  AlignCheck = TRUE
  CanonCheck = TRUE
  SortChildren = TRUE
  StrictP = TRUE
  Limb32Incl = TRUE
  QuantIncl = TRUE
INVARIANTS C25Inv C26Inv Emit
CHECK_DEADLOCK FALSE
