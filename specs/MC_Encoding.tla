---------------------------- MODULE MC_Encoding ----------------------------
(* Bounded instance of Encoding.tla.  EMODE = c25 | c26 | <one kind> selects the kinds explored,
   EDEEP = 1 the thorough grids.  Emit prints one REPLAY line per case with the model's expectation
   (verdict, value); the harness replays each on the real functions.                           *)
EXTENDS Encoding, Json, IOUtils

Deep == "EDEEP" \in DOMAIN IOEnv /\ IOEnv.EDEEP = "1"
Which == IF "EMODE" \in DOMAIN IOEnv THEN IOEnv.EMODE ELSE "c25"
MCKinds == IF Which = "c25" THEN C25Kinds ELSE IF Which = "c26" THEN C26Kinds ELSE {Which}
BI(b) == IF b THEN 1 ELSE 0

(* ---- 64-bit landmarks (4 limbs, most significant first) ---- *)
U0 == <<0, 0, 0, 0>>
U1 == <<0, 0, 0, 1>>
U2 == <<0, 0, 0, 2>>
UM1 == <<0, 0, 65535, 65535>>            \* 2^32 - 1
UM == <<0, 1, 0, 0>>                     \* 2^32
UMp1 == <<0, 1, 0, 1>>                   \* 2^32 + 1
UPm1 == <<65535, 65535, 0, 0>>           \* p - 1
UP == <<65535, 65535, 0, 1>>             \* p
UPp1 == <<65535, 65535, 0, 2>>           \* p + 1
UMax == <<65535, 65535, 65535, 65535>>   \* 2^64 - 1

(* ---- edge encoding ---- *)
Alphabet == {0, 1, 255}
Strings(n) == UNION {[1 .. m -> Alphabet] : m \in 0 .. n}
MCEdgeUniverse == Strings(IF Deep THEN 6 ELSE 4)
EdgeLens == {0, 1, 3, 4, 5, 8, 1023, Cap - 5, Cap - 4, Cap - 3, Cap - 1, Cap, Cap + 1, Cap + 2, Cap + 3, Cap + 4,
             Cap + 5, 2 * Cap}
EdgeLenCases == [len : EdgeLens, fill : {0, 1, 90, 255}]

\* felts around the terminator patterns, 2^32 and p (raw u64 handed to from_noncanonical_u64)
FeltMarks ==
  {U0, U1, U2, <<0, 0, 0, 256>>, <<0, 0, 0, 257>>, <<0, 0, 0, 511>>, <<0, 0, 1, 0>>, <<0, 0, 1, 1>>,
   <<0, 0, 256, 0>>, <<0, 0, 256, 1>>, <<0, 0, 512, 0>>, UM1, UM, UPm1, UP, UPp1, <<65535, 65535, 0, 257>>, UMax}
FeltMarksFew == {U0, U1, <<0, 0, 0, 256>>, <<0, 0, 256, 0>>, UM1, UM, UPp1, UMax}
DecCases == UNION {[1 .. m -> FeltMarks] : m \in 0 .. 2}
            \cup [1 .. 3 -> IF Deep THEN FeltMarks ELSE FeltMarksFew]
DecLenCases ==
  [n : {1, 2, MaxFelts - 1, MaxFelts, MaxFelts + 1, MaxFelts + 2}, fit : BOOLEAN,
   last : {<<1, 0, 0, 0>>, <<90, 1, 0, 0>>, <<90, 90, 1, 0>>, <<90, 90, 90, 1>>, <<90, 90, 90, 90>>, <<0, 0, 0, 0>>,
           <<2, 0, 0, 0>>, <<1, 1, 0, 0>>, <<1, 0, 0, 2>>}]

(* ---- digests, integer limbs ---- *)
DigestMarks == IF Deep THEN {U0, U1, UM1, UM, UPm1, UP, UPp1, UMax} ELSE {U0, UM1, UPm1, UP, UMax}
DigestCases == [1 .. 4 -> DigestMarks]
LimbMarks == {U0, U1, UM1, UM, UMp1, UPm1, UP, UPp1, UMax}
LimbMarksFew == {U0, UM1, UM, UPm1, UPp1}
LimbCases == [1 .. 2 -> LimbMarks] \cup [1 .. 4 -> IF Deep THEN LimbMarks ELSE LimbMarksFew]
H16 == {0, 1, 65535}
IntCases == [1 .. 4 -> H16] \cup [1 .. 8 -> (IF Deep THEN H16 ELSE {0, 65535})]
            \cup {<<291, 17767, 35243, 52719>>, <<291, 17767, 35243, 52719, 65244, 47768, 30292, 12816>>}

(* ---- quantisation: amount = q * 10^10 + r ---- *)
W8(x) == Pad(x, 8)
QMax == <<0, 0, 28147, 32615, 24310, 60127, 23225, 41479>>     \* (2^128 - 1) div 10^10
QMaxM1 == <<0, 0, 28147, 32615, 24310, 60127, 23225, 41478>>
RMax == <<0, 0, 0, 0, 0, 0, 26980, 50175>>                     \* (2^128 - 1) mod 10^10
DM1 == <<0, 0, 0, 0, 0, 2, 21515, 58367>>                      \* 10^10 - 1
QuantCases ==
  [q : {W8(U0), W8(U1), W8(U2), W8(<<0, 0, 1, 0>>), W8(<<0, 0, 65535, 65534>>), W8(UM1), W8(UM), W8(UMp1),
        W8(<<0, 2, 0, 0>>), W8(UPm1), W8(UMax), <<0, 0, 0, 1, 0, 0, 0, 0>>, <<0, 0, 1, 0, 0, 0, 0, 0>>, QMaxM1},
   r : {W8(U0), W8(U1), W8(UM1), DM1}]
  \cup [q : {QMax}, r : {W8(U0), W8(U1), RMax}]

(* ---- compact encoding ---- *)
CompactLimbMarks == {U0, U1, UM1, UPm1, UP, UPp1, UMax}
CompactTails == {<<>>, <<0>>, <<1>>, <<0, 0, 0, 0, 0, 0, 0>>, <<255, 255, 255, 255, 255, 255, 255>>}
MCCompactUniverse ==
  {Flatten([i \in 1 .. Len(ls) |-> BytesOfLimb(ls[i])]) \o t :
     ls \in UNION {[1 .. m -> CompactLimbMarks] : m \in 0 .. 2}, t \in CompactTails}
CompactLenCases ==
  [len : {0, 1, 7, 8, 9, 120, 127, 128, 129, 136, Cap - 8, Cap - 1, Cap, Cap + 1, Cap + 7, Cap + 8}, canon : BOOLEAN]

(* ---- node hash: children as 4 limbs in memory order ---- *)
Ch(a, b) == <<a, U0, U0, b>>
ChildMarks ==
  {Ch(U0, U0), Ch(U1, U0), Ch(<<0, 0, 0, 256>>, U0), Ch(UPm1, U0), Ch(U0, UPm1),      \* canonical
   Ch(UP, U0), Ch(U0, UMax)}                                                      \* non-canonical
  \cup (IF Deep THEN {Ch(UM, U1), <<U0, UPp1, U0, U0>>, <<U1, U1, U0, U0>>, <<UM1, U0, UMax, UPm1>>} ELSE {})
NodeCases == [1 .. 4 -> ChildMarks]

MCCasesOf(kk) ==
  CASE kk = "edge"       -> MCEdgeUniverse
    [] kk = "edgelen"    -> EdgeLenCases
    [] kk = "dec"        -> DecCases
    [] kk = "declen"     -> DecLenCases
    [] kk = "digest"     -> DigestCases
    [] kk = "limbs"      -> LimbCases
    [] kk = "int"        -> IntCases
    [] kk = "fq"         -> LimbMarks
    [] kk = "quant"      -> QuantCases
    [] kk = "compact"    -> MCCompactUniverse
    [] kk = "compactlen" -> CompactLenCases
    [] kk = "node"       -> NodeCases

(* ---- one REPLAY line per case: the input and what the model expects of the real code ---- *)
EdgeLast(e) == EncodeFelts([i \in 1 .. e.len % 4 |-> e.fill])[1]
Case ==
  CASE k = "edge"    -> [x |-> c, ok |-> BI(EncodeOk(c)), felts |-> EncodeFelts(c)]
    [] k = "edgelen" -> [len |-> c.len, fill |-> c.fill, ok |-> BI(c.len <= Cap), nfelts |-> FeltCount(c.len),
                         last |-> EdgeLast(c)]
    [] k = "dec"     -> LET ok == DecodeVerdict(Shape(c)) = "ok"
                        IN [v |-> c, ok |-> BI(ok), verdict |-> DecodeVerdict(Shape(c)),
                            bytes |-> IF ok THEN DecodeBytes(c) ELSE <<>>]
    [] k = "declen"  -> LET ok == DecodeVerdict(c) = "ok"
                        IN [n |-> c.n, fit |-> BI(c.fit), last |-> c.last, ok |-> BI(ok), verdict |-> DecodeVerdict(c),
                            outlen |-> IF ok THEN DecodeLen(c) ELSE 0]
    [] k = "digest"  -> [d |-> c, ok |-> BI(DigestAccept(c)), felts |-> DigestFelts(c)]
    [] k = "limbs"   -> [f |-> c, ok |-> BI(LimbsAccept(c)), val |-> IF LimbsAccept(c) THEN LimbsValue(c) ELSE <<>>]
    [] k = "int"     -> [n |-> c, felts |-> IntToFelts(c)]
    [] k = "fq"      -> [f |-> c, ok |-> BI(LimbsAccept(<<c>>)),
                         val |-> IF LimbsAccept(<<c>>) THEN MulD(Pad(Canon(c), 8)) ELSE <<>>]
    [] k = "quant"   -> LET ok == QuantVerdict(c.q) = "ok"
                        IN [num |-> Tail(QuantNum(c)), ok |-> BI(ok), q |-> IF ok THEN SubSeq(c.q, 5, 8) ELSE <<>>,
                            back |-> IF ok THEN Tail(MulD(Pad(c.q, 9))) ELSE <<>>]
    [] k = "compact" -> [x |-> c, ok |-> BI(CompactVerdict(c) = "ok"), verdict |-> CompactVerdict(c),
                         felts |-> IF CompactVerdict(c) = "ok" THEN CompactFelts(c) ELSE <<>>]
    [] k = "compactlen" -> [len |-> c.len, canon |-> BI(c.canon), ok |-> BI(CompactValid(c.len, c.canon)),
                            verdict |-> FirstFail(CompactGuards(c.len, c.canon))]
    [] k = "node"    -> LET r == HashNode(c)
                        IN [ch |-> c, ok |-> BI(r.ok), sorted |-> SortCh(c),
                            pre |-> IF r.ok THEN r.h[2] ELSE <<>>]
Emit == PrintT(<<"REPLAY", ToJson([k |-> k, case |-> Case])>>)
=============================================================================
