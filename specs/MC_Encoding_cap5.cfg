SPECIFICATION Spec
CONSTANTS
  Cap = 5
  Kinds <- MCKinds
  CasesOf <- MCCasesOf
  EdgeUniverse <- MCEdgeUniverse
  CompactUniverse <- MCCompactUniverse
  Terminator = TRUE
  AlignCheck = TRUE
  CanonCheck = TRUE
  SortChildren = TRUE
  StrictP = TRUE
  Limb32Incl = TRUE
  QuantIncl = TRUE
INVARIANTS C25Inv C26Inv
CHECK_DEADLOCK FALSE
