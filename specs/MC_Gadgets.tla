----------------------------- MODULE MC_Gadgets -----------------------------
EXTENDS Gadgets, Json, IOUtils
\* which slice of the input space to explore comes from the environment (one module, several runs)
Mode == IF "GMODE" \in DOMAIN IOEnv THEN IOEnv.GMODE ELSE "lt"

Widths == 1 .. W
\* boundary constants for a width (used when the full range is too large)
Bnd(w) == {c \in {0, 1, 2^(w - 1) - 1, 2^(w - 1), 2^w - 2, 2^w - 1} : c >= 0 /\ c < 2^w}
ConstsLt(w) == IF K <= 2 THEN 0 .. 2^w - 1 ELSE Bnd(w)
\* constants are integers that fit the width; at full width that includes the non-field values P .. 2^W - 1
CanonConsts(w) == ConstsLt(w)
EnfConsts(w) == {c \in ConstsLt(w) : c + 1 < 2^W}      \* the bound c + 1 must itself be representable
MCLtInputs ==
  IF Mode = "lt" THEN
       UNION {{[g |-> "lt", w |-> w, c |-> c, x |-> x] : c \in CanonConsts(w), x \in El} : w \in Widths}
       \cup UNION {{[g |-> "enf", w |-> w, c |-> c + 1, x |-> x] : c \in EnfConsts(w), x \in El} : w \in Widths}
  ELSE IF Mode = "contracts" THEN
       {[g |-> "u32", w |-> 0, c |-> a, x |-> b] : a \in 0 .. Half - 1, b \in 0 .. Half - 1}
       \cup {[g |-> "eq", w |-> 0, c |-> a, x |-> b] : a \in El, b \in El}
  ELSE {}

\* sorter inputs
Limb == IF "GLIMBS" \in DOMAIN IOEnv /\ IOEnv.GLIMBS = "all" THEN El
        ELSE {0, 1, Half - 2, Half - 1, Half, P - 2, P - 1} \cap El
Dig(L) == [1 .. L -> Limb]
MCSortInputs ==
  IF Mode = "sort1" THEN UNION {[1 .. n -> Dig(1)] : n \in 1 .. 3}
  ELSE IF Mode = "sort2" THEN [1 .. 2 -> Dig(2)]
  ELSE IF Mode = "sort4" THEN [1 .. 4 -> [1 .. 1 -> {0, 1, Half - 1, P - 1}]]
  ELSE {}

Final == pc \in {"done", "rejected"}
\* one line per honest behaviour and per accepted adversarial behaviour
Emit == (Final /\ (honest \/ ok)) =>
  PrintT(<<"REPLAY", ToJson([g |-> inp.g,
                             w |-> IF inp.g = "sort" THEN 0 ELSE inp.w,
                             c |-> IF inp.g = "sort" THEN 0 ELSE inp.c,
                             x |-> IF inp.g = "sort" THEN 0 ELSE inp.x,
                             d |-> IF inp.g = "sort" THEN inp.d ELSE <<>>,
                             honest |-> B(honest), acc |-> B(pc = "done" /\ ok),
                             out |-> IF inp.g = "sort" THEN 0 ELSE wv.out,
                             sorted |-> IF inp.g = "sort" /\ pc = "done" THEN hs ELSE <<>>])>>)
=============================================================================
