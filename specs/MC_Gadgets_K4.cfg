SPECIFICATION Spec
CONSTANTS
  K = 4
  LtInputs <- MCLtInputs
  SortInputs <- MCSortInputs
  WrapExcluded = TRUE
  ParityRounds = TRUE
INVARIANTS GadgetInv Emit
CHECK_DEADLOCK FALSE
