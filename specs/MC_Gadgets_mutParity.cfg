SPECIFICATION Spec
CONSTANTS
  K = 2
  LtInputs <- MCLtInputs
  SortInputs <- MCSortInputs
  WrapExcluded = TRUE
  ParityRounds = FALSE
INVARIANTS GadgetInv
CHECK_DEADLOCK FALSE
