SPECIFICATION Spec
CONSTANTS
  K = 2
  LtInputs <- MCLtInputs
  SortInputs <- MCSortInputs
  WrapExcluded = FALSE
  ParityRounds = TRUE
INVARIANTS GadgetInv
CHECK_DEADLOCK FALSE
