SPECIFICATION Spec
CONSTANTS
  RawCap = 8388608
  RootCap = 64
  NodesCap = 1024
  NodeLenCap = 1048576
  TotalCap = 1048576
  IdxCap = 1024
  GRoot = {0, 2, 64, 65, 66}
  GNodes = {0, 1, 2, 1023, 1024, 1025}
  GNodeLen = {0, 2, 1022, 1024, 1026, 524288, 524290, 1048576, 1048578}
  GIdx = {0, 1, 1024, 1025}
INVARIANTS C35Inv Emit
CHECK_DEADLOCK FALSE
