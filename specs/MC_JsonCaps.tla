---------------------------- MODULE MC_JsonCaps ----------------------------
EXTENDS JsonCaps, Json
B(x) == IF x THEN 1 ELSE 0
\* documents that can be synthesised within the raw budget of the harness (decoded payload <= 3 MiB;
\* escaped payload is six times longer and must stay under the raw cap unless rawOver is the point)
Feasible == Total(d) <= 3 * 1048576 /\ (d.escaped => Total(d) + d.root <= 1048576 + 65)
Emit == Feasible =>
  PrintT(<<"REPLAY", ToJson([rawOver |-> B(d.rawOver), shape |-> d.shape, root |-> d.root, nodes |-> d.nodes,
                              nodeLen |-> d.nodeLen, idx |-> d.idx, escaped |-> B(d.escaped), extra |-> B(d.extra), mb |-> B(d.mb),
                              verdict |-> ParseVerdict(d), validate |-> B(ValidateOk(d))])>>)
=============================================================================
