------------------------------- MODULE MC_Leaf -------------------------------
EXTENDS Leaf, Json
B(b) == IF b THEN 1 ELSE 0
Final == pc \in {"done", "rejected"}
\* one line per explored witness: the wire assignment, which wires deviate, the model's verdict
Emit == Final =>
  PrintT(<<"REPLAY", ToJson([base |-> base, devs |-> devs, acc |-> B(pc = "done" /\ ok),
                             nsec |-> w.nsec, asec |-> w.asec, ncnt |-> w.ncnt, lcnt |-> w.lcnt,
                             aid |-> w.aid, lto |-> w.lto, nhash |-> w.nhash, arith |-> w.arith,
                             depth |-> w.depth, pos |-> w.pos, root |-> w.root, troot |-> w.troot,
                             bhash |-> w.bhash, hrest |-> w.hrest, o1z |-> B(w.o1z), o2z |-> B(w.o2z), flag |-> w.flag,
                             fulldummy |-> B(FullDummy), nviol |-> NumViolated])>>)
=============================================================================
