SPECIFICATION Spec
CONSTANTS
  MAXD = 16
INVARIANTS ApiInv Emit
CHECK_DEADLOCK FALSE
