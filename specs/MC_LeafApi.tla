---- MODULE MC_LeafApi ----
EXTENDS LeafApi, Json
Emit == stage = "end" => PrintT(<<"REPLAY", ToJson([depth |-> c.depth, plen |-> c.plen, pval |-> c.pval, where |-> c.where, verdict |-> verdict[1], reason |-> verdict[2]])>>)
====
