SPECIFICATION Spec
CONSTANTS
  K = 4
  AB = 3
  BPS = 3
  CB = 2
  DB = 5
  Vals <- MCVals
  RangeOut2 = TRUE
  FeeBits = 2
INVARIANT FeeExact
CHECK_DEADLOCK FALSE
