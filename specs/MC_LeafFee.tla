---- MODULE MC_LeafFee ----
EXTENDS LeafFee, IOUtils
\* every range-valid value, the first out-of-range ones, and the wrapped top of the field
MCVals == IF "FEEDOM" \in DOMAIN IOEnv /\ IOEnv.FEEDOM = "wide" THEN 0 .. 9 \cup {15, 16, 17} \cup (P - 12 .. P - 1)
          ELSE 0 .. 8 \cup {16} \cup (P - 5 .. P - 1)
====
