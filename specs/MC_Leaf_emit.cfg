SPECIFICATION Spec
CONSTANTS
  MAXD = 2
  MaxDev = 2
  ShareSecret = TRUE
  SentinelNeedsOutputs = TRUE
  ConnectDummyFlag = TRUE
  GateRootByFlag = TRUE
INVARIANTS LeafInv Emit
CHECK_DEADLOCK FALSE
