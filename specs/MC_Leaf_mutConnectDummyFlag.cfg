SPECIFICATION Spec
CONSTANTS
  MAXD = 2
  MaxDev = 3
  ShareSecret = TRUE
  SentinelNeedsOutputs = TRUE
  ConnectDummyFlag = FALSE
  GateRootByFlag = TRUE
INVARIANTS LeafInv
CHECK_DEADLOCK FALSE
