SPECIFICATION Spec
CONSTANTS
  MAXD = 2
  MaxDev = 3
  ShareSecret = TRUE
  SentinelNeedsOutputs = FALSE
  ConnectDummyFlag = TRUE
  GateRootByFlag = TRUE
INVARIANTS LeafInv
CHECK_DEADLOCK FALSE
