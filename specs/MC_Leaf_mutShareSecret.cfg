SPECIFICATION Spec
CONSTANTS
  MAXD = 2
  MaxDev = 3
  ShareSecret = FALSE
  SentinelNeedsOutputs = TRUE
  ConnectDummyFlag = TRUE
  GateRootByFlag = TRUE
INVARIANTS LeafInv
CHECK_DEADLOCK FALSE
