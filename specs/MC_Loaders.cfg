SPECIFICATION Spec
INVARIANTS C17Inv Emit
CHECK_DEADLOCK FALSE
