---------------------------- MODULE MC_Loaders ----------------------------
EXTENDS Loaders, Json

(* spec mutants (vacuity control): TLC must find a violation with each of them *)
\* the file is read first and measured afterwards
MutProgCapAfterRead(l) ==
  IF l = "wv_from_files"
    THEN << <<"read", "leaf_verifier">>, <<"size", "leaf_verifier">>, <<"read", "leaf_common">>,
            <<"size", "leaf_common">> >> \o WvBytes
    ELSE ProgOf(l)
\* a directory loader picks up the prover artifact lying next to the others
MutProgReadsProver(l) ==
  IF l = "pb_from_dir" THEN ProgOf(l) \o File("private_batch_prover") ELSE ProgOf(l)
\* the byte pin degenerates into a length comparison
MutPinLenOnly(s) == Size(ClassOf(s), Cap(loader)) = Nominal /\ ClassOf(s) \notin {"othershape", "otherconfig"}
\* the semantic pin ignores part of the data (here: whatever the flipped tail bit hits)
MutSemPinIgnoresTail(s) == SemCanonical(s) \/ ClassOf(s) = "flip_tail"
\* the size check compares with a wrong constant
MutCheckedCap(l) == 8 * Cap(l)

B(x) == IF x THEN 1 ELSE 0
Emit ==
  Done =>
    PrintT(<<"REPLAY", ToJson([loader |-> loader, kind |-> Kind(loader), cap |-> Cap(loader), slot |-> slot,
                               class |-> class, semfree |-> B(slot # "none" /\ SemFree(loader, slot, class)),
                               sem |-> B(sem), cfg |-> cfg, extras |-> B(extras),
                               verdict |-> verdict, stage |-> stage, read |-> readSet, hashed |-> hashed,
                               pinned |-> SlotsOf(loader) \cap VerifierSlots, slots |-> SlotsOf(loader)])>>)
=============================================================================
