SPECIFICATION Spec
CONSTANTS
  Prog <- MutProgCapAfterRead
INVARIANTS C17Inv
CHECK_DEADLOCK FALSE
