SPECIFICATION Spec
CONSTANTS
  PinPasses <- MutPinLenOnly
INVARIANTS C17Inv
CHECK_DEADLOCK FALSE
