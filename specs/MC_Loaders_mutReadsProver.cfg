SPECIFICATION Spec
CONSTANTS
  Prog <- MutProgReadsProver
INVARIANTS C17Inv
CHECK_DEADLOCK FALSE
