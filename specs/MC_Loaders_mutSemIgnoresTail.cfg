SPECIFICATION Spec
CONSTANTS
  SemPinPasses <- MutSemPinIgnoresTail
INVARIANTS C17Inv
CHECK_DEADLOCK FALSE
