SPECIFICATION Spec
CONSTANTS
  CheckedCap <- MutCheckedCap
INVARIANTS C17Inv
CHECK_DEADLOCK FALSE
