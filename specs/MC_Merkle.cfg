SPECIFICATION Spec
CONSTANTS
  MAXD = 16
INVARIANTS MerkleInv Emit
CHECK_DEADLOCK FALSE
