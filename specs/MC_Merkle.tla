---- MODULE MC_Merkle ----
EXTENDS Merkle, Json
B(b) == IF b THEN 1 ELSE 0
Emit == stage = "end" => PrintT(<<"REPLAY", ToJson([depth |-> c.depth, plen |-> c.plen, pval |-> c.pval, canon |-> c.canon, rootok |-> B(c.rootok),
                                                   verify |-> B(verdict), build |-> B(BuildSucceeds),
                                                   circuit |-> IF c.canon = "all" /\ c.plen = "eq" THEN B(CircuitAccepts) ELSE 2])>>)
====
