---------------------------- MODULE MC_Parsers ----------------------------
(* Model-checking instance of Parsers.tla: one initial state per input case.

   A case is built from a well-formed vector for given dimensions by at most Depth corruptions
   (length off a boundary, header constant, one or two positions put into another value class);
   Tier = "quick": Depth 1, "thorough": Depth 2 and the larger dimensions.                      *)
EXTENDS Parsers, Json

CONSTANT Tier
Thorough == Tier = "thorough"

HUGE == 2000000001     \* token for 2^40
UMAX == 2000000002     \* token for usize::MAX
Tok(x) == IF x = HUGE THEN "HUGE" ELSE IF x = UMAX THEN "UMAX" ELSE ToString(x)

Doms == {"u64", "felt"}
Classes(dom) == (IF dom = "u64" THEN U64Classes ELSE FeltClasses) \ {"ok"}
PairClasses(dom) == IF dom = "u64" THEN {"u32max", "two32", "p"} ELSE {"u32max", "two32", "nc"}

Num(x) == [c |-> "num", n |-> x]
HdrVariants(dom, right) ==
  {Num(x) : x \in ({right + 1, right + 2, 0} \cup (IF right >= 1 THEN {right - 1} ELSE {})) \ {right}}
  \cup {[c |-> k, n |-> right] : k \in (IF dom = "u64" THEN {"two32", "pm1", "p", "umax"} ELSE {"two32", "pm1", "nc"})}
  \cup (IF dom = "felt" THEN {[c |-> "nc", n |-> right + 1]} ELSE {})
\* "nc" with the right value is NOT a corruption: the same field element
HdrWrong(dom, right) == HdrVariants(dom, right) \ {[c |-> "nc", n |-> right]}

Singles(ps, dom) == {<<[pos |-> p, c |-> k]>> : p \in ps, k \in Classes(dom)}
Pairs(ps, dom) == {<<[pos |-> p, c |-> k], [pos |-> q, c |-> l]>> :
                     p \in ps, q \in ps, k \in PairClasses(dom), l \in PairClasses(dom)}

Vec(len, hdr, ov) == [len |-> len, hdr |-> hdr, ov |-> ov]

\* all corruptions of depth <= 1 (and 2 in the thorough tier) of the well-formed vector of length L
Corrupt(L, lens, right, ps, pps, dom) ==
  LET off == lens \ {L}
      none == <<>>
  IN   {Vec(l, Num(right), none) : l \in lens}
  \cup {Vec(L, h, none) : h \in HdrVariants(dom, right)}
  \cup {Vec(L, Num(right), o) : o \in Singles(ps, dom)}
  \cup (IF Thorough THEN
              {Vec(l, h, none) : l \in off, h \in HdrWrong(dom, right)}
         \cup {Vec(l, Num(right), o) : l \in off, o \in Singles(pps, dom)}
         \cup {Vec(L, h, o) : h \in HdrWrong(dom, right), o \in Singles(pps, dom)}
         \cup {Vec(L, Num(right), o) : o \in {x \in Pairs(pps, dom) : x[1].pos < x[2].pos}}
        ELSE {})

-----------------------------------------------------------------------------
LeafCases ==
  LET mk(dom, v) == [p |-> "leaf", dom |-> dom, v |-> v, m |-> 0, n |-> 0, m0 |-> 0, n0 |-> 0] IN
  UNION {
         {mk(dom, Vec(l, NoHdr, <<>>)) : l \in {0, 1, 20, 21, 22, 42}}
    \cup {mk(dom, Vec(21, NoHdr, o)) : o \in Singles(0 .. 20, dom)}
    \cup (IF Thorough THEN
               {mk(dom, Vec(l, NoHdr, o)) : l \in {20, 22}, o \in Singles({0, 4, 19, 20}, dom)}
          \cup {mk(dom, Vec(21, NoHdr, o)) : o \in {x \in Pairs({0, 3, 4, 11, 16, 20}, dom) : x[1].pos < x[2].pos}}
          ELSE {})
    : dom \in Doms}

PrivDims == IF Thorough THEN {0, 1, 2, 3, 63, 64, 65, 66, 4096} ELSE {0, 1, 2, 64, 65}
PrivPos(n) == {1, 2, 3, 6, 7} \cup
  (IF n >= 1 THEN {8, 9, 12, 8 + 5 * (2 * n - 1), 8 + 10 * n - 1, 8 + 10 * n, 8 + 14 * n - 1, 8 + 14 * n, 8 + 21 * n - 1}
   ELSE {})
PrivPairPos(n) == {2, 3} \cup (IF n >= 1 THEN {8, 8 + 10 * n - 1, 8 + 14 * n - 1, 8 + 14 * n} ELSE {})
PrivLens(n) == {PrivLen(n) - 1, PrivLen(n), PrivLen(n) + 1, PrivLen(n) + 21} \cup (IF n = 0 THEN {0, 1} ELSE {PrivLen(n) - 21})

PrivCases ==
  UNION {
    {[p |-> "priv", dom |-> dom, v |-> v, m |-> 0, n |-> 0, m0 |-> 0, n0 |-> n0] :
        v \in Corrupt(PrivLen(n0), PrivLens(n0), 2 * n0, PrivPos(n0), PrivPairPos(n0), dom)}
    : dom \in Doms, n0 \in PrivDims}

PubDims == IF Thorough THEN {<<1, 1>>, <<1, 2>>, <<2, 1>>, <<2, 2>>, <<1, 64>>, <<64, 1>>, <<3, 5>>, <<64, 64>>}
           ELSE {<<1, 1>>, <<1, 2>>, <<2, 1>>, <<64, 1>>, <<1, 64>>}
PubPos(t) == {0, 3, 4, 5, 6, 9, 10, 12, 13, 16, 12 + 5 * (2 * t - 1), 12 + 10 * t - 1, 12 + 10 * t, 12 + 14 * t - 1}
PubPairPos(t) == {0, 5, 12, 12 + 10 * t - 1, 12 + 14 * t - 1}
PubLens(d) == LET L == PubLen(d[1], d[2]) IN {L - 1, L, L + 1, 12, 0, L + 14, L - 14}
ArgTokens == {0, 1, 2, 64, 65, HUGE, UMAX}

PubCases ==
  LET mk(d, m, n, v) == [p |-> "pub", dom |-> "u64", v |-> v, m |-> m, n |-> n, m0 |-> d[1], n0 |-> d[2]] IN
  \* arguments equal to the dimensions the vector was written for
  UNION {{mk(d, d[1], d[2], v) :
            v \in Corrupt(PubLen(d[1], d[2]), PubLens(d), 2 * d[1] * d[2], PubPos(d[1] * d[2]), PubPairPos(d[1] * d[2]), "u64")}
         : d \in PubDims}
  \* a well-formed vector for small dimensions presented with every pair of argument tokens
  \cup UNION {{mk(d, m, n, Vec(PubLen(d[1], d[2]), Num(2 * d[1] * d[2]), <<>>)) : m \in ArgTokens, n \in ArgTokens}
              : d \in {<<1, 1>>, <<1, 2>>, <<2, 2>>}}
  \* and the header-only / empty vector with the out-of-range tokens
  \cup {mk(<<1, 1>>, m, n, Vec(l, Num(0), <<>>)) : m \in {0, 1, 65, HUGE, UMAX}, n \in {0, 1, 65, HUGE, UMAX}, l \in {0, 12}}

RtCases ==
       {[p |-> "rt_priv", dom |-> "u64", v |-> Vec(0, NoHdr, <<>>), m |-> 0, n |-> n, m0 |-> 0, n0 |-> n] :
          n \in (IF Thorough THEN 1 .. 64 ELSE {1, 2, 3, 64})}
  \cup {[p |-> "rt_pub", dom |-> "u64", v |-> Vec(0, NoHdr, <<>>), m |-> d[1], n |-> d[2], m0 |-> d[1], n0 |-> d[2]] :
          d \in (IF Thorough THEN {<<1, 1>>, <<1, 2>>, <<2, 1>>, <<3, 5>>, <<64, 1>>, <<1, 64>>, <<8, 8>>} ELSE {<<1, 1>>, <<1, 2>>, <<2, 1>>, <<3, 5>>})}
  \cup {[p |-> "rt_leaf", dom |-> "u64", v |-> Vec(0, NoHdr, <<>>), m |-> 0, n |-> 0, m0 |-> 0, n0 |-> 0]}

Init == c \in LeafCases \cup PrivCases \cup PubCases \cup RtCases
Spec == Init /\ [][Next]_c

Emit ==
  c.p \in {"leaf", "priv", "pub"} =>
    LET u == CASE c.p = "leaf" -> (IF c.dom = "u64" THEN LeafU64(c.v) ELSE LeafU64(View(c.v)))
               [] c.p = "priv" -> (IF c.dom = "u64" THEN PrivU64(c.v) ELSE PrivU64(View(c.v)))
               [] c.p = "pub" -> PubU64(c.v, c.m, c.n)
        \* the felt parser runs on felt vectors and on u64 vectors that are canonical images
        f == IF c.p = "pub" \/ (c.dom = "u64" /\ ~HasFeltCounterpart(c.v)) THEN "na"
             ELSE IF c.p = "leaf" THEN LeafFelt(c.v) ELSE PrivFelt(c.v)
    IN PrintT(<<"REPLAY", ToJson([p |-> c.p, dom |-> c.dom, len |-> c.v.len, hdr |-> c.v.hdr, ov |-> c.v.ov,
                                  m |-> Tok(c.m), n |-> Tok(c.n), m0 |-> c.m0, n0 |-> c.n0,
                                  u64 |-> u, felt |-> f])>>)

-----------------------------------------------------------------------------
(* broken variants of the specification: each must violate C24Inv (vacuity control) *)
MutHdrConstOk(h, want) == HdrU32(h)              \* header constant not compared
MutDigestLimbOk(k) == TRUE                       \* digest canonicity not checked
MutCountOk(n) == n >= 1 /\ n <= MaxCount + 1     \* off-by-one cap
=============================================================================
