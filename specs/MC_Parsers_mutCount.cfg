SPECIFICATION Spec
CONSTANTS
  Tier = "quick"
  CountOk <- MutCountOk
INVARIANTS C24Inv
CHECK_DEADLOCK FALSE
