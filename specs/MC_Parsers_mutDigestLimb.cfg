SPECIFICATION Spec
CONSTANTS
  Tier = "quick"
  DigestLimbOk <- MutDigestLimbOk
INVARIANTS C24Inv
CHECK_DEADLOCK FALSE
