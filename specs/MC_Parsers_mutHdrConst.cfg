SPECIFICATION Spec
CONSTANTS
  Tier = "quick"
  HdrConstOk <- MutHdrConstOk
INVARIANTS C24Inv
CHECK_DEADLOCK FALSE
