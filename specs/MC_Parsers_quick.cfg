SPECIFICATION Spec
CONSTANTS
  Tier = "quick"
INVARIANTS C24Inv Emit
CHECK_DEADLOCK FALSE
