SPECIFICATION Spec
CONSTANTS
  Tier = "thorough"
INVARIANTS C24Inv Emit
CHECK_DEADLOCK FALSE
