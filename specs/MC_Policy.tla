---------------------------- MODULE MC_Policy ----------------------------
EXTENDS Policy, Json, IOUtils

\* the production private-batch config, read from the real code by the harness (policy-baseline)
MCBaseline == [chal |-> atoi(IOEnv.BL_CHAL), sec |-> atoi(IOEnv.BL_SEC), query |-> atoi(IOEnv.BL_QUERY),
               wires |-> atoi(IOEnv.BL_WIRES), routed |-> atoi(IOEnv.BL_ROUTED), quot |-> atoi(IOEnv.BL_QUOT),
               rate |-> atoi(IOEnv.BL_RATE), cap |-> atoi(IOEnv.BL_CAP)]

MCFWires == {-1, 0, 134, 135, 136, 4096}
MCFRouted == {-1, 0, 36, 37, 135, 136, 137, 4097}
MCFQuot == {-1, 0, 1, 6, 7, 8, 9, 16, 17, 256, 257}
MCFRate == {-1, 0, 1, 2, 3, 4, 5, 8, 9, 64}
MCFCap == {-1, 0, 1, 8, 9, 64}
MCQFWires == {-1, 134, 135, 4096}
MCQFRouted == {-1, 36, 37, 135, 136, 4097}
MCQFQuot == {-1, 0, 6, 7, 8, 9, 16, 17}
MCQFRate == {-1, 0, 2, 3, 4, 8, 9}
MCQFCap == {-1, 0, 8, 9}
MCFSmall == {-1, 0, 1}

\* the security-group patterns whose flag sets are replayed on the real CLI code (TLC checks all)
Replayed ==
  \/ kind = "config"
  \/ kind = "flags" /\ Cardinality({x \in {f.query, f.sec, f.chal} : x # None}) + (IF f.zkoff THEN 1 ELSE 0) <= 1

Emit ==
  Replayed =>
    PrintT(<<"REPLAY",
      IF kind = "config"
        THEN ToJson(<<0, c.chal, c.sec, c.query, c.wires, c.routed, c.quot, c.rate, c.cap,
                      IF Valid(c) THEN 1 ELSE 0>>)
        ELSE ToJson(<<1, f.chal, f.sec, f.query, f.wires, f.routed, f.quot, f.rate, f.cap,
                      IF f.zkoff THEN 1 ELSE 0, IF f.allow THEN 1 ELSE 0,
                      IF FlagsAccepted(f) THEN 1 ELSE 0,
                      c.chal, c.sec, c.query, c.wires, c.routed, c.quot, c.rate, c.cap>>)>>)
=============================================================================
