SPECIFICATION Spec
CONSTANTS
  GChal = {0, 2}
  GSec = {0, 100}
  GQuery = {0, 28}
  GWires = {134, 135, 136, 4096}
  GRouted = {0, 36, 37, 60, 135, 136, 137, 4097}
  GQuot = {0, 6, 7, 8, 9, 16, 17, 257}
  GRate = {0, 2, 3, 4, 5, 8, 9}
  GCap = {0, 8, 9}
  FWires <- MCQFWires
  FRouted <- MCQFRouted
  FQuot <- MCQFQuot
  FRate <- MCQFRate
  FCap <- MCQFCap
  FQuery <- MCFSmall
  FSec <- MCFSmall
  FChal <- MCFSmall
  Baseline <- MCBaseline
INVARIANTS C28Inv Emit
CHECK_DEADLOCK FALSE
