SPECIFICATION Spec
CONSTANTS
  GChal = {0, 1, 2}
  GSec = {0, 1, 100}
  GQuery = {0, 1, 28}
  GWires = {0, 134, 135, 136, 4096}
  GRouted = {0, 36, 37, 60, 135, 136, 137, 4097}
  GQuot = {0, 1, 6, 7, 8, 9, 16, 17, 256, 257}
  GRate = {0, 2, 3, 4, 5, 8, 9, 64}
  GCap = {0, 4, 8, 9, 64}
  FWires <- MCFWires
  FRouted <- MCFRouted
  FQuot <- MCFQuot
  FRate <- MCFRate
  FCap <- MCFCap
  FQuery <- MCFSmall
  FSec <- MCFSmall
  FChal <- MCFSmall
  Baseline <- MCBaseline
INVARIANTS C28Inv Emit
CHECK_DEADLOCK FALSE
