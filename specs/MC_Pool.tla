----------------------------- MODULE MC_Pool -----------------------------
(* Bounded instance of Pool for exhaustive checking (no history, VIEW hides observations) and, with
   hist, for generating behaviours that are replayed call by call on the real ProofPool. *)
EXTENDS Pool, Json, SequencesExt

CONSTANTS MaxNow, MaxAge, PaletteSel, Depth

kA == [block |-> 1, asset |-> 0, fee |-> 1]
kB == [block |-> 2, asset |-> 0, fee |-> 1]
kC == [block |-> 1, asset |-> 1, fee |-> 1]     \* same block as kA, other asset
kE == [block |-> 1, asset |-> 0, fee |-> 2]     \* same block and asset as kA, other fee
kD == [block |-> 0, asset |-> 0, fee |-> 1]     \* all-dummy sentinel key
kD2 == [block |-> 0, asset |-> 1, fee |-> 2]

P(i, k, ns, v, l, sl) == [id |-> i, key |-> k, nulls |-> ns, valid |-> v, lenOk |-> l, slots |-> sl]

FullPalette == {
    P(1, kA, {1},    TRUE,  TRUE,  <<1, 0>>),
    P(2, kA, {2},    TRUE,  TRUE,  <<3, 0>>),
    P(3, kB, {1},    TRUE,  TRUE,  <<1, 1>>),      \* nullifier 1 again, other bucket
    P(4, kB, {3},    TRUE,  TRUE,  <<0, 1>>),
    P(5, kC, {2, 3}, TRUE,  TRUE,  <<1, 0>>),      \* two nullifiers
    P(6, kA, {3},    FALSE, TRUE,  <<1, 0>>),      \* tampered
    P(7, kB, {2},    TRUE,  FALSE, <<1, 0>>),      \* wrong public-input length
    P(8, kD, {3},    TRUE,  TRUE,  <<1, 0>>),      \* valid all-dummy proof
    P(9, kC, {1},    TRUE,  TRUE,  <<3, 3>>),      \* saturates inside one proof
    P(10, kE, {4},   TRUE,  TRUE,  <<2, 0>>),
    P(11, kD2, {4},  FALSE, TRUE,  <<0, 0>>),      \* invalid dummy: dummy rejection wins, no verify
    P(12, kE, {1},   FALSE, FALSE, <<0, 0>>),
    \* 21..25: the end-to-end palette (EndToEnd.tla): real private batches of real leaf proofs, N = 2 leaf slots each
    P(21, kA, {1, 2}, TRUE, TRUE, <<1, 0, 2, 0>>),
    P(22, kA, {3},    TRUE, TRUE, <<3, 0, 0, 0>>),   \* one real leaf + one dummy
    P(23, kA, {2, 4}, TRUE, TRUE, <<2, 0, 1, 0>>),   \* competes with 21 for the deposit with nullifier 2
    P(24, kB, {5},    TRUE, TRUE, <<1, 0, 0, 0>>),
    P(25, kB, {1},    TRUE, TRUE, <<1, 0, 0, 0>>) }  \* deposit 1 again, proved against the other block

MCPalette == {p \in FullPalette : p.id \in PaletteSel}
AllKeys == {p.key : p \in MCPalette}
AllNulls == UNION {p.nulls : p \in MCPalette}

NextMC ==
    \/ \E p \in MCPalette : Push(p)
    \/ \E S \in (SUBSET AllNulls) \ {{}} : EvictSettled(S)
    \/ \E a \in 0..MaxAge : EvictOlderThan(a)
    \/ \E k \in AllKeys : Snapshot(k)
    \/ \E k \in AllKeys : RemoveBucket(k)
    \/ \E d \in 1..2 : now + d <= MaxNow /\ Tick(d)

SpecMC == Init /\ [][NextMC]_vars

=============================================================================
