---------------------------- MODULE MC_PoolSim ----------------------------
(* MC_Pool's actions with a history of (call, observation, projected state); used with -simulate to
   produce behaviours that the harness replays call by call on the real ProofPool. *)
EXTENDS MC_Pool

(* ---- behaviours for replay: the same actions with a history of (call, observation, projected state) *)
VARIABLE hist
Proj ==
    [bk   |-> SetToSeq({[key |-> k, entries |-> [i \in DOMAIN buckets[k] |->
                            [id |-> buckets[k][i].id, nulls |-> SetToSeq(buckets[k][i].nulls),
                             vol |-> buckets[k][i].vol, at |-> buckets[k][i].at]],
                         snap |-> IF k \in DOMAIN lastSnap THEN lastSnap[k] ELSE -1,
                         stats |-> Stats[k]] : k \in DOMAIN buckets}),
     idx  |-> SetToSeq({[n |-> n, key |-> index[n]] : n \in DOMAIN index}),
     win  |-> winStart, ver |-> verifies, now |-> now, size |-> Size]

Step(call, A) == A /\ hist' = Append(hist, [call |-> call, res |-> res', st |-> Proj'])

\* -simulate picks uniformly among generated successors; the \E w multiplicities balance the mix of calls
SmallSets == {S \in SUBSET AllNulls : Cardinality(S) \in {1, 2}}
NextSim ==
    \/ \E p \in MCPalette, w \in 1..3 : Step([op |-> "push", id |-> p.id], Push(p))
    \/ \E S \in SmallSets : Step([op |-> "evict_settled", set |-> SetToSeq(S)], EvictSettled(S))
    \/ \E a \in 0..MaxAge : Step([op |-> "evict_older", age |-> a], EvictOlderThan(a))
    \/ \E k \in AllKeys : Step([op |-> "snapshot", key |-> k], Snapshot(k))
    \/ \E k \in AllKeys : Step([op |-> "remove_bucket", key |-> k], RemoveBucket(k))
    \/ \E d \in 1..2, w \in 1..4 : Step([op |-> "tick", d |-> d], Tick(d))

SpecSim == Init /\ hist = <<>> /\ [][NextSim]_<<vars, hist>>

Limits == [max_proofs |-> MaxProofs, max_buckets |-> MaxBuckets, max_verifies |-> MaxVerifies,
           window |-> Window, batch |-> Batch, vol_cap |-> VolCap]
PaletteJson == SetToSeq({[id |-> p.id, key |-> p.key, nulls |-> SetToSeq(p.nulls), valid |-> p.valid,
                          lenOk |-> p.lenOk, slots |-> p.slots] : p \in MCPalette})
EmitAtDepth == Len(hist) < Depth
               \/ PrintT(<<"REPLAY", ToJson([limits |-> Limits, palette |-> PaletteJson, steps |-> hist])>>)
=============================================================================
