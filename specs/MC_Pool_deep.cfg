SPECIFICATION SpecMC
CONSTANTS
  MaxProofs = 3
  MaxBuckets = 2
  MaxVerifies = 2
  Window = 2
  Batch = 2
  VolCap = 4
  MaxNow = 5
  MaxAge = 2
  Depth = 0
  PaletteSel = {1, 2, 3, 4, 5, 6, 7, 8, 9, 10, 11, 12}
  Palette <- MCPalette
INVARIANTS C20Inv C22Inv C19Inv
PROPERTIES C19Admission C21Exits C21Counts C21Snapshot C22Window
VIEW view
CHECK_DEADLOCK FALSE
