--------------------------- MODULE MC_PrivateBatch ---------------------------
EXTENDS PrivateBatch, Json, IOUtils
MCAmtAdd(a, b) == a + b
MCAmtOk(a) == a < RangeBound
MCDLt(a, b) == a < b

Env(n, d) == IF n \in DOMAIN IOEnv THEN IOEnv[n] ELSE d
Dom == Env("PBDOM", "small")
MCN == atoi(Env("PBN", "2"))

\* per-field domains; amounts in units with RangeBound = 4: 3+1 and 3+3 cross the bound, 1+1 does not
Big == Dom \in {"full", "near3", "near2big"}
A  == {0, 1}
O  == IF Big THEN {0, 1, 3} ELSE {0, 3}
FE == {0, 1}
NL == IF Big THEN {1, 2, 3} ELSE {1, 2}
E  == IF Big THEN {0, 1, 2} ELSE {0, 1}
BL == {0, 1, 2}
NB == {7, 8}
Full == [asset : A, out1 : O, out2 : O, fee : FE, null : NL, exit1 : E, exit2 : E, block : BL, number : NB]
\* "near" domains: statements differing from a base real statement in at most k fields (all fields still
\* range over their whole domain, but not all at once) - keeps N = 3 explorable
Base == [asset |-> 0, out1 |-> 3, out2 |-> 0, fee |-> 0, null |-> 1, exit1 |-> 1, exit2 |-> 0, block |-> 1, number |-> 7]
Fields == {"asset", "out1", "out2", "fee", "null", "exit1", "exit2", "block", "number"}
Diff(c) == Cardinality({f \in Fields : c[f] # Base[f]})
MCChildDom == CASE Dom \in {"small", "full"} -> Full
                [] Dom \in {"near3", "near3small"} -> {c \in Full : Diff(c) <= 3}
                [] Dom \in {"near2", "near2big"} -> {c \in Full : Diff(c) <= 2}
MCHHDom == IF Dom \in {"small", "near3small", "near2"} THEN {2} ELSE {2, 9}

\* simulation: children drawn at random (half from the full product, half near the base statement)
\* field-wise biased draws: mostly compatible real statements, some dummies, some conflicts
Pk(seq) == seq[RandomElement(1 .. Len(seq))]
RandChild(z) == [asset |-> Pk(<<0, 0, 0, 0, 0, 0, 0, 1>>), out1 |-> Pk(<<0, 1, 1, 3, 3>>), out2 |-> Pk(<<0, 0, 1, 3>>),
              fee |-> Pk(<<0, 0, 0, 0, 0, 0, 1>>), null |-> Pk(<<1, 2, 3>>), exit1 |-> Pk(<<0, 1, 1, 2>>), exit2 |-> Pk(<<0, 0, 1, 2>>),
              block |-> Pk(<<0, 0, 1, 1, 1, 1, 1, 1, 2>>), number |-> Pk(<<7, 7, 7, 8>>)]
SimInit == /\ ch = [k \in Slots |-> Base] /\ hh = [k \in Slots |-> 2]
           /\ pc = "pick" /\ i = 1 /\ ok = TRUE /\ isDummy = <<>> /\ found = FALSE
           /\ ref = [block |-> ZeroD, number |-> ZeroF, fee |-> ZeroF]
           /\ slotExit = <<>> /\ slotAmt = <<>> /\ outSlots = <<>> /\ sel = <<>> /\ out = <<>>
Pick == /\ pc = "pick"
        /\ ch' = [k \in Slots |-> RandChild(k)]
        /\ hh' = [k \in Slots |-> RandomElement({2, 9})]
        /\ pc' = "flags"
        /\ UNCHANGED <<i, ok, isDummy, found, ref, slotExit, slotAmt, outSlots, sel, out>>
SimSpec == SimInit /\ [][Pick \/ Next]_vars

Emit == Finished =>
  PrintT(<<"REPLAY", ToJson([n |-> N, ch |-> ch, hh |-> hh, acc |-> IF ok THEN 1 ELSE 0,
                             out |-> IF ok THEN out ELSE [nslots |-> 0]])>>)
=============================================================================
