SPECIFICATION SimSpec
CONSTANTS
  N <- MCN
  ChildDom <- MCChildDom
  HHDom <- MCHHDom
  RangeBound = 4
  ZeroD = 0
  ZeroF = 0
  AmtZero = 0
  AmtAdd <- MCAmtAdd
  AmtOk <- MCAmtOk
  DLt <- MCDLt
  MaskDummies = TRUE
  UniqueOnlyReal = TRUE
  FirstRealScan = TRUE
INVARIANTS PBInv Emit
CHECK_DEADLOCK FALSE
