--------------------------- MODULE MC_PublicBatch ---------------------------
EXTENDS PublicBatch, Json, IOUtils
MCAmtAdd(a, b) == a + b
MCAmtOk(a) == a < 4
MCDLt(a, b) == a < b
Env(n, d) == IF n \in DOMAIN IOEnv THEN IOEnv[n] ELSE d
MCM == atoi(Env("QBM", "2"))
NN == atoi(Env("QBN", "1"))
Dom == Env("QBDOM", "full")
SlotDom == {<<0, 0>>, <<3, 0>>, <<3, 1>>, <<0, 1>>}
Full == [asset : {0, 1}, fee : {0, 1}, block : {0, 1, 2}, number : {7, 8},
         slots : [1 .. 2 * NN -> IF Dom = "full" THEN SlotDom ELSE {<<0, 0>>, <<3, 1>>}],
         nulls : [1 .. NN -> {1, 2}]]
Base == [asset |-> 0, fee |-> 0, block |-> 1, number |-> 7, slots |-> [k \in 1 .. 2 * NN |-> <<3, 1>>], nulls |-> [k \in 1 .. NN |-> 1]]
Diff(b) == Cardinality({f \in {"asset", "fee", "block", "number", "slots", "nulls"} : b[f] # Base[f]})
MCInnerDom == IF Dom = "near" THEN {b \in Full : Diff(b) <= 2} ELSE Full
MCAddrDom == {0, 3}
Pk(seq) == seq[RandomElement(1 .. Len(seq))]
RandInner(z) == [asset |-> Pk(<<0, 0, 0, 0, 0, 0, 1>>), fee |-> Pk(<<0, 0, 0, 0, 0, 0, 1>>), block |-> Pk(<<0, 0, 1, 1, 1, 1, 1, 1, 2>>),
              number |-> Pk(<<7, 8>>), slots |-> [k \in 1 .. 2 * NN |-> Pk(<<<<0, 0>>, <<3, 0>>, <<3, 1>>, <<0, 1>>>>)],
              nulls |-> [k \in 1 .. NN |-> Pk(<<1, 2>>)]]
SimInit == /\ inn = [k \in Idx |-> Base] /\ addr = 0
           /\ pc = "pick" /\ i = 1 /\ ok = TRUE /\ isDummy = <<>> /\ found = FALSE
           /\ ref = ZeroInnerHdr /\ fslots = <<>> /\ fnulls = <<>> /\ out = <<>>
Pick == /\ pc = "pick"
        /\ inn' = [k \in Idx |-> RandInner(k)]
        /\ addr' = RandomElement({0, 3})
        /\ pc' = "flags"
        /\ UNCHANGED <<i, ok, isDummy, found, ref, fslots, fnulls, out>>
SimSpec == SimInit /\ [][Pick \/ Next]_vars

Emit == Finished =>
  PrintT(<<"REPLAY", ToJson([inn |-> inn, addr |-> addr, acc |-> IF ok THEN 1 ELSE 0, out |-> IF ok THEN out ELSE [total |-> 0]])>>)
=============================================================================
