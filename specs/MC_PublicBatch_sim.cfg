SPECIFICATION SimSpec
CONSTANTS
  M <- MCM
  InnerDom <- MCInnerDom
  AddrDom <- MCAddrDom
  ZeroD = 0
  ZeroF = 0
  AmtZero = 0
  AmtAdd <- MCAmtAdd
  AmtOk <- MCAmtOk
  DLt <- MCDLt
  ZeroDummies = TRUE
  CheckAsset = TRUE
INVARIANTS QBInv Emit
CHECK_DEADLOCK FALSE
