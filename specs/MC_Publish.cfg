SPECIFICATION Spec
CONSTANTS
  NStages = 4
INVARIANTS C23Inv Emit
CHECK_DEADLOCK FALSE
