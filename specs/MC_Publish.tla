---------------------------- MODULE MC_Publish ----------------------------
(* Model-checking wrapper of Publish: exhaustive over both modes, the three initial
   states, every combination of failing stages / renames and every crash point.
   Every complete behaviour (returned or crashed) is printed once as JSON for the
   replay on the real code.                                                      *)
EXTENDS Publish, Json

Terminal == pc \in {"done", "crashed"}

Emit ==
  Terminal =>
    PrintT(<<"REPLAY", ToJson([mode |-> mode, init |-> init, stg0 |-> stg0,
                                steps |-> hist,
                                final |-> [out |-> out, old |-> old, stg |-> stg,
                                           result |-> IF pc = "crashed" THEN "crashed" ELSE result]])>>)
=============================================================================
