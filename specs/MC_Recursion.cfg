SPECIFICATION Spec
CONSTANTS
  Circuits <- MCCircuits
  PiCount <- MCPiCount
  Canonical = "canonical"
  ExpectedPis = 21
  KeyMode = "baked"
INVARIANTS RecInv Emit
CHECK_DEADLOCK FALSE
