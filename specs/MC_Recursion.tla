---- MODULE MC_Recursion ----
EXTENDS Recursion, Json
MCCircuits == {"canonical", "sameshape_unconstrained", "sameshape_rangeonly", "fragments_unconnected", "padded_domain", "other_config", "one_pi", "twenty_pis"}
MCPiCount == [c \in MCCircuits |-> CASE c = "one_pi" -> 1 [] c = "twenty_pis" -> 20 [] OTHER -> 21]
Emit == stage = "end" => PrintT(<<"REPLAY", ToJson([built_for |-> builtFor, ctor |-> ctorResult, proof_by |-> proof.by,
                                                     valid |-> IF proof.valid THEN 1 ELSE 0, n |-> n, slot |-> slot, accepted |-> IF accepted THEN 1 ELSE 0])>>)
====
