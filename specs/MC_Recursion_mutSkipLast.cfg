SPECIFICATION Spec
CONSTANTS
  Circuits <- MCCircuits
  PiCount <- MCPiCount
  Canonical = "canonical"
  ExpectedPis = 21
  KeyMode = "baked"
  MaxSlots = 3
  LoopMode = "skiplast"
INVARIANTS RecInv
CHECK_DEADLOCK FALSE
