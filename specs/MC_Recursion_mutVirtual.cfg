SPECIFICATION Spec
CONSTANTS
  Circuits <- MCCircuits
  PiCount <- MCPiCount
  Canonical = "canonical"
  ExpectedPis = 21
  KeyMode = "virtual"
INVARIANTS RecInv
CHECK_DEADLOCK FALSE
