SPECIFICATION Spec
CONSTANTS
  MaxLen <- MCMaxLen
INVARIANTS C32Inv Emit
CHECK_DEADLOCK FALSE
