---------------------------- MODULE MC_Redaction ----------------------------
EXTENDS Redaction, Json, IOUtils
\* the chain bound comes from the environment (quick / thorough tiers share this module)
MCMaxLen == IF "RLEN" \in DOMAIN IOEnv THEN atoi(IOEnv.RLEN) ELSE 4

\* one REPLAY line per maximal chain: the conversions, and per step what the model says is printed / hidden
FieldJson(r) == [path |-> r.path, lab |-> r.lab]
StepJson(s) == [type |-> s.type, scope |-> IF s.scope THEN 1 ELSE 0,
                visible |-> {FieldJson(r) : r \in s.visible}, hidden |-> {FieldJson(r) : r \in s.hidden}]
Emit == Maximal =>
  PrintT(<<"REPLAY", ToJson([chain |-> chain, steps |-> [i \in DOMAIN steps |-> StepJson(steps[i])]])>>)

\* spec mutants (vacuity control): TLC must report NoVisibleTaint violated
\* 1. the leaf prints the deposit account
MutLeafVisible(t) == IF t = "ZkLeafData" THEN CodeVisible(t) \cup {"to_account"} ELSE CodeVisible(t)
\* 2. HeaderInputs derives Debug (prints the digest logs), reached through BlockHeader's derived Debug
MutHeaderVisible(t) == IF t = "HeaderInputs" THEN CodeVisible(t) \cup {"digest"} ELSE CodeVisible(t)
=============================================================================
