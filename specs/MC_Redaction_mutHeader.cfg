SPECIFICATION Spec
CONSTANTS
  MaxLen <- MCMaxLen
  DirectVisible <- MutHeaderVisible
INVARIANTS C32Inv
CHECK_DEADLOCK FALSE
