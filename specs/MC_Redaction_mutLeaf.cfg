SPECIFICATION Spec
CONSTANTS
  MaxLen <- MCMaxLen
  DirectVisible <- MutLeafVisible
INVARIANTS C32Inv
CHECK_DEADLOCK FALSE
