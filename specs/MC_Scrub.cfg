SPECIFICATION Spec
CONSTANTS
  MaxCalls <- MCMaxCalls
  MaxLive <- MCMaxLive
  Presized = TRUE
  DropScrubs = TRUE
  BytesBufScrubs = TRUE
  FeltBufScrubs = TRUE
  CtorScrubsValid = TRUE
  CtorScrubsInvalid = TRUE
INVARIANTS C33Inv Emit
CHECK_DEADLOCK FALSE
