------------------------------ MODULE MC_Scrub ------------------------------
EXTENDS Scrub, Json, IOUtils
\* bounds come from the environment (quick / thorough tiers share this module)
MCMaxCalls == IF "SLEN" \in DOMAIN IOEnv THEN atoi(IOEnv.SLEN) ELSE 3
MCMaxLive == IF "SLIVE" \in DOMAIN IOEnv THEN atoi(IOEnv.SLIVE) ELSE 3

\* one REPLAY line per complete call sequence, with what is still live at its end
Emit == (Idle /\ Len(calls) = MaxCalls) =>
  PrintT(<<"REPLAY", ToJson([calls |-> calls, live |-> [i \in 1 .. Len(st.store) |-> st.store[i].kind]])>>)
=============================================================================
