SPECIFICATION Spec
CONSTANTS
  MaxCalls <- MCMaxCalls
  MaxLive <- MCMaxLive
  Presized = TRUE
  DropScrubs = TRUE
  BytesBufScrubs = FALSE
  FeltBufScrubs = TRUE
  CtorScrubsValid = TRUE
  CtorScrubsInvalid = TRUE
INVARIANTS C33Inv 
CHECK_DEADLOCK FALSE
