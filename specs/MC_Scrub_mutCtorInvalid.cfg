SPECIFICATION Spec
CONSTANTS
  MaxCalls <- MCMaxCalls
  MaxLive <- MCMaxLive
  Presized = TRUE
  DropScrubs = TRUE
  BytesBufScrubs = TRUE
  FeltBufScrubs = TRUE
  CtorScrubsValid = TRUE
  CtorScrubsInvalid = FALSE
INVARIANTS C33Inv 
CHECK_DEADLOCK FALSE
