SPECIFICATION Spec
CONSTANTS
  MaxCalls <- MCMaxCalls
  MaxLive <- MCMaxLive
  Presized = TRUE
  DropScrubs = FALSE
  BytesBufScrubs = TRUE
  FeltBufScrubs = TRUE
  CtorScrubsValid = TRUE
  CtorScrubsInvalid = TRUE
INVARIANTS C33Inv 
CHECK_DEADLOCK FALSE
