SPECIFICATION Spec
CONSTANTS
  MaxCalls <- MCMaxCalls
  MaxLive <- MCMaxLive
  Presized = TRUE
  DropScrubs = TRUE
  BytesBufScrubs = TRUE
  FeltBufScrubs = FALSE
  CtorScrubsValid = TRUE
  CtorScrubsInvalid = TRUE
INVARIANTS C33Inv 
CHECK_DEADLOCK FALSE
