SPECIFICATION Spec
CONSTANTS
  MaxCalls <- MCMaxCalls
  MaxLive <- MCMaxLive
  Presized = FALSE
  DropScrubs = TRUE
  BytesBufScrubs = TRUE
  FeltBufScrubs = TRUE
  CtorScrubsValid = TRUE
  CtorScrubsInvalid = TRUE
INVARIANTS C33Inv 
CHECK_DEADLOCK FALSE
