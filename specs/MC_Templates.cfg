SPECIFICATION Spec
INVARIANTS C16Inv Emit
CHECK_DEADLOCK FALSE
