---------------------------- MODULE MC_Templates ----------------------------
EXTENDS Templates, Json

(* spec mutants (vacuity control): TLC must find a violation with each of them *)
MutLeafCheckNoExits(t, p) == <<
  <<"parse", TRUE>>, <<"block", "block" \notin t>>, <<"outputs", "out1" \notin t /\ "out2" \notin t>>,
  <<"asset", "asset" \notin t>>, <<"verify", "proof" \notin t>> >>
MutLeafCheckOut1Only(t, p) == <<
  <<"parse", TRUE>>, <<"block", "block" \notin t>>, <<"outputs", "out1" \notin t>>,
  <<"asset", "asset" \notin t>>, <<"exits", "exit1" \notin t /\ "exit2" \notin t>>, <<"verify", "proof" \notin t>> >>
\* the slot loop looks at the first slot only
MutPbCheckFirstSlot(t, p) == <<
  <<"parse", TRUE>>, <<"block", "block" \notin t>>,
  <<"slots", ("sum" \notin t /\ "acct" \notin t) \/ p = "last">>, <<"verify", "proof" \notin t>> >>
\* one constructor forgets the validator
MutProgramBytesSkips(e, t, p) ==
  IF e = "pb_new_from_bytes" THEN <<Pass("count"), Pass("pin_leaf"), Pass("build_circuit"), Pass("decode")>>
  ELSE ProgramOf(e, t, p)

Emit ==
  verdict # "running" =>
    PrintT(<<"REPLAY", ToJson([kind |-> kind, entry |-> entry, devs |-> tmpl, pos |-> pos,
                               verdict |-> verdict, stage |-> Stage])>>)
=============================================================================
