SPECIFICATION Spec
CONSTANTS
  Program <- MutProgramBytesSkips
INVARIANTS C16Inv
CHECK_DEADLOCK FALSE
