SPECIFICATION Spec
CONSTANTS
  PbCheck <- MutPbCheckFirstSlot
INVARIANTS C16Inv
CHECK_DEADLOCK FALSE
