SPECIFICATION Spec
CONSTANTS
  LeafCheck <- MutLeafCheckNoExits
INVARIANTS C16Inv
CHECK_DEADLOCK FALSE
