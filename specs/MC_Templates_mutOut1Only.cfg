SPECIFICATION Spec
CONSTANTS
  LeafCheck <- MutLeafCheckOut1Only
INVARIANTS C16Inv
CHECK_DEADLOCK FALSE
