SPECIFICATION Spec
CONSTANTS
  M <- MCM
  N <- MCN
  LeafDom <- MCLeafDom
  HHDom = {2, 9}
  RangeBound = 4
  ZeroD = 0
  ZeroF = 0
  AmtZero = 0
  AmtAdd <- MCAmtAdd
  AmtOk <- MCAmtOk
  DLt <- MCDLt
INVARIANTS TwoLayerInv
CHECK_DEADLOCK FALSE
