----------------------------- MODULE MC_TwoLayer -----------------------------
EXTENDS TwoLayer, IOUtils
MCAmtAdd(a, b) == a + b
MCAmtOk(a) == a < RangeBound
MCDLt(a, b) == a < b
Env(n, d) == IF n \in DOMAIN IOEnv THEN IOEnv[n] ELSE d
MCM == atoi(Env("TLM", "2"))
MCN == atoi(Env("TLN", "1"))
Dom == Env("TLDOM", "full")
Full == [asset : {0, 1}, out1 : {0, 1, 3}, out2 : {0, 1}, fee : {0}, null : {1, 2}, exit1 : {0, 1}, exit2 : {0, 1},
         block : {0, 1, 2}, number : {7}]
Base == [asset |-> 0, out1 |-> 1, out2 |-> 0, fee |-> 0, null |-> 1, exit1 |-> 1, exit2 |-> 0, block |-> 1, number |-> 7]
Fields == {"asset", "out1", "out2", "null", "exit1", "exit2", "block"}
Diff(c) == Cardinality({f \in Fields : c[f] # Base[f]})
MCLeafDom == IF Dom = "near" THEN {c \in Full : Diff(c) <= 2} ELSE IF Dom = "near1" THEN {c \in Full : Diff(c) <= 1} ELSE Full
=============================================================================
