-------------------------------- MODULE Merkle --------------------------------
(* C27: native 4-ary Merkle proofs (common/src/zk_merkle.rs) against the declarative fold, and against the
   tree walk of the leaf circuit.

   A proof class: depth (number of sibling levels) 0..MAXD+1, plen ("eq","short","long"), pval ("ok","four"),
   canon ("all", "leaf", "sibling": which hash has a limb >= p), rootok (the root field equals the fold of the
   presented path), corrupt ("none", "sibling", "position": one single corruption of an otherwise valid proof;
   a corrupted sibling or a changed in-range position changes the fold, hence rootok = FALSE).
   verify_with_positions is the guard sequence the code runs; Valid is the property text.                 *)
EXTENDS Naturals, TLC
CONSTANTS MAXD
Classes == [depth : 0 .. MAXD + 1, plen : {"eq", "short", "long"}, pval : {"ok", "four"}, canon : {"all", "leaf", "sibling"},
            rootok : BOOLEAN]
Feasible(c) == /\ (c.plen = "short" => c.depth >= 1)
               /\ (c.pval = "four" => (c.depth >= 1 /\ (c.plen = "short" => c.depth >= 2)))
               /\ (c.canon = "sibling" => c.depth >= 1)
               \* an out-of-range position leaves no defined fold to compare with.  For a non-canonical hash rootok means:
               \* the root equals what a verifier WITHOUT the canonicity guard would compute - the fold of the path with the
               \* offending limb reduced mod p (the alias v + p of a genuine limb v), and at depth 0 (nothing is hashed)
               \* simply the non-canonical leaf bytes themselves.  Valid stays FALSE for all of them.
               /\ ((c.pval # "ok" \/ c.plen # "eq") => ~c.rootok)
VARIABLES c, stage, verdict
vars == <<c, stage, verdict>>
Init == c \in {x \in Classes : Feasible(x)} /\ stage = "depth" /\ verdict = "none"
Reject == stage' = "end" /\ verdict' = FALSE /\ UNCHANGED c
Pass(s) == stage' = s /\ UNCHANGED <<c, verdict>>
GDepth == stage = "depth" /\ IF c.depth > MAXD THEN Reject ELSE Pass("lens")
GLens == stage = "lens" /\ IF c.plen # "eq" THEN Reject ELSE Pass("canon")
GCanon == stage = "canon" /\ IF c.canon # "all" THEN Reject ELSE Pass("fold")
\* the per-level loop: insert_at_position fails on a position > 3; otherwise the fold goes on
GFold == stage = "fold" /\ IF c.pval # "ok" THEN Reject ELSE Pass("root")
GRoot == stage = "root" /\ stage' = "end" /\ verdict' = c.rootok /\ UNCHANGED c
Done == stage = "end" /\ UNCHANGED vars
Next == GDepth \/ GLens \/ GCanon \/ GFold \/ GRoot \/ Done
Spec == Init /\ [][Next]_vars

(* C27 *) Valid == c.depth <= MAXD /\ c.plen = "eq" /\ c.canon = "all" /\ c.pval = "ok" /\ c.rootok
NativeExact == stage = "end" => (verdict <=> Valid)
\* the leaf circuit's tree walk (Leaf.tla: Depth, Positions, RootBind with flag = 1) on a CANONICAL path with one
\* position per level accepts exactly the same paths
CircuitAccepts == c.depth <= MAXD /\ c.pval = "ok" /\ c.rootok
CircuitAgrees == (stage = "end" /\ c.canon = "all" /\ c.plen = "eq") => (verdict <=> CircuitAccepts)
\* from_unsorted: defined exactly on canonical paths of depth <= MAXD (positions are computed, not supplied)
BuildSucceeds == c.depth <= MAXD /\ c.canon = "all"
MerkleInv == NativeExact /\ CircuitAgrees
=============================================================================
