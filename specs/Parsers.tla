------------------------------ MODULE Parsers ------------------------------
(* Public-input parsers (C24).

   Three layouts (lengths in field elements):
     leaf            21
     private batch   8 + 21 N     header(8), 2N exit slots of 5, N nullifiers of 4, 7N of padding
     public batch    12 + 14 M N  header(12), 2MN exit slots of 5, MN nullifiers of 4
   and five parsers: leaf (u64, felt), private batch (u64, felt), public batch (u64).

   An input vector is described by what the parsers can tell apart:
     len   its length
     hdr   the header-constant position (index 0 of a private batch: 2N; index 11 of a public
           batch: 2MN), a record [c, n]: c = "num" (the u32 value n), "nc" (the value n written
           as the non-canonical felt n + p), or a class "two32" | "pm1" | "p" | "umax"
     ov    a sequence of [pos, c]: position pos holds class c; all other positions hold "ok",
           a canonical value below 2^32
   Value classes:  "ok" < 2^32   "zero" 0   "u32max" 2^32-1   "two32" in [2^32, p)   "pm1" p-1
                   "p" = p   "umax" 2^64-1   (u64 vectors only: not field elements)
                   "nc" a value below 2^32 written as value + p   (felt vectors only)

   XGuards(v)   each parser as the ordered guard sequence the code runs; a guard names the highest
                index it reads (hi) - reading at or beyond len is a panic.
   WFx(v)       well-formedness, written from the property text.
   *Pos         where a structure field is written (Ser: the documented layout) and where each
                parser reads it (U64: the cursor walk, Felt: the chunk arithmetic).           *)
EXTENDS Naturals, Integers, Sequences, FiniteSets, TLC

MaxCount == 64
LeafLen == 21

ValidCount(c) == c >= 1 /\ c <= MaxCount

U64Classes == {"ok", "zero", "u32max", "two32", "pm1", "p", "umax"}
FeltClasses == {"ok", "zero", "u32max", "two32", "pm1", "nc"}

IsU32(c) == c \in {"ok", "zero", "u32max", "nc"}
IsCanon(c) == c \notin {"p", "umax"}
Image(c) == IF c = "nc" THEN "ok" ELSE c

HdrU32(h) == h.c \in {"num", "nc"}
HdrIs(h, want) == HdrU32(h) /\ h.n = want
HdrImage(h) == IF h.c = "nc" THEN [c |-> "num", n |-> h.n] ELSE h
NoHdr == [c |-> "num", n |-> 0]

\* the vector a felt parser sees / the canonical u64 image of a felt vector
View(v) == [len |-> v.len, hdr |-> HdrImage(v.hdr),
            ov |-> [k \in 1 .. Len(v.ov) |-> [pos |-> v.ov[k].pos, c |-> Image(v.ov[k].c)]]]

Live(v) == {k \in 1 .. Len(v.ov) : v.ov[k].pos < v.len}
At(v, i) == LET ks == {k \in Live(v) : v.ov[k].pos = i}
            IN IF ks = {} THEN "ok" ELSE v.ov[CHOOSE k \in ks : TRUE].c

\* positions lo .. hiEx-1 hold records of `period` values: a u32 scalar followed by digest limbs
\* (period 5: exit slots), or digest limbs only (period 0)
RegionOk(v, lo, hiEx, period) ==
  \A k \in Live(v) :
    LET i == v.ov[k].pos IN
      (lo <= i /\ i < hiEx) =>
        IF period > 0 /\ (i - lo) % period = 0 THEN IsU32(v.ov[k].c) ELSE IsCanon(v.ov[k].c)

Verdict(gs, len) ==
  LET bad == {j \in 1 .. Len(gs) : gs[j].hi >= len \/ ~gs[j].ok}
  IN IF bad = {} THEN "ok"
     ELSE LET j == CHOOSE x \in bad : \A y \in bad : x <= y
          IN IF gs[j].hi >= len THEN "panic" ELSE gs[j].g

G(name, hi, ok) == [g |-> name, hi |-> hi, ok |-> ok]

-----------------------------------------------------------------------------
(* leaf *)
LeafScalars == {0, 1, 2, 3, 20}

LeafU64Guards(v) == <<
  G("len", -1, v.len = LeafLen),
  G("asset_id", 0, IsU32(At(v, 0))),
  G("output_amount_1", 1, IsU32(At(v, 1))),
  G("output_amount_2", 2, IsU32(At(v, 2))),
  G("volume_fee_bps", 3, IsU32(At(v, 3))),
  G("nullifier", 7, \A i \in 4 .. 7 : IsCanon(At(v, i))),
  G("exit_account_1", 11, \A i \in 8 .. 11 : IsCanon(At(v, i))),
  G("exit_account_2", 15, \A i \in 12 .. 15 : IsCanon(At(v, i))),
  G("block_hash", 19, \A i \in 16 .. 19 : IsCanon(At(v, i))),
  G("block_number", 20, IsU32(At(v, 20))) >>

LeafFeltGuards(v) == <<
  G("len", -1, v.len = LeafLen),
  G("asset_id", 0, IsU32(At(v, 0))),
  G("output_amount_1", 1, IsU32(At(v, 1))),
  G("output_amount_2", 2, IsU32(At(v, 2))),
  G("volume_fee_bps", 3, IsU32(At(v, 3))),
  G("nullifier", 7, \A i \in 4 .. 7 : IsCanon(At(v, i))),
  G("block_hash", 19, \A i \in 16 .. 19 : IsCanon(At(v, i))),
  G("exit_account_1", 11, \A i \in 8 .. 11 : IsCanon(At(v, i))),
  G("exit_account_2", 15, \A i \in 12 .. 15 : IsCanon(At(v, i))),
  G("block_number", 20, IsU32(At(v, 20))) >>

WFLeaf(v) ==
  /\ v.len = LeafLen
  /\ \A k \in Live(v) :
       IF v.ov[k].pos \in LeafScalars THEN IsU32(v.ov[k].c) ELSE IsCanon(v.ov[k].c)

-----------------------------------------------------------------------------
(* private batch *)
PrivLen(n) == 8 + 21 * n
PrivN(len) == IF len >= 8 THEN (len - 8) \div 21 ELSE 0

CountOk(n) == ValidCount(n)
HdrConstOk(h, want) == HdrIs(h, want)
DigestLimbOk(c) == IsCanon(c)

PrivU64Guards(v) ==
  LET L == v.len
      N == PrivN(L)
  IN <<
  G("len_min", -1, L >= 8),
  G("len_mod", -1, L >= 8 /\ (L - 8) % 21 = 0),
  G("num_exit_slots_u32", 0, HdrU32(v.hdr)),
  G("asset_id", 1, IsU32(At(v, 1))),
  G("volume_fee_bps", 2, IsU32(At(v, 2))),
  G("count", -1, CountOk(N)),
  G("num_exit_slots_const", 0, HdrConstOk(v.hdr, 2 * N)),
  G("block_hash", 6, \A i \in 3 .. 6 : DigestLimbOk(At(v, i))),
  G("block_number", 7, IsU32(At(v, 7))),
  \* the loop re-checks the bounds before every read (an error, not a panic); with the length
  \* fixed at 8 + 21 N those checks never fire
  G("exit_slots", 8 + 10 * N - 1, RegionOk(v, 8, 8 + 10 * N, 5)),
  G("nullifiers", 8 + 14 * N - 1, RegionOk(v, 8 + 10 * N, 8 + 14 * N, 0)) >>

PrivFeltGuards(v) ==
  LET L == v.len
      N == PrivN(L)
  IN <<
  G("len", -1, L >= 8 /\ (L - 8) % 21 = 0),
  G("count", -1, CountOk(N)),
  G("num_exit_slots_u32", 0, HdrU32(v.hdr)),
  G("num_exit_slots_const", 0, HdrConstOk(v.hdr, 2 * N)),
  G("asset_id", 1, IsU32(At(v, 1))),
  G("volume_fee_bps", 2, IsU32(At(v, 2))),
  G("block_hash", 6, \A i \in 3 .. 6 : DigestLimbOk(At(v, i))),
  G("block_number", 7, IsU32(At(v, 7))),
  G("exit_slots", 8 + 10 * N - 1, RegionOk(v, 8, 8 + 10 * N, 5)),
  G("nullifiers", 8 + 14 * N - 1, RegionOk(v, 8 + 10 * N, 8 + 14 * N, 0)) >>

\* what the documented layout puts at position i of a private batch of n leaves
PrivRole(n, i) ==
  IF i = 0 THEN "hdr"
  ELSE IF i \in {1, 2, 7} THEN "scalar"
  ELSE IF i < 8 THEN "limb"
  ELSE IF i < 8 + 10 * n THEN (IF (i - 8) % 5 = 0 THEN "scalar" ELSE "limb")
  ELSE IF i < 8 + 14 * n THEN "limb"
  ELSE "pad"

FieldOk(role, c) ==
  CASE role = "scalar" -> IsU32(c)
    [] role = "limb" -> IsCanon(c)
    [] OTHER -> TRUE            \* padding is not part of the structure

WFPriv(v) ==
  \E n \in 1 .. MaxCount :
    /\ v.len = PrivLen(n)
    /\ HdrIs(v.hdr, 2 * n)
    /\ \A k \in Live(v) : FieldOk(PrivRole(n, v.ov[k].pos), v.ov[k].c)

-----------------------------------------------------------------------------
(* public batch: m private-batch proofs of n leaves each; the counts are arguments *)
PubLen(m, n) == 12 + 14 * m * n

PubGuards(v, m, n) ==
  LET okc == ValidCount(m) /\ ValidCount(n)
      T == IF okc THEN m * n ELSE 0
  IN <<
  G("num_private_batch_proofs", -1, CountOk(m)),
  G("num_leaf_proofs", -1, CountOk(n)),
  G("len", -1, okc /\ v.len = 12 + 10 * T + 4 * T),
  G("aggregator_address", 3, \A i \in 0 .. 3 : DigestLimbOk(At(v, i))),
  G("asset_id", 4, IsU32(At(v, 4))),
  G("volume_fee_bps", 5, IsU32(At(v, 5))),
  G("block_hash", 9, \A i \in 6 .. 9 : DigestLimbOk(At(v, i))),
  G("block_number", 10, IsU32(At(v, 10))),
  G("total_exit_slots_u32", 11, HdrU32(v.hdr)),
  G("total_exit_slots_const", 11, HdrConstOk(v.hdr, 2 * T)),
  G("exit_slots", 12 + 10 * T - 1, RegionOk(v, 12, 12 + 10 * T, 5)),
  G("nullifiers", 12 + 14 * T - 1, RegionOk(v, 12 + 10 * T, 12 + 14 * T, 0)) >>

PubRole(t, i) ==
  IF i < 4 THEN "limb"
  ELSE IF i \in {4, 5, 10} THEN "scalar"
  ELSE IF i < 10 THEN "limb"
  ELSE IF i = 11 THEN "hdr"
  ELSE IF i < 12 + 10 * t THEN (IF (i - 12) % 5 = 0 THEN "scalar" ELSE "limb")
  ELSE "limb"

WFPub(v, m, n) ==
  /\ ValidCount(m) /\ ValidCount(n)
  /\ v.len = PubLen(m, n)
  /\ HdrIs(v.hdr, 2 * m * n)
  /\ \A k \in Live(v) : FieldOk(PubRole(m * n, v.ov[k].pos), v.ov[k].c)

-----------------------------------------------------------------------------
(* verdicts *)
Acc(x) == x = "ok"
LeafU64(v) == Verdict(LeafU64Guards(v), v.len)
LeafFelt(v) == Verdict(LeafFeltGuards(View(v)), v.len)
PrivU64(v) == Verdict(PrivU64Guards(v), v.len)
PrivFelt(v) == Verdict(PrivFeltGuards(View(v)), v.len)
PubU64(v, m, n) == Verdict(PubGuards(v, m, n), v.len)

\* a u64 vector that is the canonical image of some felt vector (used for the leaf and private-batch
\* layouts, whose header constant - if any - sits at index 0: an empty vector has none)
HasFeltCounterpart(v) == (\A k \in Live(v) : IsCanon(v.ov[k].c)) /\ (v.hdr.c \notin {"p", "umax"} \/ v.len = 0)
\* a limb >= p at a position that belongs to the structure
NonCanonRead(v, role(_)) ==
  \/ v.hdr.c \in {"p", "umax"}
  \/ \E k \in Live(v) : ~IsCanon(v.ov[k].c) /\ role(v.ov[k].pos) # "pad"

-----------------------------------------------------------------------------
(* where fields are written and read; field names are tuples *)
PrivFields(n) ==
  {<<"hdr">>, <<"asset">>, <<"fee">>, <<"bnum">>} \cup {<<"bhash", j>> : j \in 0 .. 3}
  \cup {<<"amt", k>> : k \in 0 .. 2 * n - 1}
  \cup {<<"exit", k, j>> : k \in 0 .. 2 * n - 1, j \in 0 .. 3}
  \cup {<<"null", k, j>> : k \in 0 .. n - 1, j \in 0 .. 3}

\* the documented layout (Serialize)
PrivSerPos(n, f) ==
  CASE f[1] = "hdr" -> 0
    [] f[1] = "asset" -> 1
    [] f[1] = "fee" -> 2
    [] f[1] = "bhash" -> 3 + f[2]
    [] f[1] = "bnum" -> 7
    [] f[1] = "amt" -> 8 + 5 * f[2]
    [] f[1] = "exit" -> 8 + 5 * f[2] + 1 + f[3]
    [] f[1] = "null" -> 8 + 10 * n + 4 * f[2] + f[3]

\* the inverse of the documented layout: which field sits at position i ("pad" beyond the content)
PrivFieldAt(n, i) ==
  IF i = 0 THEN <<"hdr">> ELSE IF i = 1 THEN <<"asset">> ELSE IF i = 2 THEN <<"fee">>
  ELSE IF i < 7 THEN <<"bhash", i - 3>> ELSE IF i = 7 THEN <<"bnum">>
  ELSE IF i < 8 + 10 * n THEN
         (IF (i - 8) % 5 = 0 THEN <<"amt", (i - 8) \div 5>> ELSE <<"exit", (i - 8) \div 5, ((i - 8) % 5) - 1>>)
  ELSE IF i < 8 + 14 * n THEN <<"null", (i - 8 - 10 * n) \div 4, (i - 8 - 10 * n) % 4>>
  ELSE <<"pad">>

\* the u64 parser walks a cursor: 8, then +1 (amount) +4 (account) per slot, then +4 per nullifier
RECURSIVE CursorAfter(_, _, _)
CursorAfter(start, step, k) == IF k = 0 THEN start ELSE CursorAfter(start, step, k - 1) + step

PrivU64Pos(n, f) ==
  CASE f[1] = "hdr" -> 0
    [] f[1] = "asset" -> 1
    [] f[1] = "fee" -> 2
    [] f[1] = "bhash" -> 3 + f[2]
    [] f[1] = "bnum" -> 7
    [] f[1] = "amt" -> CursorAfter(8, 5, f[2])
    [] f[1] = "exit" -> CursorAfter(8, 5, f[2]) + 1 + f[3]
    [] f[1] = "null" -> CursorAfter(CursorAfter(8, 5, 2 * n), 4, f[2]) + f[3]

\* the felt parser slices: pis[8..].chunks(5).take(2n); pis[8 + n*2*5 ..].chunks(4).take(n)
PrivFeltPos(n, f) ==
  CASE f[1] = "hdr" -> 0
    [] f[1] = "asset" -> 1
    [] f[1] = "fee" -> 2
    [] f[1] = "bhash" -> 3 + f[2]
    [] f[1] = "bnum" -> 7
    [] f[1] = "amt" -> 8 + f[2] * 5
    [] f[1] = "exit" -> 8 + f[2] * 5 + 1 + f[3]
    [] f[1] = "null" -> (8 + n * 2 * 5) + f[2] * 4 + f[3]

\* Parse(Serialize(s)) = s for the structure whose fields are their own names:
\* Serialize(s)[i] = s[FieldAt(i)], Parse(v)[f] = v[Pos(f)]
PrivRoundTrip(n) ==
  \A f \in PrivFields(n) :
    /\ PrivFieldAt(n, PrivU64Pos(n, f)) = f
    /\ PrivFieldAt(n, PrivFeltPos(n, f)) = f
    /\ PrivSerPos(n, f) = PrivU64Pos(n, f)
    /\ PrivU64Pos(n, f) < PrivLen(n)

PubFields(t) ==
  {<<"asset">>, <<"fee">>, <<"bnum">>, <<"hdr">>} \cup {<<"agg", j>> : j \in 0 .. 3}
  \cup {<<"bhash", j>> : j \in 0 .. 3}
  \cup {<<"amt", k>> : k \in 0 .. 2 * t - 1}
  \cup {<<"exit", k, j>> : k \in 0 .. 2 * t - 1, j \in 0 .. 3}
  \cup {<<"null", k, j>> : k \in 0 .. t - 1, j \in 0 .. 3}

PubFieldAt(t, i) ==
  IF i < 4 THEN <<"agg", i>> ELSE IF i = 4 THEN <<"asset">> ELSE IF i = 5 THEN <<"fee">>
  ELSE IF i < 10 THEN <<"bhash", i - 6>> ELSE IF i = 10 THEN <<"bnum">> ELSE IF i = 11 THEN <<"hdr">>
  ELSE IF i < 12 + 10 * t THEN
         (IF (i - 12) % 5 = 0 THEN <<"amt", (i - 12) \div 5>> ELSE <<"exit", (i - 12) \div 5, ((i - 12) % 5) - 1>>)
  ELSE IF i < 12 + 14 * t THEN <<"null", (i - 12 - 10 * t) \div 4, (i - 12 - 10 * t) % 4>>
  ELSE <<"pad">>

PubU64Pos(t, f) ==
  CASE f[1] = "agg" -> f[2]
    [] f[1] = "asset" -> 4
    [] f[1] = "fee" -> 5
    [] f[1] = "bhash" -> 6 + f[2]
    [] f[1] = "bnum" -> 10
    [] f[1] = "hdr" -> 11
    [] f[1] = "amt" -> CursorAfter(12, 5, f[2])
    [] f[1] = "exit" -> CursorAfter(12, 5, f[2]) + 1 + f[3]
    [] f[1] = "null" -> CursorAfter(CursorAfter(12, 5, 2 * t), 4, f[2]) + f[3]

PubRoundTrip(m, n) ==
  LET t == m * n IN
  \A f \in PubFields(t) :
    /\ PubFieldAt(t, PubU64Pos(t, f)) = f
    /\ PubU64Pos(t, f) < PubLen(m, n)

\* the leaf layout is a table of constants shared by both parsers
LeafFieldAt(i) ==
  IF i = 0 THEN <<"asset">> ELSE IF i = 1 THEN <<"out1">> ELSE IF i = 2 THEN <<"out2">> ELSE IF i = 3 THEN <<"fee">>
  ELSE IF i < 8 THEN <<"null", i - 4>> ELSE IF i < 12 THEN <<"exit1", i - 8>> ELSE IF i < 16 THEN <<"exit2", i - 12>>
  ELSE IF i < 20 THEN <<"bhash", i - 16>> ELSE <<"bnum">>
LeafRoundTrip == \A i \in 0 .. 20 : \A j \in 0 .. 20 : (LeafFieldAt(i) = LeafFieldAt(j)) => i = j

-----------------------------------------------------------------------------
(* one case per state: c = [p, dom, v, m, n]   (m, n: the public-batch arguments) *)
VARIABLE c
Next == UNCHANGED c

LeafRoleOf(i) == IF i < 21 THEN "field" ELSE "pad"

(* C24 *)
Total ==
  CASE c.p = "leaf" -> LeafU64(c.v) # "panic" /\ LeafFelt(c.v) # "panic"
    [] c.p = "priv" -> PrivU64(c.v) # "panic" /\ PrivFelt(c.v) # "panic"
    [] c.p = "pub" -> PubU64(c.v, c.m, c.n) # "panic"
    [] OTHER -> TRUE

\* the u64 parsers on u64 vectors, the felt parsers on felt vectors (through the canonical image)
Exact ==
  CASE c.p = "leaf" -> IF c.dom = "u64" THEN Acc(LeafU64(c.v)) <=> WFLeaf(c.v)
                                         ELSE Acc(LeafFelt(c.v)) <=> WFLeaf(View(c.v))
    [] c.p = "priv" -> IF c.dom = "u64" THEN Acc(PrivU64(c.v)) <=> WFPriv(c.v)
                                         ELSE Acc(PrivFelt(c.v)) <=> WFPriv(View(c.v))
    [] c.p = "pub" -> Acc(PubU64(c.v, c.m, c.n)) <=> WFPub(c.v, c.m, c.n)
    [] OTHER -> TRUE

\* felt parser on a felt vector = u64 parser on its canonical image; and a u64 vector that has a felt
\* counterpart gets the same verdict from both
Agree ==
  CASE c.p = "leaf" -> (c.dom = "felt" \/ HasFeltCounterpart(c.v)) => (Acc(LeafFelt(c.v)) <=> Acc(LeafU64(View(c.v))))
    [] c.p = "priv" -> (c.dom = "felt" \/ HasFeltCounterpart(c.v)) => (Acc(PrivFelt(c.v)) <=> Acc(PrivU64(View(c.v))))
    [] OTHER -> TRUE

\* a u64 limb >= p inside the structure has no felt counterpart and is rejected
NonCanonRejected ==
  c.dom = "u64" =>
    CASE c.p = "leaf" -> NonCanonRead(c.v, LeafRoleOf) => ~Acc(LeafU64(c.v))
      [] c.p = "priv" -> LET r(i) == PrivRole(PrivN(c.v.len), i) IN NonCanonRead(c.v, r) => ~Acc(PrivU64(c.v))
      [] c.p = "pub" -> (ValidCount(c.m) /\ ValidCount(c.n)) =>
                           LET r(i) == PubRole(c.m * c.n, i) IN NonCanonRead(c.v, r) => ~Acc(PubU64(c.v, c.m, c.n))
      [] OTHER -> TRUE

RoundTrip ==
  CASE c.p = "rt_priv" -> PrivRoundTrip(c.n)
    [] c.p = "rt_pub" -> PubRoundTrip(c.m, c.n)
    [] c.p = "rt_leaf" -> LeafRoundTrip
    [] OTHER -> TRUE

C24Inv == Total /\ Exact /\ Agree /\ NonCanonRejected /\ RoundTrip
=============================================================================
