---------------------------- MODULE ParsersTrace ----------------------------
(* Implementation -> specification for C24: every recorded run of the real parsers on a random
   vector (random layout, dimensions, length around the boundaries, header constant, up to three
   positions in a random value class, random public-batch arguments) must get from Parsers.tla the
   verdict the real parser returned; no run may panic; where both private-batch / leaf parsers
   accept they returned equal structures (obs_agree) that serialise back to the input (obs_reser). *)
EXTENDS Parsers, Json, IOUtils

Rec == ndJsonDeserialize(IOEnv.TRACE)
VARIABLE l

VecOf(e) == [len |-> e.len, hdr |-> e.hdr, ov |-> e.ov]

ModelU64(e) ==
  LET v == IF e.dom = "felt" THEN View(VecOf(e)) ELSE VecOf(e)
  IN CASE e.p = "leaf" -> LeafU64(v)
       [] e.p = "priv" -> PrivU64(v)
       [] e.p = "pub" -> PubU64(v, e.mi, e.ni)

ModelFelt(e) ==
  CASE e.p = "leaf" -> LeafFelt(VecOf(e))
    [] e.p = "priv" -> PrivFelt(VecOf(e))
    [] OTHER -> "na"

EventOk(e) ==
  /\ e.obs_u64 # "panic" /\ e.obs_felt # "panic"
  /\ Acc(ModelU64(e)) <=> (e.obs_u64 = "ok")
  /\ e.obs_felt # "na" => (Acc(ModelFelt(e)) <=> (e.obs_felt = "ok"))
  \* a vector without a felt counterpart was not given to the felt parser
  /\ (e.obs_felt = "na" /\ e.p # "pub") => (e.dom = "u64" /\ ~HasFeltCounterpart(VecOf(e)))
  /\ e.obs_agree /\ e.obs_reser

TraceInit == l = 1 /\ c = [p |-> "trace"]
TraceNext == l <= Len(Rec) /\ EventOk(Rec[l]) /\ l' = l + 1 /\ UNCHANGED c
TraceSpec == TraceInit /\ [][TraceNext]_<<l, c>>

TraceAccepted ==
    LET d == TLCGet("stats").diameter IN
    IF d = Len(Rec) + 1 THEN PrintT(<<"TRACEOK", ToJson([events |-> Len(Rec)])>>)
    ELSE /\ PrintT(<<"TRACEFAIL", ToJson([matched |-> d - 1, first_unmatched |-> Rec[d]])>>)
         /\ FALSE
=============================================================================
