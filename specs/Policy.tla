------------------------------ MODULE Policy ------------------------------
(* The circuit-config policy (C28).

   Valid(c)            the policy as the property states it (declarative).
   ValidateVerdict(c)  `validate_circuit_config` as the guard sequence the code runs,
                       in code order; the first failing guard names the error.
   FlagCheck / Build   the profiling CLI (`AggConfigArgs::validate` / `::build`):
                       a flag is absent (None) or carries a value; the built config is the
                       production private-batch config with the given overrides.

   A "config" is the record of the eight knobs the policy reads.  TLC enumerates the
   grid of configs / flag sets given by the constants; each is one initial state.     *)
EXTENDS Naturals, Integers, FiniteSets, Sequences, TLC

CONSTANTS
  GChal, GSec, GQuery, GWires, GRouted, GQuot, GRate, GCap,   \* config grid, per knob
  FWires, FRouted, FQuot, FRate, FCap, FQuery, FSec, FChal,   \* flag grid (None = -1)
  Baseline                                                   \* production private-batch config

None == -1

MinWires == 135
MinRouted == 37
MinQuot == 7
MaxRate == 8
MaxCap == 8

\* ceil(log2(n)) for n >= 1
Log2Ceil(n) == CHOOSE k \in 0..64 : 2^k >= n /\ (k = 0 \/ 2^(k-1) < n)

Configs == [chal : GChal, sec : GSec, query : GQuery, wires : GWires, routed : GRouted,
            quot : GQuot, rate : GRate, cap : GCap]

-----------------------------------------------------------------------------
(* the policy, as stated *)
Valid(c) ==
  /\ c.chal > 0 /\ c.sec > 0 /\ c.query > 0
  /\ c.wires >= MinWires
  /\ MinRouted <= c.routed /\ c.routed <= c.wires
  /\ c.quot >= MinQuot
  /\ c.rate <= MaxRate /\ c.cap <= MaxCap
  /\ c.rate >= Log2Ceil(c.quot)

(* validate_circuit_config: guards in code order; "ok" or the first failing guard *)
Guards(c) == <<
  <<"num_challenges",   c.chal > 0>>,
  <<"security_bits",    c.sec > 0>>,
  <<"num_query_rounds", c.query > 0>>,
  <<"num_wires",        c.wires >= MinWires>>,
  <<"routed_floor",     c.routed >= MinRouted>>,
  <<"routed_prefix",    c.routed <= c.wires>>,
  <<"quotient_floor",   c.quot >= MinQuot>>,
  <<"rate_ceiling",     c.rate <= MaxRate>>,
  <<"cap_ceiling",      c.cap <= MaxCap>>,
  \* evaluated only when quot >= 7, so the logarithm's argument is >= 1
  <<"rate_quotient",    c.quot >= MinQuot => c.rate >= Log2Ceil(c.quot)>> >>

FirstFail(c) ==
  LET g == Guards(c)
      bad == {i \in 1..Len(g) : ~g[i][2]}
  IN IF bad = {} THEN "ok" ELSE g[CHOOSE i \in bad : \A j \in bad : i <= j][1]

ValidateVerdict(c) == FirstFail(c) = "ok"

-----------------------------------------------------------------------------
(* constructors: Validate; Build.  A constructor reaches the circuit builder only
   with a config that passed.                                                     *)
ConstructorOutcome(c) == IF ValidateVerdict(c) THEN "built" ELSE "error"

-----------------------------------------------------------------------------
(* the profiling CLI *)
Flags == [wires : FWires, routed : FRouted, quot : FQuot, rate : FRate, cap : FCap,
          query : FQuery, sec : FSec, chal : FChal, zkoff : BOOLEAN, allow : BOOLEAN]

Eff(v, base) == IF v = None THEN base ELSE v
Max(a, b) == IF a >= b THEN a ELSE b
CeilDiv(a, b) == (a + b - 1) \div b

FlagGuards(f) == <<
  <<"zero", \A v \in {f.rate, f.cap, f.wires, f.routed, f.quot, f.query, f.sec, f.chal} : v # 0>>,
  <<"rate_ceiling", f.rate # None => f.rate <= MaxRate>>,
  <<"cap_ceiling",  f.cap # None => f.cap <= MaxCap>>,
  <<"rate_quotient", Eff(f.rate, Baseline.rate) >= Log2Ceil(Max(Eff(f.quot, Baseline.quot), 1))>>,
  <<"num_wires", f.wires # None => f.wires >= MinWires>>,
  <<"quotient_floor", f.quot # None => f.quot >= MinQuot>>,
  <<"routed_floor", f.routed # None => f.routed >= MinRouted>>,
  <<"routed_prefix", f.routed # None => f.routed <= Eff(f.wires, Baseline.wires)>>,
  <<"weakening", (f.zkoff \/ f.query # None \/ f.sec # None \/ f.chal # None) => f.allow>> >>

FlagFirstFail(f) ==
  LET g == FlagGuards(f)
      bad == {i \in 1..Len(g) : ~g[i][2]}
  IN IF bad = {} THEN "ok" ELSE g[CHOOSE i \in bad : \A j \in bad : i <= j][1]

FlagsAccepted(f) == FlagFirstFail(f) = "ok"

Build(f) ==
  LET product == Baseline.rate * Baseline.query
      autoQuery == IF f.rate = None THEN Baseline.query ELSE CeilDiv(product, Max(f.rate, 1))
  IN [chal |-> Eff(f.chal, Baseline.chal), sec |-> Eff(f.sec, Baseline.sec),
      query |-> Eff(f.query, autoQuery),
      wires |-> Eff(f.wires, Baseline.wires), routed |-> Eff(f.routed, Baseline.routed),
      quot |-> Eff(f.quot, Baseline.quot), rate |-> Eff(f.rate, Baseline.rate),
      cap |-> Eff(f.cap, Baseline.cap)]

-----------------------------------------------------------------------------
VARIABLES kind, c, f
vars == <<kind, c, f>>

NoFlags == [wires |-> None, routed |-> None, quot |-> None, rate |-> None, cap |-> None,
            query |-> None, sec |-> None, chal |-> None, zkoff |-> FALSE, allow |-> FALSE]

Init ==
  \/ kind = "config" /\ c \in Configs /\ f = NoFlags
  \/ kind = "flags" /\ f \in Flags /\ c = Build(f)
Next == UNCHANGED vars
Spec == Init /\ [][Next]_vars

(* C28 *)
ValidateExact == kind = "config" => (ValidateVerdict(c) <=> Valid(c))
ConstructorsGuarded == kind = "config" => (ConstructorOutcome(c) = "built" => Valid(c))
CliSound == kind = "flags" => (FlagsAccepted(f) => Valid(c))
BaselineValid == Valid(Baseline)
C28Inv == ValidateExact /\ ConstructorsGuarded /\ CliSound /\ BaselineValid
=============================================================================
