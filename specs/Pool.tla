------------------------------- MODULE Pool -------------------------------
(***************************************************************************)
(* The miner-side proof pool (wormhole/aggregator/src/pool.rs) as a        *)
(* sequential state machine: one action per public call, plus clock ticks. *)
(* The admission procedure is written stage by stage in the order the      *)
(* code runs it (the order is observable: budget charging, "verify was     *)
(* called", which rejection wins).  Properties C19-C22 are stated          *)
(* declaratively below and checked against this operational description;   *)
(* the description itself is bound to the real ProofPool by replay and     *)
(* trace validation (PoolTrace.tla).                                       *)
(***************************************************************************)
EXTENDS Integers, Sequences, FiniteSets, TLC

CONSTANTS
    MaxProofs,      \* PoolLimits.max_proofs
    MaxBuckets,     \* PoolLimits.max_buckets
    MaxVerifies,    \* PoolLimits.max_verifies_per_window
    Window,         \* PoolLimits.verify_window, in ticks
    Batch,          \* batch_size (proofs per snapshot)
    VolCap,         \* u64::MAX in volume units (saturation point)
    Palette         \* the submissions that can be pushed: a set of records
                    \*   [id, key : [block, asset, fee], nulls : SUBSET Nat, valid, lenOk, slots : Seq(Nat)]

VARIABLES
    buckets,        \* key -> sequence of entries [id, nulls, vol, at], admission order
    index,          \* nullifier -> key
    winStart,       \* start of the current verification window
    verifies,       \* verification attempts in the current window
    now,            \* the clock
    lastSnap,       \* key -> time of last snapshot (partial)
    res,            \* observation of the last call (not part of the pool state)
    callsInWin      \* history: verifier.verify calls made since the window last (re)started

poolVars == <<buckets, index, winStart, verifies, lastSnap>>
vars == <<buckets, index, winStart, verifies, now, lastSnap, res, callsInWin>>
view == <<buckets, index, winStart, verifies, now, lastSnap>>

-----------------------------------------------------------------------------
(* helpers *)

Rng(s) == {s[i] : i \in DOMAIN s}
Restr(f, S) == [x \in S |-> f[x]]
Min2(a, b) == IF a < b THEN a ELSE b
SatAdd(a, b) == Min2(a + b, VolCap)

RECURSIVE SatSumSeq(_)
SatSumSeq(s) == IF s = <<>> THEN 0 ELSE SatAdd(SatSumSeq(SubSeq(s, 1, Len(s) - 1)), s[Len(s)])

RECURSIVE SumLens(_, _)
SumLens(b, S) == IF S = {} THEN 0
                 ELSE LET k == CHOOSE x \in S : TRUE IN Len(b[k]) + SumLens(b, S \ {k})
SizeOf(b) == SumLens(b, DOMAIN b)
Size == SizeOf(buckets)

IsDummyKey(k) == k.block = 0
Entries(b) == UNION {Rng(b[k]) : k \in DOMAIN b}
PooledIds(b) == {e.id : e \in Entries(b)}
EntryOf(b, id) == CHOOSE e \in Entries(b) : e.id = id
KeyOfId(b, id) == CHOOSE k \in DOMAIN b : \E e \in Rng(b[k]) : e.id = id
ProofVol(p) == SatSumSeq(p.slots)          \* parse_metadata: saturating fold over exit-slot sums

-----------------------------------------------------------------------------
(* Init *)

NoRes == [op |-> "init", result |-> "none", verified |-> FALSE, count |-> 0, ids |-> <<>>]

Init == /\ buckets = <<>> /\ index = <<>> /\ lastSnap = <<>>
        /\ winStart = 0 /\ verifies = 0 /\ now = 0
        /\ res = NoRes /\ callsInWin = 0

-----------------------------------------------------------------------------
(* push: stage by stage, in code order *)

Rolled == now - winStart >= Window

Decide(p) ==
    IF Size >= MaxProofs                                         THEN "Full"
    ELSE IF ~p.lenOk                                             THEN "Shape"
    ELSE IF IsDummyKey(p.key)                                    THEN "Dummy"
    ELSE IF (IF Rolled THEN 0 ELSE verifies) >= MaxVerifies      THEN "Budget"
    ELSE IF ~p.valid                                             THEN "Invalid"
    ELSE IF p.key \notin DOMAIN buckets
            /\ Cardinality(DOMAIN buckets) >= MaxBuckets         THEN "BucketCap"
    ELSE IF \E n \in p.nulls : n \in DOMAIN index                THEN "Duplicate"
    ELSE "Ok"

Admit(p) ==
    LET e == [id |-> p.id, nulls |-> p.nulls, vol |-> ProofVol(p), at |-> now] IN
    /\ buckets' = IF p.key \in DOMAIN buckets
                    THEN [buckets EXCEPT ![p.key] = Append(@, e)]
                    ELSE buckets @@ (p.key :> <<e>>)
    /\ index' = [n \in DOMAIN index \cup p.nulls |-> IF n \in p.nulls THEN p.key ELSE index[n]]

Push(p) ==
    LET r       == Decide(p)
        reached == r \notin {"Full", "Shape", "Dummy"}      \* execution got to the budget stage
        cnt     == IF Rolled THEN 0 ELSE verifies
        charged == reached /\ r # "Budget"                  \* verifier.verify was called
    IN /\ winStart' = IF reached /\ Rolled THEN now ELSE winStart
       /\ verifies' = IF reached THEN (IF charged THEN cnt + 1 ELSE cnt) ELSE verifies
       /\ IF r = "Ok" THEN Admit(p) ELSE UNCHANGED <<buckets, index>>
       /\ res' = [op |-> "push", result |-> r, verified |-> charged, count |-> 0, ids |-> <<p.id>>]
       /\ callsInWin' = (IF reached /\ Rolled THEN 0 ELSE callsInWin) + (IF charged THEN 1 ELSE 0)
       /\ UNCHANGED <<now, lastSnap>>

-----------------------------------------------------------------------------
(* evictions, snapshot, removal, clock *)

Keep(b, k, Dead(_)) == SelectSeq(b[k], LAMBDA e : ~Dead(e))

EvictBy(Dead(_), opname) ==
    LET kept(k) == SelectSeq(buckets[k], LAMBDA e : ~Dead(e))
        live    == {k \in DOMAIN buckets : kept(k) # <<>>}
        gone    == {e \in Entries(buckets) : Dead(e)}
        goneNulls == UNION {e.nulls : e \in gone}
    IN /\ buckets' = [k \in live |-> kept(k)]
       /\ index' = Restr(index, DOMAIN index \ goneNulls)
       /\ lastSnap' = Restr(lastSnap, DOMAIN lastSnap \cap live)
       /\ res' = [op |-> opname, result |-> "done", verified |-> FALSE,
                  count |-> Cardinality(gone), ids |-> <<>>]
       /\ UNCHANGED <<winStart, verifies, now, callsInWin>>

EvictSettled(S) == EvictBy(LAMBDA e : e.nulls \cap S # {}, "evict_settled")
EvictOlderThan(a) == EvictBy(LAMBDA e : now - e.at > a, "evict_older")

Snapshot(k) ==
    /\ IF k \in DOMAIN buckets
         THEN /\ lastSnap' = [x \in DOMAIN lastSnap \cup {k} |-> IF x = k THEN now ELSE lastSnap[x]]
              /\ res' = [op |-> "snapshot", result |-> "some", verified |-> FALSE, count |-> 0,
                         ids |-> [i \in 1..Min2(Len(buckets[k]), Batch) |-> buckets[k][i].id]]
         ELSE /\ UNCHANGED lastSnap
              /\ res' = [op |-> "snapshot", result |-> "none", verified |-> FALSE, count |-> 0, ids |-> <<>>]
    /\ UNCHANGED <<buckets, index, winStart, verifies, now, callsInWin>>

RemoveBucket(k) ==
    /\ IF k \in DOMAIN buckets
         THEN /\ buckets' = Restr(buckets, DOMAIN buckets \ {k})
              /\ index' = Restr(index, {n \in DOMAIN index : index[n] # k})
              /\ lastSnap' = Restr(lastSnap, DOMAIN lastSnap \ {k})
              /\ res' = [op |-> "remove_bucket", result |-> "done", verified |-> FALSE,
                         count |-> Len(buckets[k]), ids |-> [i \in 1..Len(buckets[k]) |-> buckets[k][i].id]]
         ELSE /\ UNCHANGED <<buckets, index, lastSnap>>
              /\ res' = [op |-> "remove_bucket", result |-> "done", verified |-> FALSE, count |-> 0, ids |-> <<>>]
    /\ UNCHANGED <<winStart, verifies, now, callsInWin>>

Tick(d) == /\ now' = now + d
           /\ res' = [op |-> "tick", result |-> "done", verified |-> FALSE, count |-> d, ids |-> <<>>]
           /\ UNCHANGED <<poolVars, callsInWin>>

-----------------------------------------------------------------------------
(* read-only statistics: a function of the state (bucket_stats, len, num_buckets) *)

MaxOf(S) == CHOOSE x \in S : \A y \in S : y <= x
StatsOf(b, ls, t) ==
    [k \in DOMAIN b |->
        [num    |-> Len(b[k]),
         oldest |-> IF b[k] = <<>> THEN 0 ELSE MaxOf({t - b[k][i].at : i \in DOMAIN b[k]}),
         vol    |-> SatSumSeq([i \in DOMAIN b[k] |-> b[k][i].vol]),
         snap   |-> IF k \in DOMAIN ls THEN t - ls[k] ELSE -1]]     \* -1 encodes None
Stats == StatsOf(buckets, lastSnap, now)

-----------------------------------------------------------------------------
(* C20: state invariants after any history *)

IndexExact ==
    /\ \A n \in DOMAIN index :
          index[n] \in DOMAIN buckets /\ \E e \in Rng(buckets[index[n]]) : n \in e.nulls
    /\ \A k \in DOMAIN buckets : \A e \in Rng(buckets[k]) :
          \A n \in e.nulls : n \in DOMAIN index /\ index[n] = k
NoSharedNullifier ==
    \A k1, k2 \in DOMAIN buckets : \A i \in DOMAIN buckets[k1], j \in DOMAIN buckets[k2] :
        (k1 # k2 \/ i # j) => buckets[k1][i].nulls \cap buckets[k2][j].nulls = {}
NoEmptyBucket == \A k \in DOMAIN buckets : buckets[k] # <<>>
KeyMatches == \A k \in DOMAIN buckets : \A e \in Rng(buckets[k]) :
                 \E p \in Palette : p.id = e.id /\ p.key = k /\ p.nulls = e.nulls /\ ProofVol(p) = e.vol
NoDummyBucket == \A k \in DOMAIN buckets : ~IsDummyKey(k)
WithinLimits == Size <= MaxProofs /\ Cardinality(DOMAIN buckets) <= MaxBuckets
SnapOnlyLive == DOMAIN lastSnap \subseteq DOMAIN buckets
StatsMatch == \A k \in DOMAIN buckets :
                 /\ Stats[k].num = Len(buckets[k]) /\ Stats[k].num > 0
                 /\ Stats[k].oldest = now - buckets[k][1].at         \* admission order = age order
                 /\ Stats[k].vol <= VolCap
C20Inv == IndexExact /\ NoSharedNullifier /\ NoEmptyBucket /\ KeyMatches /\ NoDummyBucket
          /\ WithinLimits /\ SnapOnlyLive /\ StatsMatch

(* C22: budget *)
BudgetBound == verifies <= MaxVerifies /\ winStart <= now /\ callsInWin = verifies /\ callsInWin <= MaxVerifies
C22Inv == BudgetBound

(* C19: late rejections only after a verification *)
LateRejects == (res.op = "push" /\ res.result \in {"BucketCap", "Duplicate", "Ok", "Invalid"}) => res.verified
EarlyRejects == (res.op = "push" /\ res.result \in {"Full", "Shape", "Dummy", "Budget"}) => ~res.verified
C19Inv == LateRejects /\ EarlyRejects

-----------------------------------------------------------------------------
(* Action properties (declarative statements of C19, C21, C22), checked as PROPERTY *)

\* the admission condition written as an unordered conjunction, from the property text
AdmitCond(p) ==
    /\ Size < MaxProofs
    /\ p.lenOk
    /\ ~IsDummyKey(p.key)
    /\ (verifies < MaxVerifies \/ now - winStart >= Window)
    /\ p.valid
    /\ (p.key \in DOMAIN buckets \/ Cardinality(DOMAIN buckets) < MaxBuckets)
    /\ \A n \in p.nulls : n \notin DOMAIN index

PushStep(p) == res'.op = "push" /\ res'.ids = <<p.id>>

C19AdmissionStep ==
    \A p \in Palette : PushStep(p) =>
          /\ (res'.result = "Ok") = AdmitCond(p)
          /\ (res'.result # "Ok" => UNCHANGED <<buckets, index, lastSnap, now>>)
          /\ (res'.result = "Ok" =>
                 /\ p.id \in PooledIds(buckets') /\ KeyOfId(buckets', p.id) = p.key
                 /\ PooledIds(buckets') = PooledIds(buckets) \cup {p.id})
C19Admission == [][C19AdmissionStep]_vars

\* C21: a pooled proof disappears only through the three documented paths, which remove exactly their targets
C21ExitsStep ==
    \A id \in PooledIds(buckets) :
          LET e == EntryOf(buckets, id) IN
          /\ (id \notin PooledIds(buckets') =>
                \/ res'.op = "evict_settled"
                \/ (res'.op = "evict_older" /\ now - e.at > 0)
                \/ (res'.op = "remove_bucket" /\ id \in Rng(res'.ids)))
          /\ (res'.op \in {"snapshot", "push", "tick"} => id \in PooledIds(buckets'))
C21Exits == [][C21ExitsStep]_vars

C21CountsStep ==
    res'.op \in {"evict_settled", "evict_older", "remove_bucket"} =>
          /\ res'.count = Cardinality(PooledIds(buckets) \ PooledIds(buckets'))
          /\ PooledIds(buckets') \subseteq PooledIds(buckets)
          \* survivors keep their order and contents
          /\ \A k \in DOMAIN buckets' : \E f \in [1..Len(buckets'[k]) -> 1..Len(buckets[k])] :
                /\ \A i \in DOMAIN buckets'[k] : buckets'[k][i] = buckets[k][f[i]]
                /\ \A i, j \in DOMAIN buckets'[k] : i < j => f[i] < f[j]
C21Counts == [][C21CountsStep]_vars

C21SnapshotStep ==
    res'.op = "snapshot" =>
          /\ UNCHANGED <<buckets, index, winStart, verifies, now>>
          /\ (res'.result = "some" =>
                \E k \in DOMAIN buckets :
                   /\ Len(res'.ids) = Min2(Len(buckets[k]), Batch) /\ Len(res'.ids) >= 1
                   /\ \A i \in DOMAIN res'.ids : res'.ids[i] = buckets[k][i].id
                   \* public-batch preflight predicate: non-empty, within batch, all valid, one key, real
                   /\ \A i \in DOMAIN res'.ids :
                        \E p \in Palette : p.id = res'.ids[i] /\ p.valid /\ p.lenOk /\ p.key = k /\ ~IsDummyKey(k))
C21Snapshot == [][C21SnapshotStep]_vars

\* C22: window restarts only after a full window; charging counts failed verifications too
C22WindowStep ==
    /\ (winStart' # winStart => (now - winStart >= Window /\ winStart' = now /\ res'.op = "push"))
       /\ (res'.op = "push" /\ res'.verified =>
              verifies' = (IF winStart' # winStart \/ (now - winStart >= Window) THEN 0 ELSE verifies) + 1)
       /\ (res'.op = "push" /\ ~res'.verified /\ winStart' = winStart /\ ~(now - winStart >= Window)
              => verifies' = verifies)
       /\ (res'.op = "push" /\ res'.result = "Budget" => ~res'.verified /\ verifies' = MaxVerifies)
       /\ (res'.op # "push" => verifies' = verifies /\ winStart' = winStart)
C22Window == [][C22WindowStep]_vars

=============================================================================
