SPECIFICATION TraceSpec
CONSTANTS
  MaxProofs <- TrMaxProofs
  MaxBuckets <- TrMaxBuckets
  MaxVerifies <- TrMaxVerifies
  Window <- TrWindow
  Batch <- TrBatch
  VolCap <- TrVolCap
  Palette <- TrPalette
INVARIANTS C20Inv C22Inv C19Inv
PROPERTIES TrC19Admission TrC21Exits TrC21Counts TrC21Snapshot TrC22Window
POSTCONDITION TraceAccepted
CHECK_DEADLOCK FALSE
