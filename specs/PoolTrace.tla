----------------------------- MODULE PoolTrace -----------------------------
(* Trace validation: a recorded history of the real ProofPool (ndjson, one event per public call,
   each with the call's arguments, its observation and the projected pool state afterwards) must
   be a behaviour of Pool.  Every event is matched by the Pool action of the same name applied to
   the logged arguments; the action's successor state must project to exactly the logged state and
   its observation must equal the logged one.  All of Pool's invariants are evaluated at every
   step.  Several runs are concatenated with "reset" events. *)
EXTENDS Pool, Json, IOUtils, SequencesExt

Rec == ndJsonDeserialize(IOEnv.TRACE)
Cfg == Rec[1]

TrMaxProofs == Cfg.limits.max_proofs
TrMaxBuckets == Cfg.limits.max_buckets
TrMaxVerifies == Cfg.limits.max_verifies
TrWindow == Cfg.limits.window
TrBatch == Cfg.limits.batch
TrVolCap == Cfg.limits.vol_cap
TrPalette == {[id |-> p.id, key |-> p.key, nulls |-> Rng(p.nulls), valid |-> p.valid,
               lenOk |-> p.lenOk, slots |-> p.slots] : p \in Rng(Cfg.palette)}
Sub(id) == CHOOSE p \in TrPalette : p.id = id

VARIABLE l
tvars == <<vars, l>>

\* logged projection -> the spec's vocabulary
LBuckets(st) == {[key |-> b.key,
                  entries |-> [i \in DOMAIN b.entries |->
                                 [id |-> b.entries[i].id, nulls |-> Rng(b.entries[i].nulls),
                                  vol |-> b.entries[i].vol, at |-> b.entries[i].at]],
                  snap |-> b.snap,
                  stats |-> [num |-> b.stats.num, oldest |-> b.stats.oldest, vol |-> b.stats.vol,
                             snap |-> b.stats.snap]] : b \in Rng(st.bk)}
MBuckets == {[key |-> k, entries |-> buckets[k],
              snap |-> IF k \in DOMAIN lastSnap THEN lastSnap[k] ELSE -1,
              stats |-> Stats[k]] : k \in DOMAIN buckets}
LIndex(st) == {<<x.n, x.key>> : x \in Rng(st.idx)}
MIndex == {<<n, index[n]>> : n \in DOMAIN index}

\* Diagnosis aid: with RELAX_<group> set in the environment the conjuncts of that group are not required.
\* Only used after a rejection, on the rejected prefix, to name the disagreeing observation.
On(g) == ("RELAX_" \o g) \notin DOMAIN IOEnv

Contents(S) == {[key |-> b.key, entries |-> b.entries] : b \in S}
Snaps(S) == {[key |-> b.key, snap |-> b.snap] : b \in S}
StatsOfB(S) == {[key |-> b.key, stats |-> b.stats] : b \in S}

StateMatches(st) ==
    /\ (On("contents") => Contents(MBuckets) = Contents(LBuckets(st)))
    /\ (On("snap") => Snaps(MBuckets) = Snaps(LBuckets(st)))
    /\ (On("stats") => ( /\ StatsOfB(MBuckets) = StatsOfB(LBuckets(st))
                         /\ Size = st.size /\ Cardinality(DOMAIN buckets) = st.nb
                         /\ st.empty = (buckets = <<>>) /\ st.extra_stats = 0
                         /\ \A b \in Rng(st.bk) : b.stats.batch = Batch ))
    /\ (On("index") => MIndex = LIndex(st))
    /\ (On("budget") => (winStart = st.win /\ verifies = st.ver))
    /\ now = st.now

Ev == Rec[l]
IsEvent(op) == Rec[l].op = op /\ l' = l + 1

TrReset == \E e \in {Rec[l]} :
    /\ IsEvent("reset")
    /\ buckets' = <<>> /\ index' = <<>> /\ lastSnap' = <<>>
    /\ winStart' = 0 /\ verifies' = 0 /\ now' = 0 /\ res' = NoRes /\ callsInWin' = 0
    /\ StateMatches(e.st)'

TrPush == \E e \in {Rec[l]} :
    /\ IsEvent("push")
    /\ Push(Sub(e.id))
    /\ (On("verdict") => ( /\ (res'.result = "Ok") = e.obs.ok
                           /\ e.obs.class # "PANIC"
                           /\ (e.obs.ok => e.obs.key = Sub(e.id).key) ))
    /\ (On("verified") => e.obs.verified = (IF res'.verified THEN 1 ELSE 0))
    /\ StateMatches(e.st)'

TrEvictSettled == \E e \in {Rec[l]} :
    /\ IsEvent("evict_settled")
    /\ EvictSettled(Rng(e.set))
    /\ (On("count_ids") => res'.count = e.obs.count)
    /\ e.obs.verified = 0
    /\ StateMatches(e.st)'

TrEvictOlder == \E e \in {Rec[l]} :
    /\ IsEvent("evict_older")
    /\ EvictOlderThan(e.age)
    /\ (On("count_ids") => res'.count = e.obs.count)
    /\ e.obs.verified = 0
    /\ StateMatches(e.st)'

TrSnapshot == \E e \in {Rec[l]} :
    /\ IsEvent("snapshot")
    /\ Snapshot(e.key)
    /\ (On("count_ids") => ((res'.result = "some") = e.obs.some /\ res'.ids = e.obs.ids))
    /\ e.obs.verified = 0
    /\ (On("preflight") => (e.obs.some => e.obs.preflight_ok))  \* C21: snapshots pass the public-batch preflight
    /\ StateMatches(e.st)'

TrRemove == \E e \in {Rec[l]} :
    /\ IsEvent("remove_bucket")
    /\ RemoveBucket(e.key)
    /\ (On("count_ids") => (res'.ids = e.obs.ids /\ res'.count = e.obs.count))
    /\ e.obs.verified = 0
    /\ StateMatches(e.st)'

TrTick == \E e \in {Rec[l]} :
    /\ IsEvent("tick")
    /\ Tick(e.d) /\ e.obs.verified = 0
    /\ StateMatches(e.st)'

TraceInit == Init /\ l = 2          \* Rec[1] is the config line
TraceNext == l <= Len(Rec) /\ (TrReset \/ TrPush \/ TrEvictSettled \/ TrEvictOlder \/ TrSnapshot \/ TrRemove \/ TrTick)
TraceSpec == TraceInit /\ [][TraceNext]_tvars

\* the action properties of Pool, exempting the harness's own "reset" (a fresh pool)
Fresh == res'.op = "init"
TrC19Admission == [][Fresh \/ C19AdmissionStep]_tvars
TrC21Exits == [][Fresh \/ C21ExitsStep]_tvars
TrC21Counts == [][Fresh \/ C21CountsStep]_tvars
TrC21Snapshot == [][Fresh \/ C21SnapshotStep]_tvars
TrC22Window == [][Fresh \/ C22WindowStep]_tvars

\* accepted iff every line was consumed: one state per consumed line plus the initial state
TraceAccepted ==
    LET d == TLCGet("stats").diameter IN
    IF d = Len(Rec) THEN PrintT(<<"TRACEOK", ToJson([events |-> Len(Rec) - 1])>>)
    ELSE /\ PrintT(<<"TRACEFAIL", ToJson([matched |-> d, first_unmatched |-> IF d + 1 <= Len(Rec) THEN Rec[d + 1] ELSE Rec[Len(Rec)]])>>)
         /\ FALSE
=============================================================================
