----------------------------- MODULE PrivateBatch -----------------------------
(* The private-batch wrapper (wormhole/aggregator/src/private_batch/circuit/circuit_logic.rs,
   build_private_batch_constraints) as the constraint program the code builds, one action per
   section of the circuit and one per loop iteration, over small value domains:

     digests  : naturals, 0 = the all-zero digest, order = <
     amounts  : naturals in "units"; RangeBound plays 2^32
     scalars  : naturals (asset id, fee, block number)

   Gadgets are used by the contracts Gadgets.tla establishes (bytes_digest_eq / is_equal decide
   equality, sort_digests4 yields THE ascending permutation, range_check(x,32) <=> x < 2^32);
   the witness therefore has no free wire left and the program is deterministic given the child
   statements and the dummy-nullifier preimage hashes hh (C10 for the wrapper).

   `ok` accumulates the connect / range_check constraints.  The declarative semantics
   (BatchDecl: PBAccepts, PBOutput, ...) is written from the property text; the invariants say the
   program and the declaration agree (C06, C07) and that the declaration has the conservation and
   hiding properties (C08, C09). *)
EXTENDS BatchDecl, TLC

CONSTANTS N,             \* leaf slots
          ChildDom,      \* set of child statements explored per slot
          HHDom,         \* values H(H(u)) may take
          RangeBound,    \* "2^32" in units
          \* spec mutants (vacuity control); TRUE / TRUE / TRUE is the code as written
          MaskDummies, UniqueOnlyReal, FirstRealScan

VARIABLES ch, hh, pc, i, ok, isDummy, found, ref, slotExit, slotAmt, outSlots, sel, out
vars == <<ch, hh, pc, i, ok, isDummy, found, ref, slotExit, slotAmt, outSlots, sel, out>>

Slots == 1 .. N
Init == /\ ch \in [Slots -> ChildDom] /\ hh \in [Slots -> HHDom]
        /\ pc = "flags" /\ i = 1 /\ ok = TRUE
        /\ isDummy = <<>> /\ found = FALSE
        /\ ref = [block |-> ZeroD, number |-> ZeroF, fee |-> ZeroF]
        /\ slotExit = <<>> /\ slotAmt = <<>> /\ outSlots = <<>> /\ sel = <<>> /\ out = <<>>

\* is_dummy_i = bytes_digest_eq(block_i, 0)
Flags == /\ pc = "flags"
         /\ isDummy' = [k \in Slots |-> ch[k].block = ZeroD]
         /\ pc' = "scan" /\ i' = 1
         /\ UNCHANGED <<ch, hh, ok, found, ref, slotExit, slotAmt, outSlots, sel, out>>

\* prefix scan for the first non-dummy slot (one iteration per step)
Scan == /\ pc = "scan"
        /\ LET real == ~isDummy[i]
               take == IF FirstRealScan THEN real /\ ~found ELSE real      \* mutant: last real wins
           IN /\ ref' = IF take THEN [block |-> ch[i].block, number |-> ch[i].number, fee |-> ch[i].fee] ELSE ref
              /\ found' = (found \/ real)
        /\ i' = IF i = N THEN 1 ELSE i + 1
        /\ pc' = IF i = N THEN "consist" ELSE "scan"
        /\ UNCHANGED <<ch, hh, ok, isDummy, slotExit, slotAmt, outSlots, sel, out>>

\* per slot: (dummy OR block = ref), asset = asset of slot 1, (dummy OR fee = ref)
Consist == /\ pc = "consist"
           /\ ok' = (ok /\ (isDummy[i] \/ ch[i].block = ref.block)
                        /\ ch[i].asset = ch[1].asset
                        /\ (isDummy[i] \/ ch[i].fee = ref.fee))
           /\ i' = IF i = N THEN 1 ELSE i + 1
           /\ pc' = IF i = N THEN "mask" ELSE "consist"
           /\ UNCHANGED <<ch, hh, isDummy, found, ref, slotExit, slotAmt, outSlots, sel, out>>

\* dummy slots read as (zero account, 0)
RawPair(k) == LET c == ch[(k + 1) \div 2] IN IF k % 2 = 1 THEN <<c.exit1, c.out1>> ELSE <<c.exit2, c.out2>>
Mask == /\ pc = "mask"
        /\ slotExit' = [k \in 1 .. 2 * N |-> IF MaskDummies /\ isDummy[(k + 1) \div 2] THEN ZeroD ELSE RawPair(k)[1]]
        /\ slotAmt' = [k \in 1 .. 2 * N |-> IF isDummy[(k + 1) \div 2] THEN AmtZero ELSE RawPair(k)[2]]
        /\ pc' = "group" /\ i' = 1
        /\ UNCHANGED <<ch, hh, ok, isDummy, found, ref, outSlots, sel, out>>

\* per output slot: duplicate test against earlier slots, accumulator over all slots, zeroing,
\* 32-bit range check on the final sum
Group == /\ pc = "group"
         /\ LET dup == \E j \in 1 .. i - 1 : slotExit[j] = slotExit[i]
                acc == SumSeq([j \in 1 .. 2 * N |-> IF slotExit[j] = slotExit[i] THEN slotAmt[j] ELSE AmtZero])
                fsum == IF dup THEN AmtZero ELSE acc
                fexit == IF dup THEN ZeroD ELSE slotExit[i]
            IN /\ outSlots' = Append(outSlots, <<fsum, fexit>>)
               /\ ok' = (ok /\ AmtOk(fsum))
         /\ i' = IF i = 2 * N THEN 1 ELSE i + 1
         /\ pc' = IF i = 2 * N THEN "unique" ELSE "group"
         /\ UNCHANGED <<ch, hh, isDummy, found, ref, slotExit, slotAmt, sel, out>>

\* pairwise distinct nullifiers over real pairs
Unique == /\ pc = "unique"
          /\ ok' = (ok /\ \A a, b \in Slots :
                             a < b => ~((UniqueOnlyReal => (~isDummy[a] /\ ~isDummy[b])) /\ ch[a].null = ch[b].null))
          /\ pc' = "select"
          /\ UNCHANGED <<ch, hh, i, isDummy, found, ref, slotExit, slotAmt, outSlots, sel, out>>

Select == /\ pc = "select"
          /\ sel' = [k \in Slots |-> IF isDummy[k] THEN hh[k] ELSE ch[k].null]
          /\ pc' = "sort"
          /\ UNCHANGED <<ch, hh, i, ok, isDummy, found, ref, slotExit, slotAmt, outSlots, out>>

\* sort_digests4 by contract (Gadgets.tla: SortSound / SortComplete), then registration
SortAndRegister ==
  /\ pc = "sort"
  /\ out' = [nslots |-> 2 * N, asset |-> ch[1].asset, fee |-> ref.fee, block |-> ref.block, number |-> ref.number,
             slots |-> outSlots, nulls |-> SortAsc(sel)]
  /\ pc' = "done"
  /\ UNCHANGED <<ch, hh, i, ok, isDummy, found, ref, slotExit, slotAmt, outSlots, sel>>

Done == pc = "done" /\ UNCHANGED vars
Next == Flags \/ Scan \/ Consist \/ Mask \/ Group \/ Unique \/ Select \/ SortAndRegister \/ Done
Spec == Init /\ [][Next]_vars

\* ------------------------------------------------------------------ properties
Finished == pc = "done"
Accepted == Finished /\ ok

(* C06 *) OutputExact == Accepted => out = PBOutput(ch, hh)
(* C07 *) AcceptExact == Finished => (ok <=> PBAccepts(ch))
(* C08 *) Conserves == Accepted => PBConserves(ch, out)

\* permutations of the slots, with their preimage hashes
Perms == {p \in [Slots -> Slots] : \A a, b \in Slots : a # b => p[a] # p[b]}
Permuted(f, p) == [k \in Slots |-> f[p[k]]]
(* C07 *) OrderIrrelevantForAcceptance == Finished => \A p \in Perms : PBAccepts(Permuted(ch, p)) = PBAccepts(ch)
\* what leaf proofs can attest: the block hash commits to the block number (C03), so real statements
\* with equal block hashes carry equal numbers.  The wrapper itself never cross-checks numbers (C06 takes
\* the first real slot's); order-independence of the header is claimed for attestable batches only.
NumbersFollowBlocks == \A a, b \in RealIdx(ch) : ch[a].block = ch[b].block => ch[a].number = ch[b].number
(* C09 *) PermutationHidesOrder ==
  (Accepted /\ NumbersFollowBlocks) => \A p \in Perms :
     LET o2 == PBOutput(Permuted(ch, p), Permuted(hh, p)) IN
       /\ o2.asset = out.asset /\ o2.fee = out.fee /\ o2.block = out.block /\ o2.number = out.number
       /\ o2.nulls = out.nulls
       \* the non-zero exit groups are the same groups, moved only with slot order
       /\ {s \in {o2.slots[k] : k \in 1 .. 2 * N} : s # ZeroSlot} = {s \in {out.slots[k] : k \in 1 .. 2 * N} : s # ZeroSlot}

\* single-field alternatives of a dummy slot that keep its asset id
POut1 == {x.out1 : x \in ChildDom}
POut2 == {x.out2 : x \in ChildDom}
PFee == {x.fee : x \in ChildDom}
PNull == {x.null : x \in ChildDom}
PExit1 == {x.exit1 : x \in ChildDom}
PExit2 == {x.exit2 : x \in ChildDom}
PNumber == {x.number : x \in ChildDom}
AltDummies(c) == {[c EXCEPT !.out1 = v] : v \in POut1} \cup {[c EXCEPT !.out2 = v] : v \in POut2}
            \cup {[c EXCEPT !.fee = v] : v \in PFee} \cup {[c EXCEPT !.null = v] : v \in PNull}
            \cup {[c EXCEPT !.exit1 = v] : v \in PExit1} \cup {[c EXCEPT !.exit2 = v] : v \in PExit2}
            \cup {[c EXCEPT !.number = v] : v \in PNumber}
(* C07 + C09 *) DummyContentsIrrelevant ==
  Finished => \A k \in Slots : IsDummy(ch[k]) =>
     \A c2 \in AltDummies(ch[k]) :
        LET ch2 == [ch EXCEPT ![k] = c2] IN
          /\ PBAccepts(ch2) = PBAccepts(ch)
          /\ (ok => PBOutput(ch2, hh) = out)

(* C09, literal clause; the zero-account exception class is finding F2 *)
ZeroSlotsLiteral == Accepted => (DummySlotsZero(ch, out) /\ DuplicateSlotsZero(ch, out) /\ UnusedSlotsZero(ch, out))
ZeroSlotsExceptF2 == (Accepted /\ ~RealPaysZeroAccount(ch)) =>
                        (DummySlotsZero(ch, out) /\ DuplicateSlotsZero(ch, out) /\ UnusedSlotsZero(ch, out))
\* duplicates are zeroed in every case
DuplicatesAlwaysZero == Accepted => DuplicateSlotsZero(ch, out)

PBInv == OutputExact /\ AcceptExact /\ Conserves /\ OrderIrrelevantForAcceptance /\ PermutationHidesOrder
         /\ DummyContentsIrrelevant /\ ZeroSlotsExceptF2 /\ DuplicatesAlwaysZero
=============================================================================
