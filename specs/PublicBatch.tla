----------------------------- MODULE PublicBatch -----------------------------
(* The public-batch wrapper (wormhole/aggregator/src/public_batch/circuit/circuit_logic.rs,
   build_public_batch_constraints) as the constraint program the code builds: dummy flags, prefix scan
   for the first real inner (block, number, asset, fee), three OR-clauses per inner, the structural
   constant 2NM, order-preserving forwarding of exit slots then nullifiers with dummy inners zeroed.
   Value domains and gadget contracts as in PrivateBatch.tla; declarative side in BatchDecl, operators QB... *)
EXTENDS BatchDecl, TLC

CONSTANTS M, InnerDom, AddrDom,
          ZeroDummies, CheckAsset   \* spec mutants (vacuity control); TRUE / TRUE is the code as written

VARIABLES inn, addr, pc, i, ok, isDummy, found, ref, fslots, fnulls, out
vars == <<inn, addr, pc, i, ok, isDummy, found, ref, fslots, fnulls, out>>
Idx == 1 .. M

Init == /\ inn \in [Idx -> InnerDom] /\ addr \in AddrDom
        /\ pc = "flags" /\ i = 1 /\ ok = TRUE /\ isDummy = <<>> /\ found = FALSE
        /\ ref = ZeroInnerHdr /\ fslots = <<>> /\ fnulls = <<>> /\ out = <<>>

Flags == /\ pc = "flags" /\ isDummy' = [k \in Idx |-> inn[k].block = ZeroD] /\ pc' = "scan" /\ i' = 1
         /\ UNCHANGED <<inn, addr, ok, found, ref, fslots, fnulls, out>>
Scan == /\ pc = "scan"
        /\ LET take == ~isDummy[i] /\ ~found
           IN ref' = IF take THEN [asset |-> inn[i].asset, fee |-> inn[i].fee, block |-> inn[i].block, number |-> inn[i].number] ELSE ref
        /\ found' = (found \/ ~isDummy[i])
        /\ i' = (IF i = M THEN 1 ELSE i + 1) /\ pc' = (IF i = M THEN "consist" ELSE "scan")
        /\ UNCHANGED <<inn, addr, ok, isDummy, fslots, fnulls, out>>
Consist == /\ pc = "consist"
           /\ ok' = (ok /\ (isDummy[i] \/ ~CheckAsset \/ inn[i].asset = ref.asset)
                        /\ (isDummy[i] \/ inn[i].fee = ref.fee)
                        /\ (isDummy[i] \/ inn[i].block = ref.block))
           /\ i' = (IF i = M THEN 1 ELSE i + 1) /\ pc' = (IF i = M THEN "fwdslots" ELSE "consist")
           /\ UNCHANGED <<inn, addr, isDummy, found, ref, fslots, fnulls, out>>
FwdSlots == /\ pc = "fwdslots"
            /\ fslots' = fslots \o (IF ZeroDummies /\ isDummy[i] THEN Zeros(Len(inn[i].slots), ZeroSlot) ELSE inn[i].slots)
            /\ i' = (IF i = M THEN 1 ELSE i + 1) /\ pc' = (IF i = M THEN "fwdnulls" ELSE "fwdslots")
            /\ UNCHANGED <<inn, addr, ok, isDummy, found, ref, fnulls, out>>
FwdNulls == /\ pc = "fwdnulls"
            /\ fnulls' = fnulls \o (IF ZeroDummies /\ isDummy[i] THEN Zeros(Len(inn[i].nulls), ZeroD) ELSE inn[i].nulls)
            /\ i' = (IF i = M THEN 1 ELSE i + 1) /\ pc' = (IF i = M THEN "register" ELSE "fwdnulls")
            /\ UNCHANGED <<inn, addr, ok, isDummy, found, ref, fslots, out>>
Register == /\ pc = "register"
            /\ out' = [addr |-> addr, asset |-> ref.asset, fee |-> ref.fee, block |-> ref.block, number |-> ref.number,
                       total |-> M * Len(inn[1].slots), slots |-> fslots, nulls |-> fnulls]
            /\ pc' = "done" /\ UNCHANGED <<inn, addr, i, ok, isDummy, found, ref, fslots, fnulls>>
Done == pc = "done" /\ UNCHANGED vars
Next == Flags \/ Scan \/ Consist \/ FwdSlots \/ FwdNulls \/ Register \/ Done
Spec == Init /\ [][Next]_vars

Finished == pc = "done"
Accepted == Finished /\ ok
(* C12 *) QOutputExact == Accepted => out = QBOutput(inn, addr)
\* inner k owns the k-th contiguous segment of each region
(* C12 *) SegmentsOwned == Accepted => \A k \in Idx :
   LET ns == Len(inn[1].slots)  nn == Len(inn[1].nulls) IN
     /\ SubSeq(out.slots, (k - 1) * ns + 1, k * ns) = (IF InnerDummy(inn[k]) THEN Zeros(ns, ZeroSlot) ELSE inn[k].slots)
     /\ SubSeq(out.nulls, (k - 1) * nn + 1, k * nn) = (IF InnerDummy(inn[k]) THEN Zeros(nn, ZeroD) ELSE inn[k].nulls)
(* C13 *) QAcceptExact == Finished => (ok <=> QBAccepts(inn))
\* contents, nullifiers and numbers are never cross-checked; dummies are exempt from everything
\* single-field alternatives of inner k: contents / nullifiers / number for any inner, asset / fee too for a dummy
ProjNumber == {b.number : b \in InnerDom}
ProjSlots == {b.slots : b \in InnerDom}
ProjNulls == {b.nulls : b \in InnerDom}
ProjAsset == {b.asset : b \in InnerDom}
ProjFee == {b.fee : b \in InnerDom}
AltInner(b) == {[b EXCEPT !.number = v] : v \in ProjNumber}
          \cup {[b EXCEPT !.slots = v] : v \in ProjSlots}
          \cup {[b EXCEPT !.nulls = v] : v \in ProjNulls}
          \cup (IF InnerDummy(b) THEN {[b EXCEPT !.asset = v] : v \in ProjAsset} \cup {[b EXCEPT !.fee = v] : v \in ProjFee}
                ELSE {})
(* C13 *) OnlyMetadataMatters == Finished => \A k \in Idx : \A b \in AltInner(inn[k]) :
      QBAccepts([inn EXCEPT ![k] = b]) = QBAccepts(inn)
QBInv == QOutputExact /\ SegmentsOwned /\ QAcceptExact /\ OnlyMetadataMatters
=============================================================================
