------------------------------ MODULE Publish ------------------------------
(* Artifact publication of wormhole/circuit-builder (C23).

   One action per step of `generate_all_circuit_binaries` and of
   `commit_staging_dir_impl`, in code order; every rename is a separate step that
   either happens or fails without effect; the process may die at every point at
   which the code touches the directory tree (Crash).  The file system is abstracted
   to what the three paths hold:

     out  the output path            absent | file | prev | new | partial
     old  the moved-aside copy       absent | prev
     stg  the staging directory      absent | partial | new

   "prev" = the complete previous artifact set, "new" = the complete new set,
   "partial" = a directory that is neither (an incomplete stage).

   Mode "gen"    : generate_all_circuit_binaries (create staging, 4 stages, commit).
   Mode "commit" : the publish routine alone on a prepared staging directory.      *)
EXTENDS Naturals, Sequences, FiniteSets, TLC

CONSTANTS NStages          \* number of generation stages (4 in the code)

VARIABLES mode, init, stg0, out, old, stg, pc, result, prevExists, genFailed, hist

vars == <<mode, init, stg0, out, old, stg, pc, result, prevExists, genFailed, hist>>
fs == [out |-> out, old |-> old, stg |-> stg]

Init ==
  /\ mode \in {"gen", "commit"}
  /\ init \in {"absent", "prev", "file"}
  /\ out = init
  /\ old = "absent"
  /\ stg0 \in (IF mode = "gen" THEN {"absent"} ELSE {"absent", "new"})
  /\ stg = stg0
  /\ pc = (IF mode = "gen" THEN "createStaging" ELSE "checkStaging")
  /\ result = "none"
  /\ prevExists = FALSE
  /\ genFailed = FALSE
  /\ hist = <<>>

\* hist records the steps that are observable at the code's hook points, with the
\* directory tree as it is when the hook fires.
Rec(a, k, ok) == [a |-> a, k |-> k, ok |-> ok, fs |-> fs]
RecAfter(a, k, ok, o, l, s) == [a |-> a, k |-> k, ok |-> ok, fs |-> [out |-> o, old |-> l, stg |-> s]]

NRenames == Cardinality({i \in 1..Len(hist) : hist[i].a = "Rename"})

-----------------------------------------------------------------------------
(* generation *)

CreateStaging ==
  /\ pc = "createStaging"
  /\ stg' = "partial"
  /\ pc' = "stage"
  /\ UNCHANGED <<mode, init, stg0, out, old, result, prevExists, genFailed, hist>>

NextStage == Cardinality({i \in 1..Len(hist) : hist[i].a = "Stage"}) + 1

\* the hook fires at the entry of stage k; the stage then succeeds or fails
StageOk ==
  /\ pc = "stage"
  /\ NextStage <= NStages
  /\ hist' = Append(hist, Rec("Stage", NextStage, TRUE))
  /\ stg' = IF NextStage = NStages THEN "new" ELSE "partial"
  /\ pc' = IF NextStage = NStages THEN "genDone" ELSE "stage"
  /\ UNCHANGED <<mode, init, stg0, out, old, result, prevExists, genFailed>>

StageFail ==
  /\ pc = "stage"
  /\ NextStage <= NStages
  /\ hist' = Append(hist, Rec("Stage", NextStage, FALSE))
  /\ genFailed' = TRUE
  /\ pc' = "genCleanup"
  /\ UNCHANGED <<mode, init, stg0, out, old, stg, result, prevExists>>

GenCleanup ==
  /\ pc = "genCleanup"
  /\ stg' = "absent"
  /\ result' = "err"
  /\ pc' = "done"
  /\ UNCHANGED <<mode, init, stg0, out, old, prevExists, genFailed, hist>>

\* hook point 5: generation complete, publish not started
GenDone ==
  /\ pc = "genDone"
  /\ hist' = Append(hist, Rec("Stage", NStages + 1, TRUE))
  /\ pc' = "checkStaging"
  /\ UNCHANGED <<mode, init, stg0, out, old, stg, result, prevExists, genFailed>>

-----------------------------------------------------------------------------
(* publish: commit_staging_dir_impl *)

CheckStaging ==
  /\ pc = "checkStaging"
  /\ IF stg \in {"new", "partial"}
       THEN pc' = "checkOutput" /\ result' = result
       ELSE pc' = "done" /\ result' = "err"
  /\ UNCHANGED <<mode, init, stg0, out, old, stg, prevExists, genFailed, hist>>

CheckOutput ==
  /\ pc = "checkOutput"
  /\ prevExists' = (out # "absent")
  /\ pc' = CASE out = "absent" -> "swapIn"
             [] out = "file"   -> "rmStagingNotDir"
             [] OTHER          -> "moveAside"
  /\ UNCHANGED <<mode, init, stg0, out, old, stg, result, genFailed, hist>>

RmStagingThenErr(at) ==
  /\ pc = at
  /\ stg' = "absent"
  /\ result' = "err"
  /\ pc' = "done"
  /\ UNCHANGED <<mode, init, stg0, out, old, prevExists, genFailed, hist>>

MoveAsideOk ==
  /\ pc = "moveAside"
  /\ out' = "absent" /\ old' = out
  /\ hist' = Append(hist, RecAfter("Rename", NRenames + 1, TRUE, "absent", out, stg))
  /\ pc' = "swapIn"
  /\ UNCHANGED <<mode, init, stg0, stg, result, prevExists, genFailed>>

MoveAsideFail ==
  /\ pc = "moveAside"
  /\ hist' = Append(hist, Rec("Rename", NRenames + 1, FALSE))
  /\ pc' = "rmStagingMoveFailed"
  /\ UNCHANGED <<mode, init, stg0, out, old, stg, result, prevExists, genFailed>>

SwapInOk ==
  /\ pc = "swapIn"
  /\ out' = stg /\ stg' = "absent"
  /\ hist' = Append(hist, RecAfter("Rename", NRenames + 1, TRUE, stg, old, "absent"))
  /\ pc' = IF prevExists THEN "rmOld" ELSE "retOk"
  /\ UNCHANGED <<mode, init, stg0, old, result, prevExists, genFailed>>

SwapInFail ==
  /\ pc = "swapIn"
  /\ hist' = Append(hist, Rec("Rename", NRenames + 1, FALSE))
  /\ pc' = IF prevExists THEN "rollback" ELSE "retErrKeep"
  /\ UNCHANGED <<mode, init, stg0, out, old, stg, result, prevExists, genFailed>>

RollbackOk ==
  /\ pc = "rollback"
  /\ out' = old /\ old' = "absent"
  /\ hist' = Append(hist, RecAfter("Rename", NRenames + 1, TRUE, old, "absent", stg))
  /\ pc' = "rmStagingRolledBack"
  /\ UNCHANGED <<mode, init, stg0, stg, result, prevExists, genFailed>>

RollbackFail ==
  /\ pc = "rollback"
  /\ hist' = Append(hist, Rec("Rename", NRenames + 1, FALSE))
  /\ pc' = "retErrKeep"
  /\ UNCHANGED <<mode, init, stg0, out, old, stg, result, prevExists, genFailed>>

\* both copies (or the only copy) stay where they are; the error names the paths
RetErrKeep ==
  /\ pc = "retErrKeep"
  /\ result' = "err"
  /\ pc' = "done"
  /\ UNCHANGED <<mode, init, stg0, out, old, stg, prevExists, genFailed, hist>>

RmOld ==
  /\ pc = "rmOld"
  /\ old' = "absent"
  /\ pc' = "retOk"
  /\ UNCHANGED <<mode, init, stg0, out, stg, result, prevExists, genFailed, hist>>

RetOk ==
  /\ pc = "retOk"
  /\ result' = "ok"
  /\ pc' = "done"
  /\ UNCHANGED <<mode, init, stg0, out, old, stg, prevExists, genFailed, hist>>

-----------------------------------------------------------------------------
(* The process dies.  Enabled wherever the real code can be killed by the harness:
   at a stage hook (before stage k runs) and right after a rename call returned.
   Every other intermediate directory tree equals one of these or a final one, and
   the invariants below are evaluated on every state anyway.                      *)
\* the last hook-visible step was a rename and the tree has not been touched since
LastIsRename == Len(hist) > 0 /\ hist[Len(hist)].a = "Rename" /\ hist[Len(hist)].fs = fs

Crash ==
  /\ \/ pc = "stage" /\ NextStage <= NStages
     \/ pc = "genDone"
     \/ LastIsRename /\ pc \notin {"done", "crashed"}
  /\ hist' = Append(hist, Rec("Crash", 0, TRUE))
  /\ pc' = "crashed"
  /\ UNCHANGED <<mode, init, stg0, out, old, stg, result, prevExists, genFailed>>

Next ==
  \/ CreateStaging \/ StageOk \/ StageFail \/ GenCleanup \/ GenDone
  \/ CheckStaging \/ CheckOutput
  \/ RmStagingThenErr("rmStagingNotDir")
  \/ RmStagingThenErr("rmStagingMoveFailed")
  \/ RmStagingThenErr("rmStagingRolledBack")
  \/ MoveAsideOk \/ MoveAsideFail \/ SwapInOk \/ SwapInFail
  \/ RollbackOk \/ RollbackFail \/ RetErrKeep \/ RmOld \/ RetOk
  \/ Crash

Spec == Init /\ [][Next]_vars

-----------------------------------------------------------------------------
(* C23.  All four are state invariants: a crash can follow any state, so each must
   hold in every reachable state, not only at return.                             *)

TypeOK ==
  /\ out \in {"absent", "file", "prev", "new", "partial"}
  /\ old \in {"absent", "prev", "file", "new", "partial"}
  /\ stg \in {"absent", "partial", "new"}
  /\ result \in {"none", "ok", "err"}

\* the output path holds the complete previous set, the complete new set, or
\* (transiently, see NoLoss) nothing -- never a mix, never an incomplete stage
NeverMixed ==
  /\ out \in {init, "new", "absent"}
  /\ init = "file" => out = "file"

\* if the previous set is no longer at the output path, the new set is there or
\* both copies survive elsewhere on disk
NoLoss ==
  (init = "prev" /\ out # "prev") => (out = "new" \/ (old = "prev" /\ stg = "new"))

\* a fresh install that could not be swapped in keeps the only copy
FreshKeepsOnlyCopy ==
  (pc = "done" /\ init = "absent" /\ ~genFailed /\ result = "err" /\ mode = "gen") => stg = "new"

\* success is reported iff the new set is live
SuccessExact ==
  /\ pc = "done" => (result = "ok" <=> out = "new")
  /\ pc = "done" => result # "none"
  /\ out = "new" => pc \in {"rmOld", "retOk", "done", "crashed"}

\* a failed generation leaves the output untouched and no staging directory behind
FailedGenClean ==
  (pc = "done" /\ genFailed) => (out = init /\ stg = "absent" /\ old = "absent" /\ result = "err")

\* the moved-aside copy does not outlive a returned call unless it is the only
\* copy of the previous set
OldOnlyWhenNeeded ==
  (pc = "done" /\ old # "absent") => (old = "prev" /\ out = "absent" /\ stg = "new")

C23Inv == TypeOK /\ NeverMixed /\ NoLoss /\ FreshKeepsOnlyCopy /\ SuccessExact
          /\ FailedGenClean /\ OldOnlyWhenNeeded
=============================================================================
