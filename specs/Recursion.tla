------------------------------ MODULE Recursion ------------------------------
(* C11: recursive verification accepts only the canonical child circuit.
   Circuits are tokens (their verifier key / circuit digest).  An outer circuit is built for a child: in the
   repo the child's verifier-only data is BAKED into the outer circuit as constants (add_recursive_verifiers,
   common/recursive.rs); the alternative - a virtual verifier-key target the prover fills - is the spec mutant.
   A child proof is (circuit that produced it, public-input count, valid?).  The in-circuit verifier accepts a
   proof iff it verifies under the key the gadget uses.  Constructors check the child's public-input count
   against the layout the wrapper indexes.                                                                  *)
EXTENDS Naturals, TLC
CONSTANTS Circuits,      \* circuit tokens; each has a public-input count
          PiCount,       \* [Circuits -> Nat]
          Canonical,     \* the canonical child
          ExpectedPis,   \* the layout's public-input count
          KeyMode        \* "baked" (the code) | "virtual" (spec mutant)

VARIABLES builtFor, ctorResult, proof, keyUsed, accepted, stage
vars == <<builtFor, ctorResult, proof, keyUsed, accepted, stage>>
Proofs == [by : Circuits, valid : BOOLEAN]

Init == /\ builtFor \in Circuits /\ ctorResult = "none" /\ proof \in Proofs /\ keyUsed = Canonical
        /\ accepted = FALSE /\ stage = "ctor"
\* PrivateBatchCircuit::new / PublicBatchCircuit::new: runtime shape check before anything is built
Ctor == /\ stage = "ctor"
        /\ ctorResult' = IF PiCount[builtFor] = ExpectedPis THEN "ok" ELSE "err"
        /\ stage' = IF PiCount[builtFor] = ExpectedPis THEN "key" ELSE "end"
        /\ UNCHANGED <<builtFor, proof, keyUsed, accepted>>
\* the key the recursive verifier gadget checks against
Key == /\ stage = "key"
       /\ IF KeyMode = "baked" THEN keyUsed' = builtFor
          ELSE \E k \in Circuits : keyUsed' = k          \* a virtual key is the prover's choice
       /\ stage' = "verify" /\ UNCHANGED <<builtFor, ctorResult, proof, accepted>>
\* witness fill (shape) + in-circuit verification
Verify == /\ stage = "verify"
          /\ accepted' = (proof.valid /\ proof.by = keyUsed /\ PiCount[proof.by] = PiCount[builtFor])
          /\ stage' = "end" /\ UNCHANGED <<builtFor, ctorResult, proof, keyUsed>>
Done == stage = "end" /\ UNCHANGED vars
Next == Ctor \/ Key \/ Verify \/ Done
Spec == Init /\ [][Next]_vars

(* C11 *) OnlyTheBakedChild == (stage = "end" /\ accepted) => proof.by = builtFor
(* C11 *) CanonicalOuterRejectsForeign == (stage = "end" /\ builtFor = Canonical /\ proof.by # Canonical) => ~accepted
(* C11 *) CtorRefusesWrongShape == (stage = "end" /\ PiCount[builtFor] # ExpectedPis) => ctorResult = "err"
Complete == (stage = "end" /\ builtFor = Canonical /\ proof = [by |-> Canonical, valid |-> TRUE]) => accepted
RecInv == OnlyTheBakedChild /\ CanonicalOuterRejectsForeign /\ CtorRefusesWrongShape /\ Complete
=============================================================================
