------------------------------ MODULE Recursion ------------------------------
(* C11: recursive verification accepts only the canonical child circuit.
   Circuits are tokens (their verifier key / circuit digest).  An outer circuit is built for a child: in the
   repo the child's verifier-only data is BAKED into the outer circuit as constants (add_recursive_verifiers,
   common/recursive.rs); the alternative - a virtual verifier-key target the prover fills - is the spec mutant.
   A child proof is (circuit that produced it, public-input count, valid?).  The in-circuit verifier accepts a
   proof iff it verifies under the key the gadget uses.  Constructors check the child's public-input count
   against the layout the wrapper indexes.                                                                  *)
EXTENDS Naturals, TLC
CONSTANTS Circuits,      \* circuit tokens; each has a public-input count
          PiCount,       \* [Circuits -> Nat]
          Canonical,     \* the canonical child
          ExpectedPis,   \* the layout's public-input count
          KeyMode,       \* "baked" (the code) | "virtual" (spec mutant)
          MaxSlots,      \* batch sizes 1 .. MaxSlots
          LoopMode       \* "all" (the code: every slot is verified) | "skiplast" (spec mutant: the loop stops one slot early)

\* A batch has n slots; the examined proof sits in slot `slot`, every other slot holds a valid proof of the circuit the
\* outer was built for.  add_recursive_verifiers is a LOOP over the slots (one action per iteration, `i`): a slot the
\* loop does not reach is not bound to the child circuit at all.
VARIABLES builtFor, ctorResult, proof, keyUsed, accepted, stage, n, slot, i
vars == <<builtFor, ctorResult, proof, keyUsed, accepted, stage, n, slot, i>>
Proofs == [by : Circuits, valid : BOOLEAN]

Init == /\ builtFor \in Circuits /\ ctorResult = "none" /\ proof \in Proofs /\ keyUsed = Canonical
        /\ accepted = FALSE /\ stage = "ctor" /\ n \in 1 .. MaxSlots /\ slot \in 1 .. MaxSlots /\ slot <= n /\ i = 1
\* PrivateBatchCircuit::new / PublicBatchCircuit::new: runtime shape check before anything is built
Ctor == /\ stage = "ctor"
        /\ ctorResult' = IF PiCount[builtFor] = ExpectedPis THEN "ok" ELSE "err"
        /\ stage' = IF PiCount[builtFor] = ExpectedPis THEN "key" ELSE "end"
        /\ UNCHANGED <<builtFor, proof, keyUsed, accepted, n, slot, i>>
\* the key the recursive verifier gadget checks against
Key == /\ stage = "key"
       /\ IF KeyMode = "baked" THEN keyUsed' = builtFor
          ELSE \E k \in Circuits : keyUsed' = k          \* a virtual key is the prover's choice
       /\ stage' = "verify" /\ accepted' = TRUE /\ UNCHANGED <<builtFor, ctorResult, proof, n, slot, i>>
\* witness fill (shape) + in-circuit verification of slot i; the other slots hold valid proofs of builtFor
SlotOk(j) == IF j = slot THEN proof.valid /\ proof.by = keyUsed /\ PiCount[proof.by] = PiCount[builtFor]
             ELSE builtFor = keyUsed
Last == IF LoopMode = "all" THEN n ELSE n - 1
\* the witness filler checks the shape of EVERY slot's proof, whether or not the loop verifies it
ShapeOk == PiCount[proof.by] = PiCount[builtFor]
Verify == /\ stage = "verify"
          /\ IF i <= Last
               THEN accepted' = (accepted /\ SlotOk(i)) /\ i' = i + 1 /\ stage' = stage
               ELSE accepted' = (accepted /\ ShapeOk) /\ i' = i /\ stage' = "end"
          /\ UNCHANGED <<builtFor, ctorResult, proof, keyUsed, n, slot>>
Done == stage = "end" /\ UNCHANGED vars
Next == Ctor \/ Key \/ Verify \/ Done
Spec == Init /\ [][Next]_vars

(* C11 *) OnlyTheBakedChild == (stage = "end" /\ accepted) => proof.by = builtFor
(* C11 *) CanonicalOuterRejectsForeign == (stage = "end" /\ builtFor = Canonical /\ proof.by # Canonical) => ~accepted
(* C11 *) CtorRefusesWrongShape == (stage = "end" /\ PiCount[builtFor] # ExpectedPis) => ctorResult = "err"
Complete == (stage = "end" /\ builtFor = Canonical /\ proof = [by |-> Canonical, valid |-> TRUE]) => accepted
RecInv == OnlyTheBakedChild /\ CanonicalOuterRejectsForeign /\ CtorRefusesWrongShape /\ Complete
=============================================================================
