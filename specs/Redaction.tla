------------------------------ MODULE Redaction ------------------------------
(* Debug redaction of the secret-handling types (C32) as a taint model.

   Labels.  Every datum carries a set of labels.  The seven SENSITIVE sources of the property are
       secret  account (deposit / unspendable account)  tcount (transfer count)  amount (input amount)
       dlogs (digest logs)  siblings  positions
   Public chain data carries "pub.<name>", the public nullifier digest computed by
   Nullifier::from_preimage carries "hash.nullifier" (a Poseidon2 digest of the secret: declassified, it
   is the proof's public input), "len.siblings" is the proof depth, "flag" / "circuit" are structure.

   Objects.  An object is [type, fields]; fields is a set of [path, lab] with path a sequence of field
   names (nested containers are flattened: CircuitInputs.private.secret is <<"private","secret">>).

   Visible(type) is the set of paths the type's Debug impl prints, composed the way the code composes
   it: a derived Debug prints every field through the field's own Debug; the hand-written impls print
   the listed fields and the literal "[REDACTED]" for the others.

   Conversions are the From / TryFrom / new / commit / serialisation round trips / Clone / pub-field
   moves the code offers; a chain is a sequence of conversions starting from the raw values.

   C32:  in every object reachable by a chain, no visible path carries a sensitive label.

   Visible(type) depends on the TYPE only - never on a value such as the dummy flag: the property quantifies over
   all private witnesses, padding statements included.  The replay therefore runs every chain on ordinary statements
   and on statements carrying the dummy sentinel (is_not_dummy = FALSE); a Debug impl that prints a field only for
   one flag value shows up as a visible path the model does not have.                                  *)
EXTENDS Naturals, Sequences, FiniteSets, TLC

CONSTANTS MaxLen          \* bound on the chain length

Sensitive == {"secret", "account", "tcount", "amount", "dlogs", "siblings", "positions"}

S(x) == {x}                       \* a sensitive source
P(x) == {"pub." \o x}             \* public chain data

F(path, lab) == [path |-> path, lab |-> lab]
Obj(t, fs) == [type |-> t, fields |-> fs]
Get(o, path) == (CHOOSE r \in o.fields : r.path = path).lab
Nest(name, o) == {F(<<name>> \o r.path, r.lab) : r \in o.fields}
Sub(o, name) == {F(Tail(r.path), r.lab) : r \in {q \in o.fields : Len(q.path) > 1 /\ q.path[1] = name}}
AllLabels(o) == UNION {r.lab : r \in o.fields}

(* ------------------------------------------------------------------ types, fields, Debug impls *)
PublicFields == {"asset_id", "output_amount_1", "output_amount_2", "volume_fee_bps", "nullifier",
                 "exit_account_1", "exit_account_2", "block_hash", "block_number"}

\* fields printed directly (not "[REDACTED]") by each Debug impl, nested containers excluded
CodeVisible(t) ==
  CASE t = "PublicCircuitInputs"  -> PublicFields                                   \* derive(Debug)
    [] t = "PrivateCircuitInputs" -> {"parent_hash", "state_root", "extrinsics_root", "zk_tree_root"}
    [] t = "CircuitInputs"        -> {}
    [] t = "Nullifier"            -> {"hash"}
    [] t = "UnspendableAccount"   -> {}
    [] t = "ZkLeafData"           -> {"asset_id", "output_amount_1", "output_amount_2", "volume_fee_bps"}
    [] t = "ZkMerkleProofData"    -> {"root_hash", "depth", "is_not_dummy"}
    [] t = "HeaderInputs"         -> {"parent_hash", "block_number", "state_root", "extrinsics_root", "zk_tree_root"}
    [] t = "BlockHeader"          -> {"block_hash"}                                 \* derive(Debug)
    [] t = "WormholeProver"       -> {"committed"}
    [] OTHER                      -> {}
DirectVisible(t) == CodeVisible(t)        \* (a separate name so that the spec mutants can override it)

\* nested containers printed through their own Debug: field name -> type
NestedPrinted(t) ==
  CASE t = "CircuitInputs"     -> {<<"public", "PublicCircuitInputs">>, <<"private", "PrivateCircuitInputs">>}
    [] t = "ZkMerkleProofData" -> {<<"leaf", "ZkLeafData">>}
    [] t = "BlockHeader"       -> {<<"header", "HeaderInputs">>}
    [] OTHER                   -> {}

\* nesting depth is at most 1 in this code base; written for depth 2 so that a deeper nesting is still covered
Visible1(t) == {<<f>> : f \in DirectVisible(t)}
Visible2(t) == Visible1(t) \cup UNION {{<<n[1]>> \o p : p \in Visible1(n[2])} : n \in NestedPrinted(t)}
Visible(t)  == Visible1(t) \cup UNION {{<<n[1]>> \o p : p \in Visible2(n[2])} : n \in NestedPrinted(t)}

\* the types whose Debug rendering the property talks about
InScope == {"PrivateCircuitInputs", "CircuitInputs", "Nullifier", "UnspendableAccount", "ZkLeafData",
            "ZkMerkleProofData", "HeaderInputs", "BlockHeader", "WormholeProver"}

(* ------------------------------------------------------------------ the raw values *)
Src == Obj("Sources", {F(<<"src">>, {})})

PublicObj == Obj("PublicCircuitInputs",
  {F(<<"asset_id">>, P("asset")), F(<<"output_amount_1">>, P("out1")), F(<<"output_amount_2">>, P("out2")),
   F(<<"volume_fee_bps">>, P("fee")), F(<<"nullifier">>, P("nullifier")), F(<<"exit_account_1">>, P("exit1")),
   F(<<"exit_account_2">>, P("exit2")), F(<<"block_hash">>, P("block_hash")), F(<<"block_number">>, P("block_number"))})

PrivateObj == Obj("PrivateCircuitInputs",
  {F(<<"secret">>, S("secret")), F(<<"transfer_count">>, S("tcount")), F(<<"unspendable_account">>, S("account")),
   F(<<"parent_hash">>, P("parent_hash")), F(<<"state_root">>, P("state_root")),
   F(<<"extrinsics_root">>, P("extrinsics_root")), F(<<"digest">>, S("dlogs")), F(<<"input_amount">>, S("amount")),
   F(<<"zk_tree_root">>, P("tree_root")), F(<<"zk_merkle_siblings">>, S("siblings")),
   F(<<"zk_merkle_positions">>, S("positions"))})

(* ------------------------------------------------------------------ constructors from the raw values *)
MkInputs == Obj("CircuitInputs", Nest("public", PublicObj) \cup Nest("private", PrivateObj))

NullifierOf(hash, secret, tc) ==
  Obj("Nullifier", {F(<<"hash">>, hash), F(<<"secret">>, secret), F(<<"transfer_count">>, tc)})
AccountOf(id, secret) == Obj("UnspendableAccount", {F(<<"account_id">>, id), F(<<"secret">>, secret)})
LeafOf(to, tc, asset, amount, o1, o2, fee) ==
  Obj("ZkLeafData", {F(<<"to_account">>, to), F(<<"transfer_count">>, tc), F(<<"asset_id">>, asset),
                     F(<<"input_amount">>, amount), F(<<"output_amount_1">>, o1), F(<<"output_amount_2">>, o2),
                     F(<<"volume_fee_bps">>, fee)})
MerkleOf(root, sibs, pos, leaf) ==
  Obj("ZkMerkleProofData", {F(<<"root_hash">>, root), F(<<"depth">>, {"len.siblings"}), F(<<"siblings">>, sibs),
                            F(<<"positions">>, pos), F(<<"is_not_dummy">>, {"flag"})} \cup Nest("leaf", leaf))
HeaderOf(parent, number, state, extr, root, digest) ==
  Obj("HeaderInputs", {F(<<"parent_hash">>, parent), F(<<"block_number">>, number), F(<<"state_root">>, state),
                       F(<<"extrinsics_root">>, extr), F(<<"zk_tree_root">>, root), F(<<"digest">>, digest)})
BlockHeaderOf(hash, header) == Obj("BlockHeader", {F(<<"block_hash">>, hash)} \cup Nest("header", header))

(* ------------------------------------------------------------------ conversions: name, source type, result *)
\* ci: a CircuitInputs object
LeafFromInputs(ci) ==
  LeafOf(Get(ci, <<"private", "unspendable_account">>), Get(ci, <<"private", "transfer_count">>),
         Get(ci, <<"public", "asset_id">>), Get(ci, <<"private", "input_amount">>),
         Get(ci, <<"public", "output_amount_1">>), Get(ci, <<"public", "output_amount_2">>),
         Get(ci, <<"public", "volume_fee_bps">>))
HeaderFromInputs(ci) ==
  HeaderOf(Get(ci, <<"private", "parent_hash">>), Get(ci, <<"public", "block_number">>),
           Get(ci, <<"private", "state_root">>), Get(ci, <<"private", "extrinsics_root">>),
           Get(ci, <<"private", "zk_tree_root">>), Get(ci, <<"private", "digest">>))

Retype(o, t) == Obj(t, o.fields)

Conv(name, o) ==
  CASE \* ---- from the raw values
       name = "mk_inputs"              -> MkInputs
    [] name = "nullifier_new"          -> NullifierOf(P("nullifier"), S("secret"), S("tcount"))
    [] name = "nullifier_from_preimage" -> NullifierOf({"hash.nullifier"}, S("secret"), S("tcount"))
    [] name = "account_new"            -> AccountOf(S("account"), S("secret"))
       \* H(H(salt, secret)) IS the deposit account
    [] name = "account_from_secret"    -> AccountOf(S("account"), S("secret"))
    [] name = "leaf_new"               -> LeafOf(S("account"), S("tcount"), P("asset"), S("amount"), P("out1"), P("out2"), P("fee"))
    [] name = "header_new"             -> HeaderOf(P("parent_hash"), P("block_number"), P("state_root"),
                                                   P("extrinsics_root"), P("tree_root"), S("dlogs"))
       \* ---- from CircuitInputs
    [] name = "inputs_take_private"    -> Obj("PrivateCircuitInputs", Sub(o, "private"))
    [] name = "nullifier_from_inputs"  -> NullifierOf(Get(o, <<"public", "nullifier">>), Get(o, <<"private", "secret">>),
                                                      Get(o, <<"private", "transfer_count">>))
    [] name = "account_from_inputs"    -> AccountOf(Get(o, <<"private", "unspendable_account">>), Get(o, <<"private", "secret">>))
    [] name = "merkle_from_inputs"     -> MerkleOf(Get(o, <<"private", "zk_tree_root">>), Get(o, <<"private", "zk_merkle_siblings">>),
                                                   Get(o, <<"private", "zk_merkle_positions">>), LeafFromInputs(o))
    [] name = "header_from_inputs"     -> HeaderFromInputs(o)
    [] name = "block_header_from_inputs" -> BlockHeaderOf(Get(o, <<"public", "block_hash">>), HeaderFromInputs(o))
       \* commit writes every witness value into partial_witness
    [] name = "prover_commit"          -> Obj("WormholeProver", {F(<<"circuit_data">>, {"circuit"}),
                                                                 F(<<"partial_witness">>, AllLabels(o)),
                                                                 F(<<"committed">>, {"flag"})})
       \* ---- from PrivateCircuitInputs
    [] name = "private_wrap"           -> Obj("CircuitInputs", Nest("public", PublicObj) \cup Nest("private", o))
       \* ---- Nullifier
    [] name = "nullifier_to_bytes"     -> Retype(o, "NullifierBytes")
    [] name = "nullifier_from_bytes"   -> Retype(o, "Nullifier")
    [] name = "nullifier_to_felts"     -> Retype(o, "NullifierFelts")
    [] name = "nullifier_from_felts"   -> Retype(o, "Nullifier")
    [] name = "nullifier_to_account"   -> AccountOf(S("account"), Get(o, <<"secret">>))        \* expose_digest hand-off
       \* ---- UnspendableAccount
    [] name = "account_to_bytes"       -> Retype(o, "AccountBytes")
    [] name = "account_from_bytes"     -> Retype(o, "UnspendableAccount")
    [] name = "account_to_felts"       -> Retype(o, "AccountFelts")
    [] name = "account_from_felts"     -> Retype(o, "UnspendableAccount")
    [] name = "account_to_nullifier"   -> NullifierOf(P("nullifier"), Get(o, <<"secret">>), S("tcount"))
       \* ---- leaf / tree path
    [] name = "leaf_clone"             -> o
    [] name = "merkle_new"             -> MerkleOf(P("tree_root"), S("siblings"), S("positions"), o)
       \* from_unsorted sorts the siblings and derives the position hints from them
    [] name = "merkle_from_unsorted"   -> MerkleOf(P("tree_root"), S("siblings"), S("positions"), o)
    [] name = "merkle_clone"           -> o
    [] name = "merkle_take_leaf"       -> Obj("ZkLeafData", Sub(o, "leaf"))
       \* ---- header
    [] name = "block_header_new"       -> BlockHeaderOf(P("block_hash"), o)
    [] name = "block_header_take_header" -> Obj("HeaderInputs", Sub(o, "header"))

Convs(t) ==
  CASE t = "Sources"              -> {"mk_inputs", "nullifier_new", "nullifier_from_preimage", "account_new",
                                      "account_from_secret", "leaf_new", "header_new"}
    [] t = "CircuitInputs"        -> {"inputs_take_private", "nullifier_from_inputs", "account_from_inputs",
                                      "merkle_from_inputs", "header_from_inputs", "block_header_from_inputs", "prover_commit"}
    [] t = "PrivateCircuitInputs" -> {"private_wrap"}
    [] t = "Nullifier"            -> {"nullifier_to_bytes", "nullifier_to_felts", "nullifier_to_account"}
    [] t = "NullifierBytes"       -> {"nullifier_from_bytes"}
    [] t = "NullifierFelts"       -> {"nullifier_from_felts"}
    [] t = "UnspendableAccount"   -> {"account_to_bytes", "account_to_felts", "account_to_nullifier"}
    [] t = "AccountBytes"         -> {"account_from_bytes"}
    [] t = "AccountFelts"         -> {"account_from_felts"}
    [] t = "ZkLeafData"           -> {"leaf_clone", "merkle_new", "merkle_from_unsorted"}
    [] t = "ZkMerkleProofData"    -> {"merkle_clone", "merkle_take_leaf"}
    [] t = "HeaderInputs"         -> {"block_header_new"}
    [] t = "BlockHeader"          -> {"block_header_take_header"}
    [] OTHER                      -> {}

(* ------------------------------------------------------------------ behaviours: all chains up to MaxLen *)
VARIABLES cur, chain, steps
vars == <<cur, chain, steps>>

VisibleFields(o) == {r \in o.fields : r.path \in Visible(o.type)}
HiddenFields(o)  == {r \in o.fields : r.path \notin Visible(o.type)}
Summary(o) == [type |-> o.type, scope |-> o.type \in InScope,
               visible |-> VisibleFields(o),
               hidden |-> {r \in HiddenFields(o) : r.lab \cap Sensitive # {}}]

Init == cur = Src /\ chain = <<>> /\ steps = <<>>
Next == /\ Len(chain) < MaxLen
        /\ \E name \in Convs(cur.type) :
              /\ cur' = Conv(name, cur)
              /\ chain' = Append(chain, name)
              /\ steps' = Append(steps, Summary(Conv(name, cur)))
Spec == Init /\ [][Next]_vars

Maximal == Len(chain) = MaxLen \/ Convs(cur.type) = {}

(* C32 *)
NoVisibleTaint == \A r \in VisibleFields(cur) : r.lab \cap Sensitive = {}
\* not vacuous: every in-scope object does hold sensitive data, behind a hidden field
HoldsSensitive == cur.type \in InScope => \E r \in HiddenFields(cur) : r.lab \cap Sensitive # {}
\* every printed path exists in the object (the Visible relation names real fields)
VisibleWellFormed == \A p \in Visible(cur.type) : \E r \in cur.fields : r.path = p
C32Inv == NoVisibleTaint /\ HoldsSensitive /\ VisibleWellFormed
=============================================================================
