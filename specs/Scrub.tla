------------------------------- MODULE Scrub -------------------------------
(* Scrubbing of secret material before its memory is released (C33) as a life-cycle monitor.

   Heap blocks carry  holds (the block contains the byte or felt image of the secret)  and a role:
       object          a secret-holding API object (Secret, Nullifier, UnspendableAccount, CircuitInputs);
                       the harness keeps every object in its own heap block (Box) so that the drop glue is
                       observable by the allocator
       buffer          a serialisation buffer returned to the caller (Zeroizing<Vec<u8>>, SensitiveFelts)
       preimage        the hash preimage buffer of from_preimage / from_secret (SensitiveFelts)
       upstream_pad    qp-plonky2's pad10_to_rate copy of the preimage: freed unscrubbed by upstream - the one
                       documented exemption
       caller_buffer   the caller's 32 bytes handed to Secret::new

   Micro actions:  alloc, write (the secret is written into a block), copy, grow (a Vec that reallocates: the
   new block receives the contents, the OLD block is freed as it is), scrub, free, push / pop (the object store),
   srccheck (the caller looks at its buffer after Secret::new).

   Every secret-handling entry point is a program of micro actions, written the way the code runs it; the
   constants say which scrubbing steps the code performs (all TRUE for the code as it is; the spec mutants flip
   one each and TLC must then find the monitor violated).

   C33:   Free(b) => ~holds(b) \/ Exempt(b)         and   Secret::new leaves the caller's buffer zeroed on
          both the valid and the invalid path.                                                          *)
EXTENDS Naturals, Sequences, FiniteSets, TLC

CONSTANTS MaxCalls,           \* bound on the number of API calls in a sequence
          MaxLive,            \* bound on simultaneously live API objects / buffers
          Presized,           \* serialisation and preimage buffers reserve their full capacity up front
          DropScrubs,         \* Drop for Secret zeroizes (objects holding a Secret inherit it)
          BytesBufScrubs,     \* to_bytes returns Zeroizing<Vec<u8>>
          FeltBufScrubs,      \* SensitiveFelts::drop scrubs the heap limbs in place
          CtorScrubsValid,    \* Secret::new zeroizes the caller's buffer when the value is valid
          CtorScrubsInvalid   \* ... and when it is not

ObjectKinds == {"S", "N", "A", "I"}                 \* Secret, Nullifier, UnspendableAccount, CircuitInputs
BufferKinds == {"NB", "NF", "AB", "AF"}             \* nullifier bytes / felts, account bytes / felts
Kinds == ObjectKinds \cup BufferKinds

(* ------------------------------------------------------------------ machine state and micro actions *)
InitSt == [store |-> <<>>,          \* live API objects, oldest first: [kind, blk]
           heap |-> {},             \* live blocks: [id, holds, role]
           frees |-> <<>>,          \* frees performed by the current call: [holds, exempt, role]
           src |-> "na",            \* what the caller found in its buffer after the last Secret::new
           next |-> 1]              \* fresh block ids

Blk(st, b) == CHOOSE x \in st.heap : x.id = b
SetHolds(st, b, h) == {IF x.id = b THEN [x EXCEPT !.holds = h] ELSE x : x \in st.heap}
Exempt(blk) == blk.role = "upstream_pad"
FreeRec(blk) == [holds |-> blk.holds, exempt |-> Exempt(blk), role |-> blk.role]
RemoveAt(s, i) == [j \in 1 .. Len(s) - 1 |-> IF j < i THEN s[j] ELSE s[j + 1]]

Apply(st, op) ==
  CASE op[1] = "alloc" -> [st EXCEPT !.heap = @ \cup {[id |-> op[2], holds |-> FALSE, role |-> op[3]]}]
    [] op[1] = "write" -> [st EXCEPT !.heap = SetHolds(st, op[2], TRUE)]
    [] op[1] = "copy"  -> [st EXCEPT !.heap = SetHolds(st, op[3], Blk(st, op[2]).holds \/ Blk(st, op[3]).holds)]
       \* realloc: new block op[3] receives the contents, old block op[2] is freed unscrubbed
    [] op[1] = "grow"  -> [st EXCEPT !.heap = (@ \ {Blk(st, op[2])}) \cup
                                               {[id |-> op[3], holds |-> Blk(st, op[2]).holds, role |-> Blk(st, op[2]).role]},
                                     !.frees = Append(@, FreeRec(Blk(st, op[2])))]
    [] op[1] = "scrub" -> [st EXCEPT !.heap = SetHolds(st, op[2], FALSE)]
    [] op[1] = "free"  -> [st EXCEPT !.heap = @ \ {Blk(st, op[2])}, !.frees = Append(@, FreeRec(Blk(st, op[2])))]
    [] op[1] = "push"  -> [st EXCEPT !.store = Append(@, [kind |-> op[2], blk |-> op[3]])]
    [] op[1] = "pop"   -> [st EXCEPT !.store = RemoveAt(@, op[2])]
    [] op[1] = "srccheck" -> [st EXCEPT !.src = IF Blk(st, op[2]).holds THEN "dirty" ELSE "zeroed"]

RECURSIVE RunAll(_, _)
RunAll(st, prog) == IF prog = <<>> THEN st ELSE RunAll(Apply(st, Head(prog)), Tail(prog))

(* ------------------------------------------------------------------ the API as programs *)
Has(st, k) == \E i \in 1 .. Len(st.store) : st.store[i].kind = k
LastOf(st, k) == CHOOSE i \in 1 .. Len(st.store) :
                    st.store[i].kind = k /\ \A j \in 1 .. Len(st.store) : st.store[j].kind = k => j <= i
Room(st) == Len(st.store) < MaxLive

Opt(cond, ops) == IF cond THEN ops ELSE <<>>

\* a constructor that moves the secret into a fresh object
NewObject(st, k) == <<<<"alloc", st.next, "object">>, <<"write", st.next>>, <<"push", k, st.next>>>>

\* a buffer the secret is written into: reserved up front, or grown after the secret was written
FilledBuffer(st, role) ==
  IF Presized THEN <<<<"alloc", st.next, role>>, <<"write", st.next>>>>
  ELSE <<<<"alloc", st.next + 1, role>>, <<"write", st.next + 1>>, <<"grow", st.next + 1, st.next>>>>
\* (the surviving block is st.next in both cases)

Serialise(st, k) == FilledBuffer(st, "buffer") \o <<<<"push", k, st.next>>>>

\* from_preimage / from_secret: preimage buffer, hashed (upstream pads a copy and frees it), scrubbed, freed
Hashing(st, k) ==
  FilledBuffer(st, "preimage")
  \o <<<<"alloc", st.next + 2, "upstream_pad">>, <<"copy", st.next, st.next + 2>>, <<"free", st.next + 2>>>>
  \o Opt(FeltBufScrubs, <<<<"scrub", st.next>>>>) \o <<<<"free", st.next>>>>
  \o <<<<"alloc", st.next + 3, "object">>, <<"write", st.next + 3>>, <<"push", k, st.next + 3>>>>

SecretNew(st, valid) ==
  <<<<"alloc", st.next, "caller_buffer">>, <<"write", st.next>>>>
  \o Opt(valid, <<<<"alloc", st.next + 1, "object">>, <<"copy", st.next, st.next + 1>>>>)
  \o Opt(IF valid THEN CtorScrubsValid ELSE CtorScrubsInvalid, <<<<"scrub", st.next>>>>)
  \o <<<<"srccheck", st.next>>, <<"free", st.next>>>>          \* the caller inspects, then releases its buffer
  \o Opt(valid, <<<<"push", "S", st.next + 1>>>>)

Scrubs(k) == IF k \in ObjectKinds THEN DropScrubs ELSE IF k \in {"NB", "AB"} THEN BytesBufScrubs ELSE FeltBufScrubs
Drop(st, k) ==
  LET i == LastOf(st, k) b == st.store[i].blk
  IN Opt(Scrubs(k), <<<<"scrub", b>>>>) \o <<<<"free", b>>, <<"pop", i>>>>

\* name -> [needs: kind that must be live ("" = none), makes: kind produced ("" = none)]
Calls == [
  secret_new_valid |-> [needs |-> "", makes |-> "S"],   secret_new_invalid |-> [needs |-> "", makes |-> ""],
  secret_from_digest |-> [needs |-> "", makes |-> "S"], secret_from_felts |-> [needs |-> "", makes |-> "S"],
  secret_try_from |-> [needs |-> "", makes |-> "S"],
  secret_via_expose_digest |-> [needs |-> "S", makes |-> "S"], secret_via_expose_felts |-> [needs |-> "S", makes |-> "S"],
  inputs_new |-> [needs |-> "", makes |-> "I"],
  nullifier_new |-> [needs |-> "", makes |-> "N"],       nullifier_from_preimage |-> [needs |-> "", makes |-> "N"],
  nullifier_from_inputs |-> [needs |-> "I", makes |-> "N"],
  nullifier_to_bytes |-> [needs |-> "N", makes |-> "NB"], nullifier_from_bytes |-> [needs |-> "NB", makes |-> "N"],
  nullifier_to_felts |-> [needs |-> "N", makes |-> "NF"], nullifier_from_felts |-> [needs |-> "NF", makes |-> "N"],
  account_new |-> [needs |-> "", makes |-> "A"],         account_from_secret |-> [needs |-> "", makes |-> "A"],
  account_from_inputs |-> [needs |-> "I", makes |-> "A"],
  account_to_bytes |-> [needs |-> "A", makes |-> "AB"],   account_from_bytes |-> [needs |-> "AB", makes |-> "A"],
  account_to_felts |-> [needs |-> "A", makes |-> "AF"],   account_from_felts |-> [needs |-> "AF", makes |-> "A"],
  drop_S |-> [needs |-> "S", makes |-> ""],   drop_N |-> [needs |-> "N", makes |-> ""],
  drop_A |-> [needs |-> "A", makes |-> ""],   drop_I |-> [needs |-> "I", makes |-> ""],
  drop_NB |-> [needs |-> "NB", makes |-> ""], drop_NF |-> [needs |-> "NF", makes |-> ""],
  drop_AB |-> [needs |-> "AB", makes |-> ""], drop_AF |-> [needs |-> "AF", makes |-> ""] ]
CallNames == DOMAIN Calls

CallEnabled(st, c) == /\ c \in CallNames
                      /\ (Calls[c].needs # "" => Has(st, Calls[c].needs))
                      /\ (Calls[c].makes # "" => Room(st))

Prog(st, c) ==
  CASE c = "secret_new_valid"   -> SecretNew(st, TRUE)
    [] c = "secret_new_invalid" -> SecretNew(st, FALSE)
    [] c \in {"nullifier_from_preimage", "account_from_secret"} -> Hashing(st, Calls[c].makes)
    [] c \in {"nullifier_to_bytes", "nullifier_to_felts", "account_to_bytes", "account_to_felts"}
                                -> Serialise(st, Calls[c].makes)
    [] c \in {"drop_S", "drop_N", "drop_A", "drop_I", "drop_NB", "drop_NF", "drop_AB", "drop_AF"}
                                -> Drop(st, Calls[c].needs)
    [] OTHER                    -> NewObject(st, Calls[c].makes)

\* the call begins: its frees are counted from here, block ids above everything in use
Begin(st) == [st EXCEPT !.frees = <<>>, !.src = "na"]
Finish(st) == [st EXCEPT !.next = @ + 4]

(* ------------------------------------------------------------------ behaviours: call sequences, micro step by micro step *)
VARIABLES st, calls, prog
vars == <<st, calls, prog>>

Init == st = InitSt /\ calls = <<>> /\ prog = <<>>
StartCall == /\ prog = <<>> /\ Len(calls) < MaxCalls
             /\ \E c \in CallNames :
                   /\ CallEnabled(st, c)
                   /\ prog' = Prog(st, c)
                   /\ st' = Begin(st)
                   /\ calls' = Append(calls, c)
Micro == /\ prog # <<>>
         /\ st' = (IF Len(prog) = 1 THEN Finish(Apply(st, Head(prog))) ELSE Apply(st, Head(prog)))
         /\ prog' = Tail(prog)
         /\ UNCHANGED calls
Next == StartCall \/ Micro
Spec == Init /\ [][Next]_vars

Idle == prog = <<>>

(* C33 *)
FreeOk(f) == f.holds => f.exempt
ScrubbedBeforeFree == \A i \in 1 .. Len(st.frees) : FreeOk(st.frees[i])
SourceZeroed == st.src # "dirty"
\* bookkeeping: between calls the live blocks are exactly the stored objects, and every stored object holds the secret
\* (so every drop in the model is a drop of secret-bearing memory: the monitor is not vacuous)
StoreConsistent == Idle => /\ {x.id : x \in st.heap} = {st.store[i].blk : i \in 1 .. Len(st.store)}
                           /\ \A x \in st.heap : x.holds
C33Inv == ScrubbedBeforeFree /\ SourceZeroed /\ StoreConsistent
=============================================================================
