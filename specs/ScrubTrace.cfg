SPECIFICATION TraceSpec
CONSTANTS
  MaxCalls = 1000000
  MaxLive = 3
  Presized = TRUE
  DropScrubs = TRUE
  BytesBufScrubs = TRUE
  FeltBufScrubs = TRUE
  CtorScrubsValid = TRUE
  CtorScrubsInvalid = TRUE
INVARIANTS C33Inv
POSTCONDITION TraceAccepted
CHECK_DEADLOCK FALSE
