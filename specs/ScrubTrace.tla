----------------------------- MODULE ScrubTrace -----------------------------
(* Trace validation for C33: an event stream recorded from the REAL secret-handling API under the harness's
   scanning global allocator must be a behaviour of Scrub's monitor.

   Events (ndjson, in program order):
     begin    a new call sequence starts with an empty object store (and a new secret)
     call     one API call returned:  call (a Scrub call name), phase (index in the sequence), ok,
              live (kinds of the objects the harness holds afterwards, oldest first), scanned (blocks the
              allocator examined during the call)
     free     an INTERESTING free observed during that call (the allocator logs a free only when the block
              contains the byte / felt image of the current secret or equals the upstream pad image):
              free = [size, holds_secret_bytes, holds_secret_felts, equals_upstream_pad, via]
     source   after Secret::new: valid (was the candidate canonical), zeroed (the caller's buffer reads all zero)

   A "call" event is matched by Scrub's program for that call run to completion (the call must be enabled, the
   model's store must project to the logged one, the model's own frees satisfy the monitor); a "free" event
   must satisfy the monitor  holds => exempt, where exempt is exactly "the block equals the image of the
   upstream pad10_to_rate buffer" (the exemption the repo's heap_zeroization test makes); a "source" event
   must report a zeroed buffer.                                                                        *)
EXTENDS Scrub, Json, IOUtils

Rec == ndJsonDeserialize(IOEnv.TRACE)
VARIABLES l, curCall, curPhase
tvars == <<st, calls, prog, l, curCall, curPhase>>

Ev == Rec[l]
IsEvent(ev) == Rec[l].ev = ev /\ l' = l + 1
StoreKinds(s) == [i \in 1 .. Len(s.store) |-> s.store[i].kind]

TrBegin == /\ IsEvent("begin")
           /\ st' = InitSt /\ calls' = <<>> /\ curCall' = "" /\ curPhase' = 0
           /\ UNCHANGED prog

TrCall == \E e \in {Rec[l]} :
    /\ IsEvent("call")
    /\ e.ok
    /\ CallEnabled(st, e.call)
    /\ st' = Finish(RunAll(Begin(st), Prog(st, e.call)))
    /\ StoreKinds(st') = e.live
    /\ \A i \in 1 .. Len(st'.frees) : FreeOk(st'.frees[i])
    /\ calls' = Append(calls, e.call)
    /\ curCall' = e.call /\ curPhase' = e.phase
    /\ UNCHANGED prog

ObservedHolds(f) == f.holds_secret_bytes \/ f.holds_secret_felts
ObservedFreeOk(f) == ObservedHolds(f) => f.equals_upstream_pad

TrFree == \E e \in {Rec[l]} :
    /\ IsEvent("free")
    /\ e.call = curCall /\ e.phase = curPhase
    /\ ObservedFreeOk(e.free)
    /\ UNCHANGED <<st, calls, prog, curCall, curPhase>>

TrSource == \E e \in {Rec[l]} :
    /\ IsEvent("source")
    /\ e.call = curCall /\ e.phase = curPhase
    /\ e.zeroed
    /\ st.src = "zeroed"                    \* the model, too, saw a Secret::new in this call
    /\ UNCHANGED <<st, calls, prog, curCall, curPhase>>

TraceInit == st = InitSt /\ calls = <<>> /\ prog = <<>> /\ l = 1 /\ curCall = "" /\ curPhase = 0
TraceNext == l <= Len(Rec) /\ (TrBegin \/ TrCall \/ TrFree \/ TrSource)
TraceSpec == TraceInit /\ [][TraceNext]_tvars

TraceAccepted ==
    LET d == TLCGet("stats").diameter IN
    IF d = Len(Rec) + 1 THEN PrintT(<<"TRACEOK", ToJson([events |-> Len(Rec)])>>)
    ELSE /\ PrintT(<<"TRACEFAIL", ToJson([matched |-> d - 1, first_unmatched |-> Rec[d]])>>)
         /\ FALSE
=============================================================================
