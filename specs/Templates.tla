------------------------------ MODULE Templates ------------------------------
(* Padding templates (C16).

   A padding template is described by the sentinel conditions it FAILS (a set of deviation flags)
   and by where in a multi-position field the deviation sits:

     leaf template           proof   the proof does not verify under the pinned leaf verifier
                             block   block hash non-zero
                             out1    output amount 1 non-zero       out2   output amount 2 non-zero
                             asset   asset id non-zero
                             exit1   exit account 1 non-zero        exit2  exit account 2 non-zero
     private-batch template  proof   the proof does not verify under the pinned private-batch verifier
                             block   block hash non-zero
                             sum     some exit slot carries a non-zero summed amount
                             acct    some exit slot carries a non-zero exit account
     pos                     first / last: the deviating felt is the first (last) felt of its field, the
                             deviating exit slot is the first (last) slot, the value is 1 (the largest)

   CompleteSentinel  is the property text.
   LeafCheck/PbCheck are the two validators as the guard sequences the code runs, in code order
                     (verify_dummy_leaf_template, verify_dummy_private_batch_template);
   Program(e)        is each entry point: what it does before it looks at the template (all of it
                     succeeds here: the other artifacts are canonical, the counts valid), the
                     validator, and then the USE of the template (kept for padding / baked into the
                     published dummy private-batch proof).

   TLC walks every entry point over every subset of deviations and both position classes.   *)
EXTENDS Naturals, Sequences, FiniteSets, TLC

LeafDevs == {"proof", "block", "out1", "out2", "asset", "exit1", "exit2"}
PbDevs == {"proof", "block", "sum", "acct"}
Positions == {"first", "last"}

LeafEntries == {"pb_new", "pb_new_from_bytes", "pb_new_from_files", "pb_new_from_binaries_dir", "pb_build"}
PbEntries == {"pub_new", "pub_new_from_bytes", "pub_new_from_files", "pub_new_from_binaries_dir",
              "agg_new", "agg_with_limits"}

-----------------------------------------------------------------------------
(* the property, as stated *)
CompleteLeafSentinel(t) ==
  /\ "proof" \notin t                       \* verifies under the pinned leaf verifier
  /\ "block" \notin t                       \* zero block hash
  /\ "out1" \notin t /\ "out2" \notin t     \* zero outputs
  /\ "asset" \notin t                       \* zero asset id
  /\ "exit1" \notin t /\ "exit2" \notin t   \* zero exit accounts

CompletePbSentinel(t) ==
  /\ "proof" \notin t
  /\ "block" \notin t
  /\ "sum" \notin t /\ "acct" \notin t      \* all-zero exit slots

Complete(k, t) == IF k = "leaf" THEN CompleteLeafSentinel(t) ELSE CompletePbSentinel(t)

-----------------------------------------------------------------------------
(* the validators, guards in code order; a guard is <<name, passes>> *)
LeafCheck(t, p) == <<
  <<"parse",   p # "wide">>,                             \* a scalar outside the u32 range does not decode: rejected here
  <<"block",   "block" \notin t>>,
  <<"outputs", "out1" \notin t /\ "out2" \notin t>>,
  <<"asset",   "asset" \notin t>>,
  <<"exits",   "exit1" \notin t /\ "exit2" \notin t>>,
  <<"verify",  "proof" \notin t>> >>

PbCheck(t, p) == <<
  <<"parse",   TRUE>>,
  <<"block",   "block" \notin t>>,
  <<"slots",   "sum" \notin t /\ "acct" \notin t>>,      \* every slot: sum, then account
  <<"verify",  "proof" \notin t>> >>

Pass(n) == <<n, TRUE>>

(* entry points: steps before the validator (they pass: everything else is canonical), then the validator *)
ProgramOf(e, t, p) ==
  CASE e = "pb_new"                   -> <<Pass("count"), Pass("build_circuit")>> \o LeafCheck(t, p)
    [] e = "pb_new_from_bytes"        -> <<Pass("count"), Pass("pin_leaf"), Pass("build_circuit"), Pass("decode")>>
                                         \o LeafCheck(t, p)
    [] e = "pb_new_from_files"        -> <<Pass("read_files"), Pass("count"), Pass("pin_leaf"), Pass("build_circuit"),
                                           Pass("decode")>> \o LeafCheck(t, p)
    [] e = "pb_new_from_binaries_dir" -> <<Pass("config"), Pass("read_files"), Pass("count"), Pass("pin_leaf"),
                                           Pass("build_circuit"), Pass("decode")>> \o LeafCheck(t, p)
    [] e = "pb_build"                 -> <<Pass("count"), Pass("read_files"), Pass("pin_leaf"), Pass("read_template"),
                                           Pass("decode")>> \o LeafCheck(t, p)
    [] e = "pub_new"                  -> <<Pass("count"), Pass("build_circuit")>> \o PbCheck(t, p)
    [] e = "pub_new_from_bytes"       -> <<Pass("count"), Pass("pin_private_batch"), Pass("build_circuit"),
                                           Pass("decode")>> \o PbCheck(t, p)
    [] e = "pub_new_from_files"       -> <<Pass("read_files"), Pass("count"), Pass("pin_private_batch"),
                                           Pass("build_circuit"), Pass("decode")>> \o PbCheck(t, p)
    [] e = "pub_new_from_binaries_dir" -> <<Pass("config"), Pass("read_files"), Pass("count"), Pass("pin_private_batch"),
                                            Pass("build_circuit"), Pass("decode")>> \o PbCheck(t, p)
    [] e \in {"agg_new", "agg_with_limits"} ->
                                         <<Pass("config"), Pass("pin_private_batch"), Pass("pin_public_batch"),
                                           Pass("read_template"), Pass("decode")>> \o PbCheck(t, p)

\* (a separate name so that a model can override Program and still refer to the original)
Program(e, t, p) == ProgramOf(e, t, p)

-----------------------------------------------------------------------------
VARIABLES kind, entry, tmpl, pos, pc, verdict, used
vars == <<kind, entry, tmpl, pos, pc, verdict, used>>

\* the position class means something only when a public-input field deviates
\* "wide": the template's scalars do not fit their 32-bit fields (asset id 2^32 + 7 when it deviates, block number 2^32
\* always).  Such a statement has a VALID proof only where the child circuit is the caller's (PrivateBatchProver::new);
\* the canonical leaf circuit range-checks every scalar.  It must be rejected like any other incomplete sentinel.
PosOf(e, t) == IF t \ {"proof"} = {} THEN {"first"} ELSE IF e = "pb_new" THEN Positions \cup {"wide"} ELSE Positions

Init ==
  /\ \/ kind = "leaf" /\ entry \in LeafEntries /\ tmpl \in SUBSET LeafDevs
     \/ kind = "pb" /\ entry \in PbEntries /\ tmpl \in SUBSET PbDevs
  /\ pos \in PosOf(entry, tmpl)
  /\ pc = 1 /\ verdict = "running" /\ used = FALSE

Step ==
  /\ verdict = "running"
  /\ LET prog == Program(entry, tmpl, pos) IN
       IF prog[pc][2]
         THEN IF pc = Len(prog)
                THEN verdict' = "accepted" /\ used' = TRUE /\ pc' = pc     \* the template is kept / baked in
                ELSE pc' = pc + 1 /\ UNCHANGED <<verdict, used>>
         ELSE verdict' = "rejected" /\ UNCHANGED <<pc, used>>
  /\ UNCHANGED <<kind, entry, tmpl, pos>>

Next == Step
Spec == Init /\ [][Next]_vars

Stage == IF verdict = "rejected" THEN Program(entry, tmpl, pos)[pc][1] ELSE "use"

(* C16 *)
AcceptedOnlyComplete == verdict = "accepted" => Complete(kind, tmpl)
RejectedBeforeUse == (used => Complete(kind, tmpl)) /\ (verdict = "rejected" => ~used)
\* vacuity: the all-clear template gets through every entry point
AllClearAccepted == (verdict # "running" /\ Complete(kind, tmpl)) => verdict = "accepted"
C16Inv == AcceptedOnlyComplete /\ RejectedBeforeUse /\ AllClearAccepted
=============================================================================
