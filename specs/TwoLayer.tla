------------------------------- MODULE TwoLayer -------------------------------
(* C36: both aggregation layers composed.  M private batches of N leaf statements each are aggregated
   (BatchDecl!PBOutput - shown equal to the circuit by PrivateBatch.tla), their outputs become the inner
   statements of one public batch (BatchDecl!QBOutput - shown equal to the circuit by PublicBatch.tla).
   Padding happens at both layers: dummy leaves inside a batch, all-dummy batches as padding inners.
   TLC enumerates all leaf sets over a small domain and all splits into batches (the split is the
   position of each leaf in the M x N grid). *)
EXTENDS BatchDecl, TLC
CONSTANTS M, N, LeafDom, HHDom, RangeBound
VARIABLES grid, hhs       \* grid[j][i] = leaf i of private batch j ; hhs[j][i] = H(H(u)) of that slot
vars == <<grid, hhs>>
\* batches are chosen one per step so that TLC's workers share the enumeration
Init == grid \in [1 .. 1 -> [1 .. N -> LeafDom]] /\ hhs \in [1 .. 1 -> [1 .. N -> HHDom]]
AddBatch == /\ Len(grid) < M
            /\ \E b \in [1 .. N -> LeafDom], h \in [1 .. N -> HHDom] : grid' = Append(grid, b) /\ hhs' = Append(hhs, h)
Next == AddBatch \/ (Len(grid) = M /\ UNCHANGED vars)
Spec == Init /\ [][Next]_vars
Complete == Len(grid) = M

Inner(j) == AsInner(PBOutput(grid[j], hhs[j]))
Inners == [j \in 1 .. M |-> Inner(j)]
AllAccepted == Complete /\ (\A j \in 1 .. M : PBAccepts(grid[j])) /\ QBAccepts(Inners)
Pub == QBOutput(Inners, ZeroD)
RealBatches == {j \in 1 .. M : RealIdx(grid[j]) # {}}

Cnt(s, v) == Cardinality({k \in 1 .. Len(s) : s[k] = v})
SameMultiset(s, t) == Len(s) = Len(t) /\ \A k \in 1 .. Len(s) : Cnt(s, s[k]) = Cnt(t, s[k])
NonZero(s, z) == SelectSeq(s, LAMBDA v : v # z)

\* value: the non-zero public exit slots sum to the total of the real leaves' outputs
ValueConserved == AllAccepted =>
   SumSeq([k \in 1 .. Len(Pub.slots) |-> Pub.slots[k][1]])
     = SumSeq([j \in 1 .. M |-> IF j \in RealBatches THEN TotalRealPaid(grid[j]) ELSE AmtZero])
\* nullifiers: exactly the real leaves' nullifiers plus the replacement nullifiers of REAL batches' dummy slots
NullifiersExact == AllAccepted =>
   SameMultiset(NonZero(Pub.nulls, ZeroD),
                NonZero(FlattenSeq([j \in 1 .. M |-> IF j \in RealBatches THEN Selected(grid[j], hhs[j]) ELSE <<>>]), ZeroD))
\* padding inners add nothing
PaddingAddsNothing == AllAccepted => \A j \in 1 .. M : j \notin RealBatches =>
   /\ \A k \in (j - 1) * 2 * N + 1 .. j * 2 * N : Pub.slots[k] = ZeroSlot
   /\ \A k \in (j - 1) * N + 1 .. j * N : Pub.nulls[k] = ZeroD
\* a real private batch is a real inner (its block hash is a real leaf's, hence non-zero)
RealBatchIsRealInner == AllAccepted => \A j \in 1 .. M : (j \in RealBatches) = ~InnerDummy(Inners[j])
TwoLayerInv == ValueConserved /\ NullifiersExact /\ PaddingAddsNothing /\ RealBatchIsRealInner
=============================================================================
