---------------------------- MODULE WrapperTrace ----------------------------
(* Trace validation of the REAL wrapper circuits at production values.  Each event is one evaluation of
   the repo's private-batch ("pb") or public-batch ("qb", "two") constraint builder over chosen child
   public inputs, decided by the real prover and verifier (honest witness, or an accepted override of a
   hint generator).  The declarative semantics of BatchDecl - the same module the TLC models use - is
   instantiated with limb arithmetic: field scalars are 4 big-endian 16-bit limbs, digests 16 limbs,
   amounts <<value div 2^16, value mod 2^16>>.
     honest event:     verdict = Accepts(inputs)            (C07 / C13)
     accepted event:   public inputs = Output(inputs)       (C06 / C12, and C10 for override events)
                       conservation                           (C08), layout length and zero padding
     "two" events:     the inner statements are the real private-batch outputs of recorded leaf sets;
                       end-to-end conservation of value and nullifiers (C36) *)
EXTENDS Naturals, Sequences, FiniteSets, TLC, Json, IOUtils

Rec == ndJsonDeserialize(IOEnv.TRACE)
VARIABLE l

RECURSIVE SeqLt(_, _)
SeqLt(a, b) == IF a = <<>> THEN FALSE
               ELSE IF a[1] # b[1] THEN a[1] < b[1] ELSE SeqLt(Tail(a), Tail(b))
TZeroD == [k \in 1 .. 16 |-> 0]
TZeroF == <<0, 0, 0, 0>>
TAmtAdd(a, b) == LET lo == a[2] + b[2] IN <<a[1] + b[1] + (lo \div 65536), lo % 65536>>
TAmtOk(a) == a[1] < 65536

D == INSTANCE BatchDecl WITH ZeroD <- TZeroD, ZeroF <- TZeroF, AmtZero <- <<0, 0>>,
                             AmtAdd <- TAmtAdd, AmtOk <- TAmtOk, DLt <- SeqLt

PbOutMatches(o, x) ==
  /\ o.len_ok /\ o.pad_ok
  /\ o.nslots = x.nslots /\ o.asset = x.asset /\ o.fee = x.fee /\ o.block = x.block /\ o.number = x.number
  /\ o.slots = x.slots /\ o.nulls = x.nulls
PbOk(e) ==
  LET a == D!PBAccepts(e.ch) IN
  /\ e.honest => (e.acc = a)
  /\ e.acc => (a /\ PbOutMatches(e.out, D!PBOutput(e.ch, e.hh))
                 /\ D!PBConserves(e.ch, [slots |-> e.out.slots])
                 /\ D!DuplicateSlotsZero(e.ch, [slots |-> e.out.slots]))

QbOutMatches(o, x) ==
  /\ o.len_ok
  /\ o.addr = x.addr /\ o.asset = x.asset /\ o.fee = x.fee /\ o.block = x.block /\ o.number = x.number
  /\ o.total = x.total /\ o.slots = x.slots /\ o.nulls = x.nulls
QbOk(e) ==
  LET a == D!QBAccepts(e.inn) IN
  /\ e.honest => (e.acc = a)
  /\ e.acc => (a /\ QbOutMatches(e.out, D!QBOutput(e.inn, e.addr)))

\* C36 on chained runs
Cnt(s, v) == Cardinality({k \in 1 .. Len(s) : s[k] = v})
SameMultiset(s, t) == Len(s) = Len(t) /\ \A k \in 1 .. Len(s) : Cnt(s, s[k]) = Cnt(t, s[k])
RECURSIVE Cat(_)
Cat(s) == IF s = <<>> THEN <<>> ELSE s[1] \o Cat(Tail(s))
NonZeroOnly(s, z) == SelectSeq(s, LAMBDA v : v # z)
TwoOk(e) ==
  /\ QbOk(e)
  /\ \A j \in 1 .. Len(e.leafsets) :
        \* the inner statement is the specified aggregate of its leaf set (C06 again, on the chained run)
        LET o == D!PBOutput(e.leafsets[j].ch, e.leafsets[j].hh) IN
          /\ D!PBAccepts(e.leafsets[j].ch)
          /\ e.inn[j].asset = o.asset /\ e.inn[j].fee = o.fee /\ e.inn[j].block = o.block /\ e.inn[j].number = o.number
          /\ e.inn[j].slots = o.slots /\ e.inn[j].nulls = o.nulls
  /\ e.acc =>
       LET realJ == {j \in 1 .. Len(e.leafsets) : D!RealIdx(e.leafsets[j].ch) # {}}
           paid == D!SumSeq([j \in 1 .. Len(e.leafsets) |-> IF j \in realJ THEN D!TotalRealPaid(e.leafsets[j].ch) ELSE <<0, 0>>])
           expNulls == Cat([j \in 1 .. Len(e.leafsets) |-> IF j \in realJ THEN D!Selected(e.leafsets[j].ch, e.leafsets[j].hh) ELSE <<>>])
       IN /\ D!SumSeq([k \in 1 .. Len(e.out.slots) |-> e.out.slots[k][1]]) = paid
          /\ SameMultiset(NonZeroOnly(e.out.nulls, TZeroD), NonZeroOnly(expNulls, TZeroD))
          \* padding inners (all-dummy private batches) add nothing
          /\ \A j \in 1 .. Len(e.leafsets) : j \notin realJ =>
                LET ns == Len(e.inn[j].slots)  nn == Len(e.inn[j].nulls) IN
                  /\ \A k \in (j - 1) * ns + 1 .. j * ns : e.out.slots[k] = <<<<0, 0>>, TZeroD>>
                  /\ \A k \in (j - 1) * nn + 1 .. j * nn : e.out.nulls[k] = TZeroD

EventOk(e) == CASE e.k = "pb" -> PbOk(e) [] e.k = "qb" -> QbOk(e) [] e.k = "two" -> TwoOk(e)

TraceInit == l = 1
TraceNext == l <= Len(Rec) /\ EventOk(Rec[l]) /\ l' = l + 1
TraceSpec == TraceInit /\ [][TraceNext]_l
TraceAccepted ==
    LET d == TLCGet("stats").diameter IN
    IF d = Len(Rec) + 1 THEN PrintT(<<"TRACEOK", ToJson([events |-> Len(Rec)])>>)
    ELSE /\ PrintT(<<"TRACEFAIL", ToJson([matched |-> d - 1, first_unmatched |-> Rec[d]])>>)
         /\ FALSE
=============================================================================
