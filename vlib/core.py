"""Shared machinery for vcheck: harness build, TLC runs, trace validation, evidence, findings."""
import json
import os
import re
import shutil
import subprocess
import sys
import time
from pathlib import Path

ROOT = Path(__file__).resolve().parent.parent
SPECS = ROOT / "specs"
# development aid: bin/mutant-audit-ns runs checks against a patched copy of /repo in a private mount namespace with its own
# work / evidence directories (VERIF_WORK, VERIF_EVIDENCE_DIR); registered commands never set these
WORK = Path(os.environ.get("VERIF_WORK") or (ROOT / "work"))
EVID = Path(os.environ.get("VERIF_EVIDENCE_DIR") or (ROOT / "evidence"))
HARNESS = ROOT / "harness"
VH = WORK / "target" / "release" / "vh"
REPO = Path("/repo")
GUARD = "quantus_network_qp_zk_circuits_verif"
TLA_JAR = "/opt/veriftools/tla/tla2tools.jar:/opt/veriftools/tla/CommunityModules-deps.jar"


class ToolError(Exception):
    """Tool failure (compile error, TLC crash, timeout): exit 2, never a violation."""


class Ctx:
    def __init__(self, pid, tier, seed):
        self.pid = pid
        self.tier = tier
        self.seed = seed
        self.t0 = time.time()
        self.violations = []      # list of dict(case=..., what=...)
        self.known_hits = []
        self.cov = {
            "states": 0, "transitions": 0, "traces_validated_against_impl": 0,
            "evaluations": 0, "distinct_nontrivial": 0, "samples": [],
            "tlc_runs": [], "harness_runs": [],
        }
        self.assumptions = []
        self.level = "model_checking"
        self.workdir = WORK / "run" / pid
        if self.workdir.exists():
            shutil.rmtree(self.workdir, ignore_errors=True)
        self.workdir.mkdir(parents=True, exist_ok=True)
        (WORK / "replays").mkdir(parents=True, exist_ok=True)

    @property
    def quick(self):
        return self.tier == "quick"

    def log(self, *a):
        print(f"[{self.pid} {time.time()-self.t0:6.1f}s]", *a, flush=True)

    def add_sample(self, s, cap=6):
        if len(self.cov["samples"]) < cap:
            self.cov["samples"].append(s)

    def violation(self, what, case):
        self.violations.append({"what": what, "case": case})


# ---------------------------------------------------------------- harness build

_built = False


def build_harness(ctx=None, bin=None):
    """cargo build --release of the harness (all bins) against /repo's current working tree, hooks on.
    If the whole set does not compile but the binary this check needs does, the check goes on with it."""
    global _built
    if _built:
        return
    t = time.time()
    lock_src = REPO / "Cargo.lock"
    lock_dst = HARNESS / "Cargo.lock"
    if not lock_dst.exists():
        shutil.copy(lock_src, lock_dst)
    env = dict(os.environ)
    env["CARGO_NET_OFFLINE"] = "true"
    p = subprocess.run(
        ["cargo", "build", "--release", "--offline", "--bins"],
        cwd=HARNESS, env=env, stdout=subprocess.PIPE, stderr=subprocess.STDOUT, text=True,
    )
    if p.returncode != 0 and bin:
        p2 = subprocess.run(["cargo", "build", "--release", "--offline", "--bin", bin],
                            cwd=HARNESS, env=env, stdout=subprocess.PIPE, stderr=subprocess.STDOUT, text=True)
        if p2.returncode == 0:
            print(f"note: another harness binary does not compile; continuing with {bin}", flush=True)
            p = p2
    if p.returncode != 0:
        sys.stdout.write(p.stdout[-6000:])
        raise ToolError("harness build failed (compile error in /repo working tree or harness)")
    _built = True
    if ctx:
        ctx.log(f"harness built in {time.time()-t:.1f}s")


def vh(ctx, args, stdin=None, timeout=3600, check=True, env_extra=None, bin="vh"):
    """Run the harness binary; returns stdout text. Non-zero exit is a tool error
    (the harness reports disagreements as data, never via exit status)."""
    build_harness(ctx, bin)
    env = dict(os.environ)
    env["VERIF_SEED"] = str(ctx.seed)
    env["RAYON_NUM_THREADS"] = env.get("RAYON_NUM_THREADS", "16")
    if env_extra:
        env.update(env_extra)
    t = time.time()
    try:
        p = subprocess.run([str(VH.parent / bin)] + [str(a) for a in args], input=stdin, cwd=ROOT, env=env,
                           stdout=subprocess.PIPE, stderr=subprocess.PIPE, text=True, timeout=timeout)
    except subprocess.TimeoutExpired:
        raise ToolError(f"harness timeout: vh {' '.join(map(str, args))}")
    ctx.cov["harness_runs"].append({"args": [str(a) for a in args][:6], "wall_s": round(time.time()-t, 2)})
    if check and p.returncode != 0:
        sys.stdout.write(p.stdout[-3000:])
        sys.stdout.write(p.stderr[-6000:])
        raise ToolError(f"harness failed rc={p.returncode}: vh {' '.join(map(str, args))}")
    return p.stdout


# ---------------------------------------------------------------- TLC

RE_STATES = re.compile(r"(\d+) states generated, (\d+) distinct states found, (\d+) states left on queue")
RE_COV = re.compile(r"^<(\w+) line (\d+), col (\d+) to line (\d+), col (\d+) of module (\w+)(?: \([\d ]+\))?>: (\d+):(\d+)")
RE_PRINT = re.compile(r'^<<"(\w+)", "(.*)">>$')
RE_SIM = re.compile(r"The number of states generated: (\d+)")


def _unescape_tla(s):
    # TLC prints strings with \" and \\ escapes
    return s.replace('\\"', '"').replace("\\\\", "\\")


def run_tlc(ctx, module, cfg=None, workers=8, timeout=1800, simulate=None, depth=None,
            extra_java=None, env_extra=None, coverage=True, expect_violation=False, xmx="8g",
            tags=("REPLAY",), quiet=False):
    """Run TLC on specs/<module>.tla with specs/<cfg>. Returns a dict:
       ok, violated (name or None), states, distinct, prints {tag: [json...]}, coverage {action: count}, out."""
    cfg = cfg or (module + ".cfg")
    meta = ctx.workdir / f"tlc-{Path(cfg).stem}"
    if meta.exists():
        shutil.rmtree(meta, ignore_errors=True)
    meta.mkdir(parents=True)
    java = ["java", "-XX:+UseParallelGC", f"-Xmx{xmx}", "-Xss1g"]
    if extra_java:
        java += extra_java
    cmd = java + ["-cp", TLA_JAR, "tlc2.TLC", "-workers", str(workers), "-metadir", str(meta),
                  "-noGenerateSpecTE", "-config", cfg]
    if coverage and not simulate:
        cmd += ["-coverage", "1"]
    if simulate:
        cmd += ["-simulate", f"num={simulate}", "-depth", str(depth or 100), "-seed", str(ctx.seed)]
    cmd += [module + ".tla"]
    env = dict(os.environ)
    if env_extra:
        env.update({k: str(v) for k, v in env_extra.items()})
    t = time.time()
    try:
        p = subprocess.run(cmd, cwd=SPECS, env=env, stdout=subprocess.PIPE, stderr=subprocess.STDOUT,
                           text=True, timeout=timeout)
    except subprocess.TimeoutExpired:
        shutil.rmtree(meta, ignore_errors=True)
        raise ToolError(f"TLC timeout on {module}/{cfg}")
    finally:
        pass
    wall = time.time() - t
    out = p.stdout
    shutil.rmtree(meta, ignore_errors=True)
    res = {"ok": False, "violated": None, "generated": 0, "distinct": 0, "prints": {}, "coverage": {},
           "out": out, "wall_s": wall, "cfg": cfg, "module": module}
    for line in out.splitlines():
        m = RE_STATES.search(line)
        if m:
            res["generated"], res["distinct"] = int(m.group(1)), int(m.group(2))
        m = RE_SIM.search(line)
        if m and simulate:
            res["generated"] = int(m.group(1))
            res["distinct"] = max(res["distinct"], 0)
        m = RE_COV.match(line)
        if m:
            key = f"{m.group(6)}!{m.group(1)}@{m.group(2)}"
            res["coverage"][key] = res["coverage"].get(key, 0) + int(m.group(8))
        m = RE_PRINT.match(line)
        if m and m.group(1) in tags:
            res["prints"].setdefault(m.group(1), []).append(_unescape_tla(m.group(2)))
    m = re.search(r"Error: Invariant (\S+) is violated", out)
    if m:
        res["violated"] = m.group(1)
    elif "Error: Action property" in out or "is violated" in out and "Error:" in out:
        m2 = re.search(r"Error: Action property (\S+)", out)
        res["violated"] = m2.group(1) if m2 else "property"
    elif re.search(r"Postcondition .* is false|Postcondition .* violated|Error: Evaluating the postcondition", out, re.I):
        res["violated"] = "POSTCONDITION"
    elif "Temporal properties were violated" in out or re.search(r"Error: Temporal property \S+ was violated", out):
        m3 = re.search(r"Error: Temporal property (\S+) was violated", out)
        res["violated"] = m3.group(1) if m3 else "temporal"
    finished = ("Model checking completed. No error has been found." in out) or (simulate and p.returncode in (0,))
    res["ok"] = bool(finished) and res["violated"] is None
    if not res["ok"] and res["violated"] is None:
        if simulate and "Error:" not in out:
            res["ok"] = True
        else:
            sys.stdout.write(out[-5000:])
            raise ToolError(f"TLC failed on {module}/{cfg} (rc={p.returncode})")
    if not quiet:
        ctx.log(f"TLC {module}/{cfg}: {res['distinct']} distinct / {res['generated']} generated, "
                f"{wall:.1f}s, violated={res['violated']}")
    if not expect_violation:
        ctx.cov["states"] += res["distinct"]
        ctx.cov["transitions"] += res["generated"]
        ctx.cov["tlc_runs"].append({"module": module, "cfg": cfg, "distinct": res["distinct"],
                                     "generated": res["generated"], "wall_s": round(wall, 1),
                                     "simulate": bool(simulate)})
    return res


def check_coverage(ctx, res, allow_zero=()):
    """Fail as tool error if an action of the spec was never taken (vacuity control)."""
    zero = [k for k, v in res["coverage"].items() if v == 0 and k not in allow_zero]
    if zero:
        raise ToolError(f"vacuity: actions never taken in {res['module']}/{res['cfg']}: {zero}")


def tlc_counterexample(out, maxlines=80):
    i = out.find("Error:")
    return "\n".join(out[i:].splitlines()[:maxlines]) if i >= 0 else ""


def validate_trace(ctx, module, trace_path, cfg=None, timeout=1200, env_extra=None, xmx="4g"):
    """Trace validation: TLC on a *Trace module with TRACE=<file>; accepted iff POSTCONDITION holds.
       Returns (accepted, info)."""
    env = {"TRACE": str(trace_path)}
    if env_extra:
        env.update(env_extra)
    res = run_tlc(ctx, module, cfg=cfg, workers=1, timeout=timeout, coverage=False,
                  extra_java=["-Dtlc2.tool.queue.IStateQueue=StateDeque"], env_extra=env,
                  expect_violation=True, xmx=xmx, tags=("REPLAY", "TRACEFAIL", "TRACEOK"), quiet=True)
    ctx.cov["states"] += res["distinct"]
    ctx.cov["transitions"] += res["generated"]
    ctx.cov["tlc_runs"].append({"module": module, "cfg": res["cfg"], "distinct": res["distinct"],
                                 "generated": res["generated"], "wall_s": round(res["wall_s"], 1),
                                 "trace": os.path.basename(str(trace_path))})
    return res["ok"], res


# ---------------------------------------------------------------- findings / evidence / exit

def load_known():
    p = ROOT / "known_findings.json"
    if not p.exists():
        return []
    return json.loads(p.read_text()).get("findings", [])


def finish(ctx, matcher=None):
    """Classify violations against known findings, write evidence, print lines, return exit code.
       matcher(entry, violation) -> bool decides whether an *open* known finding covers a violation."""
    known = [k for k in load_known() if k.get("property") == ctx.pid and k.get("status") == "open"]
    real = []
    hits = {}
    for v in ctx.violations:
        hit = None
        if matcher:
            for k in known:
                if matcher(k, v):
                    hit = k
                    break
        if hit:
            hits.setdefault(hit["id"], [hit, 0])[1] += 1
        else:
            real.append(v)
    for hid, (k, n) in hits.items():
        print(f"KNOWN-FINDING: property={ctx.pid} {k['what']} (id={hid}, {n} matching case(s) this run)")
    cov = ctx.cov
    cov["known_finding_cases"] = sum(n for _, n in hits.values())
    if not cov["samples"]:
        # a run that stopped early (a violation at the model-checking stage) still shows what it looked at
        if ctx.violations:
            cov["samples"].append({"kind": "violating case", "what": ctx.violations[0]["what"][:400]})
        elif cov["tlc_runs"]:
            cov["samples"].append({"kind": "TLC run", "run": cov["tlc_runs"][0]})
    cov["evaluations"] = max(cov["evaluations"], len(cov["tlc_runs"]))
    wall = time.time() - ctx.t0
    ev = {
        "property_id": ctx.pid, "tier": ctx.tier, "seed": ctx.seed, "level": ctx.level,
        "coverage": cov, "assumptions": ctx.assumptions, "wall_s": round(wall, 2),
        "violations": len(real),
    }
    EVID.mkdir(exist_ok=True)
    (EVID / f"{ctx.pid}.json").write_text(json.dumps(ev, indent=1, default=str) + "\n")
    rc = 0
    for i, v in enumerate(real[:5]):
        rp = WORK / "replays" / f"{ctx.pid}-{i}.json"
        rp.write_text(json.dumps({"property": ctx.pid, "seed": ctx.seed, "tier": ctx.tier,
                                  "what": v["what"], "case": v["case"]}, indent=1, default=str))
        print(f"VIOLATION property={ctx.pid} replay={rp}")
        print(f"  what: {v['what']}")
        rc = 1
    if len(real) > 5:
        print(f"  ... and {len(real)-5} more violating cases")
    ctx.log(f"done: rc={rc} states={cov['states']} transitions={cov['transitions']} "
            f"impl_traces={cov['traces_validated_against_impl']} evals={cov['evaluations']} wall={wall:.1f}s")
    return rc


def jsonl_read(path):
    out = []
    with open(path) as f:
        for line in f:
            line = line.strip()
            if line:
                out.append(json.loads(line))
    return out


def tlaps_lemmas(ctx, module="GoldilocksLemmas", timeout=900):
    """Thorough-tier supplement (DESIGN 2.5): the unbounded lemmas at PRODUCTION constants behind the miniature-field models are
    proved by TLAPS.  Proof checking is deterministic but the SMT back end has per-obligation timeouts, so a failed attempt is
    retried once with stretched timeouts; what is recorded is the number of proved obligations.  A lemma that cannot be proved
    is reported in the coverage (and logged), it is not a property violation of the code."""
    import shutil as _sh
    import re as _re
    d = ctx.workdir / "tlaps"
    _sh.rmtree(d, ignore_errors=True)
    d.mkdir(parents=True)
    _sh.copy(SPECS / f"{module}.tla", d / f"{module}.tla")
    out = ""
    for extra in ([], ["--stretch", "5"]):
        try:
            r = subprocess.run(["tlapm", "--threads", "4", *extra, f"{module}.tla"], cwd=d, stdout=subprocess.PIPE, stderr=subprocess.STDOUT,
                               text=True, timeout=timeout)
            out = r.stdout
        except (subprocess.TimeoutExpired, OSError) as e:
            out = f"tlapm: {e}"
        m = _re.search(r"All (\d+) obligations? proved", out)
        if m:
            ctx.cov["tlaps"] = {"module": f"specs/{module}.tla", "obligations_proved": int(m.group(1)), "all": True}
            ctx.log(f"TLAPS {module}: all {m.group(1)} obligations proved")
            return True
    m = _re.search(r"(\d+)/(\d+) obligations failed", out)
    ctx.cov["tlaps"] = {"module": f"specs/{module}.tla", "all": False, "failed": m.group(0) if m else out[-300:]}
    ctx.log(f"note: TLAPS {module}: not all obligations proved ({m.group(0) if m else 'tool failure'})")
    return False
