"""C11 (recursive verification accepts only the canonical child circuit) and C18 (public-batch proofs are bound to the
configured aggregator address).  Recursion.tla: circuits as tokens, the child's verifier key BAKED into the outer circuit
(the virtual-key variant is the spec mutant), constructor shape checks; Aggregator.tla: ProvingContext::verify as its
guard sequence (length, address, cryptographic verification).  TLC enumerates all cells; every cell is replayed on the
real code: outer private-batch circuits built by the repo's constructor for each child circuit and fed honest proofs of
every other child circuit; the canonical pipeline (real leaf proof, real private batch, PublicBatchAggregator)."""
import json
from .. import core
from ..registry import register


def cases_of(ctx, module, cfg=None):
    res = core.run_tlc(ctx, module, cfg or module + ".cfg", workers=2, timeout=600, coverage=False)
    if res["violated"]:
        ctx.violation(f"TLC: {res['violated']} violated in {module}", {"engine": "tlc", "tlc": core.tlc_counterexample(res["out"])})
        return None
    return [json.loads(x) for x in sorted(set(res["prints"].get("REPLAY", [])))]


@register("C11")
def c11(ctx):
    core.build_harness(ctx, "vh")
    ctx.level = "exploration"
    ctx.assumptions += [
        "that NO proof of a foreign circuit can satisfy the outer circuit is Plonky2's recursion soundness; what is decided here is that the repo "
        "bakes the child key (Recursion.tla + its virtual-key mutant), checks shapes in its constructors, and that honest proofs of eight "
        "concrete foreign circuits - including same-shape ones and the repo's own leaf fragments without their cross-fragment constraints - are "
        "rejected by the real outer circuits while the matching child is accepted",
    ]
    cases = cases_of(ctx, "MC_Recursion")
    if cases is None:
        return core.finish(ctx)
    r = core.run_tlc(ctx, "MC_Recursion", "MC_Recursion_mutVirtual.cfg", workers=2, timeout=300, coverage=False, expect_violation=True, quiet=True)
    if not r["violated"]:
        raise core.ToolError("vacuity: the virtual-key spec mutant is accepted by TLC")
    r = core.run_tlc(ctx, "MC_Recursion", "MC_Recursion_mutSkipLast.cfg", workers=2, timeout=300, coverage=False, expect_violation=True, quiet=True)
    if not r["violated"]:
        raise core.ToolError("vacuity: the spec mutant whose verifier loop skips the last slot is accepted by TLC")
    if ctx.replay:
        rc = json.loads(open(ctx.replay).read())["case"]
        if "case" in rc:
            cases = [rc["case"]]
    elif ctx.quick:
        keep = {"canonical", "sameshape_rangeonly"}
        cases = [c for c in cases if (c["n"] == 1 and (c["built_for"] in keep or c["ctor"] == "err" and c["proof_by"] == "canonical" and c["valid"] == 1))
                 or (c["n"] > 1 and c["built_for"] == "canonical" and c["valid"] == 1 and c["ctor"] == "ok")]
    else:
        # several slots: outers for the canonical leaf and the range-only circuit (each outer circuit is built once per size)
        cases = [c for c in cases if c["n"] == 1 or c["built_for"] in ("canonical", "sameshape_rangeonly")]
    inp = ctx.workdir / "rec_in.ndjson"
    inp.write_text("\n".join(json.dumps(c) for c in cases) + "\n")
    outp = ctx.workdir / "rec_out.ndjson"
    core.vh(ctx, ["recursion-replay", inp, outp], timeout=3300)
    rows = core.jsonl_read(outp)
    nacc = 0
    distinct = set()
    for r in rows:
        ctx.cov["evaluations"] += 1
        bad = None
        if "tool_error" in r:
            raise core.ToolError(r["tool_error"])
        if "case" in r:
            c = r["case"]
            distinct.add((c["built_for"], c["proof_by"], c["valid"], c["n"], c["slot"]))
            d = (f"outer with {c['n']} slot(s) built for '{c['built_for']}', child proof by '{c['proof_by']}' ({'valid' if c['valid'] else 'tampered'}) in slot "
                 f"{c['slot']}, valid proofs of '{c['built_for']}' in the other slots")
            if r["ctor"] != c["ctor"]:
                bad = f"constructor over a child circuit with {'a wrong' if c['ctor'] == 'err' else 'the right'} public-input count: model {c['ctor']}, code {r['ctor']}"
            elif c["ctor"] == "ok":
                acc = r["outer"]["accepted"]
                nacc += acc
                if acc != c["accepted"]:
                    bad = (f"the real outer circuit {'accepts' if acc else 'rejects'} (stage {r['outer'].get('stage')}), the model "
                           f"{'accepts' if c['accepted'] else 'rejects'}")
        else:
            d = f"public-batch outer over the canonical private batch: {r['public']}"
            distinct.add(r["public"])
            if "expect" in r and r["outer"]["accepted"] != r["expect"]:
                bad = f"the real public-batch circuit {'accepts' if r['outer']['accepted'] else 'rejects'} it (stage {r['outer'].get('stage')})"
            if "expect_ctor" in r and r["ctor"] != r["expect_ctor"]:
                bad = f"PublicBatchCircuit::new over an inner circuit with the wrong public-input count returned {r['ctor']}"
        if bad:
            ctx.violation(f"{bad} [{d}]", {"engine": "recursion-replay", "case": r.get("case", r), "observed": {k: r[k] for k in r if k != "case"}})
        else:
            ctx.cov["traces_validated_against_impl"] += 1
    if nacc == 0 and not ctx.replay:
        raise core.ToolError("vacuity: no outer circuit accepted its own child's proof")
    ctx.cov["distinct_nontrivial"] = len(distinct)
    ctx.cov["rule"] = ("cells of Recursion.tla (outer with n = 1..3 slots built for circuit X, proof by circuit Y, valid/tampered, in slot s, valid proofs of X in the other slots) over eight child circuits: the canonical leaf, an "
                       "unconstrained and a range-check-only circuit of the same shape, the repo's leaf fragments without connect_shared_targets, a padded-"
                       "domain variant, another FRI config, 1- and 20-public-input circuits; quick: one-slot outers for the canonical leaf and the range-only circuit, 2- and 3-slot outers for the canonical leaf; "
                       "thorough: all one-slot cells, 2- and 3-slot outers for both; plus the public-batch outer with canonical / foreign inner proofs and the constructor shape checks")
    for r in rows[:: max(1, len(rows) // 3)][:3]:
        ctx.add_sample({"kind": "Recursion.tla cell on the real outer circuit", "cell": r.get("case", r.get("public")), "observed": r.get("outer", r.get("ctor"))})
    return core.finish(ctx)


@register("C18")
def c18(ctx):
    core.build_harness(ctx, "vh")
    ctx.level = "exploration"
    ctx.assumptions += [
        "one canonical pipeline (1 leaf proof per private batch, 1 private batch per public batch) with real artifacts generated from the working tree; "
        "three addresses: A, B (one byte apart) and the all-zero address",
    ]
    cases = cases_of(ctx, "MC_Aggregator")
    if cases is None:
        return core.finish(ctx)
    if ctx.replay:
        rc = json.loads(open(ctx.replay).read())["case"]
        if "case" in rc:
            cases = [rc["case"]]
    inp = ctx.workdir / "agg_in.ndjson"
    inp.write_text("\n".join(json.dumps(c) for c in cases) + "\n")
    outp = ctx.workdir / "agg_out.ndjson"
    core.vh(ctx, ["aggregator-replay", inp, outp, ctx.workdir / "scratch"], timeout=3300)
    rows = core.jsonl_read(outp)
    head, rows = rows[0], rows[1:]
    for tag, ok in head["returned_proofs_expose_configured_address"].items():
        ctx.cov["evaluations"] += 1
        if not ok:
            ctx.violation(f"the proof returned by prove_batch under address {tag} does not expose that address as its first four public inputs",
                          {"engine": "aggregator-replay", "address": tag})
    nacc = 0
    distinct = set()
    for r in rows:
        c = r["case"]
        ctx.cov["evaluations"] += 1
        distinct.add(json.dumps(c, sort_keys=True))
        nacc += 1 if r["verdict"] == "accepted" else 0
        if r["verdict"] != c["verdict"]:
            ctx.violation(f"aggregator configured with address {c['cfg']} {r['verdict']} a proof proved under {c['proved']}, exposing {c['exposes']}, "
                          f"length {c['len']}, other public inputs {'tampered' if c['tampered'] else 'intact'}: the model says {c['verdict']}",
                          {"engine": "aggregator-replay", "case": c, "observed": r["verdict"]})
        else:
            ctx.cov["traces_validated_against_impl"] += 1
    if nacc == 0 and not ctx.replay:
        raise core.ToolError("vacuity: no proof was accepted")
    ctx.cov["distinct_nontrivial"] = len(distinct)
    ctx.cov["rule"] = ("all 162 cells of Aggregator.tla (configured address x address proved under x address exposed x length x tampering) on real "
                       "public-batch proofs produced by PublicBatchAggregator::prove_batch under three addresses from one real private batch of one real leaf proof")
    for r in rows[:: max(1, len(rows) // 3)][:3]:
        ctx.add_sample({"kind": "Aggregator.tla cell on the real aggregator", "cell": r["case"], "observed": r["verdict"]})
    return core.finish(ctx)


MANIFEST = {
    "engines": {"agg": dict(path="specs/Recursion.tla specs/Aggregator.tla specs/MC_Recursion.tla specs/MC_Aggregator.tla harness/src/agg.rs vlib/props/agg.py",
                            kind="TLA+ decision specs + TLC over all cells + replay on real recursive circuits and the real aggregator pipeline")},
    "checks": {
        "C11": dict(engine="agg", ref="6.4 and 8", category="exploration",
                    text="Recursion.tla states the key-binding discipline (child verifier key baked as constants; accepted => proof by the baked child; constructors "
                         "refuse wrong public-input counts) with the verifier LOOP as one action per slot (batches of 1..3 slots, the examined proof in any slot, valid "
                         "proofs in the others) and TLC checks it on all cells, rejecting the virtual-key and the skip-last-slot mutants. The cells are replayed on real "
                         "outer circuits built by PrivateBatchCircuit::new / PublicBatchCircuit::new (1-, 2- and 3-slot): honest proofs of eight foreign circuits - the "
                         "same-shape ones carrying exactly the canonical proof's public inputs, so that nothing but the binding can reject them - "
                         "must be rejected at witness fill, proving or verification, the matching child accepted. Cryptographic unsatisfiability for ALL foreign "
                         "proofs is Plonky2's soundness, not decided here - hence level 'exploration'.",
                    note="Trusted: Plonky2 recursion; eight concrete foreign circuits stand for 'any different circuit'."),
        "C18": dict(engine="agg", ref="6.4", category="exploration",
                    text="Aggregator.tla: verify = length check, exposed address = configured address, cryptographic verification; TLC checks that acceptance implies "
                         "the proof was proved under, and exposes, the configured address. All 162 cells are replayed on the real PublicBatchAggregator with "
                         "real proofs from the canonical pipeline under three addresses; proofs returned by prove_batch must expose the configured address.",
                    note="Trusted: TLC, Plonky2; one pipeline shape (1 x 1); level 'exploration' because the address space is sampled by three addresses."),
    },
}
