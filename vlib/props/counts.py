"""C29: per-layer proof counts are bounded at every entry point.

Counts.tla: every public entry point that takes a count as the program ValidateCount ; ValidateCount ; Build
(invariants: Build only with counts in 1..64, rejected iff a count is 0 or above 64), the checked layout-length
arithmetic on unbounded naturals against the code's checked_mul/checked_add sequence (never a wrapped value),
and the config file (Save/Load, current and legacy key) for every valid pair.  TLC checks the whole grid; every
emitted cell is then replayed on the real entry points in a child process with an address-space and time
ceiling, observing verdict class, wall time, bytes requested from the allocator and created directories."""
import json
import subprocess
import time
from .. import core
from ..registry import register

ALLOC_CEILING = 32 * 1024      # bytes requested from the allocator by a rejected call (beyond files handed by path)
TIME_CEILING_MS = 100.0        # wall time of a rejected call (best of three)
MAX_CHILD_DEATHS = 3

# entry points whose accepted cells build real circuits (seconds each, count 1 only)
EXPENSIVE = ["priv_prover_new", "priv_prover_new_from_bytes", "priv_prover_new_from_files",
             "priv_prover_new_from_binaries_dir", "gen_private_batch_bins", "load_canonical_pb_vd", "canonical_pb_vd",
             "pub_prover_new", "pub_prover_new_from_bytes", "pub_prover_new_from_files",
             "pub_prover_new_from_binaries_dir", "aggregator_with_limits", "gen_public_batch_bins", "canonical_pub_vd",
             "gen_all_bins"]
# accepted cells that only add recursive verifiers to a builder: count 1 (64 verifiers take seconds and gigabytes)
BUILDER_ONLY = ["priv_circuit_new", "add_recursive_verifiers"]
# pure decision / parsing / bookkeeping entry points: every accepted cell is run (1 and 64)
PURE = ["validate_proof_count", "config_new", "config_validate", "config_load", "priv_parser_u64", "priv_parser_felt",
        "num_leaves_from_pi_len", "pub_parser", "pool_new"]
READS_FILES_FIRST = {"priv_prover_new_from_files", "pub_prover_new_from_files"}


def describe(c):
    b = "" if c.get("b", "NONE") == "NONE" and c["ep"] not in ("config_new", "config_validate", "gen_all_bins", "config_load") else f", {c['b']}"
    k = f" [{c['key']} key]" if c["ep"] == "config_load" and c.get("b") != "NONE" else ""
    return f"{c['ep']}({c['a']}{b}){k}"


def runnable(c, ctx, chosen):
    """accepted cells are run only where they are affordable; rejected cells always"""
    if c["reject"] == 1:
        return True
    ep, a, b = c["ep"], c["a"], c["b"]
    if ep in PURE:
        return True
    if ep == "pub_circuit_new":
        return b == "1"                      # one recursive verifier over the real (1 leaf) or a stand-in (64 leaves) inner circuit
    if ep in BUILDER_ONLY:
        return a == "1"
    if ep in EXPENSIVE:
        if a != "1" or b not in ("1", "NONE"):
            return False
        if ep == "gen_all_bins" and b == "1":
            return False                     # this cell is counts-setup itself
        return (not ctx.quick) or ep in chosen
    return False


def run_cells(ctx, cells, art, tag):
    """child process with ceilings; restarted after the cell at which it died. Returns (rows by index, deaths)"""
    inp = ctx.workdir / f"cells_{tag}.ndjson"
    inp.write_text("\n".join(json.dumps(c) for c in cells) + "\n")
    out = ctx.workdir / f"cells_{tag}_out.ndjson"
    if out.exists():
        out.unlink()
    rows, deaths, skip = {}, [], 0
    while skip < len(cells):
        cmd = f"ulimit -v 12000000; exec {core.VH.parent / 'vh-dec'} counts-cells {inp} {out} {art} {skip}"
        t = time.time()
        status = None
        try:
            p = subprocess.run(["bash", "-c", cmd], cwd=core.ROOT, stdout=subprocess.DEVNULL, stderr=subprocess.PIPE, text=True,
                               timeout=900 if ctx.quick else 2400, env=dict(__import__("os").environ, VERIF_SEED=str(ctx.seed)))
            status = p.returncode
            err_tail = p.stderr[-400:]
        except subprocess.TimeoutExpired:
            status, err_tail = "timeout", ""
        ctx.cov["harness_runs"].append({"args": ["counts-cells", tag, f"skip={skip}"], "wall_s": round(time.time() - t, 2)})
        recs = core.jsonl_read(out) if out.exists() else []
        at, done, timed_out = None, False, False
        for r in recs:
            if "i" in r:
                rows[r["i"]] = r
            elif "at" in r:
                at = r["at"]
            elif r.get("done"):
                done = True
            elif r.get("timeout"):
                timed_out = True
        if done:
            break
        if at is None or at < skip:
            raise core.ToolError(f"counts-cells did not start (status {status}): {err_tail}")
        if at in rows:
            raise core.ToolError(f"counts-cells stopped between cells (status {status}): {err_tail}")
        why = ("did not return within its time ceiling" if timed_out or status == "timeout"
               else f"ended the process (status {status}; allocation failure or abort)")
        deaths.append((at, why))
        skip = at + 1
        if len(deaths) >= MAX_CHILD_DEATHS:
            break
    return rows, deaths


def judge_cell(ctx, c, r):
    """returns (violation text or None, note or None)"""
    what = describe(c)
    if c["reject"] == 1:
        if r["verdict"] == "ok":
            return f"{what} was accepted: a count outside 1..64 must be rejected", None
        if r["verdict"] == "panic":
            return f"{what} panicked instead of returning an error", None
        if r.get("built_dir"):
            return f"{what} returned an error only after creating its output directory", None
        allowed = ALLOC_CEILING + int(r.get("input_file_bytes", 0))
        if r["alloc"] > allowed:
            return (f"{what} returned an error only after requesting {r['alloc']} bytes from the allocator "
                    f"(ceiling {allowed}): the count is not checked before allocating or building"), None
        if r["ms"] > TIME_CEILING_MS:
            return (f"{what} returned an error only after {r['ms']:.0f} ms (ceiling {TIME_CEILING_MS:.0f} ms): the count is "
                    "not checked before building"), None
        if c["ep"] in READS_FILES_FIRST and r["alloc"] > ALLOC_CEILING:
            return None, f"{c['ep']} reads the artifact files it is handed ({r['input_file_bytes']} bytes) before it looks at the count"
        return None, None
    if r["verdict"] == "panic":
        return f"{what} panicked on counts inside 1..64", None
    if r["verdict"] != "ok":
        return f"{what} was rejected although every count is inside 1..64", None
    return None, None


@register("C29")
def check(ctx):
    core.build_harness(ctx)
    ctx.level = "model_checking"
    ctx.assumptions += [
        "'before allocating or building' is observed as: the rejected call returns Err within "
        f"{TIME_CEILING_MS:.0f} ms (best of three), having requested at most {ALLOC_CEILING} bytes from the allocator "
        "(a counting global allocator in the harness; bytes of artifact files the entry point is handed by path are "
        "allowed on top), and without creating its output directory",
        "accepted cells are run with count 1 where they build circuits (64 only for parsers, config, pool and one "
        "public-batch constructor over a stand-in inner circuit); the quick tier builds for a seed-chosen subset of the "
        "expensive entry points, the thorough tier for all",
        "counts derived from a vector length use 4096 as the huge token; HUGE = 2^40, USIZE_MAX = 2^64-1 elsewhere",
        "the circuit-builder and memprof command lines (clap value parsers in bin-only modules) are not driven",
    ]
    cfg = "MC_Counts_quick.cfg" if ctx.quick else "MC_Counts_thorough.cfg"
    res = core.run_tlc(ctx, "MC_Counts", cfg, workers=8, timeout=1500, coverage=False)
    if res["violated"]:
        ctx.violation(f"TLC: {res['violated']} violated in Counts model ({cfg})", {"tlc": core.tlc_counterexample(res["out"])})
        return core.finish(ctx)
    if not ctx.quick or getattr(ctx, "selftest", False):
        for m in ("CountGuard", "CheckedMul", "AcceptedKeys"):
            r = core.run_tlc(ctx, "MC_Counts", f"MC_Counts_mut{m}.cfg", workers=4, timeout=900, coverage=False,
                             expect_violation=True, quiet=True)
            if not r["violated"]:
                raise core.ToolError(f"vacuity: spec mutant MC_Counts_mut{m}.cfg is accepted by TLC")
            ctx.cov.setdefault("spec_mutants_rejected", []).append(m)
    cases = [json.loads(x) for x in sorted(set(res["prints"].get("REPLAY", [])))]
    eps = [c for c in cases if c["kind"] == "ep"]
    arith = [c for c in cases if c["kind"] == "arith"]
    cfgs = [c for c in cases if c["kind"] == "cfg"]
    if not eps or not arith or not cfgs:
        raise core.ToolError("MC_Counts emitted no cells of some kind")
    replay_cell = None
    if ctx.replay:
        replay_cell = json.loads(open(ctx.replay).read())["case"]
        eps = [replay_cell["cell"]] if replay_cell.get("engine") == "counts-cells" else []
        arith = [replay_cell["cell"]] if replay_cell.get("engine") == "counts-arith" else []
        cfgs = [replay_cell["cell"]] if replay_cell.get("engine") == "counts-config" else []

    distinct = set()
    # ---- layout arithmetic
    if arith:
        inp, out = ctx.workdir / "arith_in.ndjson", ctx.workdir / "arith_out.ndjson"
        inp.write_text("\n".join(json.dumps(c) for c in arith) + "\n")
        core.vh(ctx, ["counts-arith", inp, out], bin="vh-dec", timeout=600)
        rows = core.jsonl_read(out)
        if len(rows) != len(arith):
            raise core.ToolError("counts-arith returned a different number of results")
        seen = set()
        for c, r in zip(arith, rows):
            ctx.cov["evaluations"] += 1
            distinct.add(("arith", r["m"], r["n"]))
            seen.add(r["verdict"])
            want = c["value"] + [0] * (8 - len(c["value"]))
            why = None
            if r["verdict"] == "panic":
                why = "try_pi_len panicked"
            elif r["verdict"] != c["exp"]:
                why = f"try_pi_len returned {'a value' if r['verdict'] == 'some' else 'None'} where the model has {c['exp']}"
            elif c["exp"] == "some" and r["value"] != want:
                why = f"try_pi_len returned {int.from_bytes(bytes(r['value']), 'little')} instead of {int.from_bytes(bytes(want), 'little')}"
            elif r.get("unchecked") and (r["unchecked"]["pub"] != int.from_bytes(bytes(want), "little")
                                         or r["unchecked"]["priv"] != 8 + 21 * int(r["n"])):
                why = f"the unchecked layout helpers disagree with the layout inside the valid range: {r['unchecked']}"
            if why:
                ctx.violation(f"layout arithmetic: {why} (num_private_batch_proofs={r['m']}, num_leaf_proofs={r['n']})",
                              {"engine": "counts-arith", "cell": c, "observed": r})
            else:
                ctx.cov["traces_validated_against_impl"] += 1
        if not ctx.replay and seen != {"some", "overflow"}:
            raise core.ToolError("vacuity: the arithmetic grid did not produce both a value and an overflow")

    # ---- config file round trip
    if cfgs:
        inp, out = ctx.workdir / "cfg_in.ndjson", ctx.workdir / "cfg_out.ndjson"
        inp.write_text("\n".join(json.dumps(c) for c in cfgs) + "\n")
        core.vh(ctx, ["counts-config", inp, out, ctx.workdir / "cfg_scratch"], bin="vh-dec", timeout=1200)
        rows = core.jsonl_read(out)
        if len(rows) != len(cfgs):
            raise core.ToolError("counts-config returned a different number of results")
        shown = 0
        for c, r in zip(cfgs, rows):
            ctx.cov["evaluations"] += 1
            distinct.add(("cfg", c["a"], c["b"], c["key"]))
            how = {"save": "saved by CircuitBinsConfig::save", "new": "written with the current key",
                   "legacy": "written with the legacy key num_layer0_proofs"}[c["key"]]
            why = None
            if r["verdict"] == "panic":
                why = "loading panicked"
            elif c["ok"] == 1 and r["verdict"] != "ok":
                why = f"was rejected: {r.get('detail', '')[:160]}"
            elif c["ok"] == 1 and (r["a"], r["b"]) != (c["la"], c["lb"]):
                why = f"loaded as ({r['a']}, {r['b']})"
            elif c["ok"] == 0 and r["verdict"] == "ok":
                why = "was accepted"
            if why:
                shown += 1
                if shown <= 40:
                    ctx.violation(f"config file for ({c['a']}, {c['b']}) {how} {why}",
                                  {"engine": "counts-config", "cell": c, "observed": r})
            else:
                ctx.cov["traces_validated_against_impl"] += 1
        ctx.cov["config_files"] = len(cfgs)

    # ---- entry points
    if eps:
        art = ctx.workdir / "art"
        core.vh(ctx, ["counts-setup", art], bin="vh-dec", timeout=900)
        setup = json.loads((art / "setup.json").read_text())
        setup_cell = {"kind": "ep", "ep": "gen_all_bins", "a": "1", "b": "1", "key": "new", "reject": 0}
        ctx.cov["evaluations"] += 1
        if setup["verdict"] != "ok" or setup.get("config") != [1, 1]:
            ctx.violation(f"generate_all_circuit_binaries(1, Some(1)) did not produce a loadable artifact set: {setup['verdict']} "
                          f"{setup.get('detail', '')[:200]} config={setup.get('config')}",
                          {"engine": "counts-cells", "cell": setup_cell, "observed": setup})
            return core.finish(ctx)
        ctx.cov["traces_validated_against_impl"] += 1
        exp_sorted = sorted(EXPENSIVE)
        chosen = {exp_sorted[(ctx.seed * 5 + k * 4) % len(exp_sorted)] for k in range(4)}
        # the pure entry points first (all their cells), then the rejected cells of the building entry points (cheap, the
        # point of the property), then the affordable accepted ones
        order = ([c for c in eps if c["ep"] in PURE and (c["reject"] == 1 or ctx.replay or runnable(c, ctx, chosen))],
                 [c for c in eps if c["ep"] not in PURE and c["reject"] == 1],
                 [c for c in eps if c["ep"] not in PURE and c["reject"] == 0 and (ctx.replay or runnable(c, ctx, chosen))])
        pure_broken = False
        accepted = rejected = notes = 0
        noted = set()
        for tag, cells in zip(("pure", "reject", "accept"), order):
            if not cells:
                continue
            if tag != "pure" and pure_broken and not ctx.replay:
                # the shared count check itself is broken: every other entry point would start building
                ctx.log(f"skipping the {tag} cells of the building entry points: the pure entry points already disagree")
                continue
            before = len(ctx.violations)
            rows, deaths = run_cells(ctx, cells, art, tag)
            for at, why in deaths:
                c = cells[at]
                ctx.cov["evaluations"] += 1
                if c["reject"] == 1:
                    ctx.violation(f"{describe(c)} neither returned an error nor survived: the call {why} - it started "
                                  "building with a count outside 1..64", {"engine": "counts-cells", "cell": c, "observed": why})
                else:
                    raise core.ToolError(f"accepted cell {describe(c)} {why}")
            for i, c in enumerate(cells):
                r = rows.get(i)
                if r is None:
                    continue
                ctx.cov["evaluations"] += 1
                distinct.add(("ep", c["ep"], c["a"], c["b"], c["key"]))
                v, note = judge_cell(ctx, c, r)
                if r["verdict"] == "ok":
                    accepted += 1
                elif r["verdict"] == "err":
                    rejected += 1
                if note and note not in noted:
                    noted.add(note)
                    notes += 1
                    ctx.log("note: " + note)
                if v:
                    ctx.violation(v, {"engine": "counts-cells", "cell": c, "observed": r})
                else:
                    ctx.cov["traces_validated_against_impl"] += 1
            if tag == "pure" and len(ctx.violations) > before:
                pure_broken = True
            if len(deaths) >= MAX_CHILD_DEATHS:
                ctx.log(f"stopped after {len(deaths)} calls that did not survive")
                break
        if not ctx.replay and not ctx.violations and (accepted == 0 or rejected == 0):
            raise core.ToolError("vacuity: the real entry points did not both accept and reject some cells")
        ctx.cov["entry_points"] = len({c["ep"] for c in eps})
        ctx.cov["accepted_calls"] = accepted + 1
        ctx.cov["rejected_calls"] = rejected
        ctx.cov["expensive_accepted_cells_run"] = sorted(chosen) if ctx.quick else "all"
        ctx.cov["notes"] = sorted(noted)

    ctx.cov["distinct_nontrivial"] = len(distinct)
    ctx.cov["rule"] = ("one evaluation per cell TLC emitted and the harness ran: (entry point, count tokens from "
                       "{0,1,64,65,2^40,usize::MAX | 4096 for length-derived counts | absent}), (operand pair of the "
                       "layout arithmetic from small values and the 64-bit boundaries), (valid config pair, file variant "
                       "save/current key/legacy key); every cell is non-trivial by construction; distinct = distinct cell")
    for c in (eps[:: max(1, len(eps) // 3)][:3] + arith[:1] + cfgs[:1]):
        ctx.add_sample({"kind": "cell replayed on the real code", "cell": c})
    ctx.cov["exhaustive"] = not ctx.replay
    return core.finish(ctx)


MANIFEST = {
    "engines": {"counts": dict(
        path="specs/Counts.tla specs/MC_Counts.tla harness/src/bin_dec/counts.rs harness/src/bin_dec/alloc.rs vlib/props/counts.py",
        kind="TLA+ decision-procedure spec (entry point = ValidateCount; Build) + unbounded-natural layout arithmetic + config "
             "file model, TLC exhaustive over the token grid; every cell replayed on the real entry points in a child process "
             "with time / address-space ceilings and a counting allocator")},
    "checks": {
        "C29": dict(engine="counts", ref="6.7",
                    text="Counts.tla models each of the 27 public entry points that take a per-layer proof count (config type and "
                         "file loader, the three count-taking parsers and the length helper, circuit and prover constructors incl. "
                         "from_bytes/from_files/from_binaries_dir, add_recursive_verifiers, ProofPool::new, the artifact "
                         "builders, the canonical verifier-data loaders, the aggregator service) as ValidateCount(a); "
                         "ValidateCount(b); Build and checks with TLC, over count tokens {0,1,64,65,2^40,usize::MAX}, that Build "
                         "is reached only with counts in 1..64 and that the call is rejected iff a count is out of range; "
                         "try_pi_len's checked_mul/checked_add sequence is compared with exact arithmetic on unbounded naturals "
                         "(base-256 digit sequences) on a grid holding the 64-bit boundaries (never a wrapped value, overflow "
                         "reported, exact inside the valid range); Save/Load with the current and the legacy key round-trips "
                         "for all 64x65 valid pairs. Every cell is replayed on the real code: rejected cells must return Err "
                         "(not panic) within 100 ms, with < 32 KiB requested from the allocator and no output directory "
                         "created, in a child process with a 12 GB address-space ceiling and a per-call watchdog; accepted "
                         "cells are built for count 1.",
                    note="Trusted: TLC; the counting allocator and wall clock as the observation of 'before allocating or "
                         "building'; token representativeness (the guard compares a count with 0 and 64 only). Accepted "
                         "cells that build circuits use count 1 (a 64-leaf build is out of budget); the quick tier builds for "
                         "4 of the 15 expensive entry points chosen by the seed. The *_from_files constructors read the files "
                         "they are handed before looking at the count (logged, not judged: the bytes read do not depend on the "
                         "count). Command-line value parsers (circuit-builder, memprof) are bin-only and not driven."),
    },
}
