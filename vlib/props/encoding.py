"""C25 (byte / digest / integer encodings), C26 (compact node hashing).

Encoding.tla transcribes the edge encoding (4 bytes per felt + 0x01 terminator) and its decoder, digest
validity, u32-limb decoding, quantisation, the compact-hash domain and the node hash (hash = uninterpreted
injective constructor) next to declarative predicates written from the property text; TLC checks, over
small exhaustive domains and threshold tables, that they agree (round trip, injectivity, accept <=> valid,
order independence).  Binding: every case TLC prints is replayed on the real functions (vh-enc replay) and
must give the model's verdict and value; seeded random / boundary inputs at real sizes are recorded with
the real functions' outputs (vh-enc record) and validated event by event by EncodingTrace.tla."""
import json
import os
import sys
from .. import core
from ..registry import register

P64 = 0xFFFFFFFF00000001
CAP = 1 << 20


# ------------------------------------------------------------------ plumbing

def limbs_to_int(l):
    v = 0
    for x in l:
        v = (v << 16) | x
    return v


def R(ok):
    return "ok" if ok else "err"


def tlc_cases(ctx, mode):
    res = core.run_tlc(ctx, "MC_Encoding", "MC_Encoding.cfg", workers=4, timeout=1500, coverage=False,
                       env_extra={"EMODE": mode, "EDEEP": "0" if ctx.quick else "1"})
    if res["violated"]:
        ctx.violation(f"TLC: {res['violated']} violated in the Encoding model ({mode})",
                      {"engine": "tlc", "tlc": core.tlc_counterexample(res["out"])})
        return None
    rows = [json.loads(x) for x in res["prints"].get("REPLAY", [])]
    if not rows:
        raise core.ToolError(f"MC_Encoding ({mode}) emitted no cases")
    return rows


SPEC_MUTANTS = {
    "C25": [("Terminator", "edge"), ("StrictP", "digest"), ("Limb32Incl", "limbs"), ("QuantIncl", "quant")],
    "C26": [("AlignCheck", "compact"), ("CanonCheck", "compact"), ("CanonCheck", "node"), ("SortChildren", "node")],
}


def tiny_cap(ctx):
    """the cap guards on concrete data: the same model with Cap = 5 (MAX_SERIALIZED_FELTS = 2), all strings of length <= 6 and
    all landmark felt vectors of length <= 3; model-only (the real cap is a constant), nothing is replayed"""
    for mode in ("edge", "dec"):
        res = core.run_tlc(ctx, "MC_Encoding", "MC_Encoding_cap5.cfg", workers=2, timeout=900, coverage=False,
                           env_extra={"EMODE": mode, "EDEEP": "1"})
        if res["violated"]:
            ctx.violation(f"TLC: {res['violated']} violated in the Encoding model with Cap = 5 ({mode})",
                          {"engine": "tlc", "tlc": core.tlc_counterexample(res["out"])})


# development aid (mutant audits): VERIF_ENC_ONLY=replay|trace runs one binding direction only
ONLY = os.environ.get("VERIF_ENC_ONLY", "")


def spec_mutants(ctx):
    """vacuity control: with one transcription switch off TLC must report a violated invariant"""
    for sw, mode in SPEC_MUTANTS[ctx.pid]:
        res = core.run_tlc(ctx, "MC_Encoding", f"MC_Encoding_mut{sw}.cfg", workers=2, timeout=600, coverage=False,
                           env_extra={"EMODE": mode, "EDEEP": "0"}, expect_violation=True, quiet=True)
        if not res["violated"]:
            raise core.ToolError(f"vacuity: spec mutant {sw}=FALSE ({mode}) is accepted by TLC")
        ctx.cov.setdefault("spec_mutants_rejected", []).append(f"{sw}=FALSE/{mode}")


# model kind -> harness input
def to_input(k, c):
    if k == "edge":
        return {"k": "edge", "x": c["x"]}
    if k == "edgelen":
        return {"k": "edgebig", "len": c["len"], "fill": c["fill"]}
    if k == "dec":
        return {"k": "dec", "v": c["v"]}
    if k == "declen":
        return {"k": "decbig", "n": c["n"], "fit": c["fit"], "last": c["last"]}
    if k == "digest":
        return {"k": "digest", "d": c["d"]}
    if k == "limbs":
        return {"k": "limbs", "f": c["f"]}
    if k == "int":
        return {"k": "int", "n": c["n"]}
    if k == "fq":
        return {"k": "fq", "f": c["f"]}
    if k == "quant":
        return {"k": "quant", "num": c["num"]}
    if k == "node":
        return {"k": "node", "ch": c["ch"]}
    if k == "compactlen":
        return {"k": "compactlen", "len": c["len"], "canon": c["canon"]}
    return None     # "compact": small concrete inputs of the crate-private hash, not reachable from outside


INPUT_KEYS = {"edge": ["x"], "edgepair": ["x", "y"], "edgebig": ["len", "fill", "seed"], "dec": ["v"],
              "decbig": ["n", "fit", "last"], "digest": ["d"], "limbs": ["f"], "int": ["n"], "fq": ["f"],
              "quant": ["num"], "node": ["ch"], "compactlen": ["len", "canon", "bad", "badval"]}


def input_of_event(ev):
    return {"k": ev["k"]} | {x: ev[x] for x in INPUT_KEYS.get(ev["k"], []) if x in ev}


def harness(ctx, inputs, tag):
    inp = ctx.workdir / f"enc_in_{tag}.ndjson"
    out = ctx.workdir / f"enc_out_{tag}.ndjson"
    inp.write_text("\n".join(json.dumps(i) for i in inputs) + "\n")
    core.vh(ctx, ["replay", inp, out], timeout=1800, bin="vh-enc")
    rows = core.jsonl_read(out)
    if len(rows) != len(inputs):
        raise core.ToolError("vh-enc replay returned a different number of results")
    return rows


# ------------------------------------------------------------------ judging one replayed case
# returns (why | None, accepted: bool | None, family)

def verdict(r, exp_ok, what):
    """Ok/Err/panic class against the model; the properties never allow a panic on these paths"""
    if r == "panic":
        return f"{what} panicked (the model expects {'a value' if exp_ok else 'an error'})"
    if r not in ("ok", "err"):
        return f"{what}: unexpected observation {r!r}"
    if (r == "ok") != exp_ok:
        return f"{what} {'accepted' if r == 'ok' else 'rejected'} an input the model {'accepts' if exp_ok else 'rejects'}"
    return None


def judge(k, c, ev):
    if k == "edge":
        ok = c["ok"] == 1
        for nm in ("enc", "enc2"):
            w = verdict(ev[nm]["r"], ok, f"bytes_to_felts[{nm}]")
            if w:
                return w, None, "edge"
            if ok and ev[nm]["felts"] != c["felts"]:
                return f"bytes_to_felts[{nm}] returned {ev[nm]['felts']}, the encoding is {c['felts']}", None, "edge"
        if ok:
            for nm in ("dec", "dec2"):
                w = verdict(ev[nm]["r"], True, f"felts_to_bytes[{nm}] of an encoding")
                if w:
                    return w, None, "edge"
                if ev[nm]["bytes"] != c["x"]:
                    return f"round trip: felts_to_bytes(bytes_to_felts(x)) = {ev[nm]['bytes']} for x = {c['x']}", None, "edge"
        return None, ok, "edge"
    if k == "edgelen":
        ok = c["ok"] == 1
        w = verdict(ev["enc"], ok, f"bytes_to_felts on {c['len']} bytes")
        if w:
            return w, None, "edge"
        if ok:
            word = [0, 0, c["fill"] * 257, c["fill"] * 257]
            if ev["nfelts"] != c["nfelts"]:
                return f"{c['len']} bytes encode to {ev['nfelts']} felts, the encoding has {c['nfelts']}", None, "edge"
            if ev["tail"]["felt"] != c["last"]:
                return f"last felt of the encoding of {c['len']} x {c['fill']:#x} is {ev['tail']['felt']}, expected {c['last']}", None, "edge"
            if any(wn["felt"] != word for wn in ev["wins"]):
                return f"a full 4-byte chunk of {c['fill']:#x} bytes is not encoded as {word}", None, "edge"
            w = verdict(ev["dec"], True, f"felts_to_bytes of the encoding of {c['len']} bytes")
            if w:
                return w, None, "edge"
            if ev["declen"] != c["len"] or ev["rt"] != 1:
                return f"round trip fails at {c['len']} bytes (decoded {ev['declen']} bytes, equal={ev['rt']})", None, "edge"
        return None, ok, "edge"
    if k == "dec":
        ok = c["ok"] == 1
        for nm in ("dec", "dec2"):
            w = verdict(ev[nm]["r"], ok, f"felts_to_bytes[{nm}] (model verdict {c['verdict']})")
            if w:
                return w, None, "dec"
            if ok and ev[nm]["bytes"] != c["bytes"]:
                return f"felts_to_bytes[{nm}] decoded {ev[nm]['bytes']}, the model {c['bytes']}", None, "dec"
        return None, ok, "dec"
    if k == "declen":
        if ev["r"] == "unrealisable":
            return None, None, "skip"
        ok = c["ok"] == 1
        w = verdict(ev["r"], ok, f"felts_to_bytes on {c['n']} felts (model verdict {c['verdict']})")
        if w:
            return w, None, "dec"
        if ok and ev["outlen"] != c["outlen"]:
            return f"felts_to_bytes on {c['n']} felts returned {ev['outlen']} bytes, the model {c['outlen']}", None, "dec"
        return None, ok, "dec"
    if k == "digest":
        ok = c["ok"] == 1
        for nm, r in sorted(ev["v"].items()):
            w = verdict(r, ok, f"digest validation [{nm}]")
            if w:
                return w, None, "digest"
        if ok:
            if ev["rt"] != "ok":
                return "digest -> felts -> digest panicked on an accepted digest", None, "digest"
            if ev["felts"] != c["felts"]:
                return f"accepted digest maps to felts {ev['felts']}, expected {c['felts']}", None, "digest"
            for nm in ("back", "back2", "back3", "pi_back"):
                if ev[nm] != c["d"]:
                    return f"accepted digest does not round-trip through felts [{nm}]: {ev[nm]}", None, "digest"
        return None, ok, "digest"
    if k == "limbs":
        ok = c["ok"] == 1
        for rn, vn in (("r", "val"), ("r2", "val2")):
            w = verdict(ev[rn], ok, f"limb decoding [{vn}]")
            if w:
                return w, None, "limbs"
            if ok and ev[vn] != c["val"]:
                return f"limb decoding returned {ev[vn]}, expected {c['val']}", None, "limbs"
        return None, ok, "limbs"
    if k == "int":
        if ev["enc"] != "ok":
            return "integer -> felts panicked", None, "int"
        if ev["felts"] != c["felts"] or ev["felts2"] != c["felts"]:
            return f"integer encodes to {ev['felts']} / {ev['felts2']}, expected {c['felts']}", None, "int"
        w = verdict(ev["r"], True, "limb decoding of an encoded integer")
        if w:
            return w, None, "int"
        if ev["val"] != c["n"]:
            return f"decoding does not invert encoding: {ev['val']}", None, "int"
        return None, True, "int"
    if k == "fq":
        ok = c["ok"] == 1
        w = verdict(ev["r"], ok, "try_felt_to_quantized_u128")
        if w:
            return w, None, "limbs"
        if ok and ev["val"] != c["val"]:
            return f"try_felt_to_quantized_u128 returned {ev['val']}, expected {c['val']}", None, "limbs"
        return None, ok, "limbs"
    if k == "quant":
        ok = c["ok"] == 1
        w = verdict(ev["r"], ok, f"try_u128_to_quantized_felt({limbs_to_int(c['num'])})")
        if w:
            return w, None, "quant"
        if ok:
            if ev["q"] != c["q"]:
                return f"quantized felt {ev['q']}, expected {c['q']}", None, "quant"
            if ev["back"]["r"] != "ok" or ev["back"]["val"] != c["back"]:
                return f"quantized felt does not convert back to q * 10^10: {ev['back']}", None, "quant"
        return None, ok, "quant"
    if k == "node":
        ok = c["ok"] == 1
        want = None
        for rn in ev["runs"]:
            order = [c["ch"][i - 1] for i in rn["p"]]
            for nm in ("node", "pre"):
                w = verdict(rn[nm]["r"], ok, f"{'hash_node' if nm == 'node' else 'hash_node_presorted'} (child order {rn['p']})")
                if w:
                    return w, None, "node"
            if ok and order == c["sorted"]:
                if [l for ch in order for l in ch] != c["pre"]:
                    raise core.ToolError("model preimage is not the concatenation of the model's sorted children")
                want = rn["nat"]
        if ok:
            if want is None:
                raise core.ToolError("no run in the model's sorted order")
            for rn in ev["runs"]:
                if rn["node"]["h"] != want:
                    return (f"hash_node with child order {rn['p']} is not Poseidon2 of the sorted children's limbs "
                            f"(order dependence or a different preimage)"), None, "node"
                if rn["pre"]["h"] != rn["nat"]:
                    return f"hash_node_presorted (order {rn['p']}) is not Poseidon2 of the children's limbs as given", None, "node"
        return None, ok, "node"
    if k == "compactlen":
        if ev["r"] == "unreachable":
            return None, None, "unreachable"
        ok = c["ok"] == 1
        w = verdict(ev["r"], ok, f"compact hash on {c['len']} bytes (model verdict {c['verdict']})")
        return w, (None if w else ok), "node"
    raise core.ToolError(f"unknown kind {k}")


def describe(k, c):
    s = json.dumps({x: c[x] for x in c if x not in ("felts", "pre", "sorted", "bytes", "val", "back")})
    return f"{k} {s[:300]}"


def distinct(ctx):
    """distinct inputs handed to the real code in this run (model cases + recorded events), measured"""
    if not hasattr(ctx, "_enc_distinct"):
        ctx._enc_distinct = set()
    return ctx._enc_distinct


def replay_cases(ctx, rows):
    todo = [(r["k"], r["case"], to_input(r["k"], r["case"])) for r in rows]
    model_only = sum(1 for t in todo if t[2] is None)
    todo = [t for t in todo if t[2] is not None]
    evs = harness(ctx, [t[2] for t in todo], "replay")
    distinct(ctx).update(json.dumps(t[2], sort_keys=True) for t in todo)
    acc, rej, unreachable = {}, {}, 0
    for (k, c, inp), ev in zip(todo, evs):
        why, accepted, fam = judge(k, c, ev)
        ctx.cov["evaluations"] += 1
        if fam == "unreachable":
            unreachable += 1
            continue
        if fam == "skip":
            continue
        if why:
            small = {x: ev[x] for x in ev if x not in ("runs", "wins")}
            ctx.violation(f"{why} [{describe(k, c)}]", {"engine": "enc-replay", "k": k, "input": inp, "model": c, "observed": small})
        else:
            ctx.cov["traces_validated_against_impl"] += 1
            if accepted is True:
                acc[fam] = acc.get(fam, 0) + 1
            elif accepted is False:
                rej[fam] = rej.get(fam, 0) + 1
    ctx.cov["model_only_cases"] = ctx.cov.get("model_only_cases", 0) + model_only
    ctx.cov["unreachable_cases"] = ctx.cov.get("unreachable_cases", 0) + unreachable
    ctx.cov["replay_accepted_by_real_code"] = acc
    ctx.cov["replay_rejected_by_real_code"] = rej
    for (k, c, inp) in todo[:: max(1, len(todo) // 4)][:4]:
        ctx.add_sample({"kind": "model case replayed on the real functions", "k": k, "input": json.dumps(inp)[:400],
                        "model_ok": c.get("ok", 1)})
    return len(todo), acc, rej


# ------------------------------------------------------------------ traces of real-size runs

def ev_summary(ev):
    k = ev.get("k")
    if k == "node":
        rs = ev.get("runs", [])
        return (f"node children={ev.get('ch')} results={sorted(set(r['node']['r'] for r in rs))}/"
                f"{sorted(set(r['pre']['r'] for r in rs))} distinct hash_node outputs={len(set(json.dumps(r['node']['h']) for r in rs))}")
    return json.dumps({x: ev[x] for x in ev if x not in ("wins",)})[:700]


def selftest_trace(ctx, evs, tag):
    """binding self-test: a corrupted copy of a recorded event must be refused by EncodingTrace"""
    pick = None
    for e in evs:
        if e["k"] == "edge" and e["enc"]["r"] == "ok" and len(e["x"]) >= 5:
            pick = json.loads(json.dumps(e))
            pick["enc"]["felts"][-1][3] ^= 256
            break
        if e["k"] == "node" and e["runs"][0]["node"]["r"] == "ok":
            pick = json.loads(json.dumps(e))
            pick["runs"][7]["node"]["h"][5] ^= 1
            break
    if pick is None:
        raise core.ToolError("trace self-test: no event to corrupt")
    tr = ctx.workdir / f"enc_selftest_{tag}.ndjson"
    tr.write_text("\n".join(json.dumps(e) for e in evs[:3] + [pick]) + "\n")
    ok, _ = core.validate_trace(ctx, "EncodingTrace", tr, cfg="EncodingTrace.cfg", timeout=600)
    if ok:
        raise core.ToolError("trace self-test: EncodingTrace accepted a corrupted event (binding is vacuous)")
    ctx.cov["trace_selftest"] = "corrupted event refused"


def trace(ctx, which, n):
    tr = ctx.workdir / f"enc_trace_{which}.ndjson"
    core.vh(ctx, ["record", tr, n, which], timeout=1800, bin="vh-enc")
    evs = core.jsonl_read(tr)
    if not evs:
        raise core.ToolError("vh-enc record produced no events")
    return validate_events(ctx, evs, tr, which)


def validate_events(ctx, evs, tr, which):
    ok, r = core.validate_trace(ctx, "EncodingTrace", tr, cfg="EncodingTrace.cfg", timeout=2400, xmx="8g")
    ctx.cov["evaluations"] += len(evs)
    distinct(ctx).update(json.dumps(input_of_event(e), sort_keys=True) for e in evs)
    ctx.cov["trace_events"] = ctx.cov.get("trace_events", 0) + len(evs)
    kinds = {}
    for e in evs:
        kinds[e["k"]] = kinds.get(e["k"], 0) + 1
    ctx.cov["trace_events_by_kind"] = kinds
    if ok:
        if not r["prints"].get("TRACEOK"):
            raise core.ToolError("EncodingTrace finished without TRACEOK")
        ctx.cov["traces_validated_against_impl"] += len(evs)
        e = evs[len(evs) // 2]
        ctx.add_sample({"kind": "recorded real-size run accepted by EncodingTrace", "event": ev_summary(e)[:500]})
    else:
        fail = r["prints"].get("TRACEFAIL", [])
        if not fail:
            sys.stdout.write(r["out"][-3000:])
            raise core.ToolError("EncodingTrace failed without a TRACEFAIL line")
        info = json.loads(fail[0])
        ev = info.get("first_unmatched", {})
        ctx.violation(f"recorded run of the real code contradicts Encoding.tla (event {info.get('matched', 0) + 1} of {len(evs)}): "
                      f"{ev_summary(ev)}", {"engine": "enc-trace", "event": input_of_event(ev), "observed": ev_summary(ev)})
    return evs


def vacuity_trace(evs, need):
    """the real code must have accepted some and rejected some inputs of each family"""
    seen = {}
    for e in evs:
        k = e["k"]
        if k == "edgebig":
            seen.setdefault("edge", set()).add(e["enc"])
        elif k == "dec":
            seen.setdefault("dec", set()).add(e["dec"]["r"])
        elif k == "digest":
            seen.setdefault("digest", set()).add(e["v"]["arr"])
        elif k == "limbs":
            seen.setdefault("limbs", set()).add(e["r"])
        elif k == "quant":
            seen.setdefault("quant", set()).add(e["r"])
        elif k == "node":
            seen.setdefault("node", set()).add(e["runs"][0]["node"]["r"])
    for fam in need:
        if not {"ok", "err"} <= seen.get(fam, set()):
            raise core.ToolError(f"vacuity: recorded {fam} runs do not contain both accepted and rejected inputs ({seen.get(fam)})")


# ------------------------------------------------------------------ replay of a stored violation

def do_replay(ctx):
    case = json.loads(open(ctx.replay).read())["case"]
    eng = case.get("engine")
    if eng == "enc-replay":
        ev = harness(ctx, [case["input"]], "one")[0]
        why, _, _ = judge(case["k"], case["model"], ev)
        ctx.cov["evaluations"] += 1
        if why:
            ctx.violation(f"{why} [{describe(case['k'], case['model'])}]", case | {"observed": {x: ev[x] for x in ev if x not in ("runs", "wins")}})
    elif eng == "enc-trace":
        evs = harness(ctx, [case["event"]], "one")
        tr = ctx.workdir / "enc_trace_one.ndjson"
        tr.write_text(json.dumps(evs[0]) + "\n")
        validate_events(ctx, evs, tr, "one")
    elif eng == "tlc":
        mode = "c25" if ctx.pid == "C25" else "c26"
        tlc_cases(ctx, mode)
    else:
        raise core.ToolError(f"cannot replay engine {eng!r}")
    return core.finish(ctx)


# ------------------------------------------------------------------ the two checks

BOUNDED = ("'every byte string up to 1 MiB' is NOT enumerated: it is bounded-exhaustive at tiny sizes (all strings of length "
           "<= 4 (thorough <= 6) over the bytes {0,1,255}, checked by TLC and replayed) plus sampled at real sizes (seeded random "
           "strings of 0..70 bytes logged in full; strings at 1 MiB, 1 MiB +-1..5, 2 MiB and random large lengths logged as length, "
           "felt count, sampled 4-byte windows, tail, decoder verdict and a byte comparison of the round trip)")


def common(ctx):
    core.build_harness(ctx)
    ctx.level = "model_checking"
    ctx.assumptions += [
        "a field element is observed through to_canonical_u64; 64-bit values are compared as 16-bit limbs",
        "error messages are not compared, only Ok(value) / Err / panic",
        BOUNDED,
    ]


@register("C25")
def check_c25(ctx):
    common(ctx)
    if ctx.replay:
        return do_replay(ctx)
    rows = tlc_cases(ctx, "c25")
    if rows is None:
        return core.finish(ctx)
    if not ctx.quick:
        spec_mutants(ctx)
        tiny_cap(ctx)
    n, acc, rej = replay_cases(ctx, rows if ONLY != "trace" else rows[:50])
    for fam in ("edge", "dec", "digest", "limbs", "quant"):
        if (not acc.get(fam) or not rej.get(fam)) and ONLY != "trace":
            if not ctx.violations:
                raise core.ToolError(f"vacuity: the real code did not both accept and reject {fam} cases ({acc.get(fam)}/{rej.get(fam)})")
    if not ctx.violations and ONLY != "replay":
        evs = trace(ctx, "c25", 200 if ctx.quick else 4000)
        if not ctx.violations:
            vacuity_trace(evs, ["edge", "dec", "digest", "limbs", "quant"])
            selftest_trace(ctx, evs, "c25")
    ctx.cov["distinct_nontrivial"] = len(distinct(ctx))
    ctx.cov["rule"] = ("every case of the TLC model replayed on the real functions: all byte strings of length <= 4 (thorough 6) over "
                       "{0,1,255}; lengths around the 1 MiB cap x 4 fill bytes; all felt vectors of length <= 2 (thorough 3) over 18 "
                       "landmarks (terminator patterns, 2^32-1, 2^32, p-1, p, p+1, 2^64-1); decoder lengths around MAX_SERIALIZED_FELTS; "
                       "all digests over 5 (thorough 8) limb landmarks; u32-limb tuples over 5..9 landmarks; integers over limb patterns; "
                       "amounts q*10^10+r for q around 2^32 and up to u128::MAX. " + BOUNDED + ". Every case is a boundary/landmark combination or a "
                       "seeded input; distinct_nontrivial = number of distinct inputs handed to the real code (model cases + recorded events)")
    ctx.cov["exhaustive"] = False
    return core.finish(ctx)


@register("C26")
def check_c26(ctx):
    common(ctx)
    ctx.assumptions += [
        "Poseidon2 is an uninterpreted injective constructor in the model; in real runs Plonky2's native Poseidon2Hash::hash_no_pad "
        "over the children's limbs is the oracle the real node hash is compared with (trusted base, not repo code)",
        "hash_bytes_compact is crate-private: only 128-byte inputs reach it (through hash_node / hash_node_presorted). Its length cap "
        "and its multiple-of-8 rule are checked in the model only and are NOT observed on the real code",
    ]
    if ctx.replay:
        return do_replay(ctx)
    rows = tlc_cases(ctx, "c26")
    if rows is None:
        return core.finish(ctx)
    if not ctx.quick:
        spec_mutants(ctx)
    n, acc, rej = replay_cases(ctx, rows if ONLY != "trace" else rows[:5])
    if (not acc.get("node") or not rej.get("node")) and not ctx.violations and ONLY != "trace":
        raise core.ToolError("vacuity: the real node hash did not both accept and reject model cases")
    if not ctx.violations and ONLY != "replay":
        evs = trace(ctx, "c26", 100 if ctx.quick else 2500)
        if not ctx.violations:
            vacuity_trace(evs, ["node"])
            selftest_trace(ctx, evs, "c26")
    ctx.cov["distinct_nontrivial"] = len(distinct(ctx))
    ctx.cov["rule"] = ("every child quadruple over 7 (thorough 11) landmark children (limbs 0, 1, 256, 2^32, p-1 accepted; p, p+1, 2^64-1 "
                       "rejected; little-endian order traps) replayed on the real hash_node / hash_node_presorted in all 24 orders and "
                       "compared with native Poseidon2 of the model's preimage; the 128-byte rows of the compact-domain table replayed; "
                       "seeded real quadruples (limbs p-1, p, 2^64-1 at every child and limb position, duplicates, one-bit differences) "
                       "in all 24 orders validated by EncodingTrace. The compact hash's length cap / multiple-of-8 rule and the small "
                       "concrete compact inputs are model-only (crate-private function): counted in model_only_cases / unreachable_cases. "
                       "distinct_nontrivial = number of distinct inputs handed to the real code (model cases + recorded events)")
    ctx.cov["exhaustive"] = False
    return core.finish(ctx)


_TEXT = ("Encoding.tla transcribes the encoders/decoders as the code runs them (edge encoding with terminator and its decoder as a guard "
         "sequence, digest validity, u32-limb decoding, quantisation by 10^10 with big-natural limb arithmetic, the compact-hash guards and "
         "byte->felt map, hash_node = sort + presorted hash with the hash an injective constructor) next to declarative predicates from the "
         "property text. TLC checks on every case of small exhaustive domains and threshold tables (p-1, p, p+1, 2^32-1, 2^32, 2^64-1, cap, "
         "cap+1, length mod 8): round trip and pairwise injectivity, decode accepts exactly the image of the encoder, accept <=> valid, "
         "order independence, equality with presorted hashing; seven spec mutants (terminator, < vs <=, alignment, canonicity, sort) must be "
         "rejected (thorough). Binding: every TLC case is replayed on the real functions, which must return the model's verdict and value "
         "(a panic never matches); seeded random and boundary inputs at real sizes are recorded with the real outputs and validated event by "
         "event by EncodingTrace.tla (16-bit limbs); a corrupted event must be refused. ")
_NOTE25 = ("Trusted: TLC; the harness's limb/byte plumbing and its byte comparison of the 1 MiB round trip. " + BOUNDED + ". The encoders live in "
           "the external crate qp-poseidon-core; they are exercised through /repo's public wrappers.")
_NOTE26 = ("Trusted: TLC; Plonky2's native Poseidon2 (oracle); collision-freeness of Poseidon2 (injectivity is shown for the felt sequence that is "
           "hashed). hash_bytes_compact is crate-private and only reachable with 128-byte inputs: 'accepts exactly lengths <= 1 MiB that are "
           "multiples of 8' is checked in the model only, not observed on the real code (no hook was added); the limb < p rule, the error-not-panic "
           "rule, order independence and equality with presorted hashing are observed on the real code.")
MANIFEST = {
    "engines": {"encoding": dict(
        path="specs/Encoding.tla specs/MC_Encoding.tla specs/EncodingTrace.tla harness/src/bin_enc/main.rs harness/src/bin_enc/run.rs "
             "harness/src/bin_enc/record.rs harness/src/bin_enc/limbs.rs vlib/props/encoding.py",
        kind="TLA+ transcription + declarative predicates, TLC over small exhaustive domains and threshold tables + replay of every case on "
             "the real functions + trace validation of seeded real-size runs (limb arithmetic, native Poseidon2 oracle)")},
    "checks": {
        "C25": dict(engine="encoding", ref="6.8", text=_TEXT + "C25: edge encoding/decoding, BytesDigest validation and digest<->felts, "
                    "u128/u64 limb decoding, quantised amounts.", note=_NOTE25),
        "C26": dict(engine="encoding", ref="6.8", text=_TEXT + "C26: compact-hash domain and encoding, hash_node / hash_node_presorted.",
                    note=_NOTE26),
    },
}
