"""C30 (less-than gadget), C31 (sorting gadget).  Gadgets.tla models common/src/gadgets.rs as
nondeterministic constraint programs over the Goldilocks family P(K) (every hint wire chosen by the
prover); TLC checks soundness / completeness / no-witness-freedom exhaustively at K=2 (and K=4).  Binding:
every model input is embedded into 64-bit values and run on the real gadget circuits through the
adversarial-witness oracle (honest witness + override catalogue on the real hint generators, decided
by the real prover and verifier); seeded real-domain runs are validated by GadgetsTrace.tla."""
import json
from .. import core
from ..registry import register

P64 = 0xFFFFFFFF00000001


def embed(v, k):
    blk = 32 // k
    out = 0
    for i in range(2 * k):
        if (v >> i) & 1:
            out |= ((1 << blk) - 1) << (i * blk)
    return out


def tlc_modes(ctx, k, modes, glimbs=None, workers=8):
    lines = []
    for mode in modes:
        env = {"GMODE": mode}
        if glimbs:
            env["GLIMBS"] = glimbs
        res = core.run_tlc(ctx, "MC_Gadgets", f"MC_Gadgets_K{k}.cfg", workers=workers, timeout=2400, env_extra=env,
                           coverage=False)
        if res["violated"]:
            ctx.violation(f"TLC: {res['violated']} violated in Gadgets model (K={k}, mode {mode})",
                          {"tlc": core.tlc_counterexample(res["out"])})
            return None
        lines += [json.loads(x) for x in res["prints"].get("REPLAY", [])]
    return lines


def spec_mutants(ctx, modes_cfgs):
    """vacuity control: the broken spec variants must violate an invariant"""
    for mode, cfg in modes_cfgs:
        res = core.run_tlc(ctx, "MC_Gadgets", cfg, workers=4, timeout=900, env_extra={"GMODE": mode}, coverage=False,
                           expect_violation=True, quiet=True)
        if not res["violated"]:
            raise core.ToolError(f"vacuity: spec mutant {cfg}/{mode} is accepted by TLC")
        ctx.cov.setdefault("spec_mutants_rejected", []).append(f"{cfg}:{mode}")


def group_inputs(lines):
    groups = {}
    for c in lines:
        key = (c["g"], c["w"], c["c"], c["x"], json.dumps(c["d"]))
        g = groups.setdefault(key, {"honest": None, "adv_accepted": 0})
        if c["honest"] == 1:
            g["honest"] = c
        elif c["acc"] == 1:
            g["adv_accepted"] += 1
    return groups


def replay(ctx, k, lines, attack_every):
    groups = group_inputs(lines)
    cases = []
    for i, (key, g) in enumerate(sorted(groups.items())):
        h = g["honest"]
        if h is None:
            raise core.ToolError(f"model emitted no honest behaviour for input {key}")
        att = 1 if (i + ctx.seed) % attack_every == 0 else 0
        cases.append({"g": h["g"], "w": h["w"], "c": h["c"], "x": h["x"], "d": h["d"], "attacks": att,
                      "place": (i * 7 + ctx.seed) % 24, "model": h, "adv_accepted_in_model": g["adv_accepted"]})
    if ctx.replay:
        rc = json.loads(open(ctx.replay).read())["case"]
        if "case" in rc:
            cases = [rc["case"]]
            cases[0]["attacks"] = 1
    inp = ctx.workdir / f"gadget_in_{k}.ndjson"
    inp.write_text("\n".join(json.dumps(c) for c in cases) + "\n")
    out = ctx.workdir / f"gadget_out_{k}.ndjson"
    core.vh(ctx, ["gadget-replay", k, inp, out], timeout=3000)
    rows = core.jsonl_read(out)
    if len(rows) != len(cases):
        raise core.ToolError("gadget-replay returned a different number of results")
    nattacks = nacc = 0
    for c, r in zip(cases, rows):
        m = c["model"]
        ctx.cov["evaluations"] += 1 + len(r.get("attacks", []))
        nattacks += len(r.get("attacks", []))
        desc = (f"{c['g']} K={k} w={c['w']} c={c['c']} x={c['x']}" if c["g"] != "sort" else f"sort K={k} {c['d']}")
        bad = None
        if not r.get("built"):
            bad = "the repo's gadget builder refused parameters the property covers"
        else:
            h = r["honest"]
            if h["acc"] != m["acc"]:
                bad = (f"honest witness: model {'accepts' if m['acc'] else 'rejects'}, real circuit "
                       f"{'accepts' if h['acc'] else 'rejects'}")
            elif h["acc"]:
                bad = wrong_output(c, m, r, h["pis"], k)
            if not bad:
                for a in r["attacks"]:
                    if a["v"]["acc"]:
                        nacc += 1
                        if not m["acc"]:
                            bad = f"override {a['label']} is accepted by the real verifier on an input the model proves unsatisfiable"
                        else:
                            w = wrong_output(c, m, r, a["v"]["pis"], k)
                            if w:
                                bad = f"override {a['label']} accepted by the real verifier with a wrong output: {w}"
                        if bad:
                            break
        if bad:
            ctx.violation(f"{bad} [{desc}; real {r.get('real', r.get('x'))}]",
                          {"engine": "gadget-replay", "K": k, "case": {x: c[x] for x in c if x != 'model'} | {"model": m},
                           "observed": {x: r[x] for x in r if x != "attacks"}})
        else:
            ctx.cov["traces_validated_against_impl"] += 1
    ctx.cov["override_runs"] = ctx.cov.get("override_runs", 0) + nattacks
    ctx.cov["override_runs_accepted_with_correct_output"] = ctx.cov.get("override_runs_accepted_with_correct_output", 0) + nacc
    for c in cases[:: max(1, len(cases) // 3)][:3]:
        ctx.add_sample({"kind": "model input replayed on the real gadget circuit", "K": k,
                        "case": {x: c[x] for x in ("g", "w", "c", "x", "d")}, "model": {"acc": c["model"]["acc"], "out": c["model"]["out"]}})
    return len(cases)


def wrong_output(c, m, r, pis, k):
    if c["g"] == "lt":
        if pis[0] != m["out"]:
            return f"output {pis[0]}, model {m['out']}"
    elif c["g"] == "sort":
        real = [tuple(x) for x in r["real"]]
        got = [tuple(pis[i:i + 4]) for i in range(0, len(pis), 4)]
        if got != sorted(real):
            return f"output {got} is not the ascending permutation of {real}"
        # the model's sorted sequence, embedded the way the inputs were, is the expected output
        exp = []
        for d in m["sorted"]:
            row = [r["filler"]] * 4
            for j, pp in enumerate(r["pos"]):
                row[pp] = embed(d[j], k)
            exp.append(tuple(row))
        if got != exp:
            return f"output {got} differs from the model's sorted sequence embedded at 64 bits {exp}"
    return None


def trace(ctx, kinds, plans):
    tr = ctx.workdir / f"gadget_trace_{kinds}.ndjson"
    core.vh(ctx, ["gadget-record", tr, plans, kinds], timeout=3000)
    evs = core.jsonl_read(tr)
    if not evs:
        raise core.ToolError("gadget-record produced no events")
    ok, r = core.validate_trace(ctx, "GadgetsTrace", tr, cfg="GadgetsTrace.cfg")
    ctx.cov["evaluations"] += len(evs)
    ctx.cov["trace_events"] = len(evs)
    if ok:
        ctx.cov["traces_validated_against_impl"] += len(evs)
        e = evs[len(evs) // 2]
        ctx.add_sample({"kind": "recorded real-circuit run accepted by GadgetsTrace", "event": {k: e[k] for k in e if k not in ("d", "sorted")} | {"n": len(e["d"])}})
    else:
        fail = r["prints"].get("TRACEFAIL", [])
        info = json.loads(fail[0]) if fail else {}
        ev = info.get("first_unmatched", {})
        ctx.violation(f"recorded run of the real {ev.get('g')} gadget violates the specification: w={ev.get('w')} c={ev.get('c')} "
                      f"x={ev.get('x')} honest={ev.get('honest')} accepted={ev.get('acc')} out={ev.get('out')} override={ev.get('label')}",
                      {"engine": "gadget-trace", "event": ev})
    return evs


def common(ctx):
    core.build_harness(ctx, "vh")
    ctx.level = "model_checking"
    core.vh(ctx, ["gadget-selftest"], timeout=600)
    ctx.assumptions += [
        "Plonky2's primitive relations (split_low_high, split_le, is_equal) as transcribed in Gadgets.tla; FRI soundness "
        "(the gadget circuits are built without proof-of-work grinding: 84 bits of query soundness)",
        "the step from the miniature fields P(2)=13, P(4)=241 to P(32) rests on the shared structure of the family, on "
        "replaying every model input at 64 bits (bit-block embedding), on the landmark/random real-domain traces, and (thorough tier) on "
        "the TLAPS-proved lemmas of specs/GoldilocksLemmas.tla at the production constants: the canonical 32-bit split of a field "
        "element exists and is unique (no alias), never wraps, the borrow bit decides a < b, halves order = numeric order",
    ]


@register("C30")
def check_c30(ctx):
    common(ctx)
    lines = tlc_modes(ctx, 2, ["lt", "contracts"])
    if lines is None:
        return core.finish(ctx)
    lines = [c for c in lines if c["g"] in ("lt", "enf")]
    if not ctx.quick:
        l4 = tlc_modes(ctx, 4, ["lt", "contracts"], workers=12)
        if l4 is None:
            return core.finish(ctx)
        l4 = [c for c in l4 if c["g"] in ("lt", "enf")]
        spec_mutants(ctx, [("lt", "MC_Gadgets_mutWrap.cfg")])
        core.tlaps_lemmas(ctx)
    n = replay(ctx, 2, lines, attack_every=2 if ctx.quick else 1)
    if not ctx.quick and not ctx.violations and not ctx.replay:
        # K=4: honest on a seeded third of the inputs, overrides on every 40th
        g4 = sorted(group_inputs(l4).items())
        sub = [v["honest"] for i, (k_, v) in enumerate(g4) if (i + ctx.seed) % 3 == 0 and v["honest"]]
        n += replay(ctx, 4, sub, attack_every=40)
    if not ctx.violations and not ctx.replay:
        trace(ctx, "lt", 400 if ctx.quick else 2500)
    ctx.cov["distinct_nontrivial"] = n
    ctx.cov["rule"] = ("every (gadget, width, constant, element) input of the K=2 model (all constants, all 13 elements; K=4 "
                       "boundary constants x 241 elements in thorough) replayed at 64 bits: honest witness on all, the override "
                       "catalogue (alias / borrow / flipped equality / free inverse / flipped bits on every LowHigh, Equality "
                       "and WireSplit generator) on a seeded share (quick 1/6, thorough all); plus seeded landmark runs at widths "
                       "1..64 validated by GadgetsTrace. distinct = distinct model inputs")
    ctx.cov["exhaustive"] = False
    return core.finish(ctx)


@register("C31")
def check_c31(ctx):
    common(ctx)
    modes = ["sort1"] if ctx.quick else ["sort1", "sort2", "sort4"]
    lines = tlc_modes(ctx, 2, modes, glimbs=None if ctx.quick else "all")
    if lines is None:
        return core.finish(ctx)
    # the contracts the sorter's comparators rely on
    if tlc_modes(ctx, 2, ["contracts"]) is None:
        return core.finish(ctx)
    if not ctx.quick:
        spec_mutants(ctx, [("sort1", "MC_Gadgets_mutWrap.cfg"), ("sort1", "MC_Gadgets_mutParity.cfg")])
    groups = sorted(group_inputs(lines).items())
    step = max(1, len(groups) // (400 if ctx.quick else 3000))
    sub = [v["honest"] for i, (k_, v) in enumerate(groups) if (i + ctx.seed) % step == 0 and v["honest"]]
    n = replay(ctx, 2, sub, attack_every=8 if ctx.quick else 4)
    if not ctx.violations and not ctx.replay:
        trace(ctx, "sort", 40 if ctx.quick else 600)
    ctx.cov["distinct_nontrivial"] = n
    ctx.cov["rule"] = ("digest lists of the K=2 model (n<=3 one-limb digests over landmark limbs; thorough: all 13 limbs, two-limb "
                       "digests, n=4) placed at varying limb positions of real 4-limb digests and sorted by the real sort_digests4 "
                       "circuit: honest witness + overrides on sampled hint sites; plus seeded real-domain lists (n up to 17, "
                       "duplicates, shared prefixes, boundary limbs) validated by GadgetsTrace. distinct = distinct model lists replayed")
    ctx.cov["exhaustive"] = False
    return core.finish(ctx)


_TEXT = ("Gadgets.tla transcribes common/src/gadgets.rs as nondeterministic constraint programs over the Goldilocks family "
         "P(K)=2^(2K)-2^K+1: every hint wire (bit patterns, low/high halves, equality hints, comparison bits) is chosen by the "
         "prover, `ok` records whether every constraint held. TLC checks soundness, completeness and output-determinism for every "
         "input and every hint assignment at K=2 (thorough: K=4), and rejects the spec mutants (wrap-around exclusion dropped, "
         "round parity dropped). Binding: every model input is embedded at 64 bits and evaluated on the REAL gadget circuit by the "
         "adversarial-witness oracle - the circuit's own generators with pre-set overrides on its LowHigh / Equality / WireSplit "
         "hint sites, then the production prover and verifier; an accepted run must reproduce the model's output. Seeded real-domain "
         "runs (widths 1..64, landmarks around 2^w, 2^32, p) are validated event by event by GadgetsTrace.tla (limb arithmetic). ")
_NOTE = ("Trusted: TLC; Plonky2's gate constraints and FRI (gadget circuits are built with the standard recursion config minus "
         "proof-of-work grinding); the transcription of split_low_high / split_le / is_equal as relations. K=32 is not enumerable: it is "
         "covered by the bit-block embedding of all K=2 (K=4) inputs plus landmark and random traces, not exhaustively.")
MANIFEST = {
    "engines": {"gadgets": dict(
        path="specs/Gadgets.tla specs/MC_Gadgets.tla specs/GadgetsTrace.tla harness/src/engine.rs harness/src/gadgets.rs vlib/props/gadgets.py",
        kind="TLA+ constraint-program spec + TLC exhaustive over inputs x hint assignments + adversarial-witness replay on the real "
             "gadget circuits (real prover and verifier) + trace validation of real-domain runs")},
    "checks": {
        "C30": dict(engine="gadgets", ref="6.1", text=_TEXT + "C30: is_const_less_than (both paths) and enforce_target_less_than_const.", note=_NOTE),
        "C31": dict(engine="gadgets", ref="6.1", text=_TEXT + "C31: sort_digests4 - ingress canonical splits, odd-even transposition rounds, "
                    "egress recombination; lists up to n=4 in the model, up to n=17 (thorough 17; the schedule for larger n is the same code) in real runs.", note=_NOTE),
    },
}
