"""C35: transfer-proof JSON parsing.  JsonCaps.tla (raw cap first, bounded visitors in field order,
standalone validate) checked by TLC over documents around every cap; every feasible document class is
synthesised as real JSON text and pushed through the real from_json_str / validate."""
import json
from .. import core
from ..registry import register


def describe(c):
    return (f"rawOver={c['rawOver']} shape={c['shape']} root={c['root']} nodes={c['nodes']}x{c['nodeLen']} "
            f"indices={c['idx']} escaped={c['escaped']} extra={c['extra']} multibyte={c.get('mb', 0)}")


@register("C35")
def check(ctx):
    core.build_harness(ctx, "vh")
    ctx.level = "model_checking"
    ctx.assumptions += [
        "documents are described by the quantities the guards read; nodes of one document share a length; "
        "decoded payloads above 3 MiB are not synthesised",
        "'before parsing' is observed as: an over-long document is rejected with less than 64 KiB requested from "
        "the allocator (a counting global allocator in the harness)",
        "the property demands no completeness; a rejection of a well-formed in-cap document is recorded, not reported",
    ]
    res = core.run_tlc(ctx, "MC_JsonCaps", "MC_JsonCaps.cfg", workers=4, timeout=900, coverage=False)
    if res["violated"]:
        ctx.violation(f"TLC: {res['violated']} violated in JsonCaps model", {"tlc": core.tlc_counterexample(res["out"])})
        return core.finish(ctx)
    lines = sorted(set(res["prints"].get("REPLAY", [])))
    if ctx.quick:
        # quick: every class with a plain/escaped, extra/no-extra variant chosen by the seed; thorough: all
        keep = []
        for ln in lines:
            c = json.loads(ln)
            h = (c["root"] + c["nodes"] + c["nodeLen"] + c["idx"] + len(c["shape"]) + c["rawOver"] + ctx.seed) % 4
            # one escaped/extra variant per class chosen by the seed, in BOTH the ASCII and the multi-byte flavour
            if c["escaped"] * 2 + c["extra"] == h:
                keep.append(ln)
        lines = keep
    if ctx.replay:
        lines = [json.dumps(json.loads(open(ctx.replay).read())["case"]["doc"])]
    if not lines:
        raise core.ToolError("no document classes emitted by MC_JsonCaps")
    inp = ctx.workdir / "json_in.ndjson"
    inp.write_text("\n".join(lines) + "\n")
    out = ctx.workdir / "json_out.ndjson"
    core.vh(ctx, ["jsoncaps-replay", inp, out], timeout=1800)
    rows = core.jsonl_read(out)
    if len(rows) != len(lines):
        raise core.ToolError("jsoncaps-replay returned a different number of results")
    accepted = notes = 0
    distinct = set()
    for ln, r in zip(lines, rows):
        c = json.loads(ln)
        if "tool_error" in r:
            raise core.ToolError(r["tool_error"])
        ctx.cov["evaluations"] += 1
        distinct.add((c["rawOver"], c["shape"], c["root"], c["nodes"], c["nodeLen"], c["idx"]))
        accepted += 1 if r["accepted"] else 0
        if r.get("note"):
            notes += 1
            if notes <= 3:
                ctx.log(f"note: {r['note']}: {describe(c)}")
        if r["ok"]:
            ctx.cov["traces_validated_against_impl"] += 1
        else:
            ctx.violation(f"{r['why']} [{describe(c)}, raw length {r['raw_len']}]",
                          {"engine": "jsoncaps-replay", "doc": c, "observed": r})
    if accepted == 0 and not ctx.replay:
        raise core.ToolError("vacuity: the real parser accepted none of the synthesised documents")
    ctx.cov["accepted_documents"] = accepted
    ctx.cov["completeness_notes"] = notes
    ctx.cov["distinct_nontrivial"] = len(distinct)
    ctx.cov["rule"] = ("document classes emitted by TLC (each cap at cap-1/cap/cap+1 style values, malformed shapes, "
                       "escapes, extra fields, over-long raw text); distinct = distinct (rawOver, shape, sizes); quick "
                       "replays one escaped/extra variant per class chosen by the seed, thorough all four")
    for ln in lines[:: max(1, len(lines) // 5)][:5]:
        ctx.add_sample({"kind": "document class synthesised and parsed by the real code", "doc": json.loads(ln)})
    ctx.cov["exhaustive"] = not ctx.quick and not ctx.replay
    return core.finish(ctx)
