"""C01-C04: the leaf circuit.  Leaf.tla (constraint program over symbolic wires, one action per constraint
group, every input wire chosen by the prover, witnesses within MaxDev deviations of an honest real /
dummy witness), LeafFee.tla (the arithmetic fragment bit-exact over P(4) with miniature constants),
LeafTrace.tla (the same properties on recorded real runs, limb arithmetic).  Binding: every TLC witness
is realised with native Poseidon2 and evaluated on the REAL WormholeCircuit by the adversarial-witness
oracle; seeded real-domain witnesses (target-level mutations + hint overrides) are validated by LeafTrace."""
import json
import random
from .. import core
from ..registry import register


def tlc(ctx, module, cfg, workers=8, timeout=2400, expect_violation=False, quiet=False):
    return core.run_tlc(ctx, module, cfg, workers=workers, timeout=timeout, coverage=False,
                        env_extra={"FEEDOM": "narrow" if ctx.quick else "wide"},
                        expect_violation=expect_violation, quiet=quiet, xmx="12g")


def model(ctx):
    for module, cfg in (("MC_LeafFee", "MC_LeafFee.cfg"), ("MC_Leaf", "MC_Leaf.cfg" if ctx.quick else "MC_Leaf_dev3.cfg")):
        res = tlc(ctx, module, cfg)
        if res["violated"]:
            ctx.violation(f"TLC: {res['violated']} violated in {module} ({cfg})", {"engine": "tlc", "tlc": core.tlc_counterexample(res["out"])})
            return False
    if not ctx.quick:
        for module, cfg in (("MC_LeafFee", "MC_LeafFee_mutRange.cfg"), ("MC_Leaf", "MC_Leaf_mutShareSecret.cfg"),
                            ("MC_Leaf", "MC_Leaf_mutSentinelNeedsOutputs.cfg"), ("MC_Leaf", "MC_Leaf_mutConnectDummyFlag.cfg")):
            r = tlc(ctx, module, cfg, expect_violation=True, quiet=True)
            if not r["violated"]:
                raise core.ToolError(f"vacuity: spec mutant {cfg} accepted by TLC")
            ctx.cov.setdefault("spec_mutants_rejected", []).append(cfg)
    return True


# the declarative properties of Leaf.tla re-evaluated on a model case (for attribution only)
def term(x):
    return json.dumps(x)


def props_violated_if_accepted(c):
    """which of C01-C04 an ACCEPTING run on this witness would violate"""
    out = set()
    full_dummy = c["fulldummy"] == 1
    A = lambda s: ["A", s]
    climb = ["R", ["L", c["lto"], c["lcnt"]], c["depth"]]
    null_ok = any(c["nhash"] == ["N", s, cn] and c["lto"] == A(s) and c["lcnt"] == cn for s in ("s1", "s2") for cn in ("c1", "c2"))
    hdr_ok = (c["bhash"] == ["B", c["troot"], c["hrest"]] and c["depth"] <= 2 and c["pos"] == "ok" and c["troot"] == climb)
    if c["arith"] != "ok":
        out.add("C01")
    if not full_dummy and not null_ok:
        out.add("C02")
    if not full_dummy and not hdr_ok:
        out.add("C03")
    if not full_dummy and not (null_ok and hdr_ok):
        out.add("C04")
    if c["flag"] != (0 if full_dummy else 1):
        out.add("C04")
    if c["arith"] != "ok" and c["bhash"] == ["zero"]:
        out.add("C04")
    return out


def describe(c):
    return (f"base={c['base']} deviating wires={sorted(c['devs'])} nsec={c['nsec']} asec={c['asec']} ncnt={c['ncnt']} lcnt={c['lcnt']} "
            f"aid={term(c['aid'])} lto={term(c['lto'])} nhash={term(c['nhash'])} arith={c['arith']} depth={c['depth']} pos={c['pos']} "
            f"root={term(c['root'])} troot={term(c['troot'])} bhash={term(c['bhash'])} o1z={c['o1z']} o2z={c['o2z']} flag={c['flag']}")


def replay(ctx, tally, budget):
    res = tlc(ctx, "MC_Leaf", "MC_Leaf_emit.cfg", quiet=True)
    if res["violated"]:
        ctx.violation(f"TLC: {res['violated']} violated in MC_Leaf (emit)", {"engine": "tlc", "tlc": core.tlc_counterexample(res["out"])})
        return 0
    cases = [json.loads(x) for x in sorted(set(res["prints"].get("REPLAY", [])))]
    ctx.cov["model_witnesses"] = len(cases)
    rng = random.Random(ctx.seed)
    if ctx.replay:
        rc = json.loads(open(ctx.replay).read())["case"]
        if "case" in rc and "nhash" in rc.get("case", {}):
            cases = [rc["case"]]
    elif len(cases) > budget:
        # all accepted witnesses, all single-deviation ones and all NEAR MISSES (exactly one constraint group violated: the
        # witnesses a single dropped constraint would let through); a seeded sample of the rest
        crit = lambda c: c["acc"] == 1 or len(c["devs"]) <= 1 or c["nviol"] <= 1
        keep = [c for c in cases if crit(c)]
        rest = [c for c in cases if not crit(c)]
        rng.shuffle(rest)
        cases = keep + rest[: max(0, budget - len(keep))]
    inp = ctx.workdir / "leaf_in.ndjson"
    inp.write_text("\n".join(json.dumps(c) for c in cases) + "\n")
    outp = ctx.workdir / "leaf_out.ndjson"
    core.vh(ctx, ["leaf-replay", inp, outp, 2], timeout=3000)
    rows = core.jsonl_read(outp)
    if len(rows) != len(cases):
        raise core.ToolError("leaf-replay returned a different number of results")
    nacc = nrej = 0
    for c, r in zip(cases, rows):
        ctx.cov["evaluations"] += 2
        v = r["v"]
        nacc += v["acc"]
        nrej += 1 - v["acc"]
        d = describe(c) + f" (arithmetic realised as {r['arith_kind']}, real depth {r['real_depth']})"
        if v["acc"] and not c["acc"]:
            pids = props_violated_if_accepted(c)
            if pids:
                for p in pids:
                    tally.setdefault(p, []).append((f"the real leaf circuit is satisfied by a witness the specification rejects [{d}]",
                                                    {"engine": "leaf-replay", "case": c, "observed": r}))
            else:
                ctx.log(f"note: real circuit accepts a witness the model rejects, no listed property concerned: {d}")
        elif c["acc"] and not v["acc"]:
            p = "C04" if c["base"] == "dummy" else "C05"
            tally.setdefault(p, []).append((f"the real leaf circuit rejects a witness the specification accepts [{d}]",
                                            {"engine": "leaf-replay", "case": c, "observed": r}))
        elif v["acc"] and v["pis"] != r["expected_pis"]:
            tally.setdefault("C05", []).append((f"public inputs of an accepted leaf proof differ from the statement / stated order [{d}]",
                                                {"engine": "leaf-replay", "case": c, "observed": r}))
        else:
            ctx.cov["traces_validated_against_impl"] += 1
        # the dummy decision left to the circuit: same verdict as with the correct flag pre-set
        if c["flag"] == (0 if c["fulldummy"] == 1 else 1) and r["v_flag_free"]["acc"] != v["acc"]:
            tally.setdefault("C04", []).append((f"pre-setting the dummy flag to its derived value changes the verdict of the real circuit [{d}]",
                                                {"engine": "leaf-replay", "case": c, "observed": r}))
    if (nacc == 0 or nrej == 0) and not ctx.replay:
        raise core.ToolError(f"vacuity: replayed leaf witnesses accepted={nacc} rejected={nrej}")
    ctx.cov["leaf_replay"] = {"witnesses": len(cases), "accepted_by_real_circuit": nacc, "rejected": nrej}
    for c in cases[:: max(1, len(cases) // 3)][:3]:
        ctx.add_sample({"kind": "Leaf.tla witness realised on the real leaf circuit", "witness": {k: c[k] for k in c if k not in ("devs",)}, "deviations": c["devs"]})
    return len(cases)


def lt32(x):
    return x[0] == 0 and x[1] == 0


def val(x):
    return (x[0] << 48) | (x[1] << 32) | (x[2] << 16) | x[3]


def attribute_event(e):
    out = set()
    if e["acc"]:
        rng_ok = all(lt32(e[k]) for k in ("asset", "input", "out1", "out2", "number")) and lt32(e["tc"][0]) and lt32(e["tc"][1])
        fee_ok = val(e["fee"]) <= 10000
        rule = rng_ok and fee_ok and (val(e["out1"]) + val(e["out2"])) * 10000 <= val(e["input"]) * (10000 - val(e["fee"]))
        if not rule:
            out.add("C01")
        full = all(v == 0 for v in e["bhash"]) and val(e["out1"]) == 0 and val(e["out2"]) == 0
        if not full:
            if not (e["nhash"] == e["exp_null"] and e["lto"] == e["exp_acct"]):
                out |= {"C02", "C04"}
            if not (e["bhash"] == e["exp_bhash"] and e["troot"] == e["exp_climb"] and val(e["depth"]) <= 16 and e["posmax"] <= 3):
                out |= {"C03", "C04"}
        if not e["pis_ok"]:
            out.add("C05")
        if not rule and all(v == 0 for v in e["bhash"]):
            out.add("C04")
    elif e["honest"]:
        out |= {"C05"} | ({"C04"} if e["label"] == "honest-dummy" else set())
    return out or {"C05"}


def trace(ctx, tally, plans):
    tr = ctx.workdir / "leaf_trace.ndjson"
    core.vh(ctx, ["leaf-record", tr, plans], timeout=3000)
    evs = core.jsonl_read(tr)
    if not evs:
        raise core.ToolError("leaf-record produced no events")
    ok, r = core.validate_trace(ctx, "LeafTrace", tr, cfg="LeafTrace.cfg", timeout=2400)
    ctx.cov["evaluations"] += len(evs)
    ctx.cov["trace_events"] = len(evs)
    ctx.cov["trace_accepted_runs"] = sum(1 for e in evs if e["acc"])
    if ok:
        ctx.cov["traces_validated_against_impl"] += len(evs)
        e = evs[len(evs) // 3]
        ctx.add_sample({"kind": "recorded real leaf-circuit run accepted by LeafTrace", "label": e["label"], "honest": e["honest"], "accepted": e["acc"],
                        "fee": e["fee"], "depth": e["depth"], "posmax": e["posmax"]})
    else:
        fail = r["prints"].get("TRACEFAIL", [])
        info = json.loads(fail[0]) if fail else {}
        ev = info.get("first_unmatched", {})
        for p in attribute_event(ev):
            tally.setdefault(p, []).append((f"recorded run of the real leaf circuit violates the specification: witness '{ev.get('label')}' "
                                            f"(honest={ev.get('honest')}) accepted={ev.get('acc')}, fee={ev.get('fee')}, out1={ev.get('out1')}, "
                                            f"out2={ev.get('out2')}, input={ev.get('input')}, depth={ev.get('depth')}, max position={ev.get('posmax')}",
                                            {"engine": "leaf-trace", "event": ev}))


def run(ctx, pid):
    core.build_harness(ctx, "vh")
    ctx.level = "model_checking"
    core.vh(ctx, ["leaf-selftest"], timeout=900)
    ctx.assumptions += [
        "hashes are injective constructors in Leaf.tla (collision-freeness); expectations on the real side are computed with Plonky2's "
        "native Poseidon2 (trusted base) from layouts written in the harness from the property text: H(to||count||asset||input), "
        "H(H(salt||secret[||count])), header preimage order parent, number, state root, extrinsics root, tree root, digest",
        "Leaf.tla explores witnesses within MaxDev (quick 2, thorough 3) wire deviations of an honest real or dummy witness, MAX_DEPTH 2 "
        "mapped to 16 on the real circuit; the arithmetic fragment is exact only in LeafFee.tla's miniature (P(4), 3-bit amounts, BPS 3) "
        "and, at production constants, in LeafTrace's limb arithmetic on recorded runs",
    ]
    tally = {}
    n = 0
    if model(ctx):
        n = replay(ctx, tally, 450 if ctx.quick else 100000)
        if not ctx.replay:
            trace(ctx, tally, 80 if ctx.quick else 2500)
    for what, case in tally.get(pid, []):
        ctx.violation(what, case)
    other = {p: len(v) for p, v in tally.items() if p != pid}
    if other:
        ctx.log(f"note: disagreements attributed to other properties: {other}")
    ctx.cov["distinct_nontrivial"] = n
    ctx.cov["rule"] = ("witnesses enumerated by TLC from Leaf.tla (each input wire of each fragment copy set independently: split secrets / counts, "
                       "foreign recipient, foreign or single-hash nullifier, unrelated roots, garbage header, zero / garbage block hash, zero "
                       "outputs, forced dummy flag, depths 0..MAX+2 and 32, out-of-range positions on active / inactive levels, violated "
                       "arithmetic) realised with native hashes on the real circuit (all accepted and single-deviation witnesses, a seeded "
                       "sample of the rest in quick, all in thorough); plus seeded real-domain runs with 34 target-level mutation kinds and "
                       "hint overrides validated by LeafTrace. distinct = model witnesses replayed")
    ctx.cov["exhaustive"] = False
    return core.finish(ctx)


@register("C01")
def c01(ctx):
    if not ctx.quick and not ctx.replay:
        # the fee equation's two sides never wrap in the field for 32-bit amounts (TLAPS, production constants)
        core.tlaps_lemmas(ctx)
    return run(ctx, "C01")


@register("C02")
def c02(ctx):
    return run(ctx, "C02")


@register("C03")
def c03(ctx):
    return run(ctx, "C03")


@register("C04")
def c04(ctx):
    return run(ctx, "C04")


_T = ("Leaf.tla is the leaf circuit as a constraint program over symbolic wires: every input target of every fragment copy is chosen by the "
      "prover, one action per constraint group of the code (account hash, range/fee, depth guard, position range checks, root binding by "
      "the flag wire, shared-target connects, derived dummy flag, the three flag-gated bindings), hashes as injective constructors; "
      "LeafFee.tla is the arithmetic fragment bit-exact over the miniature Goldilocks field. TLC checks the declarative statements of "
      "C01-C04 on every explored witness and rejects spec mutants (secret not shared, sentinel weakened to the block hash, flag not "
      "connected, out2 not range-checked). Every TLC witness is realised with native hashes on the REAL WormholeCircuit and decided by the "
      "production prover+verifier (verdict compared; an accepted run must expose the statement as its 21 public inputs); seeded real-domain "
      "witnesses with target-level mutations and hint overrides are validated by LeafTrace.tla (limb arithmetic at production constants). ")
_N = ("Trusted: TLC; Plonky2 gates/FRI and its native Poseidon2; collision-freeness; the harness's honest-witness builder (layouts from the "
      "property text). Not exhaustive over the production field: miniature arithmetic + landmark/random real runs.")
MANIFEST = {
    "engines": {"leaf": dict(path="specs/Leaf.tla specs/LeafFee.tla specs/LeafTrace.tla specs/MC_Leaf.tla specs/MC_LeafFee.tla harness/src/leaf.rs "
                                  "harness/src/engine.rs vlib/props/leaf.py",
                             kind="TLA+ constraint-program spec of the leaf circuit + TLC; symbolic witnesses realised on the real circuit through the "
                                  "adversarial-witness oracle; trace validation with limb arithmetic")},
    "checks": {
        "C01": dict(engine="leaf", ref="6.2", text=_T + "C01: range and fee constraints, also for dummies.", note=_N),
        "C02": dict(engine="leaf", ref="6.2", text=_T + "C02: nullifier bound to the secret and count of the spent deposit.", note=_N),
        "C03": dict(engine="leaf", ref="6.2", text=_T + "C03: block hash commits to a header whose tree contains the deposit (depth <= 16, positions 0..3).", note=_N),
        "C04": dict(engine="leaf", ref="6.2", text=_T + "C04: bindings skipped only for the full dummy sentinel; no freedom over the dummy flag.", note=_N),
    },
}
