"""C05 (leaf proving is complete and exposes exactly the stated public inputs; malformed vectors are errors, never
panics) and C27 (native Merkle proofs verify exactly the valid 4-ary paths, like the circuit).
LeafApi.tla / Merkle.tla are decision-procedure specs (ordered guards + declarative predicate) checked by TLC over all
input classes with MAX_DEPTH = 16; every class is replayed on the real API: WormholeProver::commit/prove, the canonical
pinned WormholeVerifier built from freshly serialised artifacts, the three leaf parsers; ZkMerkleProof::{verify,
verify_with_positions, from_unsorted}, insert_at_position, hash_node(_presorted), and the real leaf circuit."""
import json
from .. import core
from ..registry import register


def cases_of(ctx, module):
    res = core.run_tlc(ctx, module, module + ".cfg", workers=2, timeout=600, coverage=False)
    if res["violated"]:
        ctx.violation(f"TLC: {res['violated']} violated in {module}", {"engine": "tlc", "tlc": core.tlc_counterexample(res["out"])})
        return None
    return [json.loads(x) for x in sorted(set(res["prints"].get("REPLAY", [])))]


@register("C05")
def c05(ctx):
    core.build_harness(ctx, "vh")
    ctx.level = "model_checking"
    ctx.assumptions += [
        "honest inputs are built by the harness from the property text (native Poseidon2 for the nullifier, the recipient, the leaf hash, "
        "the 4-ary climb with sorted-rank positions, the header hash); canonical digests only",
        "the pinned verifier is fed the artifacts of a fresh build of the canonical leaf circuit from the working tree",
    ]
    cases = cases_of(ctx, "MC_LeafApi")
    if cases is None:
        return core.finish(ctx)
    if ctx.replay:
        rc = json.loads(open(ctx.replay).read())["case"]
        if "case" in rc:
            cases = [rc["case"]]
    inp = ctx.workdir / "api_in.ndjson"
    inp.write_text("\n".join(json.dumps(c) for c in cases) + "\n")
    outp = ctx.workdir / "api_out.ndjson"
    core.vh(ctx, ["leafapi-replay", inp, outp, 0 if ctx.replay else (2 if ctx.quick else 25)], timeout=3000)
    rows = core.jsonl_read(outp)
    proved = errors = 0
    distinct = set()
    for r in rows:
        c = r["case"]
        ctx.cov["evaluations"] += 1
        distinct.add((c["depth"], c["plen"], c["pval"], c["where"]))
        d = f"depth={c['depth']} positions length={c['plen']} largest position={c['pval']} at {c['where']}" + (" (honest sweep)" if c.get("sweep") else "")
        bad = None
        if r["outcome"] == "panic":
            bad = "the leaf prover panicked"
        elif c["verdict"] == "proved":
            if r["outcome"] != "proved":
                bad = f"a well-formed honest input is not proved and accepted by the pinned verifier: failed at stage '{r.get('stage')}' ({r.get('msg')})"
            elif r["npis"] != 21 or not r["order_ok"]:
                bad = "the proof's public inputs are not the 21 stated values in the stated order"
            elif not all(r["parsers_ok"]):
                bad = f"a leaf parser does not return the input statement (felt parser, u64 parser, verifier-crate parser: {r['parsers_ok']})"
            proved += 1
        else:
            if r["outcome"] == "proved":
                bad = "a malformed position/sibling vector was accepted and proved"
            errors += 1
        if bad:
            ctx.violation(f"{bad} [{d}]", {"engine": "leafapi-replay", "case": c, "observed": {k: r[k] for k in r if k != "case"}})
        else:
            ctx.cov["traces_validated_against_impl"] += 1
    if (proved == 0 or errors == 0) and not ctx.replay:
        raise core.ToolError("vacuity: no proved or no rejected input")
    ctx.cov["distinct_nontrivial"] = len(distinct)
    ctx.cov["honest_inputs_proved_verified_parsed"] = proved
    ctx.cov["rule"] = ("all input classes of LeafApi.tla (depth 0..18 x positions shorter/equal/longer x largest position ok/4/255 x first/last level) "
                       "plus an honest sweep over every depth 0..16 (quick 2, thorough 25 random statements each: random secrets, counts, amounts "
                       "at the fee boundary, exits, headers, trees with sorted-rank positions); distinct = distinct input classes")
    for r in rows[:: max(1, len(rows) // 3)][:3]:
        ctx.add_sample({"kind": "input class run through commit/prove/pinned verify/parsers", "case": r["case"], "outcome": r["outcome"], "stage": r.get("stage")})
    ctx.cov["exhaustive"] = False
    return core.finish(ctx)


@register("C27")
def c27(ctx):
    core.build_harness(ctx, "vh")
    ctx.level = "model_checking"
    ctx.assumptions += [
        "the expected fold is computed with Plonky2's native Poseidon2 over the 16 child limbs (not with the repo's hash_node)",
        "'the circuit accepts a real statement's tree path iff the native verifier accepts it' is formalised on canonical paths with one "
        "position per level (the circuit only ever sees field elements): DESIGN.md observation O2",
    ]
    cases = cases_of(ctx, "MC_Merkle")
    if cases is None:
        return core.finish(ctx)
    if ctx.replay:
        rc = json.loads(open(ctx.replay).read())["case"]
        if "case" in rc:
            cases = [rc["case"]]
    reps = 1 if (ctx.quick or ctx.replay) else 6
    allrows = []
    for k in range(reps):
        inp = ctx.workdir / f"mk_in_{k}.ndjson"
        inp.write_text("\n".join(json.dumps(c) for c in cases) + "\n")
        outp = ctx.workdir / f"mk_out_{k}.ndjson"
        core.vh(ctx, ["merkle-replay", inp, outp], timeout=3000, env_extra={"VERIF_SEED": str(ctx.seed * 1000 + k)})
        allrows += core.jsonl_read(outp)
    nvalid = 0
    distinct = set()
    for r in allrows:
        c = r["case"]
        ctx.cov["evaluations"] += 1
        distinct.add((c["depth"], c["plen"], c["pval"], c["canon"], c["rootok"], r["corrupt"], bool(r.get("tie"))))
        d = (f"depth={c['depth']} positions={c['plen']} position value={c['pval']} non-canonical hash={c['canon']} root matches fold={c['rootok']} "
             f"single corruption={r['corrupt']} sibling equal to the running hash={bool(r.get('tie'))}")
        bad = None
        n = r["native"]
        if n.get("panic") or r["build"].get("panic") or (isinstance(r["node"], dict) and r["node"].get("panic")):
            bad = "a native Merkle function panicked on proof bytes"
        elif n["verify"] != bool(c["verify"]) or n["verify_with_positions"] != bool(c["verify"]):
            bad = f"native verifier: model {bool(c['verify'])}, code verify={n['verify']} verify_with_positions={n['verify_with_positions']}"
        elif r["build"]["ok"] != bool(c["build"]):
            bad = f"from_unsorted: model {'succeeds' if c['build'] else 'fails'}, code {'succeeds' if r['build']['ok'] else 'fails'}"
        elif r["build"]["ok"] and r["corrupt"] in ("none", "root", "position") and c["canon"] == "all" and not r["build"]["positions_are_ranks"]:
            bad = "from_unsorted does not yield the sorted rank of the running hash as positions"
        elif c["verify"] == 1 and r["build"]["ok"] and not r["build"]["verifies"]:
            bad = "a proof built by from_unsorted for a valid path does not verify"
        elif isinstance(r["node"], dict) and not r["node"].get("order_independent_and_presorted", True):
            bad = "hash_node is not order-independent / differs from presorted hashing on sorted children / from the native fold"
        elif c["circuit"] != 2 and r["circuit"] is not None and r["circuit"] != bool(c["circuit"]):
            bad = f"leaf circuit on the same path: model {bool(c['circuit'])}, real circuit {r['circuit']} (native verifier says {n['verify']})"
        if c["verify"] == 1:
            nvalid += 1
        if bad:
            ctx.violation(f"{bad} [{d}]", {"engine": "merkle-replay", "case": c, "observed": {k: r[k] for k in r if k != "case"}})
        else:
            ctx.cov["traces_validated_against_impl"] += 1
    if nvalid == 0 and not ctx.replay:
        raise core.ToolError("vacuity: no valid path among the cases")
    ctx.cov["distinct_nontrivial"] = len(distinct)
    ctx.cov["rule"] = ("all proof classes of Merkle.tla (depth 0..17, positions shorter/equal/longer, position 4, non-canonical leaf / sibling limb "
                       "p, p+1, 2^64-1, root = fold or one single corruption among root / sibling / in-range position / leaf) realised as real "
                       "32-byte paths with sorted-rank positions, every second path (drawn) with one level whose siblings contain the running hash itself (tie: "
                       "duplicate child); each on ZkMerkleProof::{verify, verify_with_positions, from_unsorted}, "
                       "insert_at_position, hash_node(_presorted) and, for canonical paths, inside a real non-dummy statement on the real leaf "
                       "circuit; thorough repeats with 6 seeds. distinct = (class, corruption kind)")
    for r in allrows[:: max(1, len(allrows) // 3)][:3]:
        ctx.add_sample({"kind": "Merkle.tla proof class on the native API and the real leaf circuit", "case": r["case"], "corruption": r["corrupt"],
                        "native": r["native"], "circuit": r["circuit"]})
    ctx.cov["exhaustive"] = False
    return core.finish(ctx)


_N = "Trusted: TLC; Plonky2 (prover, verifier, native Poseidon2); the harness's honest-input builder written from the property text."
MANIFEST = {
    "engines": {"leafapi": dict(path="specs/LeafApi.tla specs/Merkle.tla specs/MC_LeafApi.tla specs/MC_Merkle.tla harness/src/leafapi.rs vlib/props/leafapi.py",
                                kind="TLA+ decision-procedure specs + TLC over all input classes + replay on the real prover / pinned verifier / parsers / "
                                     "native Merkle API / real leaf circuit")},
    "checks": {
        "C05": dict(engine="leafapi", ref="6.2", text="LeafApi.tla: the prover boundary as the ordered guards the code runs (depth bound, equal lengths, positions "
                    "0..3, then prove) against the declarative WellFormed predicate, never a panic; TLC over all 264 classes with MAX_DEPTH 16. Every class and an "
                    "honest sweep over all depths 0..16 run through the real WormholeProver::commit/prove, the pinned WormholeVerifier (fresh canonical "
                    "artifacts must pass its keccak pins), and the three leaf parsers; the 21 public inputs must be the statement in the stated order. "
                    "Completeness of the circuit itself on honest witnesses is also an invariant of Leaf.tla (HonestAccepted) and of LeafTrace.", note=_N),
        "C27": dict(engine="leafapi", ref="6.2", text="Merkle.tla: verify_with_positions as its guard sequence against the declarative Valid predicate, from_unsorted's "
                    "domain, and agreement with the leaf circuit's tree walk (the Depth / Positions / RootBind actions of Leaf.tla); TLC over all proof classes "
                    "with MAX_DEPTH 16. Every class is realised as real 32-byte paths (non-canonical limbs p, p+1, 2^64-1, and near misses: the alias v+p of a genuine limb with the root of the genuine path, a non-canonical depth-0 leaf equal to the root; single corruptions) on the native API "
                    "and, for canonical paths, on the real leaf circuit inside a real statement: all three verdicts must agree with the model.", note=_N),
    },
}
