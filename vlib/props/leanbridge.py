"""C34: the formal spec's theorems hold and the code matches its definitions.

Two halves (DESIGN.md sections 6.3 and 8):

1. "The Lean specification type-checks": decided by Lean's own kernel.  /repo/formal is COPIED to the run
   directory (never built in /repo) and `lake build` is run there; a build failure fails the check.  Then
   /verif/lean/Audit.lean lists every declaration of the package with the axioms it rests on (what
   `#print axioms` shows): `sorryAx`, or any axiom beyond the three logical ones and the two trusted-base axioms
   the package declares in Trusted.lean, fails the check.  /verif/lean/Statements.lean restates the
   conservation / encoding / security-reduction / bridge theorems from the property text and closes them with
   the repository's theorems, so a theorem that was weakened or removed fails the check as well.

2. "The code matches its definitions": three-way agreement  circuit = TLA+ spec = Lean executable definitions
   on every batch TLC draws from PrivateBatch.tla.
     circuit = TLA+   : wrappers.pb_replay (real wrapper circuit, every public input against the model's `out`)
     TLA+    = Lean   : /verif/lean/Driver.lean evaluates groupExits (maskedChildPairs ..), find? isRealB
                        (referenceFromFirstReal), buildNullifiers / nullifiersSorted / Perm on an equality- and
                        order-preserving embedding of the model values; the results are compared with the model's
                        `out` (accepted batches) and - on ALL batches, rejected ones too - by TLC itself against
                        the declarative BatchDecl module (/verif/lean/LeanBridge.tla, trace validation)
     circuit = Lean   : the same batches in the harness's REAL-value embedding (real Poseidon2 digests, amounts in
                        2^30 units): the Lean clauses are decided on the circuit's actual public inputs.

Finding F2 (a real leaf paying the all-zero account makes a dummy's slot carry that sum) is exactly
groupExits . maskedChildPairs: all three sides agree on it, so it is not a C34 disagreement."""
import json
import re
import shutil
import subprocess
import time
from .. import core
from ..registry import register
from . import wrappers as W

LEAN_DIR = core.ROOT / "lean"
LOGICAL_AXIOMS = {"propext", "Classical.choice", "Quot.sound"}
# the trusted base the package itself declares (formal/WormholeSpec/Trusted.lean): recursive-verifier soundness
TRUSTED_AXIOMS = {"WormholeSpec.leaf_proof_sound", "WormholeSpec.private_batch_proof_sound"}


# ------------------------------------------------------------------ part 1: lake build, axioms, statements
def _run(cmd, cwd, timeout, what):
    t = time.time()
    try:
        p = subprocess.run([str(x) for x in cmd], cwd=cwd, stdout=subprocess.PIPE, stderr=subprocess.STDOUT, text=True, timeout=timeout)
    except subprocess.TimeoutExpired:
        raise core.ToolError(f"timeout: {what}")
    except FileNotFoundError:
        raise core.ToolError(f"{cmd[0]} is not installed ({what})")
    return p.returncode, p.stdout, time.time() - t


def _strip_comments(src):
    """Lean comments: nested /- -/ blocks and -- line comments (string literals are not special-cased: the
    spec has none containing comment markers)"""
    out, i, depth = [], 0, 0
    while i < len(src):
        if src.startswith("/-", i):
            depth += 1
            i += 2
        elif depth and src.startswith("-/", i):
            depth -= 1
            i += 2
        elif depth:
            i += 1
        elif src.startswith("--", i):
            j = src.find("\n", i)
            i = len(src) if j < 0 else j
        else:
            out.append(src[i])
            i += 1
    return "".join(out)


def source_theorems(formal):
    names, sorries, axioms = [], [], []
    for f in sorted(formal.rglob("*.lean")):
        if ".lake" in f.parts:
            continue
        code = _strip_comments(f.read_text())
        names += [(f.name, m.group(2)) for m in re.finditer(r"^\s*(?:@\[[^\]]*\]\s*)?(?:private\s+|protected\s+)?(theorem|lemma)\s+([^\s:({\[]+)", code, re.M)]
        sorries += [f.name for _ in re.finditer(r"\bsorry\b", code)]
        axioms += [(f.name, m.group(1)) for m in re.finditer(r"^\s*axiom\s+([^\s:({\[]+)", code, re.M)]
    return names, sorries, axioms


def lean_build(ctx):
    """copy /repo/formal, lake build, audit.  Returns the scratch directory, or None if the spec does not check
    (violations recorded)."""
    src = core.REPO / "formal"
    if not (src / "lakefile.toml").exists():
        ctx.violation("the Lean specification does not check: /repo/formal/lakefile.toml is missing", {"engine": "lean-build"})
        return None
    dst = ctx.workdir / "formal"
    shutil.copytree(src, dst, ignore=shutil.ignore_patterns(".lake"))
    thms, sorries, src_axioms = source_theorems(dst)
    info = {"theorems_in_source": len(thms), "theorem_names": [n for _, n in thms], "axioms_in_source": [n for _, n in src_axioms]}
    ctx.cov["lean"] = info
    bt = 900 if ctx.quick else 1800
    # always a build from scratch (no .lake directory is copied): ~10 s on an idle machine, every theorem re-checked by the kernel
    rc, out, wall = _run(["lake", "build"], dst, bt, "lake build of the copied Lean package")
    info.update(build_s=round(wall, 1), build_rc=rc,
                lean_version=_run(["lean", "--version"], dst, 60, "lean --version")[1].strip()[:80])
    ctx.log(f"lake build (from scratch, copy of /repo/formal): rc={rc} in {wall:.1f}s")
    if rc != 0:
        errs = [l for l in out.splitlines() if "error" in l][:8]
        ctx.violation("the Lean specification does not check: `lake build` of a copy of /repo/formal fails (" + "; ".join(e.strip()[:200] for e in errs[:3]) + ")",
                      {"engine": "lean-build", "rc": rc, "output_tail": out[-4000:]})
        return None
    warn = [l.strip() for l in out.splitlines() if "warning" in l]
    info["build_warnings"] = warn[:20]
    if any("sorry" in w for w in warn) or sorries:
        ctx.violation(f"the Lean specification does not check: it contains `sorry` (files {sorted(set(sorries))}; build warnings: {[w[:160] for w in warn if 'sorry' in w][:3]})",
                      {"engine": "lean-build", "sorry_in": sorted(set(sorries)), "warnings": warn[:20]})
    # every declaration with the axioms it rests on
    rc, out, wall = _run(["lake", "env", "lean", LEAN_DIR / "Audit.lean"], dst, 900, "axiom audit (Audit.lean)")
    rows = [json.loads(l) for l in out.splitlines() if l.startswith("{")]
    if rc != 0 or not rows or "done" not in rows[-1]:
        raise core.ToolError("the axiom audit (lean/Audit.lean) did not run: " + out[-1500:])
    decls = rows[:-1]
    by_name = {r["name"]: r for r in decls}
    allowed = LOGICAL_AXIOMS | TRUSTED_AXIOMS
    bad = [(r["name"], sorted(set(r["axioms"]) - allowed)) for r in decls if set(r["axioms"]) - allowed]
    declared_axioms = sorted(r["name"] for r in decls if r["kind"] == "axiom")
    user_thms = []
    for _, n in thms:
        hit = [k for k in by_name if (k == n or k.endswith("." + n)) and by_name[k]["kind"] == "theorem"]
        if hit:
            user_thms.append(hit[0])
    info.update(audit_s=round(wall, 1), declarations=len(decls), theorems_checked=sum(1 for r in decls if r["kind"] == "theorem"),
                named_theorems_found_in_environment=len(user_thms), declared_axioms=declared_axioms,
                uses_trusted_axioms=sorted(r["name"] for r in decls if r["kind"] == "theorem" and set(r["axioms"]) & TRUSTED_AXIOMS),
                axioms_used=sorted({a for r in decls for a in r["axioms"]}))
    ctx.log(f"audit: {len(decls)} declarations, {info['theorems_checked']} theorems (incl. generated), {len(user_thms)}/{len(thms)} named theorems of the source found; "
            f"axioms used: {info['axioms_used']}")
    if bad:
        sorry = [n for n, a in bad if "sorryAx" in a]
        ctx.violation("the Lean specification does not check: " + (f"{len(sorry)} declaration(s) rest on `sorry` ({sorry[:4]}); " if sorry else "")
                      + f"declarations resting on axioms outside the logical ones and the package's trusted base: {bad[:5]}",
                      {"engine": "lean-audit", "offending": bad[:40], "declared_axioms": declared_axioms})
    if len(user_thms) < len(thms):
        missing = [n for _, n in thms if not any(k == n or k.endswith("." + n) for k in user_thms)]
        raise core.ToolError(f"audit: theorems named in the source but not found in the built environment: {missing[:10]}")
    if not thms:
        raise core.ToolError("vacuity: no theorem found in the Lean sources")

    # the theorems the property names, restated from its text
    rc, out, wall = _run(["lake", "env", "lean", LEAN_DIR / "Statements.lean"], dst, 900, "theorem restatements (Statements.lean)")
    stm = {m.group(1): [a.strip() for a in m.group(2).replace("\n", " ").split(",") if a.strip()]
           for m in re.finditer(r"'(C34\.\w+)' depends on axioms: \[([^\]]*)\]", out)}
    for m in re.finditer(r"'(C34\.\w+)' does not depend on any axioms", out):
        stm[m.group(1)] = []
    info.update(statements_s=round(wall, 1), restated_theorems=stm)
    if rc != 0:
        ctx.violation("the Lean specification does not check: the repository's theorems no longer prove the conservation / encoding / "
                      "security-reduction statements the property names (lean/Statements.lean fails: "
                      + "; ".join(l.strip()[:200] for l in out.splitlines() if "error" in l)[:600] + ")",
                      {"engine": "lean-statements", "output_tail": out[-4000:]})
        return None
    if len(stm) < 10:
        raise core.ToolError("Statements.lean: fewer restated theorems reported than expected: " + out[-1500:])
    weak = {k: v for k, v in stm.items() if set(v) - LOGICAL_AXIOMS}
    if weak:
        ctx.violation(f"the Lean specification does not check: the named theorems rest on non-logical axioms: {weak}",
                      {"engine": "lean-statements", "axioms": weak})
    ctx.cov["obligations"] = info["theorems_checked"] + len(stm)
    ctx.cov["discharged"] = ctx.cov["obligations"] if not ctx.violations else 0
    return dst


# ------------------------------------------------------------------ embeddings
SMALL = ("msl", "lsl", "bits")


def small_dig(kind, v):
    """equality- and order-preserving maps of the model's digest number line (0 = the zero digest) into 4 limbs,
    limb 0 most significant: the value in the most significant limb / in the least significant limb / its binary digits"""
    if not 0 <= v < 16:
        raise core.ToolError(f"model digest {v} outside the embeddable range")
    if kind == "msl":
        return [v, 0, 0, 0]
    if kind == "lsl":
        return [0, 0, 0, v]
    return [(v >> 3) & 1, (v >> 2) & 1, (v >> 1) & 1, v & 1]


def small_inv(kind):
    return {tuple(small_dig(kind, v)): v for v in range(16)}


def embed_case(c, dgf, scf, unit):
    """model batch -> JSON for Driver.lean.  dgf: digest map, scf(kind, v): scalar map, unit: amount unit"""
    ch = [{"asset": scf("asset", x["asset"]), "out1": x["out1"] * unit, "out2": x["out2"] * unit, "fee": scf("fee", x["fee"]),
           "null": dgf(x["null"], "null"), "exit1": dgf(x["exit1"], "acct"), "exit2": dgf(x["exit2"], "acct"), "block": dgf(x["block"], "block"),
           "number": scf("number", x["number"])} for x in c["ch"]]
    return {"ch": ch, "hh": [dgf(h, "null") for h in c["hh"]]}


def cand_from_vector(name, v, n):
    """the private-batch public-input vector (layout of the wrapper / of wrappers.pb_expected) as a structured output"""
    return {"name": name, "nslots": v[0], "asset": v[1], "fee": v[2], "block": v[3:7], "number": v[7],
            "slots": [[v[8 + 5 * k], v[9 + 5 * k: 13 + 5 * k]] for k in range(2 * n)],
            "nulls": [v[8 + 10 * n + 4 * k: 12 + 10 * n + 4 * k] for k in range(n)]}


def small_expected_vector(c, kind):
    """the model's `out` in a small embedding, same layout (scalars and amounts as themselves)"""
    o, n = c["out"], c["n"]
    v = [o["nslots"], o["asset"], o["fee"]] + small_dig(kind, o["block"]) + [o["number"]]
    for s in o["slots"]:
        v += [s[0]] + small_dig(kind, s[1])
    for x in o["nulls"]:
        v += small_dig(kind, x)
    return v


def run_driver(ctx, formal, cases, tag):
    inp = ctx.workdir / f"lean_in_{tag}.ndjson"
    inp.write_text("\n".join(json.dumps(c) for c in cases) + "\n")
    rc, out, wall = _run(["lake", "env", "lean", "--run", LEAN_DIR / "Driver.lean", inp], formal, 1800 if ctx.quick else 5400,
                         "evaluation of the Lean definitions (Driver.lean)")
    (ctx.workdir / f"lean_out_{tag}.ndjson").write_text(out)
    rows = [json.loads(l) for l in out.splitlines() if l.startswith("{")]
    if rc != 0 or not rows or rows[-1].get("done") != len(cases):
        if "error" in out and "Driver.lean" in out:
            # the driver only unfolds the spec's definitions; if it no longer elaborates against them the definitions
            # the property names are gone or have changed shape
            ctx.violation("the Lean driver no longer elaborates against the repository's definitions (groupExits / maskedChildPairs / "
                          "isRealB / referenceFromFirstReal / buildNullifiers / nullifiersSorted): "
                          + "; ".join(l.strip()[:200] for l in out.splitlines() if "error" in l)[:600],
                          {"engine": "lean-driver", "output_tail": out[-3000:]})
            return None
        raise core.ToolError("Driver.lean failed: " + out[-2000:])
    ctx.cov.setdefault("lean", {})["driver_s"] = round(wall, 1)
    ctx.log(f"Lean definitions evaluated on {len(cases)} embedded batches in {wall:.1f}s")
    return {r["id"]: r for r in rows[:-1]}


# ------------------------------------------------------------------ part 2: three-way agreement
def three_way(ctx, formal, cases, tally):
    """cases: TLC lines already replayed by wrappers.pb_replay (its in/out files are in the run directory)."""
    work = core.jsonl_read(ctx.workdir / "pb_in.ndjson")[:len(cases)]
    rows = core.jsonl_read(ctx.workdir / "pb_out.ndjson")
    emb, rows = rows[0]["emb"], rows[1:1 + len(cases)]
    unit = emb["amt_unit"]
    real_inv = {tuple(v): int(k) for k, v in emb["dig"].items()}
    real_inv.update({tuple(v): int(k) for k, v in emb.get("eq", {}).items()})
    lean_in = []
    for idx, c in enumerate(work):
        assert c["kind"] == "model" and c["ch"] == cases[idx]["ch"]
        n, kind = c["n"], SMALL[idx % 3]
        a = embed_case(c, lambda v, role="null": small_dig(kind, v), lambda k, v: v, 1)
        a.update(id=2 * idx, cands=[cand_from_vector("tla", small_expected_vector(c, kind), n)] if c["acc"] else [])
        b = embed_case(c, lambda v, role="null": W.dg(emb, v, role), lambda k, v: W.sc(emb, c, k, v), unit)
        h = rows[idx]["honest"]
        b.update(id=2 * idx + 1, cands=([cand_from_vector("tla", W.pb_expected(c, emb), n)] if c["acc"] else [])
                 + ([cand_from_vector("circuit", h["pis"], n)] if h["acc"] and len(h["pis"]) >= 8 + 14 * n else []))
        lean_in += [a, b]
    res = run_driver(ctx, formal, lean_in, "pb")
    if res is None:
        return
    checked = 0
    stat = {"batches": len(work), "model_accepts": 0, "circuit_accepts": 0, "real_pays_zero_account_agreeing": 0,
            "lean_metadata_clause_false_on_accepted": 0, "all_dummy": 0, "with_duplicate_account": 0}
    trace, sampled = [], {}
    clauses = ("exits", "ref", "perm", "sorted", "len")
    names = {"exits": "exitSlots = groupExits (maskedChildPairs leaves)", "ref": "referenceFromFirstReal",
             "perm": "nullifiers.Perm (buildNullifiers ..)", "sorted": "nullifiersSorted", "len": "nullifiers.length = leaves.length"}

    def decode(inv, d):
        return inv.get(tuple(d), {"limbs": d})

    for idx, c in enumerate(work):
        n, kind = c["n"], SMALL[idx % 3]
        inv = small_inv(kind)
        ls, lr = res[2 * idx], res[2 * idx + 1]
        h = rows[idx]["honest"]
        desc = f"N={n} children={W.compact(c['ch'])} hh={c['hh']}"
        nviol = len(ctx.violations)
        # --- Lean's values, decoded to model values
        l_slots = [[s[0], decode(inv, s[1])] for s in ls["slots"]]
        l_nulls = [decode(inv, d) for d in ls["sorted"]]
        r = ls["ref"]
        l_ref = ({"some": 1, "fee": r["fee"], "block": decode(inv, r["block"]), "number": r["number"], "asset": r["asset"]} if r
                 else {"some": 0, "fee": 0, "block": 0, "number": 0, "asset": 0})
        undec = [x for x in [s[1] for s in l_slots] + l_nulls + [l_ref["block"]] if isinstance(x, dict)]
        circ = circuit_view(h, n, real_inv, unit, emb, c) if h["acc"] else None
        tla = ({"slots": c["out"]["slots"], "ref": {k: c["out"][k] for k in ("fee", "block", "number", "asset")}, "nulls": c["out"]["nulls"]}
               if c["acc"] else None)
        lean = {"slots": l_slots, "ref": l_ref, "nulls": l_nulls}

        def viol(what, extra=None):
            ctx.violation(f"{what} [{desc}; circuit: {json.dumps(circ) if circ else 'rejects'}; TLA+: {json.dumps(tla) if tla else 'rejects'}; "
                          f"Lean: {json.dumps(lean)}]",
                          dict({"engine": "leanbridge", "case": cases[idx], "embedding": kind, "circuit": circ, "tla": tla, "lean": lean,
                                "lean_raw": ls, "lean_real_values": lr}, **(extra or {})))

        if undec:
            viol(f"the Lean definitions return a digest that is none of the batch's values ({undec[:2]})")
            continue
        # Lean's own consistency: the arranged list is certified by the spec's predicates; conservation theorem instance
        checked += 2
        if not ls["sorted_ok"] or not lr["sorted_ok"]:
            viol("the spec's nullifiersSorted / Perm reject the arrangement of buildNullifiers by the spec's own digestLt")
        if ls["total"] != ls["input_total"] or lr["total"] != lr["input_total"]:
            viol("slotsTotal (groupExits (maskedChildPairs leaves)) differs from inputExitTotal leaves on a concrete batch")
        # --- TLA+ (model output) = Lean, accepted batches; all batches go to TLC below
        if c["acc"]:
            stat["model_accepts"] += 1
            o = c["out"]
            checked += 3
            if l_slots != [list(s) for s in o["slots"]]:
                k = next(i for i, (x, y) in enumerate(zip(l_slots, o["slots"])) if x != list(y))
                viol(f"grouped exit slots: Lean's groupExits (maskedChildPairs ..) differs from the TLA+ specification at slot {k} "
                     f"(Lean {l_slots[k]}, TLA+ {o['slots'][k]})")
            if o["block"] == 0:
                okref = l_ref["some"] == 0
            else:
                okref = l_ref["some"] == 1 and (l_ref["fee"], l_ref["block"], l_ref["number"], l_ref["asset"]) == (o["fee"], o["block"], o["number"], o["asset"])
            if not okref:
                viol(f"first-real reference: Lean's `find? isRealB` gives {l_ref}, the TLA+ specification (fee, block, number, asset) = "
                     f"{(o['fee'], o['block'], o['number'], o['asset'])}")
            if l_nulls != o["nulls"]:
                viol(f"nullifier ordering: arranged by the spec's digestLt the nullifier region is {l_nulls}, the TLA+ specification has {o['nulls']}")
            for which, rr in (("model-value", ls), ("real-value", lr)):
                v = next((x for x in rr["cands"] if x["name"] == "tla"), None)
                if v is None:
                    raise core.ToolError("Driver.lean returned no verdict for the TLA+ output")
                for cl in clauses:
                    checked += 1
                    if not v[cl]:
                        viol(f"the Lean clause `{names[cl]}` rejects the output the TLA+ specification prescribes ({which} embedding)")
                if not v["meta"] and which == "model-value":
                    stat["lean_metadata_clause_false_on_accepted"] += 1
        # --- circuit = Lean, directly on the real public inputs
        if h["acc"]:
            stat["circuit_accepts"] += 1
            v = next((x for x in lr["cands"] if x["name"] == "circuit"), None)
            if v is None:
                viol("the real circuit's public-input vector is too short to hold the exit slots and the nullifier region")
            else:
                for cl in clauses:
                    checked += 1
                    if not v[cl]:
                        viol(f"the Lean clause `{names[cl]}` rejects the REAL circuit's public inputs (real-value embedding: Poseidon2 digests, "
                             f"amounts in 2^30 units)", {"pis": h["pis"]})
        if c["acc"] and h["acc"] and len(ctx.violations) == nviol:
            reals = [x for x in c["ch"] if not W.is_dummy(x)]
            if any((x["exit1"] == 0 and x["out1"]) or (x["exit2"] == 0 and x["out2"]) for x in reals):
                stat["real_pays_zero_account_agreeing"] += 1
        reals = [x for x in c["ch"] if not W.is_dummy(x)]
        stat["all_dummy"] += not reals
        accts = [e for x in reals for e in (x["exit1"], x["exit2"])]
        stat["with_duplicate_account"] += len(set(accts)) < len(accts)
        trace.append({"ch": c["ch"], "hh": c["hh"], "acc": c["acc"], "idx": idx,
                      "lean": {"slots": l_slots, "ref": {k: l_ref[k] for k in ("some", "fee", "block", "number")}, "nulls": l_nulls}})
        sk = "both_accept" if c["acc"] and h["acc"] else "rejected"
        sampled[sk] = sampled.get(sk, 0) + 1
        if sampled[sk] <= (2 if sk == "both_accept" else 1):
            ctx.add_sample({"kind": "TLC-drawn private batch: real circuit / TLA+ model / Lean definitions", "n": n, "children": W.compact(c["ch"]),
                            "hh": c["hh"], "embedding_for_lean": kind, "circuit": circ or "rejects", "tla": tla or "rejects", "lean": lean})
    # --- TLC decides TLA+ (BatchDecl) = Lean on every batch, rejected ones included
    if trace:
        tr = ctx.workdir / "lean_trace.ndjson"
        tr.write_text("\n".join(json.dumps(t) for t in trace) + "\n")
        r = core.run_tlc(ctx, str(LEAN_DIR / "LeanBridge"), str(LEAN_DIR / "LeanBridge.cfg"), workers=1, timeout=1800, coverage=False,
                         extra_java=["-Dtlc2.tool.queue.IStateQueue=StateDeque", f"-DTLA-Library={core.SPECS}"],
                         env_extra={"TRACE": str(tr)}, expect_violation=True, xmx="4g", tags=("TRACEFAIL", "TRACEOK"), quiet=True)
        ctx.cov["states"] += r["distinct"]
        ctx.cov["transitions"] += r["generated"]
        ctx.cov["tlc_runs"].append({"module": "lean/LeanBridge", "cfg": "lean/LeanBridge.cfg", "distinct": r["distinct"], "generated": r["generated"],
                                     "wall_s": round(r["wall_s"], 1), "trace": tr.name})
        if r["ok"] and r["prints"].get("TRACEOK"):
            checked += 4 * len(trace)
            ctx.cov["traces_validated_against_impl"] += len(trace)
            ctx.log(f"TLC (LeanBridge over BatchDecl): Lean's slots / first-real / ordering equal the declarative TLA+ values on all {len(trace)} batches "
                    f"({sum(1 for t in trace if not t['acc'])} of them rejected by the wrapper)")
        else:
            fail = r["prints"].get("TRACEFAIL", [])
            if not fail:
                raise core.ToolError("LeanBridge.tla: TLC neither accepted nor reported the first unmatched record:\n" + r["out"][-2000:])
            info = json.loads(fail[0])
            ev = info["first_unmatched"]
            c = work[ev["idx"]]
            differ = [k for k, v in info["agree"].items() if not v]
            ctx.violation(f"TLC: the Lean definitions disagree with the declarative TLA+ specification (BatchDecl) on {differ} "
                          f"[N={c['n']} children={W.compact(c['ch'])} hh={c['hh']}; TLA+: {json.dumps(info['tla'])}; Lean: {json.dumps(ev['lean'])}; "
                          f"circuit: {'accepts' if rows[ev['idx']]['honest']['acc'] else 'rejects'}]",
                          {"engine": "leanbridge-tlc", "case": cases[ev["idx"]], "tla": info["tla"], "lean": ev["lean"], "agree": info["agree"],
                           "records_matched_before": info["matched"]})
    ctx.cov["disagreements_checked"] = ctx.cov.get("disagreements_checked", 0) + checked
    ctx.cov["three_way"] = stat
    if stat["lean_metadata_clause_false_on_accepted"]:
        ctx.log(f"note (not judged): on {stat['lean_metadata_clause_false_on_accepted']} accepted batches Lean's metadataConsistent is false - it also equates the "
                "block NUMBERS of real children, which the wrapper leaves to the leaf circuit's header binding (real children sharing a hash share the number)")
    return stat


def circuit_view(h, n, real_inv, unit, emb, c):
    """the real circuit's public inputs read back in model values where they are values of the embedding"""
    p = h["pis"]
    if len(p) < 8 + 14 * n:
        return {"pis": p}
    dd = lambda d: real_inv.get(tuple(d), {"limbs": d})
    inv_sc = lambda kind, v: next((i for i, x in enumerate(emb["scal"][c.get("mode", 0)][kind]) if x == v), {"value": v})
    return {"slots": [[p[8 + 5 * k] // unit if p[8 + 5 * k] % unit == 0 else {"value": p[8 + 5 * k]}, dd(p[9 + 5 * k: 13 + 5 * k])] for k in range(2 * n)],
            "ref": {"fee": inv_sc("fee", p[2]), "block": dd(p[3:7]), "number": inv_sc("number", p[7]), "asset": inv_sc("asset", p[1])},
            "nulls": [dd(p[8 + 10 * n + 4 * k: 12 + 10 * n + 4 * k]) for k in range(n)]}


RULE = ("part 1: every declaration of the Lean package (lake build of a copy of /repo/formal, Lean's kernel) with its axioms; the named theorems "
        "restated. part 2: private batches drawn by TLC (-simulate over PrivateBatch.tla, N = 2, 3 (thorough also 1): compatible real statements, "
        "dummies, conflicts, repeated accounts, sums around the range bound, the zero account, duplicate nullifiers); each batch is run on the real "
        "wrapper circuit (all public inputs vs the model), evaluated by the Lean definitions in a small embedding (3 rotating: value in the most / "
        "least significant limb / binary digits) and in the harness's real-value embedding; Lean's slots, first-real reference and nullifier "
        "arrangement are compared with the model's `out` and, on all batches including rejected ones, by TLC with the declarative BatchDecl "
        "module; the Lean clauses are decided on the real circuit's public inputs. distinct_nontrivial = distinct batches; programs = the three "
        "implementations compared (circuit, TLA+ specification, Lean definitions); disagreements_checked = individual comparisons made")


@register("C34")
def check_c34(ctx):
    tally, rng = W.common(ctx)
    ctx.level = "translation_validation"
    ctx.cov["programs"] = 3
    ctx.cov["disagreements_checked"] = 0
    ctx.cov["rule"] = RULE
    ctx.cov["exhaustive"] = False
    ctx.cov["checker_cmd"] = "lake build  (in a copy of /repo/formal);  lake env lean lean/Audit.lean;  lake env lean lean/Statements.lean"
    ctx.cov["trusted_base"] = ["Lean 4 kernel and evaluator (lean --run)", "TLC", "Plonky2 prover/verifier (wrapper-only circuit)",
                               "axioms propext / Classical.choice / Quot.sound", "WormholeSpec.leaf_proof_sound, WormholeSpec.private_batch_proof_sound (the package's declared trusted base)"]
    ctx.assumptions += [
        "theorem checking is Lean's kernel (lake build + axiom collection); TLC decides only the agreement TLA+ = Lean on the exported batches",
        "the hash is not evaluated in Lean: the abstract oracle is instantiated by the projection H [a,b,c,d] = <a,b,c,d> so that "
        "ro.dummyNull (hh_i).toList = hh_i, the replacement nullifier of the batch (the real Poseidon2 value in the real-value embedding)",
        "Lean's Felt is Nat: sums do not wrap; batches the wrapper accepts have grouped sums below 2^32, where both coincide",
        "Lean's metadataConsistent (which also equates block numbers of real children) and the wrapper's acceptance conditions (range check, "
        "nullifier uniqueness, asset of dummies) are outside the three compared definitions; they are counted, not judged",
    ]
    formal = lean_build(ctx)
    if formal is not None:
        if W.pb_model(ctx):
            per_n = [(2, 150), (3, 170)] if ctx.quick else [(1, 200), (2, 1500), (3, 1500)]
            cases = None
            if ctx.replay:
                rc = json.loads(open(ctx.replay).read())["case"]
                if isinstance(rc.get("case"), dict) and all(k in rc["case"] for k in ("n", "ch", "hh", "acc", "out")):
                    cases = [{k: rc["case"][k] for k in ("n", "ch", "hh", "acc", "out")}]
            if cases is None:
                cases = W.pb_cases(ctx, per_n)
            if cases is not None:
                stats = W.pb_replay(ctx, cases, tally, 0.0, rng)
                ctx.cov["pb_replay"] = stats
                if (stats["accepted"] == 0 or stats["rejected"] == 0) and not ctx.replay:
                    raise core.ToolError(f"vacuity: replayed private batches accepted={stats['accepted']} rejected={stats['rejected']}")
                ctx.cov["disagreements_checked"] += stats["accepted"] + stats["rejected"]
                stat = three_way(ctx, formal, cases, tally)
                ctx.cov["distinct_nontrivial"] = len(cases)
                if stat and not ctx.replay and not ctx.violations:
                    if stat["with_duplicate_account"] == 0 or stat["all_dummy"] == 0 or stat["real_pays_zero_account_agreeing"] == 0:
                        raise core.ToolError(f"vacuity: the explored batches miss a class the definitions distinguish: {stat}")
    # circuit != TLA+ is a C34 disagreement too ("the code matches the definitions")
    W.report(ctx, tally, "C34", also=("C06", "C07"))
    return core.finish(ctx)


MANIFEST = {
    "engines": {"leanbridge": dict(
        path="lean/Driver.lean lean/Audit.lean lean/Statements.lean lean/LeanBridge.tla lean/LeanBridge.cfg specs/BatchDecl.tla specs/PrivateBatch.tla "
             "specs/MC_PrivateBatch.tla harness/src/wrapper.rs vlib/props/leanbridge.py vlib/props/wrappers.py",
        kind="Lean kernel (lake build of a copy of the repository's package, axiom audit, restated theorems) + three-way translation validation "
             "circuit = TLA+ = Lean on TLC-exported batches (replay on the real wrapper circuit, Lean evaluation of the spec's definitions, "
             "TLC trace validation against BatchDecl)")},
    "checks": {
        "C34": dict(engine="leanbridge", ref="6.3 and 8", category="translation_validation",
                    text="The repository's Lean package is copied and built with lake (Lean's kernel checks every theorem); every declaration is audited for "
                         "sorry / foreign axioms and the conservation, encoding, security-reduction and bridge theorems are restated from the property text "
                         "and closed by the repository's theorems. Private batches drawn by TLC from PrivateBatch.tla are then run on the REAL wrapper "
                         "circuit (every public input against the model), evaluated by the Lean definitions groupExits (maskedChildPairs ..), find? isRealB "
                         "/ referenceFromFirstReal, buildNullifiers / nullifiersSorted / Perm, and the three are compared: Lean vs the model's output, Lean "
                         "vs the declarative BatchDecl module by TLC on all batches (rejected ones too), and the Lean clauses decided directly on the real "
                         "circuit's public inputs in the real-value embedding.",
                    technique="Lean proof checking for the theorem half (not TLA+, see DESIGN.md section 8); explicit TLA+ specification checked by TLC, bound to "
                              "the real circuit by replay and to the Lean definitions by evaluation + TLC trace validation for the agreement half",
                    note="Trusted: Lean 4 kernel, elaborator and `lean --run` evaluator; TLC; Plonky2; the two axioms of Trusted.lean (recursive-verifier "
                         "soundness) are the package's declared trusted base and are allowed only where it uses them. The hash is abstract in Lean and is "
                         "instantiated by a projection, so H(H(u)) is not recomputed there. Agreement is established on sampled batches with N <= 3 "
                         "(quick ~300, thorough ~3000), not for all inputs; Lean's acceptance-side clause metadataConsistent and the public-batch "
                         "definitions are not compared."),
    },
}
