"""C17: artifact loaders accept only canonical circuits and bound their reads.

Loaders.tla: every loader of the repo as the sequence of actions it runs over its artifacts (size check, read, byte
pin / keccak pin / decode + semantic pin, use), the artifact classes of the property's quantifier as cases, and the
property as invariants (accepted => canonical for the configured shape; over the cap => rejected at the size check
with the artifact neither read nor hashed; no action on a prover artifact).  TLC explores every (loader, slot, class)
cell; every cell is then realised as concrete bytes / files / directories derived from ONE canonical generation of
this run and handed to the real loader (harness/src/bin_art/loaders.rs), and the observation is compared with the
model's verdict, its read set (bytes requested from the kernel) and the canonical rebuild."""
import json
from .. import core
from ..registry import register

SLACK = 256 * 1024          # bytes of reads tolerated beyond the model's read set (/proc reads of the meter itself, ...)
FAULT_SLACK = 64            # pages touched tolerated around a rejected over-cap slice
REPPED = {"flip_header", "flip_middle", "flip_tail", "extended", "othershape"}
OVER = {"capplus1", "sparse"}
SPEC_MUTANTS = ("CapAfterRead", "ReadsProver", "LenOnly", "SemIgnoresTail", "WrongCap")


def describe(c):
    what = (f"{c['class']} artifact in slot {c['slot']}" if c["slot"] != "none" else
            "canonical artifacts" + (", configured for another shape (2 leaves)" if c["cfg"] == "other" else "") +
            (f", prover artifacts planted as {c.get('extras_mode')}" if c.get("extras") else ""))
    return f"loader {c['loader']} ({c['kind']}): {what}" + (f" [variant {c['rep']}]" if c.get("rep") else "")


def build_cases(rows, quick):
    """TLC rows -> harness cases.  Rows that differ only in the free `sem` attribute are one concrete case."""
    groups = {}
    for r in rows:
        key = (r["loader"], r["slot"], r["class"], r["cfg"], r["extras"])
        groups.setdefault(key, {})[r["sem"] if r["semfree"] else None] = r
    cases = []
    for key in sorted(groups):
        g = groups[key]
        base = g.get(None) or g.get(0)
        reps = (1 if quick else 8) if base["class"] in REPPED else 1
        modes = ["dirs", "files"] if base["extras"] else [None]
        for rep in range(reps):
            for mode in modes:
                c = {k: base[k] for k in ("loader", "kind", "cap", "slot", "class", "semfree", "cfg", "extras", "slots")}
                c["rep"] = rep
                if mode:
                    c["extras_mode"] = mode
                over = base["class"] in OVER
                plain = base["slot"] == "none" and base["cfg"] == "same" and base["kind"] != "bytes"
                c["metered"] = 1 if (over or plain) else 0
                c["model"] = {("free" if s is None else str(s)): {k: r[k] for k in ("verdict", "stage", "read", "hashed")}
                              for s, r in g.items()}
                cases.append(c)
    return cases


def model_row(c, obs):
    m = c["model"]
    if "free" in m:
        return m["free"]
    return m["1" if obs.get("sem_equal") else "0"]


def judge(ctx, c, o, notes):
    """-> list of violation texts for one cell"""
    bad = []
    m = model_row(c, o)
    got = o["verdict"]
    sizes = o.get("sizes", {})
    if m["verdict"] == "rejected" and got == "ok":
        bad.append(f"accepted where the model rejects at '{m['stage']}'")
    if got == "ok" and o.get("held_canonical") is False:
        bad.append("accepted, and what it holds / wrote is not the canonical data for the configured shape")
    if got == "panic":
        notes["panics"] = notes.get("panics", 0) + 1
    meter = o.get("meter")
    if meter and c["slot"] != "none" and c["class"] in OVER and c["cap"] > 0:
        bound = sum(sizes.get(s, 0) for s in m["read"]) + SLACK
        big = sizes.get(c["slot"], 0)
        if meter.get("rchar") is None:
            notes["no_rchar"] = notes.get("no_rchar", 0) + 1
        elif meter["rchar"] > bound:
            bad.append(f"requested {meter['rchar']} bytes from the kernel before rejecting a {big}-byte artifact over the "
                       f"{c['cap']}-byte cap (the model's read set allows {bound})")
        if c["kind"] == "bytes":
            if meter.get("minflt") is None:
                notes["no_minflt"] = notes.get("no_minflt", 0) + 1
            elif meter["minflt"] > FAULT_SLACK:
                bad.append(f"touched {meter['minflt']} fresh pages of an over-cap slice ({o['given'].get(c['slot'])} bytes "
                           f"handed over, cap {c['cap']}): the slice was walked (hashed or copied) before the rejection")
        elif c["class"] == "sparse" and meter["alloc_largest"] >= big:
            bad.append(f"requested a {meter['alloc_largest']}-byte buffer for a {big}-byte file over the cap")
    if c["extras"]:
        if got != "ok" and notes.get("plain_ok", {}).get(c["loader"]):
            bad.append("a directory that differs from the accepted canonical one only by planted prover artifacts is "
                       f"no longer accepted ({got}): the loader touches a prover artifact")
        if meter and meter.get("rchar") is not None:
            bound = sum(sizes.get(s, 0) for s in m["read"]) + SLACK
            if meter["rchar"] > bound:
                bad.append(f"requested {meter['rchar']} bytes from the kernel, its declared files hold {bound - SLACK}")
        pl = o.get("planted") or {}
        if pl.get("atime_probe_works") and pl.get("atime_moved"):
            bad.append(f"the access time of planted {pl['atime_moved']} moved during the call")
        if pl and not pl.get("atime_probe_works"):
            notes["atime_blind"] = notes.get("atime_blind", 0) + 1
        if o.get("planted_dirs_intact") is False:
            bad.append("a planted prover directory was replaced")
    elif meter and c["slot"] == "none" and meter.get("rchar") is not None and got == "ok":
        bound = sum(sizes.get(s, 0) for s in m["read"]) + SLACK
        if meter["rchar"] > bound:
            bad.append(f"requested {meter['rchar']} bytes from the kernel, its declared files hold {bound - SLACK}")
    return bad


def strace_pass(ctx, cases, root):
    """thorough tier: the directory cells with planted prover artifacts once more under `strace -e trace=openat`;
    nothing named *prover.bin may be opened between the harness' begin/end markers of a cell"""
    import os
    import re
    import shutil
    import subprocess
    if not shutil.which("strace"):
        ctx.cov["strace"] = "strace not available"
        return
    sub = [dict(c, metered=1) for c in cases if c["extras"]]
    inp, out, tr = ctx.workdir / "strace_in.ndjson", ctx.workdir / "strace_out.ndjson", ctx.workdir / "strace.txt"
    inp.write_text("\n".join(json.dumps(c) for c in sub) + "\n")
    env = dict(os.environ, VERIF_SEED=str(ctx.seed), VH_ART_MARKS="1")
    cmd = ["strace", "-f", "-qq", "-e", "trace=open,openat", "-o", str(tr),
           str(core.VH.parent / "vh-art"), "loaders-replay", str(root), str(inp), str(out)]
    try:
        p = subprocess.run(cmd, cwd=core.ROOT, env=env, stdout=subprocess.PIPE, stderr=subprocess.PIPE, text=True, timeout=3600)
    except subprocess.TimeoutExpired:
        raise core.ToolError("strace pass timed out")
    if p.returncode != 0 or not tr.exists():
        ctx.cov["strace"] = f"strace could not run here (rc={p.returncode}): {p.stderr[-200:]}"
        return
    cur, windows, opened = None, 0, 0
    for line in tr.read_text(errors="replace").splitlines():
        m = re.search(r'"/vh-art-mark/(begin|end)-(\d+)"', line)
        if m:
            cur = int(m.group(2)) if m.group(1) == "begin" else None
            windows += m.group(1) == "begin"
            continue
        if cur is not None and "open" in line:
            opened += 1
            if re.search(r'prover\.bin"', line):
                c = sub[cur]
                ctx.violation(f"{describe(c)}: opened a prover artifact during the call: {line.strip()[:160]}",
                              {"engine": "loaders-replay", "cell": c, "strace": line.strip()[:300]})
    if windows != len(sub):
        raise core.ToolError(f"strace pass: {windows} marked windows for {len(sub)} cells")
    ctx.cov["strace"] = {"cells": len(sub), "opens_inside_calls": opened}
    ctx.cov["evaluations"] += len(sub)


@register("C17")
def check(ctx):
    core.build_harness(ctx, "vh-art")
    ctx.level = "model_checking"
    ctx.assumptions += [
        "one canonical artifact set per run, produced by the repo's generate_all_circuit_binaries(dir, true, 1, Some(1)) "
        "and required to equal the harness' own rebuild from the circuit constructors; configured shape (1 leaf, 1 inner "
        "proof), 'another shape' = 2 leaves / 2 inner proofs, 'other config' = the same circuit logic under the zk / "
        "non-zk recursion config",
        "one slot deviates per case; bit flips are one seeded position per region (header = first 16 bytes, middle half, "
        "tail = last 16 bytes), 1 (quick) / 8 (thorough) variants per region",
        "'not read' = bytes requested from the kernel during the call (/proc/self/io rchar) stay within the sizes of the "
        "files the model reads before the rejection (+256 KiB slack); 'not hashed' for slices = fresh pages touched "
        "(/proc/self/stat minflt) while a lazily mapped over-cap slice is handed over stay below 64",
        "for the semantic (public-batch) pin, whether a non-canonical byte string of the same circuit decodes to the "
        "canonical data is decided by Plonky2's deserialiser on the concrete bytes, not by the model",
        "size caps are the two the code documents: 1 MiB for WormholeVerifier (files and slices), 64 MiB for the "
        "aggregator's file reader; the aggregator's byte-slice loaders have no cap of their own",
    ]
    res = core.run_tlc(ctx, "MC_Loaders", "MC_Loaders.cfg", workers=4, timeout=900, coverage=False)
    if res["violated"]:
        ctx.violation(f"TLC: {res['violated']} violated in Loaders model", {"tlc": core.tlc_counterexample(res["out"])})
        return core.finish(ctx)
    if not ctx.quick or getattr(ctx, "selftest", False):
        for m in SPEC_MUTANTS:
            r = core.run_tlc(ctx, "MC_Loaders", f"MC_Loaders_mut{m}.cfg", workers=2, timeout=600, coverage=False,
                             expect_violation=True, quiet=True)
            if not r["violated"]:
                raise core.ToolError(f"vacuity: spec mutant MC_Loaders_mut{m}.cfg is accepted by TLC")
            ctx.cov.setdefault("spec_mutants_rejected", []).append(m)
    rows = [json.loads(x) for x in sorted(set(res["prints"].get("REPLAY", [])))]
    if not rows:
        raise core.ToolError("no cells emitted by MC_Loaders")
    cases = build_cases(rows, ctx.quick)
    rep = None
    if ctx.replay:
        rep = json.loads(open(ctx.replay).read())
        cases = [rep["case"]["cell"]]
    root = ctx.workdir / "art"
    inp, out = ctx.workdir / "loaders_in.ndjson", ctx.workdir / "loaders_out.ndjson"
    inp.write_text("\n".join(json.dumps(c) for c in cases) + "\n")
    env = {"VERIF_SEED": str(rep.get("seed", ctx.seed))} if rep else None
    core.vh(ctx, ["loaders-replay", root, inp, out], bin="vh-art", timeout=7200, env_extra=env)
    obs = {}
    done = False
    for r in core.jsonl_read(out):
        if "i" in r:
            obs[r["i"]] = r
        done = done or r.get("done", False)
    if not done or len(obs) != len(cases):
        raise core.ToolError(f"loaders-replay returned {len(obs)} of {len(cases)} cells")
    notes, per_loader, distinct, canon_rejected = {}, {}, set(), []
    notes["plain_ok"] = {c["loader"]: obs[i].get("verdict") == "ok" for i, c in enumerate(cases)
                         if c["slot"] == "none" and c["cfg"] == "same" and not c["extras"]}
    for i, c in enumerate(cases):
        o = obs[i]
        if "tool_error" in o:
            raise core.ToolError(f"loaders-replay: {o['tool_error']} on {describe(c)}")
        ctx.cov["evaluations"] += 1
        distinct.add((c["loader"], c["slot"], c["class"], c["cfg"], c["extras"], c.get("extras_mode"), c["rep"]))
        st = per_loader.setdefault(c["loader"], {"ok": 0, "rejected": 0})
        st["ok" if o["verdict"] == "ok" else "rejected"] += 1
        if c["slot"] == "none" and c["cfg"] == "same" and not c["extras"] and o["verdict"] != "ok":
            canon_rejected.append(c["loader"])
        bad = judge(ctx, c, o, notes)
        for b in bad[:2]:
            ctx.violation(f"{describe(c)}: {b}", {"engine": "loaders-replay", "cell": c, "observed": o})
        if not bad:
            ctx.cov["traces_validated_against_impl"] += 1
    if rep is None and not ctx.violations:
        if canon_rejected:
            raise core.ToolError(f"vacuity: the canonical artifacts of this run are not accepted by {sorted(set(canon_rejected))}")
        silent = [l for l, st in per_loader.items() if st["ok"] == 0 or st["rejected"] == 0]
        if silent:
            raise core.ToolError(f"vacuity: loaders that did not both accept and reject: {silent}")
        if notes.get("no_rchar") or notes.get("no_minflt"):
            raise core.ToolError("the read / page-touch meters are unavailable (/proc/self/io, /proc/self/stat)")
    if rep is None and not ctx.quick and not ctx.violations:
        strace_pass(ctx, cases, root)
    ctx.cov["distinct_nontrivial"] = len(distinct)
    ctx.cov["per_loader"] = per_loader
    ctx.cov["notes"] = notes
    ctx.cov["classes"] = sorted({c["class"] for c in cases})
    ctx.cov["rule"] = ("one evaluation per concrete cell handed to a real loader: every (loader, slot, artifact class) TLC "
                       "emitted for the 14 loaders (WormholeVerifier bytes/files, leaf and private-batch byte pins, "
                       "PrivateBatchProver / PublicBatchProver bytes/files/dir, both build steps, aggregator init, config "
                       "load), plus the all-canonical directory per loader (plain, configured for another shape, with "
                       "planted prover artifacts as directories and as files); distinct = distinct (loader, slot, class, "
                       "configured shape, extras, variant); every cell except the plain canonical ones carries one "
                       "deviation and is non-trivial by construction")
    for c in cases[:: max(1, len(cases) // 5)][:5]:
        ctx.add_sample({"kind": "cell handed to the real loader", "cell": describe(c),
                        "model": c["model"], "observed": {k: obs[cases.index(c)].get(k) for k in ("verdict", "held_canonical", "meter", "sem_equal")}})
    ctx.cov["exhaustive"] = rep is None
    return core.finish(ctx)


MANIFEST = {
    "engines": {"loaders": dict(
        path="specs/Loaders.tla specs/MC_Loaders.tla harness/src/bin_art/loaders.rs harness/src/bin_art/canon.rs "
             "harness/src/bin_art/meter.rs vlib/props/loaders.py",
        kind="TLA+ decision-procedure spec (each loader as its ordered actions: size check, read, byte / keccak pin, decode + "
             "semantic pin) + TLC exhaustive over (loader, slot, artifact class, configured shape, planted prover artifacts) + "
             "replay of every cell on the real loaders with read / page-touch / allocation meters")},
    "checks": {
        "C17": dict(engine="loaders", ref="6.4", category="model_checking",
                    text="Loaders.tla writes the 14 artifact loaders of the repo (WormholeVerifier::new_from_bytes/_files, "
                         "load_canonical_leaf_verifier_data, load_canonical_private_batch_verifier_data, PrivateBatchProver and "
                         "PublicBatchProver ::new_from_bytes/_files/_binaries_dir, generate_private_batch_/generate_public_batch_"
                         "circuit_binaries, PublicBatchAggregator::new, CircuitBinsConfig::load) as the ordered actions the code "
                         "runs, and the property as invariants: accepted => every pinned verifier artifact is canonical for the "
                         "configured shape (bytes for leaf and private batch, decoded data for the public batch); over the cap "
                         "=> rejected at the size check, never read or hashed; no action on a prover artifact. TLC explores "
                         "every (loader, slot, class) cell: canonical, canonical for another shape, other config, truncated, "
                         "extended, bit flip in header / middle / tail, exactly at the cap, cap + 1, 16 x cap sparse, another "
                         "configured shape, planted prover.bin / private_batch_prover.bin / public_batch_prover.bin. Every cell "
                         "is realised from one canonical generation of the run and handed to the real loader under "
                         "catch_unwind; compared: Ok/Err against the model, on Ok the held / written data against a fresh "
                         "rebuild, bytes requested from the kernel against the model's read set, pages touched of lazily mapped "
                         "over-cap slices, access times of planted prover files. Five spec mutants must be rejected by TLC.",
                    note="Trusted: TLC; Plonky2's serialiser / deserialiser (the semantic oracle for the public-batch pin) and "
                         "circuit builder determinism (checked per run: generated directory = fresh rebuild); /proc accounting. "
                         "One deviating slot per case; shapes (1,1) vs 2; the 'hashed' observation exists only for slices "
                         "(WormholeVerifier::new_from_bytes); for files 'read' subsumes it. Loaders rejecting canonical "
                         "artifacts are reported as a tool error (the property only bounds acceptance)."),
    },
}
