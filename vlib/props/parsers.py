"""C24: public-input parsers are total, exact and mutually consistent.

Parsers.tla: the three layouts (21; 8+21N; 12+14MN), the five parsers as the guard sequences the code runs
(each guard names the highest index it reads), WellFormed written from the property text, and the positions
at which fields are written and read.  TLC checks on every case: no panic, verdict <=> WellFormed, felt parser =
u64 parser on the canonical image, a u64 limb >= p inside the structure is rejected, Parse(Serialize(s)) = s.
Every case is synthesised as a real vector and pushed through the real parsers; random valid structures are
round-tripped; random vectors run through the real parsers are classified by ParsersTrace.tla."""
import json
from .. import core
from ..registry import register


def describe(c):
    where = {"leaf": "leaf", "priv": f"private batch written for {c['n0']} leaves",
             "pub": f"public batch written for {c['m0']}x{c['n0']}, parsed with ({c['m']}, {c['n']})"}[c["p"]]
    hdr = "" if c["p"] == "leaf" else f", header constant {c['hdr']['c']}:{c['hdr']['n']}"
    ov = ", ".join(f"[{o['pos']}]={o['c']}" for o in c["ov"]) or "no other corruption"
    return f"{c['dom']} vector, {where}, length {c['len']}{hdr}, {ov}"


def verdict_class(model):
    return "na" if model == "na" else ("ok" if model == "ok" else "err")


def judge(c, r):
    """list of violation texts for one replayed case"""
    out = []
    for which, name in (("u64", "u64 parser"), ("felt", "felt parser")):
        want, got = verdict_class(c[which]), r[which]
        if want == "na" and got == "na":
            continue
        if got == "panic":
            out.append(f"the {c['p']} {name} panicked")
        elif want == "na" or got == "na":
            out.append(f"harness/model disagree on whether the {name} applies (model {want}, harness {got})")
        elif want == "ok" and got == "err":
            out.append(f"the {c['p']} {name} rejected a well-formed vector")
        elif want == "err" and got == "ok":
            out.append(f"the {c['p']} {name} accepted a vector the model rejects at guard '{c[which]}'")
    if r.get("agree") is False:
        out.append(f"the {c['p']} u64 and felt parsers returned different structures")
    if r.get("reser_u64") is False:
        out.append(f"the structure returned by the {c['p']} u64 parser does not serialise back to the input")
    if r.get("reser_felt") is False:
        out.append(f"the structure returned by the {c['p']} felt parser does not serialise back to the input")
    return out


@register("C24")
def check(ctx):
    core.build_harness(ctx)
    ctx.level = "model_checking"
    ctx.assumptions += [
        "a vector is described by its length, its header constant and the positions that leave the class 'canonical "
        "value below 2^32' (classes 0, 2^32-1, >=2^32, p-1, p, 2^64-1, non-canonical felt representation); cases carry "
        "at most one (quick) or two (thorough) corruptions at first/last positions of every field kind; random vectors "
        "with up to three corrupted positions anywhere are classified by ParsersTrace.tla",
        "the padding of a private batch (7N values after the content) is not part of the structure: neither parser "
        "reads it, WellFormed does not constrain it; a u64 limb >= p there has no felt counterpart and is logged, not judged",
        "'agree on every input' = the felt parser on a felt vector and the u64 parser on its canonical image return the "
        "same verdict and equal structures; a u64 limb >= p inside the structure must be rejected",
        "public-batch parsing is only available on u64 values (there is no felt-based public-batch parser)",
    ]
    cfg = "MC_Parsers_quick.cfg" if ctx.quick else "MC_Parsers_thorough.cfg"
    res = core.run_tlc(ctx, "MC_Parsers", cfg, workers=8, timeout=1500, coverage=False)
    if res["violated"]:
        ctx.violation(f"TLC: {res['violated']} violated in Parsers model ({cfg})", {"tlc": core.tlc_counterexample(res["out"])})
        return core.finish(ctx)
    if not ctx.quick or getattr(ctx, "selftest", False):
        for m in ("HdrConst", "DigestLimb", "Count"):
            r = core.run_tlc(ctx, "MC_Parsers", f"MC_Parsers_mut{m}.cfg", workers=4, timeout=900, coverage=False,
                             expect_violation=True, quiet=True)
            if not r["violated"]:
                raise core.ToolError(f"vacuity: spec mutant MC_Parsers_mut{m}.cfg is accepted by TLC")
            ctx.cov.setdefault("spec_mutants_rejected", []).append(m)
    lines = sorted(set(res["prints"].get("REPLAY", [])))
    rep_file = json.loads(open(ctx.replay).read()) if ctx.replay else None
    rep = rep_file["case"] if rep_file else None
    rseed = {"VERIF_SEED": str(rep_file.get("seed", ctx.seed))} if rep_file else None
    if rep is not None:
        lines = [json.dumps(rep["vector"])] if rep.get("engine") == "parsers-replay" else []
    elif not lines:
        raise core.ToolError("no cases emitted by MC_Parsers")

    distinct = set()
    # ---- spec -> implementation: every emitted case on the real parsers
    if lines:
        inp, out = ctx.workdir / "parsers_in.ndjson", ctx.workdir / "parsers_out.ndjson"
        inp.write_text("\n".join(lines) + "\n")
        core.vh(ctx, ["parsers-replay", inp, out], bin="vh-dec", timeout=1800, env_extra=rseed)
        rows = core.jsonl_read(out)
        if len(rows) != len(lines):
            raise core.ToolError("parsers-replay returned a different number of results")
        acc = rej = pad_notes = 0
        for ln, r in zip(lines, rows):
            c = json.loads(ln)
            if "tool_error" in r:
                raise core.ToolError(f"parsers-replay: {r['tool_error']} on {describe(c)}")
            ctx.cov["evaluations"] += 1
            distinct.add((c["p"], c["dom"], c["len"], c["m"], c["n"], json.dumps(c["hdr"], sort_keys=True),
                          json.dumps(c["ov"], sort_keys=True)))
            acc += r["u64"] == "ok"
            rej += r["u64"] == "err"
            if c["p"] == "priv" and c["dom"] == "u64" and c["u64"] == "ok" and c["felt"] == "na" and r["u64"] == "ok":
                pad_notes += 1
            bad = judge(c, r)
            if bad:
                for b in bad[:2]:
                    ctx.violation(f"{b} [{describe(c)}]", {"engine": "parsers-replay", "vector": c, "observed": r})
            else:
                ctx.cov["traces_validated_against_impl"] += 1
        if rep is None and (acc == 0 or rej == 0):
            raise core.ToolError("vacuity: the real parsers did not both accept and reject some cases")
        if pad_notes:
            ctx.log(f"note: {pad_notes} u64 private-batch vectors with a limb >= p in the unread padding were accepted "
                    "(no felt counterpart exists; the padding is not part of the structure)")
        ctx.cov["accepted_cases"] = acc
        ctx.cov["rejected_cases"] = rej
        ctx.cov["noncanonical_padding_accepted"] = pad_notes

    # ---- Parse(Serialize(s)) = s on random valid structures (full value ranges, non-canonical felt representations)
    if rep is None or rep.get("engine") == "parsers-roundtrip":
        n_rt = 600 if ctx.quick else 6000
        spec = f"@{rep['idx']}" if rep else str(n_rt)
        out = ctx.workdir / "parsers_rt.ndjson"
        core.vh(ctx, ["parsers-roundtrip", spec, out], bin="vh-dec", timeout=1800, env_extra=rseed)
        rows = core.jsonl_read(out)
        summary = rows[-1]
        for r in rows[:-1]:
            ctx.violation(f"round trip: {r['why']} (random valid structure #{r['idx']}, {r['what']})",
                          {"engine": "parsers-roundtrip", "idx": r["idx"], "what": r["what"]})
        ctx.cov["evaluations"] += summary["structures"]
        ctx.cov["traces_validated_against_impl"] += summary["structures"] - summary["mismatches"]
        ctx.cov["round_trips"] = summary["structures"]

    # ---- implementation -> spec: random vectors through the real parsers, classified by ParsersTrace.tla
    if rep is None or rep.get("engine") == "parsers-record":
        n_rec = 3000 if ctx.quick else 30000
        spec = f"@{rep['record']['idx']}" if rep else str(n_rec)
        rec = ctx.workdir / "parsers_rec.ndjson"
        core.vh(ctx, ["parsers-record", spec, rec], bin="vh-dec", timeout=1800, env_extra=rseed)
        ok, tres = core.validate_trace(ctx, "ParsersTrace", rec, cfg="ParsersTrace.cfg", timeout=1500)
        recs = core.jsonl_read(rec)
        ctx.cov["evaluations"] += len(recs)
        if ok:
            ctx.cov["traces_validated_against_impl"] += len(recs)
            for r in recs:
                distinct.add((r["p"], r["dom"], r["len"], r["m"], r["n"], json.dumps(r["hdr"], sort_keys=True),
                              json.dumps(r["ov"], sort_keys=True)))
        else:
            fails = tres["prints"].get("TRACEFAIL", [])
            if not fails:
                raise core.ToolError("ParsersTrace rejected the recording without naming a record")
            info = json.loads(fails[0])
            e = info["first_unmatched"]
            ctx.cov["traces_validated_against_impl"] += info["matched"]
            ctx.violation("a recorded run of the real parsers on a random vector is not a behaviour of Parsers.tla: "
                          f"u64 parser {e['obs_u64']}, felt parser {e['obs_felt']}, structures equal {e['obs_agree']}, "
                          f"serialises back {e['obs_reser']} [{describe(e)}]",
                          {"engine": "parsers-record", "record": e})
        ctx.cov["recorded_vectors"] = len(recs)
        if rep is None and not ({"ok", "err"} <= {r["obs_u64"] for r in recs}):
            raise core.ToolError("vacuity: the recorded vectors were not both accepted and rejected")

    ctx.cov["distinct_nontrivial"] = len(distinct)
    ctx.cov["rule"] = ("one evaluation per TLC-emitted case replayed on the real parsers (each case: a well-formed vector "
                       "with <= 1 (quick) / <= 2 (thorough) corruptions among length +-1/+-21/+-14, header constant "
                       "variants, a position of every field kind in every value class, public-batch argument tokens "
                       "0/1/2/64/65/2^40/usize::MAX), per random structure round-tripped, and per recorded random vector "
                       "classified by ParsersTrace.tla; distinct = distinct (layout, domain, length, arguments, header, "
                       "corruptions) among the replayed and recorded vectors")
    for ln in lines[:: max(1, len(lines) // 5)][:5]:
        ctx.add_sample({"kind": "case synthesised and parsed by the real code", "vector": json.loads(ln)})
    ctx.cov["exhaustive"] = rep is None
    return core.finish(ctx)


MANIFEST = {
    "engines": {"parsers": dict(
        path="specs/Parsers.tla specs/MC_Parsers.tla specs/ParsersTrace.tla harness/src/bin_dec/parsers.rs vlib/props/parsers.py",
        kind="TLA+ decision-procedure spec (parsers as guard sequences with read bounds, declarative WellFormed, field "
             "position maps) + TLC exhaustive over corruption cases + replay of every case on the five real parsers + round "
             "trip of random structures + trace validation of recorded random vectors")},
    "checks": {
        "C24": dict(engine="parsers", ref="6.7",
                    text="Parsers.tla gives the three public-input layouts with exact length arithmetic (21; 8+21N; 12+10MN+4MN), "
                         "the five parsers (leaf u64/felt, private-batch u64/felt, public-batch u64) as the ordered guard "
                         "sequences the code runs, each guard with the highest index it reads, WellFormed written from the "
                         "property text, and where each field is written (documented layout) and read (cursor walk / chunk "
                         "arithmetic). TLC checks on every case: no read beyond the length (totality), verdict <=> WellFormed, "
                         "felt parser = u64 parser on the canonical image, a u64 limb >= p inside the structure is rejected, "
                         "Parse(Serialize(s)) = s. Cases: a well-formed vector for N in {0,1,2,64,65,(3,63,66,4096)} / MxN "
                         "with one (thorough: two) corruptions - length +-1, +-21, +-14, header constant +-1/0/+2^32/p-1/p/"
                         "2^64-1/non-canonical representation, first and last position of every field kind in every value "
                         "class - and every pair of public-batch argument tokens {0,1,2,64,65,2^40,usize::MAX}. Every case is "
                         "synthesised as a real vector and parsed by the real code under catch_unwind (accepted structures "
                         "must be equal across parsers and serialise back to the input); random valid structures over the "
                         "full value ranges are round-tripped; random vectors are run through the real parsers and the "
                         "recording is validated by ParsersTrace.tla.",
                    note="Trusted: TLC; the harness serialiser (written from the documented layouts, used to build inputs and to "
                         "compare accepted structures); class representativeness (the parsers compare values with 2^32 and p "
                         "only, and one header position with a constant). The private-batch padding is treated as not part of "
                         "the structure: a u64 limb >= p in the padding is accepted by the u64 parser and has no felt "
                         "counterpart (logged, not judged). The verifier crate's proof-based wrappers are not driven."),
    },
}
