"""C28: the circuit-config policy.  Policy.tla: the policy as stated (Valid) against the guard
sequence of validate_circuit_config and the CLI flag validation + config build, checked by TLC over
the whole grid; every grid cell is then replayed on the real functions, and every rejected config on
the real constructors (in a child process with a memory and time ceiling)."""
import json
import os
import subprocess
import time
from .. import core
from ..registry import register

KN = ["chal", "sec", "query", "wires", "routed", "quot", "rate", "cap"]


def describe(case):
    if not case:
        return "canonical config"
    if case[0] == 0:
        return "config " + " ".join(f"{k}={v}" for k, v in zip(KN, case[1:9]))
    return ("flags " + " ".join(f"{k}={'-' if v < 0 else v}" for k, v in zip(KN, case[1:9]))
            + f" zk_disabled={case[9]} allow_weakening={case[10]}")


@register("C28")
def check(ctx):
    core.build_harness(ctx, "vh")
    ctx.level = "model_checking"
    ctx.assumptions += [
        "the grid (every threshold, its neighbours, 0 and a large value per knob) is representative: the policy "
        "compares each knob with constants and with at most one other knob",
        "constructors are exercised on every rejected grid config and on the canonical configs only; building "
        "arbitrary accepted configs (e.g. 4096 wires) is out of budget",
    ]
    bl = json.loads(core.vh(ctx, ["policy-baseline"]).strip())
    env = {f"BL_{k.upper()}": str(v) for k, v in zip(KN, bl)}
    cfg = "MC_Policy_quick.cfg" if ctx.quick else "MC_Policy_thorough.cfg"
    res = core.run_tlc(ctx, "MC_Policy", cfg, workers=8, timeout=3000, env_extra=env, coverage=False,
                       extra_java=["-XX:+UseParallelGC"])
    if res["violated"]:
        ctx.violation(f"TLC: {res['violated']} violated in Policy model ({cfg}); production baseline {bl}",
                      {"tlc": core.tlc_counterexample(res["out"])})
        return core.finish(ctx)
    lines = sorted(set(res["prints"].get("REPLAY", [])))
    if ctx.replay:
        lines = [json.dumps(json.loads(open(ctx.replay).read())["case"]["cell"])]
    if not lines:
        raise core.ToolError("no grid cells emitted by MC_Policy")
    inp = ctx.workdir / "policy_in.ndjson"
    inp.write_text("\n".join(lines) + "\n")
    out = ctx.workdir / "policy_out.ndjson"
    core.vh(ctx, ["policy-replay", inp, out], timeout=1800)
    rows = core.jsonl_read(out)
    summary = rows[-1]
    for r in rows[:-1]:
        ctx.violation(f"real code disagrees with Policy.tla on {describe(r['case'])}: {r['why']}",
                      {"engine": "policy-replay", "cell": r["case"], "why": r["why"]})
    if ctx.violations:
        # the shared check itself disagrees with the policy: the constructors cannot be judged separately
        ctx.cov["evaluations"] = summary["configs"] + summary["flag_sets"]
        ctx.cov["distinct_nontrivial"] = len(lines)
        return core.finish(ctx)
    # constructors, in a child with a ceiling on address space and wall time (rejections return at once:
    # the whole grid takes seconds; a constructor that starts building an invalid config runs into the ceiling)
    prog = ctx.workdir / "policy_ctors.ndjson"
    t = time.time()
    cmd = f"ulimit -v 12000000; exec {core.VH} policy-ctors {inp} {prog}"
    died = None
    try:
        p = subprocess.run(["bash", "-c", cmd], cwd=core.ROOT, stdout=subprocess.PIPE, stderr=subprocess.PIPE,
                           text=True, timeout=300 if ctx.quick else 600)
        if p.returncode != 0:
            died = f"child exited with status {p.returncode}"
    except subprocess.TimeoutExpired:
        died = "child exceeded its time ceiling"
    ctx.cov["harness_runs"].append({"args": ["policy-ctors"], "wall_s": round(time.time() - t, 2)})
    prows = core.jsonl_read(prog) if prog.exists() else []
    done = [r for r in prows if r.get("done")]
    for r in prows:
        if "bad" in r:
            ctx.violation(f"{r['why']}: {describe(r['case'])}", {"engine": "policy-ctors", "cell": r["case"], "why": r["why"]})
    if not done:
        last = next((r for r in reversed(prows) if "at" in r), None)
        if last is None:
            raise core.ToolError(f"policy-ctors did not start ({died})")
        ctx.violation(f"{last['ctor']} neither returned an error nor survived on a config the policy rejects "
                      f"({died}): {describe(last['case'])}",
                      {"engine": "policy-ctors", "cell": last["case"], "why": died})
    ncells = summary["configs"] + summary["flag_sets"]
    nctor = done[0]["rejected_configs"] * 4 if done else 0
    ctx.cov["evaluations"] = ncells + nctor
    ctx.cov["traces_validated_against_impl"] = ncells - summary["mismatches"]
    ctx.cov["distinct_nontrivial"] = len(lines)
    ctx.cov["grid"] = {k: summary[k] for k in ("configs", "flag_sets", "valid", "accepted")}
    ctx.cov["constructor_calls_on_rejected_configs"] = nctor
    ctx.cov["rule"] = ("every cell TLC emitted is replayed once: all configs of the grid on validate_circuit_config, all "
                       "flag sets with at most one security-group flag on the CLI validation/build; distinct = distinct "
                       "cell; every cell is non-trivial by construction (each knob value is a threshold, a neighbour, 0 or "
                       "large). valid/accepted counts show both verdicts occur")
    if summary["valid"] == 0 or summary["accepted"] == 0:
        raise core.ToolError("vacuity: grid contains no accepted config / flag set")
    for ln in lines[:: max(1, len(lines) // 5)][:5]:
        ctx.add_sample({"kind": "grid cell replayed on the real code", "cell": describe(json.loads(ln))})
    ctx.cov["exhaustive"] = not ctx.replay
    return core.finish(ctx)
