"""C19-C22: the proof pool. Pool.tla (exhaustive TLC), MC_PoolSim (behaviours replayed on the real
ProofPool), PoolTrace (recorded real histories validated against the spec)."""
import json
import os
from .. import core
from ..registry import register

# Which properties a disagreement is evidence against.  A disagreement is first reduced to the
# *group* of observations that differ (verdict, verify-call count, returned count/ids, preflight,
# budget pair, bucket contents, index, statistics, snapshot marks), then mapped with the call kind.
def attribute_group(group, op, budget_exhausted=False):
    if group in ("verdict", "verified"):
        return {"C19"} | ({"C22"} if budget_exhausted else set())
    if group in ("count_ids", "preflight"):
        return {"C21"}
    if group == "budget":
        return {"C22"}
    if group == "contents":
        return {"push": {"C19", "C20"}, "evict_settled": {"C21"}, "evict_older": {"C21"},
                "remove_bucket": {"C21"}, "snapshot": {"C21"}, "tick": {"C21"}}.get(op, {"C20"})
    if group in ("index", "stats", "snap"):
        return {"C20"}
    return {"C19", "C20", "C21", "C22"}


WHY_GROUP = [
    ("verify calls", "verified"), ("push verdict", "verdict"), ("push panicked", "verdict"),
    ("no key returned", "verdict"), ("win:", "budget"), ("ver:", "budget"), ("evicted count", "count_ids"),
    ("snapshot rejected by the public-batch preflight", "preflight"), ("snapshot", "count_ids"),
    ("removed ids", "count_ids"), ("stats.", "stats"), ("num_buckets", "stats"), ("size:", "stats"),
    ("index", "index"), ("last snapshot", "snap"), ("entries", "contents"), ("bucket", "contents"),
]
GROUPS = ["verdict", "verified", "count_ids", "preflight", "budget", "contents", "index", "stats", "snap"]


def attribute(why, op, expected_result=None):
    for k, g in WHY_GROUP:
        if why.startswith(k):
            return attribute_group(g, op, expected_result == "Budget"), g
    return {"C19", "C20", "C21", "C22"}, "unknown"


SIM_CFGS = [
    # MaxProofs MaxBuckets MaxVerifies Window Batch
    (3, 2, 2, 2, 2),
    (2, 1, 1, 1, 1),
    (4, 3, 3, 3, 3),
    (3, 2, 4, 2, 2),
    (5, 2, 2, 4, 2),
]


def sim_cfg(ctx, i, lim, depth):
    mp, mb, mv, w, b = lim
    name = ctx.workdir / f"MC_PoolSim_{i}.cfg"
    name.write_text(f"""SPECIFICATION SpecSim
CONSTANTS
  MaxProofs = {mp}
  MaxBuckets = {mb}
  MaxVerifies = {mv}
  Window = {w}
  Batch = {b}
  VolCap = 4
  MaxNow = 1000
  MaxAge = 2
  Depth = {depth}
  PaletteSel = {{1, 2, 3, 4, 5, 6, 7, 8, 9, 10, 11, 12}}
  Palette <- MCPalette
INVARIANTS EmitAtDepth C20Inv C22Inv C19Inv
CHECK_DEADLOCK FALSE
""")
    return str(name)


def run_pool(ctx):
    pid = ctx.pid
    core.build_harness(ctx, "vh")
    ctx.level = "model_checking"
    ctx.assumptions += [
        "the stand-in private-batch circuit (free public inputs, real Plonky2 proofs and verifier) exercises the same "
        "admission code as a real private-batch verifier; Plonky2 verification is trusted",
        "time is the hook's virtual clock (whole seconds); the pool is used from one thread, as its &mut API requires",
    ]
    # 1. exhaustive model checking of the design
    cfg = "MC_Pool_thorough.cfg" if ctx.quick else "MC_Pool_deep.cfg"
    if os.environ.get("VERIF_DEV_SKIP_MC"):   # development aid for mutant audits only
        res = {"violated": None, "coverage": {}, "module": "MC_Pool", "cfg": cfg}
    else:
        res = core.run_tlc(ctx, "MC_Pool", cfg, workers=8 if ctx.quick else 14, timeout=3000)
    if res["violated"]:
        ctx.violation(f"TLC: {res['violated']} violated in Pool model ({cfg})",
                      {"tlc": core.tlc_counterexample(res["out"])})
        return core.finish(ctx)
    core.check_coverage(ctx, res)
    if not ctx.quick:
        for extra in ("MC_Pool_quick.cfg", "MC_Pool_thorough.cfg"):
            r2 = core.run_tlc(ctx, "MC_Pool", extra, workers=14, timeout=3000)
            if r2["violated"]:
                ctx.violation(f"TLC: {r2['violated']} violated in Pool model ({extra})",
                              {"tlc": core.tlc_counterexample(r2["out"])})
                return core.finish(ctx)

    # 2. spec -> implementation: simulated behaviours replayed call by call on the real pool
    nbeh = 120 if ctx.quick else 1500
    depth = 40 if ctx.quick else 60
    cfgs = SIM_CFGS[:3] if ctx.quick else SIM_CFGS
    replay_in = ctx.workdir / "replay_in.ndjson"
    lines = []
    for i, lim in enumerate(cfgs):
        name = sim_cfg(ctx, i, lim, depth)
        r = core.run_tlc(ctx, "MC_PoolSim", name, workers=1, simulate=nbeh, depth=depth + 2, coverage=False,
                         timeout=1800)
        if r["violated"]:
            ctx.violation(f"TLC simulation: {r['violated']} violated", {"tlc": core.tlc_counterexample(r["out"])})
            return core.finish(ctx)
        lines += r["prints"].get("REPLAY", [])
    replay_in.write_text("\n".join(lines) + "\n")
    out = ctx.workdir / "replay_out.ndjson"
    core.vh(ctx, ["pool-replay", replay_in, out])
    results = core.jsonl_read(out)
    behs = [json.loads(x) for x in lines]
    distinct = set()
    for rr, beh in zip(results, behs):
        ctx.cov["evaluations"] += 1
        classes = rr["classes"]
        nontrivial = ("Ok" in classes) and any(c in classes for c in
                                               ("Duplicate", "BucketCap", "Full", "Budget", "Invalid", "evict_settled",
                                                "evict_older", "remove_bucket"))
        if nontrivial:
            distinct.add(tuple(classes))
        if rr["ok"]:
            ctx.cov["traces_validated_against_impl"] += 1
        else:
            mm = rr["mismatch"]
            attr, grp = attribute(mm["why"], mm["call"]["op"], mm["expected_res"].get("result"))
            if pid in attr:
                ctx.violation(f"real pool disagrees with Pool.tla at step {mm['step']} ({mm['call']}) "
                              f"[{grp}]: {mm['why']}",
                              {"engine": "pool-replay", "behaviour": beh, "mismatch": mm})
            else:
                ctx.log(f"note: disagreement attributed to {sorted(attr)} not {pid}: {mm['why']}")
    if behs:
        b0 = behs[0]
        ctx.add_sample({"kind": "TLC behaviour replayed on the real pool", "limits": b0["limits"],
                        "first_steps": [{"call": s["call"], "res": s["res"]} for s in b0["steps"][:6]]})

    # 3. implementation -> spec: seeded random histories of the real pool validated by PoolTrace
    nvar = 4 if ctx.quick else 24
    runs, steps = (8, 120) if ctx.quick else (20, 250)
    for v in range(nvar):
        tr = ctx.workdir / f"trace_{v}.ndjson"
        core.vh(ctx, ["pool-record", tr, runs, steps, v])
        ok, r = core.validate_trace(ctx, "PoolTrace", tr)
        events = sum(1 for _ in open(tr)) - 1
        ctx.cov["evaluations"] += runs
        if ok:
            ctx.cov["traces_validated_against_impl"] += runs
            distinct.add(("trace", v))
            if v == 0:
                evs = core.jsonl_read(tr)
                ctx.add_sample({"kind": "recorded real-pool events accepted by PoolTrace",
                                "limits": evs[0]["limits"],
                                "events": [{k: e[k] for k in e if k != "st"} for e in evs[2:8]]})
        else:
            fail = r["prints"].get("TRACEFAIL", [])
            info = json.loads(fail[0]) if fail else {"matched": None}
            ev = info.get("first_unmatched", {})
            op = ev.get("op", "?")
            viol = r["violated"]
            n = (info.get("matched") or 1) + 1
            prefix = ctx.workdir / f"trace_{v}_prefix.ndjson"
            evs = []
            with open(tr) as f, open(prefix, "w") as g:
                for i, line in enumerate(f):
                    if i < n:
                        g.write(line)
                        evs.append(json.loads(line))
            grp = "unknown"
            if viol and viol != "POSTCONDITION":
                # an invariant / action property of Pool failed on a state the real pool produced
                attr = {p for p in ("C19", "C20", "C21", "C22") if p in viol} or {"C19", "C20", "C21", "C22"}
                grp = viol
            else:
                # which observation groups disagree: enforce one group at a time on the rejected prefix
                bad = []
                for gname in GROUPS:
                    relax = {f"RELAX_{o}": "1" for o in GROUPS if o != gname}
                    okg, _ = core.validate_trace(ctx, "PoolTrace", prefix, env_extra=relax)
                    if not okg:
                        bad.append(gname)
                grp = ",".join(bad) or "unknown"
                exhausted = False
                if len(evs) >= 3 and op == "push":
                    lim, prev = evs[0]["limits"], evs[-2]["st"]
                    rolled = prev["now"] - prev["win"] >= lim["window"]
                    exhausted = (0 if rolled else prev["ver"]) >= lim["max_verifies"]
                attr = set()
                for gname in bad or ["unknown"]:
                    attr |= attribute_group(gname, op, exhausted)
            if pid in attr:
                ctx.violation(f"recorded history of the real pool is not a behaviour of Pool.tla: {viol}; "
                              f"first unmatched event #{info.get('matched')}: op={op}, disagreeing observation group: {grp}",
                              {"engine": "pool-trace", "variant": v, "first_unmatched": ev,
                               "trace_prefix": str(prefix), "tlc": core.tlc_counterexample(r["out"], 30)})
            else:
                ctx.log(f"note: trace rejection attributed to {sorted(attr)} not {pid}")
        ctx.cov["trace_events"] = ctx.cov.get("trace_events", 0) + events
    if pid == "C21" and not ctx.violations and not os.environ.get("VERIF_DEV_SKIP_MC"):
        agg_system(ctx)
        if not ctx.quick and not ctx.violations and not ctx.replay:
            end_to_end(ctx)
    ctx.cov["distinct_nontrivial"] = len(distinct)
    ctx.cov["rule"] = ("behaviours: TLC -simulate over MC_PoolSim (12-entry palette, 3-5 limit settings) replayed call by "
                       "call with full state comparison; histories: seeded random real-pool runs (6-12 keys, 16 "
                       "nullifiers, 30-60 submissions, random limits) validated by PoolTrace. Non-trivial = contains "
                       "an admission and a late rejection or eviction; distinct = distinct call/result sequences")
    ctx.cov["exhaustive"] = False
    return core.finish(ctx)


def agg_system(ctx):
    """Beyond the listed properties: the aggregation loop around the pool (AggSystem.tla: snapshots handed to proving
    workers that may crash, batches landing on a chain that settles each nullifier once, the miner syncing settled sets).
    Safety by TLC (custody, every proved batch was a snapshot, no double settlement, clean pool after a sync, all of Pool's
    invariants), liveness under strong fairness (every pooled proof is eventually resolved; the no-sync mutant must violate),
    and the pool calls of simulated system behaviours replayed on the real ProofPool."""
    res = core.run_tlc(ctx, "AggSystem", "AggSystem_quick.cfg" if ctx.quick else "AggSystem.cfg", workers=6, timeout=3000, coverage=False)
    if res["violated"]:
        ctx.violation(f"TLC: {res['violated']} violated in AggSystem (the aggregation loop around the pool)",
                      {"engine": "tlc", "tlc": core.tlc_counterexample(res["out"])})
        return
    if not ctx.quick:
        live = core.run_tlc(ctx, "AggSystem", "AggSystem_live.cfg", workers=4, timeout=1800, coverage=False)
        if live["violated"]:
            ctx.violation("TLC: a pooled proof is not eventually resolved in AggSystem under fair proving and syncing",
                          {"engine": "tlc", "tlc": core.tlc_counterexample(live["out"])})
            return
        mut = core.run_tlc(ctx, "AggSystem", "AggSystem_live_mut.cfg", workers=4, timeout=1800, coverage=False, expect_violation=True, quiet=True)
        if not mut["violated"]:
            raise core.ToolError("vacuity: AggSystem's liveness holds even when the miner never syncs")
    r = core.run_tlc(ctx, "AggSystem", "AggSystem_sim.cfg", workers=1, simulate=25 if ctx.quick else 600, depth=38, coverage=False, timeout=1800)
    if r["violated"]:
        ctx.violation(f"TLC simulation: {r['violated']} violated in AggSystem", {"engine": "tlc", "tlc": core.tlc_counterexample(r["out"])})
        return
    lines = sorted(set(r["prints"].get("REPLAY", [])))
    if not lines:
        raise core.ToolError("AggSystem simulation emitted no behaviour")
    inp = ctx.workdir / "aggsys_in.ndjson"
    inp.write_text("\n".join(lines) + "\n")
    out = ctx.workdir / "aggsys_out.ndjson"
    core.vh(ctx, ["pool-replay", inp, out])
    nok = 0
    for rr, ln in zip(core.jsonl_read(out), lines):
        ctx.cov["evaluations"] += 1
        if rr["ok"]:
            nok += 1
            ctx.cov["traces_validated_against_impl"] += 1
        else:
            mm = rr["mismatch"]
            ctx.violation(f"real pool disagrees with AggSystem.tla (aggregation loop) at step {mm['step']} ({mm['call']}): {mm['why']}",
                          {"engine": "pool-replay", "behaviour": json.loads(ln), "mismatch": mm})
    ctx.cov["aggregation_loop_behaviours_replayed"] = nok


def end_to_end(ctx):
    """Beyond the listed properties (thorough tier of C21): EndToEnd.tla - the whole pipeline as one system.  TLC checks the
    composed model exhaustively (AggSystem's invariants + no double settlement + conservation over the compositions); simulated
    behaviours are then replayed on the REAL PublicBatchAggregator with real proofs at every layer (leaf proofs of deposits in
    one tree -> real private batches -> push_proof -> snapshot_batch -> ProvingContext::prove_batch -> verify -> the settled set
    read from the aggregated proof's public inputs -> evict_settled)."""
    res = core.run_tlc(ctx, "EndToEnd", "EndToEnd.cfg", workers=6, timeout=3000, coverage=False)
    if res["violated"]:
        ctx.violation(f"TLC: {res['violated']} violated in EndToEnd (deposits -> private batches -> pool -> public batch -> chain -> eviction)",
                      {"engine": "tlc", "tlc": core.tlc_counterexample(res["out"])})
        return
    mut = core.run_tlc(ctx, "EndToEnd", "EndToEnd_mutChain.cfg", workers=4, timeout=1200, coverage=False, expect_violation=True, quiet=True)
    if not mut["violated"]:
        raise core.ToolError("vacuity: EndToEnd's invariants hold even for a chain that settles a nullifier twice")
    r = core.run_tlc(ctx, "EndToEnd", "EndToEnd_sim.cfg", workers=1, simulate=12, depth=20, coverage=False, timeout=900)
    if r["violated"]:
        ctx.violation(f"TLC simulation: {r['violated']} violated in EndToEnd", {"engine": "tlc", "tlc": core.tlc_counterexample(r["out"])})
        return
    bs = sorted((json.loads(x) for x in set(r["prints"].get("REPLAY", []))), key=lambda b: -len(b["steps"]))
    keep = []
    for b in bs:
        if not any(k["steps"][:len(b["steps"])] == b["steps"] for k in keep):
            keep.append(b)
    # prefer behaviours that close the loop (a proved batch lands and a sync follows)
    def score(b):
        ops = [s["call"]["op"] for s in b["steps"]]
        lands = sum(1 for s in b["steps"] if s["call"]["op"] == "prove" and s["call"]["lands"])
        two = sum(1 for s in b["steps"] if s["call"]["op"] == "prove" and len(s["call"]["ids"]) == 2)
        return (min(lands, 2) + min(two, 1) + (1 if "evict_settled" in ops else 0), -ops.count("prove"))
    keep.sort(key=score, reverse=True)
    keep = keep[:5]
    if not keep or score(keep[0])[0] < 2:
        raise core.ToolError("EndToEnd simulation produced no behaviour in which a proved batch lands and is synced")
    inp = ctx.workdir / "e2e_in.ndjson"
    inp.write_text("\n".join(json.dumps(k) for k in keep) + "\n")
    out = ctx.workdir / "e2e_out.ndjson"
    core.vh(ctx, ["e2e-replay", inp, out, ctx.workdir / "e2e_scratch"], timeout=6000)
    rows = core.jsonl_read(out)
    ctx.cov["end_to_end_setup"] = rows[0].get("setup")
    nok = proved = 0
    for rr in rows[1:]:
        ctx.cov["evaluations"] += 1
        proved += rr["proved"]
        if rr["problems"]:
            ctx.violation(f"the real pipeline (real leaf proofs -> private batches -> PublicBatchAggregator -> aggregated proof -> settlement) "
                          f"disagrees with EndToEnd.tla: {rr['problems'][0]}",
                          {"engine": "e2e-replay", "behaviour": keep[rr["behaviour"]], "problems": rr["problems"]})
        else:
            nok += 1
            ctx.cov["traces_validated_against_impl"] += 1
    if proved == 0:
        raise core.ToolError("vacuity: no batch was really proved in the end-to-end replay")
    ctx.cov["end_to_end_behaviours_replayed"] = nok
    ctx.cov["end_to_end_public_batches_really_proved"] = proved


@register("C19", "C20", "C21", "C22")
def check(ctx):
    return run_pool(ctx)
