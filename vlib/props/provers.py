"""C14 (batch provers admit exactly the batches the circuit can prove) and C15 (padding and shuffling are exact and uniform).
BatchProver.tla: commit of both provers as the ordered guards the code runs, then Pad / Shuffle / Fill, with the circuit
predicates of BatchDecl; TLC checks  Ok => circuit accepts (every shuffle),  non-policy Err => padded batch unprovable,
slots = permutation of supplied ++ templates.  Binding: TLC-drawn proof vectors are realised with real proofs of a
stand-in leaf circuit and pushed through the REAL PrivateBatchProver / PublicBatchProver commit + prove + verify (full
recursive proofs, release build); rejected-but-valid vectors are evaluated on the wrapper-only circuit; repeated real
commits record the slot arrangement and the dummy nullifiers from the proofs' public outputs."""
import json
import math
from collections import Counter
from .. import core
from ..registry import register

STRUCTURAL = {"empty", "toomany", "len", "verify"}
POLICIES = {"asset_padding", "alldummy"}


def tlc(ctx, cfg, env, workers=8, simulate=None, depth=None, expect_violation=False, quiet=False):
    return core.run_tlc(ctx, "MC_BatchProver", cfg, workers=workers, timeout=2400, env_extra=env, coverage=False, simulate=simulate,
                        depth=depth, expect_violation=expect_violation, quiet=quiet, xmx="12g")


def model(ctx):
    near = "1" if ctx.quick else "2"
    for layer in ("private", "public"):
        res = tlc(ctx, "MC_BatchProver.cfg", {"BPLAYER": layer, "BPN": 2, "BPNEAR": near})
        if res["violated"]:
            ctx.violation(f"TLC: {res['violated']} violated in BatchProver model ({layer} layer)", {"engine": "tlc", "tlc": core.tlc_counterexample(res["out"])})
            return False
    # the model of the code BEFORE the repair of F1 must violate (this is how the gap was found; also vacuity control)
    r = tlc(ctx, "MC_BatchProver_preF1.cfg", {"BPLAYER": "private", "BPN": 2, "BPNEAR": "1"}, expect_violation=True, quiet=True)
    if not r["violated"]:
        raise core.ToolError("vacuity: the pre-F1 model (no grouped-sum guard) is accepted by TLC")
    ctx.cov.setdefault("spec_mutants_rejected", []).append("SumGuard=FALSE (finding F1)")
    return True


def sim_cases(ctx, layer, n, num):
    res = tlc(ctx, "MC_BatchProver_sim.cfg", {"BPLAYER": layer, "BPN": n, "BPNEAR": "2"}, workers=1, simulate=num, depth=4 * n + 8)
    if res["violated"]:
        ctx.violation(f"TLC (simulation): {res['violated']} violated in BatchProver model", {"engine": "tlc", "tlc": core.tlc_counterexample(res["out"])})
        return None
    return [json.loads(x) for x in sorted(set(res["prints"].get("REPLAY", [])))]


def stratify(cases, per_class, rng_seed):
    """a fixed number of vectors per (verdict, reason) class, so that every guard of the model is replayed"""
    import random
    rng = random.Random(rng_seed)
    by = {}
    for c in cases:
        # classes: verdict, reason, vector length, and whether the largest grouped sum sits on / just under the range bound
        by.setdefault((c["verdict"], c["reason"], c["k"], min(c.get("maxsum", 0), 5) if c.get("maxsum", 0) >= 3 else 0), []).append(c)
    out = []
    for k in sorted(by):
        v = by[k]
        rng.shuffle(v)
        out += v[:per_class]
    return out


def describe(c):
    sts = []
    for p in c["sup"]:
        s = p["st"]
        if "null" in s and "exit1" in s:
            sts.append(([s["asset"], s["out1"], s["out2"], s["fee"], s["null"], s["exit1"], s["exit2"], s["block"]], p["valid"], p["lenok"]))
        else:
            sts.append(([s["asset"], s["fee"], s["block"]], p["valid"], p["lenok"]))
    return f"{c['layer']} layer, batch size {c['n']}, supplied {sts}"


def judge(ctx, c, r, pid_tally):
    """compare one real run with the model; returns True if consistent"""
    d = describe(c)
    bad = None
    if "tool_error" in r:
        raise core.ToolError(r["tool_error"])
    if r.get("commit") == "panic":
        bad = "commit panicked"
    elif c["verdict"] == "ok":
        if r["commit"] != "ok":
            bad = f"the model's commit accepts, the real commit rejects ({r.get('msg')})"
        elif r.get("prove") != "ok":
            bad = f"commit accepted a vector whose committed witness does not satisfy the circuit: prove failed ({r.get('msg')})"
        elif not r.get("verified"):
            bad = "commit accepted, prove returned, but the proof does not verify"
    else:
        if r["commit"] == "ok":
            if r.get("prove") != "ok":
                bad = f"commit accepted a vector the model rejects ({c['reason']}), and proving then failed ({r.get('msg')})"
            elif c["reason"] in STRUCTURAL | POLICIES:
                bad = f"commit accepted a vector that must be rejected ({c['reason']})"
            else:
                bad = f"commit accepted a vector the model rejects ({c['reason']}) and a proof came out"
        elif c["reason"] not in STRUCTURAL | POLICIES and r.get("padded_batch_provable") is True:
            bad = f"commit rejects valid proofs for a reason that is not a documented policy ({c['reason']}) although the padded batch is provable"
    if bad:
        pid_tally.append((f"{bad} [{d}]", {"engine": "commit-replay", "case": c, "observed": {k: r[k] for k in r if k not in ("pis", "inner_pis", "template_pis")}}))
        return False
    return True


def replay_private(ctx, tally, num):
    cases = sim_cases(ctx, "private", 2, 900 if ctx.quick else 4000)
    if cases is None:
        return 0
    cases = stratify(cases, num, ctx.seed)
    ctx.cov["private_classes"] = sorted({f"{c['verdict']}/{c['reason']}" for c in cases})
    if ctx.replay:
        rc = json.loads(open(ctx.replay).read())["case"]
        if "case" in rc and rc["case"].get("layer") == "private":
            cases = [rc["case"]]
    inp = ctx.workdir / "commit_in.ndjson"
    inp.write_text("\n".join(json.dumps(c) for c in cases) + "\n")
    outp = ctx.workdir / "commit_out.ndjson"
    core.vh(ctx, ["commit-replay", inp, outp], timeout=3300)
    rows = core.jsonl_read(outp)[1:]
    nok = 0
    for c, r in zip(cases, rows):
        ctx.cov["evaluations"] += 1
        if judge(ctx, c, r, tally):
            ctx.cov["traces_validated_against_impl"] += 1
        nok += 1 if r.get("commit") == "ok" else 0
    ctx.cov["private_commits"] = {"vectors": len(cases), "accepted_and_proved": nok}
    if nok == 0 and not ctx.replay:
        raise core.ToolError("vacuity: no vector was committed")
    for c in cases[:: max(1, len(cases) // 2)][:2]:
        ctx.add_sample({"kind": "BatchProver.tla vector realised with real child proofs on PrivateBatchProver::commit/prove", "vector": describe(c), "model": [c["verdict"], c["reason"]]})
    return len(cases)


def replay_public(ctx, tally, num):
    cases = sim_cases(ctx, "public", 2, 400 if ctx.quick else 2000)
    if cases is None:
        return 0
    cases = stratify(cases, num, ctx.seed)
    if ctx.replay:
        rc = json.loads(open(ctx.replay).read())["case"]
        if "case" in rc and rc["case"].get("layer") == "public":
            cases = [rc["case"]]
        else:
            return 0
    inp = ctx.workdir / "pcommit_in.ndjson"
    inp.write_text("\n".join(json.dumps(c) for c in cases) + "\n")
    outp = ctx.workdir / "pcommit_out.ndjson"
    core.vh(ctx, ["pub-commit-replay", inp, outp], timeout=3300)
    rows = core.jsonl_read(outp)
    nok = 0
    for c, r in zip(cases, rows):
        ctx.cov["evaluations"] += 1
        ok = judge(ctx, c, r, tally)
        if ok and r.get("commit") == "ok":
            nok += 1
            # C15, public: supplied inners in the given order, then templates (inner i owns segment i of each region)
            m, pis = c["n"], r["pis"]
            inner = r["inner_pis"] + [r["template_pis"]] * (m - len(r["inner_pis"]))
            nleaf = 1
            for i in range(m):
                real = any(inner[i][3:7])
                seg_s = pis[12 + 10 * nleaf * i: 12 + 10 * nleaf * (i + 1)]
                seg_n = pis[12 + 10 * nleaf * m + 4 * nleaf * i: 12 + 10 * nleaf * m + 4 * nleaf * (i + 1)]
                exp_s = inner[i][8: 8 + 10 * nleaf] if real else [0] * (10 * nleaf)
                exp_n = inner[i][8 + 10 * nleaf: 8 + 14 * nleaf] if real else [0] * (4 * nleaf)
                if seg_s != exp_s or seg_n != exp_n:
                    tally.append((f"committed public batch does not hold the supplied inner proofs in the given order followed by templates: segment {i} [{describe(c)}]",
                                  {"engine": "pub-commit-replay", "case": c, "segment": i}))
                    ok = False
        if ok:
            ctx.cov["traces_validated_against_impl"] += 1
    ctx.cov["public_commits"] = {"vectors": len(cases), "accepted_and_proved": nok}
    return len(cases)


CHI2_CRIT = {2: 41.5, 5: 48.0, 23: 86.0}  # upper critical values at p = 1e-9


def shuffle(ctx, tally):
    runs = [(3, 2, 30), (2, 2, 24)] if ctx.quick else [(3, 1, 90), (3, 2, 240), (3, 3, 240), (2, 1, 60)]
    seen_nulls = Counter()
    total = 0
    for n, k, reps in runs:
        outp = ctx.workdir / f"shuffle_{n}_{k}.ndjson"
        core.vh(ctx, ["shuffle-record", outp, n, k, reps], timeout=3300)
        rows = core.jsonl_read(outp)
        arr = Counter()
        for r in rows:
            ctx.cov["evaluations"] += 1
            total += 1
            if r.get("panic") or r.get("error"):
                tally.append((f"commit/prove of {k} distinct valid real proofs into {n} slots failed: {r}", {"engine": "shuffle-record", "n": n, "k": k, "row": r}))
                continue
            a = r["arrangement"]
            reals = sorted(x for x in a if x >= 0)
            if not r["verified"] or reals != list(range(k)) or a.count(-1) != n - k or not r["second_slots_zero"]:
                tally.append((f"committed private batch is not exactly the {k} supplied proofs plus {n - k} dummy templates: slot arrangement {a} "
                              f"(-1 = dummy slot, -2 = unexpected content), verified={r['verified']}", {"engine": "shuffle-record", "n": n, "k": k, "row": r}))
                continue
            dn = [tuple(x) for x in r["nulls"] if not (200 <= x[0] < 200 + k and x[1:] == [1, 1, 1])]
            if len(dn) != n - k or len(set(dn)) != len(dn):
                tally.append((f"dummy slots of one commit do not carry {n - k} pairwise distinct replacement nullifiers: {dn}", {"engine": "shuffle-record", "row": r}))
                continue
            for x in dn:
                seen_nulls[x] += 1
            arr[tuple(a)] += 1
            ctx.cov["traces_validated_against_impl"] += 1
        ways = math.factorial(n) // math.factorial(n - k) if k < n else math.factorial(n)
        ctx.cov.setdefault("arrangements", []).append({"n": n, "k": k, "commits": len(rows), "distinct_arrangements": len(arr), "possible": ways})
        # every real proof must be seen in more than one slot, and every slot must hold a dummy at least once (k < n):
        # under a uniform shuffle the chance of a false alarm with >= 20 commits is below 1e-8
        if len(rows) >= 20 and n > 1:
            for j in range(k):
                where = {a.index(j) for a in arr}
                if len(where) < 2:
                    tally.append((f"real proof {j} sat in slot {sorted(where)} in every one of {len(rows)} commits: the slot order is not a shuffle of all slots",
                                  {"engine": "shuffle-record", "n": n, "k": k, "seen": {str(a): c for a, c in arr.items()}}))
        if len(rows) >= 20 and len(arr) < 2 and ways > 1:
            tally.append((f"{len(rows)} commits of {k} proofs into {n} slots all produced the same slot arrangement {list(arr)[0] if arr else None}: the slot order is not shuffled",
                          {"engine": "shuffle-record", "n": n, "k": k}))
        # fewer than half of the possible arrangements in >= 24 commits: under a uniform shuffle the chance is at most
        # C(ways, ways/2) * 2^-commits (< 2e-8 for 6 ways / 30 commits, < 2e-7 for 2 ways / 24 commits).  A shuffle that
        # only draws the padding slots (k/n of the real proofs stay where they were supplied) reaches exactly half.
        if len(rows) >= 24 and 2 <= len(arr) <= ways // 2 and math.comb(ways, ways // 2) * 0.5 ** len(rows) < 1e-6:
            tally.append((f"only {len(arr)} of the {ways} possible slot arrangements occurred in {len(rows)} commits of {k} proofs into {n} slots: "
                          f"the slot order is not a uniformly random permutation", {"engine": "shuffle-record", "n": n, "k": k, "seen": {str(a): c for a, c in arr.items()}}))
        if not ctx.quick and len(rows) >= 30 * ways:
            if len(arr) < ways:
                tally.append((f"only {len(arr)} of the {ways} slot arrangements were observed in {len(rows)} commits", {"engine": "shuffle-record", "n": n, "k": k, "seen": {str(a): c for a, c in arr.items()}}))
            exp = len(rows) / ways
            chi2 = sum((arr.get(a, 0) - exp) ** 2 / exp for a in arr) + (ways - len(arr)) * exp
            ctx.cov.setdefault("chi_square", []).append({"n": n, "k": k, "chi2": round(chi2, 2), "df": ways - 1, "critical_1e-9": CHI2_CRIT.get(ways - 1)})
            if CHI2_CRIT.get(ways - 1) and chi2 > CHI2_CRIT[ways - 1]:
                tally.append((f"slot arrangements are not uniform: chi-square {chi2:.1f} with {ways - 1} degrees of freedom over {len(rows)} commits",
                              {"engine": "shuffle-record", "n": n, "k": k, "seen": {str(a): c for a, c in arr.items()}}))
    dup = [x for x, c in seen_nulls.items() if c > 1]
    if dup:
        tally.append((f"a dummy replacement nullifier repeated across commits (preimages are not fresh): {dup[:2]}", {"engine": "shuffle-record"}))
    ctx.cov["dummy_nullifiers_seen"] = len(seen_nulls)
    return total


def common(ctx):
    core.build_harness(ctx, "vh")
    ctx.level = "model_checking"
    ctx.assumptions += [
        "child proofs are real Plonky2 proofs of a stand-in leaf circuit with the Wormhole leaf public-input layout (the provers take the "
        "child circuit as a parameter); the aggregation circuits are the repo's own, with the production configs",
        "the circuit predicates used in BatchProver.tla are those of BatchDecl, shown equal to the real wrapper circuits by C06/C07/C12/C13",
        "commit draws its shuffle and preimages from thread_rng (not seedable): every judged statement holds for every outcome; uniformity is a "
        "chi-square figure with a 1e-9 false-alarm bound (thorough tier only) - TLA+ cannot express a probability",
    ]


@register("C14")
def c14(ctx):
    common(ctx)
    tally = []
    n = 0
    if model(ctx):
        n += replay_private(ctx, tally, 2 if ctx.quick else 25)
        n += replay_public(ctx, tally, 1 if ctx.quick else 12)
    for what, case in tally:
        ctx.violation(what, case)
    ctx.cov["distinct_nontrivial"] = n
    ctx.cov["rule"] = ("proof vectors drawn by TLC (-simulate over BatchProver.tla: lengths 0..N+1, statements near a base real statement incl. dummies, "
                       "asset / block / fee conflicts, duplicate nullifiers, group sums over the bound, one tampered or wrong-length proof) realised "
                       "with real child proofs and run through the real commit; accepted vectors are really proved (full recursive proof) and "
                       "verified; rejected valid vectors with a non-policy reason are evaluated on the wrapper-only circuit. distinct = vectors")
    ctx.cov["exhaustive"] = False
    return core.finish(ctx)


@register("C15")
def c15(ctx):
    common(ctx)
    tally = []
    n = 0
    if model(ctx):
        n = shuffle(ctx, tally)
        n += replay_public(ctx, tally, 1 if ctx.quick else 10)
    for what, case in tally:
        ctx.violation(what, case)
    ctx.cov["distinct_nontrivial"] = n
    ctx.cov["rule"] = ("repeated real PrivateBatchProver commits + proofs of k distinguishable real proofs into N slots (quick N=3,k=2 x 30; thorough "
                       "(3,1),(3,2),(3,3),(2,1) with 60-240 commits): the slot arrangement and the dummy replacement nullifiers are read from the "
                       "verified proofs' public outputs (exit slots are positional); exactness, distinctness within and across commits, more than "
                       "one arrangement (quick) / all arrangements + chi-square at 1e-9 (thorough); public layer: supplied inners in order then "
                       "templates, from real PublicBatchProver proofs. distinct = commits")
    ctx.cov["exhaustive"] = False
    return core.finish(ctx)


_N = ("Trusted: TLC; Plonky2; the stand-in leaf circuit of test-helpers (three range checks, 21 public inputs); thread_rng. Batch size 2-3 only "
      "(each case builds a fresh recursive prover: 1-3 s).")
MANIFEST = {
    "engines": {"provers": dict(path="specs/BatchProver.tla specs/MC_BatchProver.tla specs/BatchDecl.tla harness/src/provers.rs vlib/props/provers.py",
                                kind="TLA+ guard-sequence spec of both commit steps + TLC; replay on the real provers with full recursive proofs; recorded "
                                     "slot arrangements from real proofs")},
    "checks": {
        "C14": dict(engine="provers", ref="6.4 and 7 (F1)", text="BatchProver.tla models commit of both provers as the ordered guards of the code followed by "
                    "Pad/Shuffle/Fill and relates it to the circuit predicates: Ok => the committed slots satisfy the circuit for every shuffle; a rejection "
                    "for a non-policy reason => the padded batch is unprovable; acceptance only for non-empty, in-size, all-verified vectors with a real "
                    "proof and asset-compatible padding. TLC (exhaustive, both layers) found the grouped-sum gap (finding F1, repaired by a fix: commit; "
                    "the pre-fix model is kept as a must-fail config). TLC-drawn vectors are realised with real child proofs on the real commit; every "
                    "accepted vector is really proved and verified.", note=_N),
        "C15": dict(engine="provers", ref="6.4 and 8", text="BatchProver.tla: the committed slots are a permutation of supplied ++ (N-k) templates (private) / "
                    "supplied ++ templates in order (public) - TLC explores every permutation of the Shuffle action. Real side: repeated real commits and "
                    "proofs; arrangement and dummy nullifiers are read from the verified public outputs; exactness, freshness and distinctness are "
                    "judged always, coverage of all arrangements and a chi-square test (1e-9) in the thorough tier. Uniformity itself is a "
                    "probability statement outside TLA+; preimage canonicity is not observable from outputs and is not judged.", note=_N),
    },
}
