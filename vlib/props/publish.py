"""C23: artifact publication.  Publish.tla checked exhaustively by TLC (every failing stage/rename
and every crash point from the three initial states, both entry points); every complete behaviour
of the model is then replayed on the real code in a child process, with the directory tree
compared at every hook point and after return / after the crash."""
import json
from .. import core
from ..registry import register


@register("C23")
def check(ctx):
    core.build_harness(ctx, "vh")
    ctx.level = "model_checking"
    ctx.assumptions += [
        "rename(2) of a directory is atomic and a failed rename has no effect (POSIX); recursive removals "
        "cannot be interrupted or made to fail by the harness, so they are modelled as atomic and a crash is "
        "injected before and after each",
        "the trusted-build-host threat model of the crate: no concurrent writer next to the output path",
    ]
    res = core.run_tlc(ctx, "MC_Publish", "MC_Publish.cfg", workers=1, timeout=600)
    if res["violated"]:
        ctx.violation(f"TLC: {res['violated']} violated in Publish model",
                      {"tlc": core.tlc_counterexample(res["out"])})
        return core.finish(ctx)
    core.check_coverage(ctx, res)
    lines = res["prints"].get("REPLAY", [])
    behs = [json.loads(x) for x in lines]
    if ctx.replay:
        rp = json.loads(open(ctx.replay).read())
        behs = [rp["case"]["behaviour"]]
        lines = [json.dumps(behs[0])]
    if len(behs) < 1:
        raise core.ToolError("no behaviours emitted by MC_Publish")
    inp = ctx.workdir / "publish_in.ndjson"
    inp.write_text("\n".join(lines) + "\n")
    out = ctx.workdir / "publish_out.ndjson"
    core.vh(ctx, ["publish-replay", inp, out, ctx.workdir / "scratch"], timeout=1800)
    results = core.jsonl_read(out)[:-1]
    if len(results) != len(behs):
        raise core.ToolError("publish-replay returned a different number of results")
    distinct = set()
    for beh, rr in zip(behs, results):
        if rr.get("tool_error"):
            raise core.ToolError(rr["why"])
        ctx.cov["evaluations"] += 1
        faults = [s for s in beh["steps"] if s["a"] == "Crash" or not s["ok"]]
        if faults:
            distinct.add(json.dumps([beh["mode"], beh["init"], beh["stg0"],
                                     [(s["a"], s["k"], s["ok"]) for s in beh["steps"]]]))
        if rr.get("diverged"):
            ctx.cov["diverged_from_model_path"] = ctx.cov.get("diverged_from_model_path", 0) + 1
        if rr["ok"]:
            ctx.cov["traces_validated_against_impl"] += 1
        else:
            ctx.violation(f"real publish code disagrees with Publish.tla: {rr['why']} "
                          f"[mode={beh['mode']} initial output={beh['init']} schedule="
                          f"{[(s['a'], s['k'], s['ok']) for s in beh['steps']]}]",
                          {"engine": "publish-replay", "behaviour": beh, "observed": rr})
    if ctx.cov.get("diverged_from_model_path", 0) > len(behs) // 2 and not ctx.violations and not ctx.replay:
        raise core.ToolError("more than half of the model's behaviours are no longer followed by the code (the property held on each): "
                             "Publish.tla needs to be brought up to date with the publish routine")
    for beh in behs[:60:13]:
        ctx.add_sample({"kind": "Publish.tla behaviour replayed on the real publish code", "mode": beh["mode"],
                        "init": beh["init"], "schedule": [(s["a"], s["k"], s["ok"]) for s in beh["steps"]],
                        "final": beh["final"]})
    ctx.cov["distinct_nontrivial"] = len(distinct)
    ctx.cov["rule"] = ("every terminal behaviour of the exhaustive TLC run (returned or crashed) is replayed once; "
                       "non-trivial = contains at least one failed stage, failed rename or crash; distinct = distinct "
                       "(mode, initial state, schedule)")
    ctx.cov["exhaustive"] = not ctx.replay
    return core.finish(ctx)
