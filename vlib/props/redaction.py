"""C32: Debug output never reveals secret or deposit-identifying data.

Redaction.tla is a taint model: the redacting containers and their fields, the conversions between them
(From / TryFrom / new / commit / serialisation round trips / Clone / pub-field moves), the seven sensitive sources
and a Visible relation per Debug impl; TLC checks "no visible path carries a sensitive label" over ALL conversion
chains up to a bound and emits every maximal chain.  Binding: every chain is executed on the real types (vh-sec
redaction-replay) with random and structured sensitive values; every `{:?}` / `{:#?}` / `{:x?}` / `{:#X?}` rendering
of every in-scope object along the chain is searched for every encoding of every sensitive value, and for the
values the model calls visible.

Memory contents and formatting are where TLA+ is weakest: the specification contributes the exhaustive chain
enumeration, the Visible / flow tables and their consistency; the observations come from the harness."""
import json
from collections import Counter
from .. import core
from ..registry import register

CLASSES = ["random", "repeated-bytes", "small-padded", "distinctive-decimal", "edges"]


def selftest(ctx):
    """the needle catalogue must find every source in a rendering that does leak, and nothing in one that does not"""
    rows = json.loads(core.vh(ctx, ["redaction-selftest"], timeout=300, bin="vh-sec"))
    if not rows:
        raise core.ToolError("redaction-selftest returned nothing")
    for r in rows:
        if r["false_hits"]:
            raise core.ToolError(f"needle catalogue self-test: {r['source']} needles match a rendering of unrelated public data")
        need = r["fmt"] in ("{:?}", "{:#?}") or r["class"] == "random"
        if need and r["hits"] < 1:
            raise core.ToolError(f"needle catalogue self-test: no encoding of {r['source']} ({r['class']}) found in a leaking "
                                 f"{r['fmt']} rendering")
    ctx.cov["needle_selftest_cases"] = len(rows)


def spec_mutants(ctx, rlen):
    for cfg in ("MC_Redaction_mutLeaf.cfg", "MC_Redaction_mutHeader.cfg"):
        res = core.run_tlc(ctx, "MC_Redaction", cfg, workers=2, timeout=600, env_extra={"RLEN": min(rlen, 4)},
                           coverage=False, expect_violation=True, quiet=True)
        if not res["violated"]:
            raise core.ToolError(f"vacuity: spec mutant {cfg} is accepted by TLC")
        ctx.cov.setdefault("spec_mutants_rejected", []).append(cfg)


@register("C32")
def check(ctx):
    core.build_harness(ctx, "vh-sec")
    ctx.level = "exploration"
    ctx.assumptions += [
        "scope: the Debug impls of PrivateCircuitInputs, CircuitInputs, Nullifier, UnspendableAccount, ZkLeafData, "
        "ZkMerkleProofData, HeaderInputs, BlockHeader and a committed WormholeProver (the native ZkMerkleProof of "
        "zk_circuits_common is chain-side data and out of scope, DESIGN.md O1); serialisation buffers are links of a "
        "chain, not rendered",
        "encodings searched: hex of the bytes in both byte orders and both cases, decimal / hex / 0x-hex / zero-padded "
        "byte lists, every u64 and u32 limb in both byte orders in decimal and hex (plain and zero-padded), limb lists, "
        "the whole integer in decimal; needles with fewer than 6 significant characters are not searched; renderings and "
        "needles are compared with whitespace removed",
        "each chain runs twice with the same public values and different sensitive values: a needle that also occurs in "
        "the control rendering coincides with public text and is not reported; the public nullifier digest of "
        "Nullifier::from_preimage (a Poseidon2 digest of the secret, declassified) is masked before the search",
        "memory contents and formatting are outside TLA+'s strength: the model contributes the exhaustive chain "
        "enumeration and the consistency of the Visible / flow tables, the harness the observations",
    ]
    selftest(ctx)
    rlen = 7 if ctx.quick else 10
    res = core.run_tlc(ctx, "MC_Redaction", "MC_Redaction.cfg", workers=4, timeout=1200, env_extra={"RLEN": rlen},
                       coverage=False)
    if res["violated"]:
        ctx.violation(f"TLC: {res['violated']} violated in the Redaction model",
                      {"tlc": core.tlc_counterexample(res["out"])})
        return core.finish(ctx)
    spec_mutants(ctx, rlen)
    chains = [json.loads(x) for x in sorted(set(res["prints"].get("REPLAY", [])))]
    if not chains:
        raise core.ToolError("no chains emitted by MC_Redaction")
    cases = []
    for i, c in enumerate(chains):
        variants = [0, 1 + (i + ctx.seed) % 4, 100 + (i + ctx.seed) % 5] if ctx.quick else [0, 1, 2, 3, 4, 100, 101, 102, 103, 104]
        cases.append({"index": i, "chain": c["chain"], "steps": c["steps"], "variants": variants})
    env = None
    if ctx.replay:
        rc = json.loads(open(ctx.replay).read())
        case = rc["case"]
        cases = [{"index": case["index"], "chain": case["chain"], "steps": case["steps"], "variants": [case["variant"]]}]
        env = {"VERIF_SEED": str(rc.get("seed", ctx.seed))}
    inp = ctx.workdir / "redaction_in.ndjson"
    inp.write_text("\n".join(json.dumps(c) for c in cases) + "\n")
    out = ctx.workdir / "redaction_out.ndjson"
    core.vh(ctx, ["redaction-replay", inp, out], timeout=3000, env_extra=env, bin="vh-sec")
    rows = core.jsonl_read(out)
    if len(rows) != sum(len(c["variants"]) for c in cases):
        raise core.ToolError("redaction-replay returned a different number of results")
    by_index = {c["index"]: c for c in cases}

    renders = searches = needles = screened = 0
    reported = set()
    nontrivial = set()
    vis_found, vis_missing = Counter(), Counter()
    flow_notes = 0
    ni_notes = 0
    dummy_skipped = 0
    types_rendered = Counter()
    for r in rows:
        case = by_index[r["index"]]
        if (r["error"] or r["control_error"]) and r["variant"] >= 100:
            dummy_skipped += 1          # a conversion that refuses the dummy sentinel (e.g. commit): nothing to render
            continue
        if r["error"] or r["control_error"]:
            err = r["error"] or r["control_error"]
            raise core.ToolError(f"chain {' -> '.join(r['chain'])} could not be executed on the real types with valid values: "
                                 f"{err['conversion']} {'panicked' if err['panicked'] else 'failed'}: {err['what']}")
        ctx.cov["evaluations"] += 1
        renders += r["renders"]
        searches += r["searches"]
        needles += r["needles"]
        screened += r["screened"]
        carried_any = False
        for k, s in enumerate(r["steps"]):
            m = case["steps"][k]
            if s["type"] != m["type"]:
                raise core.ToolError(f"harness object type {s['type']} differs from the model's {m['type']} at step {k} of {r['chain']}")
            if s["rendered"] != bool(m["scope"]):
                raise core.ToolError(f"harness and model disagree on whether {s['type']} is in scope")
            if s["rendered"]:
                types_rendered[s["type"]] += 1
            for v in s["visible"]:
                (vis_found if v["found"] else vis_missing)[(s["type"], ".".join(v["path"]))] += 1
            # flow conformance: what the model says the object hides must really be in it
            want = {l for f in m["hidden"] for l in f["lab"] if not l.startswith(("pub.", "hash.", "len.", "flag", "circuit"))}
            have = set(s["carried"])
            if "unverifiable" not in have:
                if s["rendered"] and want & have:
                    carried_any = True
                if want - have:
                    flow_notes += 1
                    if flow_notes <= 3:
                        ctx.log(f"note: model says {s['type']} holds {sorted(want - have)} but the real object does not "
                                f"(chain {' -> '.join(r['chain'][:k + 1])})")
        if carried_any:
            nontrivial.add(r["index"])
        if r["ni_diff"] and not r["matches"]:
            ni_notes += 1
            if ni_notes <= 3:
                ctx.log(f"note: rendering of {r['ni_diff'][0]['type']} differs between two runs that differ only in sensitive "
                        f"values, in no catalogued encoding (chain {' -> '.join(r['chain'])})")
        for mt in r["matches"]:
            key = (mt["type"], mt["source"])
            if key in reported:
                continue
            reported.add(key)
            upto = " -> ".join(r["chain"][: mt["step"] + 1])
            ctx.violation(
                f"the {mt['fmt']} rendering of {mt['type']} (obtained by {upto}) contains the {mt['source']} "
                f"[{mt['encoding']}]: ...{mt['excerpt']}... (value class {r['class']}; absent from the control rendering made "
                f"with other sensitive values and the same public values)",
                {"engine": "redaction-replay", "index": r["index"], "variant": r["variant"], "chain": r["chain"],
                 "steps": case["steps"], "match": mt, "values": r.get("values"), "rendering": r.get("rendering")})
        ctx.cov["traces_validated_against_impl"] += 0 if r["matches"] else 1

    if not ctx.replay:
        if renders == 0 or searches == 0:
            raise core.ToolError("vacuity: nothing was rendered / searched")
        # the fields the model calls visible must show up: per type, at least one of them does
        types_with_visible = {t for (t, _) in list(vis_found) + list(vis_missing)}
        for t in types_with_visible:
            if not any(tt == t for (tt, _) in vis_found):
                raise core.ToolError(f"vacuity: none of the fields the model calls visible was found in any rendering of {t} "
                                     f"(the model's Visible relation is out of date)")
        for (t, p), n in vis_missing.items():
            ctx.log(f"note: {t}.{p} is visible in the model but was not found in {n} rendering sets (more redaction than modelled)")
        if not nontrivial:
            raise core.ToolError("vacuity: no rendered object verifiably held a sensitive value")
    ctx.cov["distinct_nontrivial"] = len(nontrivial)
    ctx.cov["chains"] = len(cases)
    ctx.cov["renderings_searched"] = renders
    ctx.cov["needle_searches"] = searches
    ctx.cov["needles_per_run_avg"] = needles // max(1, len(rows))
    ctx.cov["coincidences_screened_by_control"] = screened
    ctx.cov["types_rendered"] = dict(types_rendered)
    ctx.cov["visible_fields_confirmed"] = len(vis_found)
    ctx.cov["visible_fields_missing"] = len(vis_missing)
    ctx.cov["flow_model_mismatch_notes"] = flow_notes
    ctx.cov["noninterference_only_notes"] = ni_notes
    ctx.cov["dummy_statement_runs_refused_by_a_conversion"] = dummy_skipped
    ctx.cov["rule"] = (f"every maximal conversion chain of the Redaction model up to length {rlen} (TLC, exhaustive) executed on the "
                       "real types; evaluations = (chain, value class) runs, each rendering every in-scope object in 4 Debug "
                       "formats and searching every catalogued encoding of the 7 sensitive sources (value classes: random, "
                       "repeated bytes, small padded integers, distinctive decimals, field / integer edges; quick: random + one "
                       "seeded class per chain, thorough: all five; each also on a statement carrying the dummy sentinel - zero block hash "
                       "and outputs, is_not_dummy = false - because what Debug prints must not depend on the flag); distinct_nontrivial = distinct chains along which at least "
                       "one rendered object verifiably (read back through its pub fields / accessors) held a sensitive value")
    for c in cases[:: max(1, len(cases) // 4)][:4]:
        ctx.add_sample({"kind": "conversion chain executed on the real types, every in-scope object rendered and searched",
                        "chain": c["chain"], "objects": [s["type"] for s in c["steps"]],
                        "model_visible_last": [".".join(f["path"]) for f in c["steps"][-1]["visible"]]})
    ctx.cov["exhaustive"] = False
    return core.finish(ctx)


_TEXT = ("Redaction.tla is a taint model of the redacting types: containers and fields (PrivateCircuitInputs, CircuitInputs, "
         "Nullifier, UnspendableAccount, ZkLeafData, ZkMerkleProofData, HeaderInputs, BlockHeader, committed WormholeProver, with "
         "the serialisation buffers as unrendered links), 32 conversions (From / TryFrom / new / from_preimage / from_secret / "
         "from_unsorted / commit / to_bytes-from_bytes / to_field_elements-from_field_elements / Clone / pub-field moves / "
         "expose_digest hand-offs) propagating labels from the seven sensitive sources, and a Visible relation transcribed from "
         "each Debug impl (derived impls print through their fields' impls). TLC checks 'no visible path carries a sensitive "
         "label' on every object of every chain up to length 7 (thorough 10), rejects two spec mutants, and emits every maximal "
         "chain. Each chain is executed on the REAL types with random and structured sensitive values; every {:?} / {:#?} / "
         "{:x?} / {:#X?} rendering of every in-scope object is searched for every encoding of every sensitive value (hex both "
         "byte orders and cases, byte lists, u64/u32 limbs both byte orders in decimal and hex, whole integer), with a control "
         "run (same public values, other sensitive values) to exclude coincidences with public text; the values the model calls "
         "visible must appear, and the sensitive values the model says an object hides are read back from the real object. "
         "Category exploration: memory contents and formatting are where TLA+ is weakest - the specification contributes the "
         "exhaustive chain enumeration and the consistency of the Visible / flow tables, the harness the observations.")
_NOTE = ("Trusted: TLC; Rust's fmt machinery; the encoding catalogue (self-tested on a leaking derive(Debug) struct in every run). "
         "Not claimed: encodings outside the catalogue (a difference between main and control renderings in no catalogued "
         "encoding is logged, not judged), partial leaks shorter than 6 significant characters, Display / error-message paths, "
         "stack or heap copies (C33), the out-of-scope native ZkMerkleProof (O1).")
MANIFEST = {
    "engines": {"redaction": dict(
        path="specs/Redaction.tla specs/MC_Redaction.tla harness/src/bin_sec/redaction.rs harness/src/bin_sec/enc.rs vlib/props/redaction.py",
        kind="TLA+ taint model + TLC exhaustive over conversion chains + replay of every chain on the real types with an "
             "encoding-catalogue search of every Debug rendering (main / control runs)")},
    "checks": {
        "C32": dict(engine="redaction", ref="6.9", category="exploration", text=_TEXT, note=_NOTE),
    },
}
