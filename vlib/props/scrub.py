"""C33: secret material is scrubbed before its memory is released.

Scrub.tla is a life-cycle monitor: heap blocks with `holds`, micro actions alloc / write / copy / grow (a realloc
frees the old block as it is) / scrub / free, every secret-handling entry point as a program of micro actions, and
the invariant  Free(b) => ~holds(b) \\/ Exempt(b)  plus "Secret::new leaves the caller's buffer zeroed on both
paths".  TLC enumerates every call sequence up to a bound (micro step by micro step) and emits each one.  Binding:
every sequence is executed on the real API inside vh-sec, whose global allocator examines every block handed back
while the secret is alive; a seeded share of the runs is recorded as an event trace and validated by ScrubTrace.tla.

Memory contents are where TLA+ is weakest: the specification contributes the exhaustive call-sequence enumeration and
the monitor invariant, the harness the observations.  Nothing is claimed about stack copies."""
import json
from .. import core
from ..registry import register

SPEC_MUTANTS = ["MC_Scrub_mutGrow.cfg", "MC_Scrub_mutDrop.cfg", "MC_Scrub_mutFelts.cfg", "MC_Scrub_mutBytes.cfg",
                "MC_Scrub_mutCtorInvalid.cfg"]


def selftest(ctx):
    """the scanning allocator must see deliberate leaks, and must not see scrubbed buffers"""
    r = json.loads(core.vh(ctx, ["scrub-selftest"], timeout=300, bin="vh-sec"))

    def frees(k):
        return r[k]["frees"]

    def leak(k):
        return any((f["holds_secret_bytes"] or f["holds_secret_felts"]) and not f["equals_upstream_pad"] for f in frees(k))
    problems = []
    for k in ("plain_vec_bytes", "plain_vec_felts", "grown_vec", "pad_image_longer"):
        if not leak(k):
            problems.append(f"{k}: a deliberate leak was not seen")
    if not any(f["via"] == "realloc" for f in frees("grown_vec")):
        problems.append("grown_vec: the freed old block of a realloc was not seen")
    for k in ("zeroizing_vec", "manually_scrubbed_felts", "unrelated"):
        if frees(k):
            problems.append(f"{k}: a scrubbed / unrelated block was reported: {frees(k)}")
        if r[k]["scanned"] < 1:
            problems.append(f"{k}: nothing was examined")
    if not (len(frees("pad_image")) == 1 and frees("pad_image")[0]["equals_upstream_pad"]):
        problems.append("pad_image: the upstream pad image was not recognised")
    if problems:
        raise core.ToolError("scanning-allocator self-test failed: " + "; ".join(problems))
    ctx.cov["allocator_selftest_cases"] = len(r)


def spec_mutants(ctx, cfgs):
    for cfg in cfgs:
        res = core.run_tlc(ctx, "MC_Scrub", cfg, workers=2, timeout=600, env_extra={"SLEN": 3}, coverage=False,
                           expect_violation=True, quiet=True)
        if not res["violated"]:
            raise core.ToolError(f"vacuity: spec mutant {cfg} is accepted by TLC")
        ctx.cov.setdefault("spec_mutants_rejected", []).append(cfg)


def describe(a, row):
    calls = row["calls"]
    where = f"call {a.get('phase')} `{a.get('call')}` of [{', '.join(calls)}]" + (" (+ end-of-scope drops)" if a.get("phase", 0) >= len(calls) else "")
    kind = row["forced"]["kind"]
    if a["kind"] == "free":
        f = a["free"]
        img = " and ".join(x for x, y in (("byte image", f["holds_secret_bytes"]), ("felt image", f["holds_secret_felts"])) if y)
        how = "the old block of a realloc (the buffer grew after the secret was written)" if f["via"] == "realloc" else "a block"
        return (f"{where}: {how} of {f['size']} bytes was released while still holding the {img} of the secret "
                f"(secret class {kind}); it is not the upstream pad10_to_rate buffer")
    if a["kind"] == "source":
        return (f"{where}: Secret::new left the caller's buffer non-zero on the {'valid' if a['valid'] else 'invalid'} path "
                f"(secret class {kind})")
    return f"{where}: {a}"


@register("C33")
def check(ctx):
    core.build_harness(ctx, "vh-sec")
    ctx.level = "exploration"
    ctx.assumptions += [
        "heap only: a block is examined when it is handed back to the allocator (dealloc, or the old block of a realloc, "
        "which the harness allocator always moves); nothing is claimed about stack copies, registers, or memory that is "
        "never released",
        "images searched in every released block: the 32 secret bytes, the felt encoding used by the API (one native u64 "
        "per 8-byte limb), the injective felt encoding (one u64 per 4-byte limb), and the non-canonical candidate handed to "
        "Secret::new on the invalid path",
        "exempt: only a block that byte-for-byte equals the image of qp-plonky2's pad10_to_rate buffer for the current "
        "secret and transfer count (salt || secret || [count] || 1, zero-filled to the sponge rate) - the exemption of "
        "wormhole/circuit/tests/heap_zeroization.rs",
        "every API object is held in its own heap block (Box) by the harness and dropped in place, so that Drop's scrubbing "
        "is visible to the allocator; fill_targets / proving (plonky2-owned PartialWitness) are outside the secret-handling "
        "APIs the property lists",
        "memory contents are outside TLA+'s strength: the model contributes the exhaustive call-sequence enumeration and the "
        "monitor invariant, the harness the observations",
    ]
    selftest(ctx)
    slen = 5 if ctx.quick else 6
    res = core.run_tlc(ctx, "MC_Scrub", "MC_Scrub.cfg", workers=8, timeout=3000, env_extra={"SLEN": slen}, coverage=False)
    if res["violated"]:
        ctx.violation(f"TLC: {res['violated']} violated in the Scrub model", {"tlc": core.tlc_counterexample(res["out"])})
        return core.finish(ctx)
    spec_mutants(ctx, SPEC_MUTANTS[:2] if ctx.quick else SPEC_MUTANTS)
    lines = sorted(set(res["prints"].get("REPLAY", [])))
    if not lines:
        raise core.ToolError("no call sequences emitted by MC_Scrub")
    variants = 2 if ctx.quick else 3
    # about 1 500 recorded runs go to the trace spec
    trace_every = max(1, (len(lines) * variants) // 1500)
    env = None
    if ctx.replay:
        rc = json.loads(open(ctx.replay).read())
        case = rc["case"]
        lines = [json.dumps({"calls": case["calls"], "live": case["live"], "forced": case["forced"]})]
        trace_every = 1
        env = {"VERIF_SEED": str(rc.get("seed", ctx.seed))}
    inp = ctx.workdir / "scrub_in.ndjson"
    inp.write_text("\n".join(lines) + "\n")
    obs = ctx.workdir / "scrub_obs.ndjson"
    trace = ctx.workdir / "scrub_trace.ndjson"
    core.vh(ctx, ["scrub-replay", inp, obs, trace, variants, trace_every], timeout=3000, env_extra=env, bin="vh-sec")
    rows = core.jsonl_read(obs)
    if not rows or "summary" not in rows[-1]:
        raise core.ToolError("scrub-replay wrote no summary")
    summ = rows[-1]["summary"]
    rows = rows[:-1]
    if summ["sequences"] != len(lines):
        raise core.ToolError("scrub-replay executed a different number of sequences")
    if summ["log_lost"]:
        raise core.ToolError("the allocator's fixed log overflowed")
    divergences = []
    reported = set()
    for row in rows:
        for a in row["anomalies"]:
            if a["kind"] in ("free", "source"):
                f = a.get("free", {})
                key = (a["kind"], a["call"], f.get("size"), f.get("via"), a.get("valid"))
                if key in reported:
                    continue
                reported.add(key)
                ctx.violation(describe(a, row), {"engine": "scrub-replay", "calls": row["calls"], "live": row["live"],
                                                 "forced": row["forced"], "anomaly": a})
            else:
                divergences.append((row, a))
    if divergences and not ctx.violations:
        row, a = divergences[0]
        raise core.ToolError(f"harness / model divergence on [{', '.join(row['calls'])}]: {a}")

    ctx.cov["evaluations"] = summ["runs"]
    ctx.cov["distinct_nontrivial"] = summ["nontrivial_sequences"]
    for k in ("sequences", "calls", "blocks_scanned", "interesting_frees", "upstream_pad_frees", "leaks", "source_checks",
              "source_valid_accepted", "source_invalid_rejected", "failed_calls", "traced_runs", "trace_events"):
        ctx.cov[k] = summ[k]
    ctx.cov["calls_by_entry_point"] = summ["per_call"]
    ctx.cov["upstream_pad_frees_by_entry_point"] = summ["pad_calls"]
    if not ctx.replay:
        # vacuity: the scanner was at work, every entry point ran, both constructor paths were seen
        if summ["blocks_scanned"] == 0 or summ["nontrivial_sequences"] < 2:
            raise core.ToolError("vacuity: the allocator examined nothing")
        if len(summ["per_call"]) < 30:
            raise core.ToolError(f"vacuity: only {len(summ['per_call'])} of the 30 entry points were exercised")
        if summ["source_valid_accepted"] == 0 or summ["source_invalid_rejected"] == 0:
            raise core.ToolError("vacuity: Secret::new did not accept a valid and reject an invalid candidate")
        if summ["upstream_pad_frees"] == 0:
            ctx.log("note: the upstream pad10_to_rate buffer was never seen (upstream may scrub it now); the exemption was not used")

    if not ctx.violations:
        evs = core.jsonl_read(trace)
        if not evs:
            raise core.ToolError("scrub-replay recorded no events")
        ok, r = core.validate_trace(ctx, "ScrubTrace", trace, cfg="ScrubTrace.cfg", timeout=1800)
        if ok:
            ctx.cov["traces_validated_against_impl"] += summ["traced_runs"]
            mid = [e for e in evs if e["ev"] == "free"]
            if mid:
                ctx.add_sample({"kind": "recorded free event accepted by ScrubTrace (the exempt upstream buffer)", "event": mid[len(mid) // 2]})
        else:
            fail = r["prints"].get("TRACEFAIL", [])
            info = json.loads(fail[0]) if fail else {}
            ev = info.get("first_unmatched", {})
            if ev.get("ev") in ("free", "source"):
                ctx.violation(f"ScrubTrace rejects the recorded event stream at event {info.get('matched')}: {ev}",
                              {"engine": "scrub-trace", "event": ev})
            else:
                raise core.ToolError(f"ScrubTrace could not match the recorded stream at event {info.get('matched')}: {ev} "
                                     "(harness / model divergence, not a property violation)")
    ctx.cov["rule"] = (f"every call sequence of length {slen} over the 30 secret-handling entry points that Scrub.tla allows with at "
                       "most 3 live objects (TLC, exhaustive; producers need room, consumers need a live object of their kind, "
                       "each sequence followed by the end-of-scope drops), executed on the real API once per secret (quick: a "
                       "random canonical secret + one of 8 patterns; thorough: + a second pattern; transfer counts random / "
                       "0 / 42 / 2^32 / 2^64-1 / patterns); evaluations = (sequence, secret) runs; distinct_nontrivial = distinct "
                       "sequences in which every call returned and the allocator examined at least one released block under "
                       "every secret")
    if summ.get("sample"):
        s = summ["sample"]
        ctx.add_sample({"kind": "call sequence executed on the real API under the scanning allocator", "calls": s["calls"],
                        "secret_class": s["forced"]["kind"], "observed": s["observed"]})
    for ln in lines[:: max(1, len(lines) // 2)][:2]:
        ctx.add_sample({"kind": "call sequence emitted by TLC", "case": json.loads(ln)})
    ctx.cov["exhaustive"] = False
    return core.finish(ctx)


_TEXT = ("Scrub.tla is a life-cycle monitor over heap blocks (holds-the-secret flag, role), micro actions alloc / write / copy / "
         "grow (a reallocation frees the old block as it is) / scrub / free, and every secret-handling entry point as a program of "
         "micro actions the way the code runs it: Secret::new (valid and invalid path, caller's buffer), From<BytesDigest>, "
         "From<Digest>, TryFrom<[u8;32]>, expose_digest / expose_felts re-wraps, Nullifier / UnspendableAccount new, from_preimage / "
         "from_secret (pre-sized preimage buffer, upstream pad copy, scrub, free), From<&CircuitInputs>, to_bytes / from_bytes, "
         "to_field_elements / from_field_elements, CircuitInputs construction, and drop of every object and buffer. Invariants: "
         "Free(b) => ~holds(b) \\/ Exempt(b) with Exempt = the upstream pad10_to_rate buffer only; Secret::new leaves the caller's "
         "buffer zeroed on both paths; between calls the live blocks are exactly the stored, secret-holding objects. TLC explores "
         "every call sequence of length 5 (thorough 6) micro step by micro step, rejects the spec mutants (buffers not pre-sized, "
         "Drop without scrub, SensitiveFelts / Zeroizing without scrub, constructor not scrubbing on the invalid path) and emits "
         "every sequence. Each sequence is executed on the REAL API in vh-sec under a scanning global allocator that examines every "
         "released block (dealloc and the old block of an always-moving realloc) for the byte and felt images of the current secret "
         "and logs interesting frees into a static buffer; API objects live in their own heap blocks so that Drop is observable. "
         "A seeded share of the runs (about 1 500) is recorded as begin / call / free / source events and validated by "
         "ScrubTrace.tla (each call is Scrub's program run to completion with the object store compared, each observed free must "
         "satisfy the monitor, each Secret::new must report a zeroed buffer). Category exploration: memory contents are where TLA+ "
         "is weakest - the specification contributes the exhaustive call-sequence enumeration and the monitor invariant, the "
         "harness the observations; nothing is claimed about stack copies.")
_NOTE = ("Trusted: TLC; the scanning allocator (self-tested in every run on deliberate leaks, scrubbed buffers and the pad image); "
         "little-endian host (byte image = felt image, both are searched). Not claimed: stack / register copies, plonky2-owned "
         "witness memory (fill_targets, proving), memory that is never released, partial images shorter than the whole secret.")
MANIFEST = {
    "engines": {"scrub": dict(
        path="specs/Scrub.tla specs/MC_Scrub.tla specs/ScrubTrace.tla harness/src/bin_sec/scrub.rs harness/src/bin_sec/scan.rs vlib/props/scrub.py",
        kind="TLA+ life-cycle monitor + TLC exhaustive over call sequences + replay of every sequence on the real API under a "
             "scanning global allocator + trace validation of recorded event streams")},
    "checks": {
        "C33": dict(engine="scrub", ref="6.9", category="exploration", text=_TEXT, note=_NOTE),
    },
}
